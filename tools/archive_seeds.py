#!/venv/bin/python
"""archive_seeds.py [<seed-out-dir>] — copy confirmed seeded changes (patch.diff, demo.py,
notes.md, confirm.json) from the sub-agents' output directory into /verif/seeded/<id>/
and write meta.json.  A change is kept only when its confirmation (tools/confirm_seed.sh,
run by the main session) shows: patch applies, demo exits 0 without and non-zero with the
change, and no test other than the two known sokalmichener failures fails."""
import glob
import json
import os
import re
import shutil
import sys

SRC = sys.argv[1] if len(sys.argv) > 1 else "/tmp/seeded-out"
DST = os.path.join(os.path.dirname(os.path.dirname(os.path.abspath(__file__))), "seeded")


def section(text, pat):
    m = re.search(r"^#+\s*[^\n]*(%s)[^\n]*\n(.*?)(?=^#+\s|\Z)" % pat, text, re.S | re.M | re.I)
    return " ".join(m.group(2).split())[:1200] if m else None


for d in sorted(glob.glob(os.path.join(SRC, "C[0-9][0-9]-[0-9]"))):
    sid = os.path.basename(d)
    cj = os.path.join(DST, sid, "confirm.json")
    if not os.path.exists(cj):
        cj = os.path.join(d, "confirm.json")
    if not os.path.exists(cj):
        print(sid, "not confirmed yet")
        continue
    c = json.load(open(cj))
    ok = c["patch_applies"] and c["demo_exit_without_change"] == 0 and c["demo_exit_with_change"] not in (0, 124) \
        and c["failed_tests_other_than_known_sokalmichener"] == 0
    if not ok:
        print(sid, "REJECTED", c)
        continue
    out = os.path.join(DST, sid)
    os.makedirs(out, exist_ok=True)
    for f in ("patch.diff", "demo.py", "notes.md", "confirm.json"):
        # never overwrite what is already archived (patches rebased onto the repaired tree, re-confirmations)
        if os.path.exists(os.path.join(d, f)) and not os.path.exists(os.path.join(out, f)):
            shutil.copy(os.path.join(d, f), os.path.join(out, f))
    notes = open(os.path.join(d, "notes.md")).read() if os.path.exists(os.path.join(d, "notes.md")) else ""
    title = notes.strip().splitlines()[0].lstrip("# ").strip() if notes.strip() else sid
    meta_p = os.path.join(out, "meta.json")
    meta = json.load(open(meta_p)) if os.path.exists(meta_p) else {}
    meta.update(dict(
        id=sid, property=sid.split("-")[0], title=title,
        needs_to_manifest=section(notes, "needs|manifest|trigger") or "see notes.md",
        clause_broken=section(notes, "clause|breaks|broken") or "see notes.md",
        produced_by="fresh sub-agent given only the property text and a scratch git worktree of /repo",
        what_was_run=dict(
            confirm="tools/confirm_seed.sh (scratch worktree): demo.py without the change, git apply patch.diff, demo.py with the change, "
                    "full pytest suite with the change",
            demo_exit_without_change=c["demo_exit_without_change"], demo_exit_with_change=c["demo_exit_with_change"],
            tests_with_change=c["tests_summary"], failed_tests_other_than_known_sokalmichener=c["failed_tests_other_than_known_sokalmichener"]),
    ))
    det = {}
    for f in sorted(glob.glob(os.path.join(out, "detect-*.json"))):
        j = json.load(open(f))
        det[j["check"]] = dict(tier=j["tier"], detected=j["detected"], exit_code=j["exit_code"], first_violation=(j["violations"] or [{}])[0].get("what"))
    meta["detection"] = det
    json.dump(meta, open(meta_p, "w"), indent=1)
    print(sid, "archived", "detected by: %s" % [k for k, v in det.items() if v["detected"]])
