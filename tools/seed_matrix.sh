#!/bin/sh
# usage: tools/seed_matrix.sh <parallelism> <pairs-file>   (lines: <seed-id> <Cxx>)
# runs tools/try_seed.sh for every pair, N at a time; output in /tmp/seeded-out/matrix/
N="${1:-3}"; F="$2"
mkdir -p /tmp/seeded-out/matrix
cat "$F" | xargs -P "$N" -L 1 sh -c '/verif/tools/try_seed.sh /verif/seeded/$0/patch.diff $1 > /tmp/seeded-out/matrix/$0-$1.log 2>&1'
