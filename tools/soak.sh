#!/bin/sh
# usage: tools/soak.sh <tier> <seed> <parallelism> [ids...]  — runs the checks on /repo with another seed, evidence kept out of /verif
TIER="$1"; SEED="$2"; N="$3"; shift 3
IDS="${*:-C01 C02 C03 C04 C05 C06 C07 C08 C09 C10 C11 C12 C13 C14 C15 C16 C17 C18 C19 C20}"
OUT=/tmp/soak-$TIER-$SEED; mkdir -p $OUT
for id in $IDS; do echo $id; done | xargs -P "$N" -I{} sh -c "cd /verif && VERIF_SEED=$SEED VERIF_OUT=$OUT/{} VERIF_TIMEOUT=20000 ./check {} --tier $TIER > $OUT/{}.log 2>&1; tail -1 $OUT/{}.log"
