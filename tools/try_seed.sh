#!/bin/sh
# usage: tools/try_seed.sh <patch.diff> <Cxx> [tier]
# runs a check against a scratch worktree of /repo with the patch applied (never touches /repo itself)
P="$1"; ID="$2"; TIER="${3:-quick}"
NAME=$(basename $(dirname "$P"))-$ID-$$
WT=/tmp/try-$NAME; OUTD=/tmp/try-out-$NAME
git -C /repo worktree add -q --detach $WT HEAD || exit 2
if ! git -C $WT apply "$P"; then echo "patch does not apply"; git -C /repo worktree remove --force $WT; exit 2; fi
mkdir -p $OUTD
cd /verif && VERIF_REPO=$WT VERIF_OUT=$OUTD ./check "$ID" --tier "$TIER" 2>&1 | tail -6
ls $OUTD/replays 2>/dev/null | head -3
git -C /repo worktree remove --force $WT
