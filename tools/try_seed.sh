#!/bin/sh
# usage: tools/try_seed.sh <patch.diff> <Cxx> [tier]
# runs a check against a scratch worktree of /repo with the patch applied (never touches /repo itself);
# when the patch lives in a seed directory, writes <seed-dir>/detect-<Cxx>.json
P="$1"; ID="$2"; TIER="${3:-quick}"
SD=$(cd "$(dirname "$P")" && pwd)
NAME=$(basename "$SD")-$ID-$$
WT=/tmp/try-$NAME; OUTD=/tmp/try-out-$NAME
git -C /repo worktree add -q --detach $WT HEAD || exit 2
if ! git -C $WT apply "$P"; then echo "patch does not apply"; git -C /repo worktree remove --force $WT; exit 2; fi
mkdir -p $OUTD
cd /verif && VERIF_REPO=$WT VERIF_OUT=$OUTD ./check "$ID" --tier "$TIER" > $OUTD/log 2>&1; RC=$?
tail -6 $OUTD/log
/venv/bin/python - "$OUTD" "$ID" "$TIER" "$RC" "$SD" <<'PY'
import json, sys, os
outd, pid, tier, rc, sd = sys.argv[1:6]
ev = {}
try:
    ev = json.load(open(os.path.join(outd, "evidence", pid + ".json")))
except Exception:
    pass
viol = [dict(what=str(v.get("what", v))[:300]) if isinstance(v, dict) else dict(what=str(v)[:300]) for v in ev.get("violations", [])]
d = dict(check=pid, tier=tier, exit_code=int(rc), detected=(int(rc) == 1), wall_s=ev.get("wall_s"), violations=viol[:6],
         repo_head=os.popen("git -C /repo rev-parse --short HEAD").read().strip())
if os.path.exists(os.path.join(sd, "patch.diff")):
    json.dump(d, open(os.path.join(sd, "detect-%s.json" % pid), "w"), indent=1)
print(json.dumps(d)[:600])
PY
git -C /repo worktree remove --force $WT
rm -rf $OUTD
