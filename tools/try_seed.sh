#!/bin/sh
# usage: tools/try_seed.sh <patch.diff> <Cxx> [tier]   — apply, run check, revert
P="$1"; ID="$2"; TIER="${3:-quick}"
git -C /repo status --short | grep -q . && { echo "repo dirty"; exit 2; }
git -C /repo apply "$P" || { echo "patch does not apply"; exit 2; }
cd /verif && ./check "$ID" --tier "$TIER" 2>&1 | tail -6
git -C /repo checkout -- .
git -C /repo status --short
