#!/bin/sh
# usage: tools/try_seed.sh <patch.diff> <Cxx> [tier]
# runs a check against a scratch worktree of /repo with the patch applied (never touches /repo itself);
# when the patch lives in a seed directory, writes <seed-dir>/detect-<Cxx>.json
P="$1"; ID="$2"; TIER="${3:-quick}"
SD=$(cd "$(dirname "$P")" && pwd)
NAME=$(basename "$SD")-$ID-$$
WT=/tmp/try-$NAME; OUTD=/tmp/try-out-$NAME
git -C /repo worktree add -q --detach $WT HEAD || exit 2
if ! git -C $WT apply "$P"; then
  echo "patch does not apply: $P"; git -C /repo worktree remove --force $WT
  [ -f "$SD/patch.diff" ] && printf '{"check": "%s", "tier": "%s", "exit_code": 2, "detected": false, "violations": [], "error": "patch does not apply to /repo HEAD"}\n' "$ID" "$TIER" > "$SD/detect-$ID.json"
  exit 2
fi
mkdir -p $OUTD
cd /verif && VERIF_REPO=$WT VERIF_OUT=$OUTD ./check "$ID" --tier "$TIER" > $OUTD/log 2>&1; RC=$?
tail -4 $OUTD/log | cut -c1-300
/venv/bin/python - "$OUTD" "$ID" "$TIER" "$RC" "$SD" <<'PY'
import json, sys, os, glob
outd, pid, tier, rc, sd = sys.argv[1:6]
ev = {}
try:
    ev = json.load(open(os.path.join(outd, "evidence", pid + ".json")))
except Exception:
    pass
viol = []
for f in sorted(glob.glob(os.path.join(outd, "replays", pid + "-*.json"))):
    try:
        r = json.load(open(f))
        viol.append(dict(key=r.get("key"), what=str(r.get("what"))[:400], failing_input_found=r.get("failing_input_found")))
    except Exception:
        pass
d = dict(check=pid, tier=tier, exit_code=int(rc), detected=(int(rc) == 1), wall_s=ev.get("wall_s"), violations=viol[:6],
         repo_head=os.popen("git -C /repo rev-parse --short HEAD").read().strip())
if os.path.exists(os.path.join(sd, "patch.diff")):
    json.dump(d, open(os.path.join(sd, "detect-%s.json" % pid), "w"), indent=1)
print("DETECT", os.path.basename(sd), json.dumps(d)[:500])
PY
git -C /repo worktree remove --force $WT
rm -rf $OUTD
