#!/venv/bin/python
"""seed_table.py — regenerate the table of DESIGN.md section 11.6 from seeded/*/meta.json and detect-*.json"""
import glob
import json
import os
import re

V = os.path.dirname(os.path.dirname(os.path.abspath(__file__)))
rows = []
caught_flags = []
for d in sorted(glob.glob(os.path.join(V, "seeded", "C*-*"))):
    sid = os.path.basename(d)
    meta = json.load(open(os.path.join(d, "meta.json"))) if os.path.exists(os.path.join(d, "meta.json")) else {}
    title = meta.get("title", sid)
    title = re.sub(r"^C\d\d-\d:\s*", "", title)
    det = []
    for f in sorted(glob.glob(os.path.join(d, "detect-*.json"))):
        j = json.load(open(f))
        if j.get("detected"):
            v = (j.get("violations") or [{}])[0]
            extra = " (no-failing-input-found)" if v.get("failing_input_found") is False and all(x.get("failing_input_found") is False for x in j["violations"]) else ""
            det.append("**%s** %s: %s%s" % (j["check"], j["tier"], (v.get("key") or "violation"), extra))
        elif j.get("exit_code") == 2:
            det.append("%s: patch does not apply" % j["check"])
        else:
            det.append("%s %s: not detected" % (j["check"], j["tier"]))
    needs = (meta.get("needs_to_manifest") or "")[:160].replace("|", "/")
    if meta.get("status_on_repaired_tree"):
        det.append("(" + meta["status_on_repaired_tree"].split(":")[0] + " on the repaired tree, see meta.json)")
    caught_flags.append(any(d.startswith("**") for d in det))
    rows.append("| %s | %s | %s | %s |" % (sid, title.replace("|", "/").replace("**", "")[:110], needs.replace("**", ""), "; ".join(det) or "not run"))
table = "\n".join(["| seed | change | needs, to manifest | caught by (check, tier: first violation key) |", "|---|---|---|---|"] + rows)
caught = sum(1 for f in caught_flags if f)
text = ("%d changes were produced in four rounds by fresh sub-agents" % len(rows) + " that saw only a property's text and a scratch worktree of /repo (C15-5 alone is the main session's: the reverse of a fix); each was\n"
        "confirmed by the main session (`tools/confirm_seed.sh`: demo exits 0 without and non-zero with the change; the full test suite\n"
        "still passes with it) and is kept under `seeded/<id>/` (patch.diff, demo.py, notes.md, meta.json, confirm.json,\n"
        "detect-<check>.json). `tools/try_seed.sh` applies a patch in a scratch worktree (`VERIF_REPO`), runs the check and records the\n"
        "verdict. %d of %d are caught by the quick tier of the check named; the others are discussed below the table.\n\n" % (caught, len(rows))) + table + "\n"
p = os.path.join(V, "DESIGN.md")
s = open(p).read()
if "<!-- SEED-TABLE-BEGIN -->" in s:
    s = re.sub(r"<!-- SEED-TABLE-BEGIN -->.*?<!-- SEED-TABLE-END -->", "<!-- SEED-TABLE-BEGIN -->\n" + text.replace("\\", "\\\\") + "<!-- SEED-TABLE-END -->", s, flags=re.S)
else:
    s = s.replace("SEED_TABLE_PLACEHOLDER", "<!-- SEED-TABLE-BEGIN -->\n" + text + "<!-- SEED-TABLE-END -->")
open(p, "w").write(s)
print("%d seeds, %d caught" % (len(rows), caught))
