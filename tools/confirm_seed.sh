#!/bin/sh
# usage: tools/confirm_seed.sh <seed-dir> ; confirms a seeded change in its own scratch worktree
# (demo passes without / fails with the change; existing test suite still passes), writes <seed-dir>/confirm.json
D="$1"; NAME=$(basename "$D"); WT=/tmp/confirm-$NAME
git -C /repo worktree remove --force $WT 2>/dev/null
git -C /repo worktree add -q --detach $WT HEAD || exit 2
cd $WT
export NUMBA_CACHE_DIR=$WT/.numba_cache PYTHONPATH=$WT PYTHONDONTWRITEBYTECODE=1
timeout 1200 /venv/bin/python $D/demo.py > $D/demo_without.log 2>&1; R0=$?
git apply $D/patch.diff; AP=$?
timeout 1200 /venv/bin/python $D/demo.py > $D/demo_with.log 2>&1; R1=$?
timeout 2400 /venv/bin/python -m pytest -q -p no:cacheprovider --timeout=900 pynndescent/tests > $D/tests_with.log 2>&1
TS=$(tail -1 $D/tests_with.log)
FAILED=$(grep -c "^FAILED" $D/tests_with.log)
NONSOKAL=$(grep "^FAILED" $D/tests_with.log | grep -vc sokalmichener)
cd /; git -C /repo worktree remove --force $WT
printf '{"patch_applies": %s, "demo_exit_without_change": %s, "demo_exit_with_change": %s, "tests_summary": "%s", "failed_tests": %s, "failed_tests_other_than_known_sokalmichener": %s}\n' \
  "$([ $AP = 0 ] && echo true || echo false)" "$R0" "$R1" "$TS" "$FAILED" "$NONSOKAL" > $D/confirm.json
cat $D/confirm.json
