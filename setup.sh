#!/bin/sh
# setup: clean full build of the Coq development and the extracted driver (offline).
set -e
HERE=$(cd "$(dirname "$0")" && pwd)
cd "$HERE/coq"
rm -f Makefile Makefile.conf .Makefile.d
find . -name '*.vo' -o -name '*.vok' -o -name '*.vos' -o -name '*.glob' -o -name '.*.aux' | xargs rm -f
coq_makefile -f _CoqProject -o Makefile
timeout 3000 make -j16
cd "$HERE/ocaml"
rm -f driver *.cm* *.o
timeout 300 ocamlfind ocamlopt -w -a -package str model.mli model.ml driver.ml -o driver
echo setup-ok
