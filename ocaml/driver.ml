(* driver.ml — runs the extracted Gallina models on line-oriented cases.
   One case per input line: a command word followed by decimal integers.
   One canonical result line per case.  Only glue: parsing and printing. *)
open Model

let rec pos_of_int (n : int) : positive =
  if n = 1 then XH
  else if n land 1 = 0 then XO (pos_of_int (n lsr 1))
  else XI (pos_of_int (n lsr 1))

let z_of_int (n : int) : z =
  if n = 0 then Z0 else if n > 0 then Zpos (pos_of_int n) else Zneg (pos_of_int (- n))

let rec int_of_pos (p : positive) : int =
  match p with XH -> 1 | XO q -> 2 * int_of_pos q | XI q -> 2 * int_of_pos q + 1

let int_of_z (x : z) : int =
  match x with Z0 -> 0 | Zpos p -> int_of_pos p | Zneg p -> - (int_of_pos p)

let rec nat_of_int (n : int) : nat = if n <= 0 then O else S (nat_of_int (n - 1))
let rec int_of_nat (n : nat) : int = match n with O -> 0 | S m -> 1 + int_of_nat m

(* token stream *)
type toks = { arr : string array; mutable pos : int }
let next t = let s = t.arr.(t.pos) in t.pos <- t.pos + 1; s
let next_int t = int_of_string (next t)
let next_z t = z_of_int (next_int t)
let next_nat t = nat_of_int (next_int t)
let next_list t n = List.init n (fun _ -> next_z t)
let next_zlist t = let n = next_int t in next_list t n
let next_bool t = next_int t <> 0

let buf = Buffer.create 65536
let out_int n = Buffer.add_string buf (string_of_int n); Buffer.add_char buf ' '
let out_z x = out_int (int_of_z x)
let out_list l = List.iter out_z l
let out_str s = Buffer.add_string buf s; Buffer.add_char buf ' '
let out_sep () = Buffer.add_string buf "| "

(* heapseq variant size ps[size] ids[size] fs[size] nops (p n f)*nops
   variant: 0 simple, 1 checked, 2 checked_flagged *)
let cmd_heapseq t =
  let variant = next_int t in
  let size = next_int t in
  let ps = ref (next_list t size) in
  let ids = ref (next_list t size) in
  let fs = ref (next_list t size) in
  let nops = next_int t in
  for _ = 1 to nops do
    let p = next_z t in let n = next_z t in let f = next_z t in
    (match variant with
     | 0 -> let (r, (a, b)) = simple_heap_push !ps !ids p n in
       ps := a; ids := b; out_z r
     | 1 -> let (r, (a, b)) = checked_heap_push !ps !ids p n in
       ps := a; ids := b; out_z r
     | _ -> let (r, ((a, b), c)) = checked_flagged_heap_push !ps !ids !fs p n f in
       ps := a; ids := b; fs := c; out_z r);
    out_list !ps; out_list !ids; out_list !fs; out_sep ()
  done

(* deheap size ids[size] ds[size] *)
let cmd_deheap t =
  let size = next_int t in
  let ids = next_list t size in
  let ds = next_list t size in
  match deheap_sort_row ids ds with
  | None -> out_str "FUEL"
  | Some (i, d) -> out_list i; out_sep (); out_list d

(* siftdown size h1 h2 elt *)
let cmd_siftdown t =
  let size = next_int t in
  let h1 = next_list t size in
  let h2 = next_list t size in
  let elt = next_nat t in
  match siftdown (nat_of_int (size + 1)) h1 h2 elt with
  | None -> out_str "FUEL"
  | Some (a, b) -> out_list a; out_sep (); out_list b

(*DISPATCH-BEGIN*)
let dispatch : (string * (toks -> unit)) list = [
  ("heapseq", cmd_heapseq);
  ("deheap", cmd_deheap);
  ("siftdown", cmd_siftdown);
]
(*DISPATCH-END*)

let () =
  (try
    while true do
      let line = input_line stdin in
      let parts = Array.of_list (List.filter (fun s -> s <> "") (String.split_on_char ' ' line)) in
      Buffer.clear buf;
      (if Array.length parts > 0 then begin
        let t = { arr = parts; pos = 1 } in
        (match List.assoc_opt parts.(0) dispatch with
         | None -> out_str "UNKNOWN-COMMAND"
         | Some f ->
           (try f t with
            | Invalid_argument _ -> out_str "PARSE-ERROR"
            | Failure _ -> out_str "PARSE-ERROR"
            | Stack_overflow -> out_str "STACK-OVERFLOW"))
      end);
      print_string (Buffer.contents buf); print_newline ()
    done
  with End_of_file -> ())
