(* driver.ml — runs the extracted Gallina models on line-oriented cases.
   One case per input line: a command word followed by decimal integers.
   One canonical result line per case.  Only glue: parsing and printing. *)
open Model

let rec pos_of_int (n : int) : positive =
  if n = 1 then XH
  else if n land 1 = 0 then XO (pos_of_int (n lsr 1))
  else XI (pos_of_int (n lsr 1))

let z_of_int (n : int) : z =
  if n = 0 then Z0 else if n > 0 then Zpos (pos_of_int n) else Zneg (pos_of_int (- n))

let rec int_of_pos (p : positive) : int =
  match p with XH -> 1 | XO q -> 2 * int_of_pos q | XI q -> 2 * int_of_pos q + 1

let int_of_z (x : z) : int =
  match x with Z0 -> 0 | Zpos p -> int_of_pos p | Zneg p -> - (int_of_pos p)

let rec nat_of_int (n : int) : nat = if n <= 0 then O else S (nat_of_int (n - 1))
let rec int_of_nat (n : nat) : int = match n with O -> 0 | S m -> 1 + int_of_nat m

(* token stream *)
type toks = { arr : string array; mutable pos : int }
let next t = let s = t.arr.(t.pos) in t.pos <- t.pos + 1; s
let next_int t = int_of_string (next t)
let next_z t = z_of_int (next_int t)
let next_nat t = nat_of_int (next_int t)
let next_list t n = List.init n (fun _ -> next_z t)
let next_zlist t = let n = next_int t in next_list t n
let next_bool t = next_int t <> 0

let buf = Buffer.create 65536
let out_int n = Buffer.add_string buf (string_of_int n); Buffer.add_char buf ' '
let out_z x = out_int (int_of_z x)
let out_list l = List.iter out_z l
let out_str s = Buffer.add_string buf s; Buffer.add_char buf ' '
let out_sep () = Buffer.add_string buf "| "

(* heapseq variant size ps[size] ids[size] fs[size] nops (p n f)*nops
   variant: 0 simple, 1 checked, 2 checked_flagged *)
let cmd_heapseq t =
  let variant = next_int t in
  let size = next_int t in
  let ps = ref (next_list t size) in
  let ids = ref (next_list t size) in
  let fs = ref (next_list t size) in
  let nops = next_int t in
  for _ = 1 to nops do
    let p = next_z t in let n = next_z t in let f = next_z t in
    (match variant with
     | 0 -> let (r, (a, b)) = simple_heap_push !ps !ids p n in
       ps := a; ids := b; out_z r
     | 1 -> let (r, (a, b)) = checked_heap_push !ps !ids p n in
       ps := a; ids := b; out_z r
     | _ -> let (r, ((a, b), c)) = checked_flagged_heap_push !ps !ids !fs p n f in
       ps := a; ids := b; fs := c; out_z r);
    out_list !ps; out_list !ids; out_list !fs; out_sep ()
  done

(* deheap size ids[size] ds[size] *)
let cmd_deheap t =
  let size = next_int t in
  let ids = next_list t size in
  let ds = next_list t size in
  match deheap_sort_row ids ds with
  | None -> out_str "FUEL"
  | Some (i, d) -> out_list i; out_sep (); out_list d

(* siftdown size h1 h2 elt *)
let cmd_siftdown t =
  let size = next_int t in
  let h1 = next_list t size in
  let h2 = next_list t size in
  let elt = next_nat t in
  match siftdown (nat_of_int (size + 1)) h1 h2 elt with
  | None -> out_str "FUEL"
  | Some (a, b) -> out_list a; out_sep (); out_list b

let next_mat t rows cols = List.init rows (fun _ -> next_list t cols)
let out_mat m = List.iter (fun r -> out_list r; out_str ";") m
let next_dm t n : nat -> nat -> z =
  let a = Array.init n (fun _ -> Array.init n (fun _ -> next_z t)) in
  (fun i j -> let i = int_of_nat i and j = int_of_nat j in
    if i < n && j < n then a.(i).(j) else Z0)
let next_graph t n k : graph =
  let gi = next_mat t n k in let gd = next_mat t n k in let gf = next_mat t n k in
  { g_ind = gi; g_dist = gd; g_flag = gf }
let out_graph g = out_mat g.g_ind; out_sep (); out_mat g.g_dist; out_sep (); out_mat g.g_flag

(* rng nsteps s0 s1 s2 : per step "int key" then final state *)
let cmd_rng t =
  let n = next_int t in
  let s = ref (next_list t 3) in
  for _ = 1 to n do
    let (i, s') = tau_rand_int !s in
    s := s'; out_z i; out_z (tau_rand_key_of_int i)
  done;
  out_sep (); out_list !s

(* nbc n k maxc T inf rng[3] ind[n*k] flag[n*k] *)
let cmd_nbc t =
  let n = next_int t in let k = next_int t in let maxc = next_int t in let th = next_int t in
  let inf = next_z t in
  let rng = next_list t 3 in
  let gi = next_mat t n k in let gf = next_mat t n k in
  let g = { g_ind = gi; g_dist = List.map (fun r -> List.map (fun _ -> inf) r) gi; g_flag = gf } in
  let ((g', nc), oc) = new_build_candidates inf g (nat_of_int maxc) rng (nat_of_int th) in
  out_mat g'.g_flag; out_sep (); out_mat nc; out_sep (); out_mat oc

let next_updates t =
  let nl = next_int t in
  List.init nl (fun _ -> let m = next_int t in
    List.init m (fun _ -> let p = next_z t in let q = next_z t in let d = next_z t in ((p, q), d)))

(* applylow n k T graph updates *)
let cmd_applylow t =
  let n = next_int t in let k = next_int t in let th = next_int t in
  let g = next_graph t n k in
  let ups = next_updates t in
  let (g', c) = apply_graph_updates_low_memory g ups (nat_of_int th) in
  out_z c; out_sep (); out_graph g'

(* applyhigh n k secondq graph updates ; in_graph initialised from the index rows *)
let cmd_applyhigh t =
  let n = next_int t in let k = next_int t in let sq = next_bool t in
  let g = next_graph t n k in
  let ups = next_updates t in
  let ((g', _), c) = apply_graph_updates_high_memory sq g ups g.g_ind in
  out_z c; out_sep (); out_graph g'

(* ggu n maxc thr[n] new[n*maxc] old[n*maxc] dm[n*n] inf *)
let out_updates ups =
  List.iter (fun ul -> List.iter (fun ((p, q), d) -> out_z p; out_z q; out_z d; out_str ",") ul; out_str ";") ups
let cmd_ggu t =
  let n = next_int t in let maxc = next_int t in let inf = next_z t in
  let thr = next_list t n in
  let nc = next_mat t n maxc in let oc = next_mat t n maxc in
  let dm = next_dm t n in
  out_updates (generate_graph_updates inf dm thr nc oc)

(* nnd n k maxc iters thr_c T low secondq inf rng[3] has_init [graph] has_leaves [nl w leaves] dm[n*n] *)
let cmd_nnd t =
  let n = next_int t in let k = next_int t in let maxc = next_int t in let iters = next_int t in
  let thr_c = next_z t in let th = next_int t in let low = next_bool t in let sq = next_bool t in
  let inf = next_z t in
  let rng = next_list t 3 in
  let init = if next_bool t then Some (next_graph t n k) else None in
  let leaves = if next_bool t then (let nl = next_int t in let w = next_int t in Some (next_mat t nl w)) else None in
  let dm = next_dm t n in
  let (res, rng') = nn_descent inf dm sq (nat_of_int n) (nat_of_int k) rng (nat_of_int maxc) (nat_of_int iters)
      thr_c init leaves low (nat_of_int th) in
  (match res with
   | None -> out_str "FUEL"
   | Some (i, d) -> out_mat i; out_sep (); out_mat d);
  out_sep (); out_list rng'

(* initheap mode n k cols inf inds[n*cols] [dists[n*cols]] dm[n*n]
   mode 0: init_heap_from_indices, 1: ..._and_distances, 2: init_from_neighbor_graph *)
let cmd_initheap t =
  let mode = next_int t in
  let n = next_int t in let k = next_int t in let cols = next_int t in let inf = next_z t in
  let inds = next_mat t n cols in
  let g0 = make_heap inf (nat_of_int n) (nat_of_int k) in
  let g = (match mode with
      | 0 -> let dm = next_dm t n in init_heap_from_indices dm g0 inds
      | 1 -> let ds = next_mat t n cols in init_heap_from_indices_and_distances g0 inds ds
      | _ -> let ds = next_mat t n cols in init_from_neighbor_graph g0 inds ds) in
  out_graph g

(* divfwd npts nrows k eps prob inf rng[3] inds[nrows*k] ds[nrows*k] dm[npts*npts] *)
let cmd_divfwd t =
  let npts = next_int t in let nrows = next_int t in let k = next_int t in
  let eps = next_z t in let prob = next_z t in let inf = next_z t in
  let rng = next_list t 3 in
  let inds = next_mat t nrows k in let ds = next_mat t nrows k in
  let dm = next_dm t npts in
  let ((oi, od), rng') = diversify dm (nat_of_int npts) tau_rand eps prob inf inds ds rng in
  out_mat oi; out_sep (); out_mat od; out_sep (); out_list rng'

(* divcsr npts use_l eps prob nrows [m cur_i[m] cur_d[m] order[m]]*nrows rng[3] dm *)
let cmd_divcsr t =
  let npts = next_int t in let use_l = next_bool t in
  let eps = next_z t in let prob = next_z t in
  let nrows = next_int t in
  let rows = List.init nrows (fun _ -> let m = next_int t in
    let ci = next_list t m in let cd = next_list t m in let o = next_list t m in (ci, cd, o)) in
  let rng = next_list t 3 in
  let dm = next_dm t npts in
  (* row i of the prange works on the private state rng_state + i; the shared state is not advanced *)
  List.iteri (fun i (ci, cd, o) ->
    let (res, _) = diversify_csr_row dm (nat_of_int npts) tau_rand eps prob use_l ci cd o (row_rng rng (nat_of_int i)) in
    out_list res; out_str ";") rows;
  out_sep (); out_list rng

(* prune maxd m data[m] *)
let cmd_prune t =
  let maxd = next_int t in let m = next_int t in
  let data = next_list t m in
  out_list (degree_prune_row data (nat_of_int maxd))

(* sgchk n k maxdeg knn_i[n*k] knn_d[n*k] vorder[n] then n rows: len entries *)
let cmd_sgchk t =
  let n = next_int t in let k = next_int t in let maxdeg = next_int t in
  let ki = next_mat t n k in let kd = next_mat t n k in
  let vo = next_list t n in
  let sg = List.init n (fun _ -> next_zlist t) in
  out_int (if search_graph_chk (nat_of_int n) ki kd sg vo (nat_of_int maxdeg) then 1 else 0)

let out_pairs l = List.iter (fun (a, b) -> out_z a; out_z b; out_str ",") l
let next_pairs t n = List.init n (fun _ -> let a = next_z t in let b = next_z t in (a, b))

(* eutree n dim leaf_size max_depth rng[3] data[n*dim] *)
let cmd_eutree t =
  let n = next_int t in let dim = next_int t in let ls = next_int t in let md = next_int t in
  let rng = next_list t 3 in
  let data = next_mat t n dim in
  let (lt, rng') = make_euclidean_tree data (nat_of_int dim) (nat_of_int n) (nat_of_int ls) (nat_of_int md) rng in
  out_pairs lt.lt_children; out_sep (); out_mat lt.lt_indices; out_sep (); out_list rng'; out_sep ();
  (match convert_tree_format lt (nat_of_int n) with
   | None -> out_str "FUEL"
   | Some f -> out_pairs f.ft_children; out_sep (); out_list f.ft_indices);
  out_sep ();
  let mx = List.fold_left (fun m l -> max m (List.length l)) ls lt.lt_indices in
  out_mat (leaf_rows lt (nat_of_int mx))

(* flatchk n nn children[2*nn] indices[n] *)
let cmd_flatchk t =
  let n = next_int t in let nn = next_int t in
  let ch = next_pairs t nn in
  let idx = next_zlist t in
  out_int (if flat_chk (nat_of_int n) { ft_children = ch; ft_indices = idx } then 1 else 0)

(* linkedchk n leaf_size max_depth nn children[2*nn] then nn lists (len entries) *)
let cmd_linkedchk t =
  let n = next_int t in let ls = next_int t in let md = next_int t in let nn = next_int t in
  let ch = next_pairs t nn in
  let pts = List.init nn (fun _ -> next_zlist t) in
  out_int (if linked_chk (nat_of_int n) (nat_of_int ls) (nat_of_int md) { lt_children = ch; lt_indices = pts } then 1 else 0)

(* search n k nn scale inf rng[3] cands(len..) indptr(len..) indices(len..) dq[n] *)
let cmd_search t =
  let n = next_int t in let k = next_int t in let nn = next_int t in
  let scale = next_z t in let inf = next_z t in
  let rng = next_list t 3 in
  let cands = next_zlist t in
  let indptr = next_zlist t in
  let indices = next_zlist t in
  let dqa = Array.init n (fun _ -> next_z t) in
  let dq = (fun v -> let v = int_of_nat v in if v < n then dqa.(v) else Z0) in
  match search_one dq (nat_of_int n) indptr indices inf (nat_of_int k) (nat_of_int nn) scale cands rng with
  | None -> out_str "EMPTY-SEED-OR-FUEL"
  | Some ((ps, ids), rng') ->
    out_list ps; out_sep (); out_list ids; out_sep (); out_list rng'; out_sep ();
    (match deheap_sort_row ids ps with
     | None -> out_str "FUEL"
     | Some (i, d) -> out_list i; out_sep (); out_list d)

(* fmul a b *)
let cmd_fmul t = let a = next_z t in let b = next_z t in out_z (fmul32 a b)

(* sparseops n1 idx1[n1] val1[n1] n2 idx2[n2] val2[n2] *)
let cmd_sparseops t =
  let rd () = let n = next_int t in let i = next_list t n in let v = next_list t n in List.combine i v in
  let a = rd () in let b = rd () in
  let outv v = out_list (List.map fst v); out_str ";"; out_list (List.map snd v) in
  outv (sparse_sum a b); out_sep (); outv (sparse_diff a b); out_sep (); outv (sparse_mul a b); out_sep ();
  out_z (sparse_dot_product a b); out_sep ();
  out_z (fast_intersection_size (List.map fst a) (List.map fst b))

(* lattice dim x[dim] y[dim] : the polynomial metrics, dense | sparse on the CSR encodings | the two encodings *)
let cmd_lattice t =
  let dim = next_int t in
  let x = next_list t dim in
  let y = next_list t dim in
  let o (p, q) = out_z p; out_z q in
  out_z (squared_euclidean x y); out_z (manhattan x y); out_z (chebyshev x y); o (hamming x y); o (bray_curtis x y);
  out_sep ();
  let a = sparsify Z0 x in let b = sparsify Z0 y in
  out_z (sparse_squared_euclidean a b); out_z (sparse_manhattan a b); out_z (sparse_chebyshev a b);
  o (sparse_hamming a b (z_of_int dim));
  out_sep ();
  let outv v = out_list (List.map fst v); out_str ";"; out_list (List.map snd v) in
  outv a; out_sep (); outv b

(* angular dim x[dim] y[dim] : cosine | alternative_cosine | dot | alternative_dot | sparse_cosine | sparse_alternative_cosine (on the CSR encodings), each as  class r q  (class 0 zero, 1 one, 2 max, 3 ratio) *)
let cmd_angular t =
  let dim = next_int t in
  let x = next_list t dim in
  let y = next_list t dim in
  let o v = (match v with
    | AZero -> out_int 0; out_int 0; out_int 0
    | AOne -> out_int 1; out_int 0; out_int 0
    | AMax -> out_int 2; out_int 0; out_int 0
    | ARatio (r, q) -> out_int 3; out_z r; out_z q) in
  o (cosine x y); out_sep (); o (alternative_cosine x y); out_sep (); o (dot x y); out_sep (); o (alternative_dot x y); out_sep ();
  let a = sparsify Z0 x in let b = sparsify Z0 y in
  o (sparse_cosine a b); out_sep (); o (sparse_alternative_cosine a b)

(* binmetrics dim x[dim] y[dim] : all count-based metrics as num den pairs *)
let cmd_binmetrics t =
  let dim = next_int t in
  let x = List.init dim (fun _ -> next_int t <> 0) in
  let y = List.init dim (fun _ -> next_int t <> 0) in
  let ((a, b), c) = counts x y in
  let n = z_of_int dim in
  let o (p, q) = out_z p; out_z q; out_str ";" in
  o (m_hamming n b c); o (m_matching n b c); o (m_jaccard a b c); o (m_dice a b c); o (m_kulsinski n a b c);
  o (m_rogerstanimoto n b c); o (m_sokalmichener n b c); o (m_russellrao n a b c); o (m_sokalsneath a b c); o (m_yule n a b c)

(* arbitrary-precision decimal -> z, using the extracted arithmetic *)
let z_of_string (s : string) : z =
  let neg = String.length s > 0 && s.[0] = '-' in
  let ten = z_of_int 10 in
  let acc = ref Z0 in
  String.iteri (fun i c -> if not (i = 0 && neg) then acc := Z.add (Z.mul !acc ten) (z_of_int (Char.code c - 48))) s;
  if neg then Z.opp !acc else !acc
let next_bigz t = z_of_string (next t)
let next_bigmat t rows cols = List.init rows (fun _ -> List.init cols (fun _ -> next_bigz t))

(* otcert n m e C[n*m] F[n*m] u[n] v[m]   (big decimal integers) *)
let cmd_otcert t =
  let n = next_int t in let m = next_int t in
  let e = next_bigz t in
  let c = next_bigmat t n m in let f = next_bigmat t n m in
  let u = List.init n (fun _ -> next_bigz t) in let v = List.init m (fun _ -> next_bigz t) in
  out_int (if ot_cert_chk (nat_of_int n) (nat_of_int m) e c f u v then 1 else 0)

(* rejsample fuel n pool s0 s1 s2 -> samples | final rng, or NONE *)
let cmd_rejsample t =
  let fuel = next_int t in let n = next_int t in let pool = next_z t in
  let rng = next_list t 3 in
  match rejection_sample (nat_of_int fuel) (nat_of_int n) pool [] rng with
  | None -> out_str "NONE"
  | Some (res, rng') -> out_list res; out_sep (); out_list rng'

(* conncert n ne edges[2*ne] parent[n] depth[n] -> "sym conn" *)
let cmd_conncert t =
  let n = next_int t in let ne = next_int t in
  let edges = List.init ne (fun _ -> let a = next_int t in let b = next_int t in (nat_of_int a, nat_of_int b)) in
  let parent = List.init n (fun _ -> nat_of_int (next_int t)) in
  let depth = List.init n (fun _ -> nat_of_int (next_int t)) in
  out_int (if sym_chk edges then 1 else 0);
  out_int (if conn_cert_chk (nat_of_int n) edges parent depth then 1 else 0)

(* aliasrun sip nops ops... ; op encodings:
   0 dt c sparse sorted mclass tree | 1 (prepare) | 2 dt c sparse sorted (query) | 3 dt c sp so dt c sp so (update) | 4 compress | 5 pickle
   -> per op "shares nwrites-per-buffer(X Q U F)" *)
let cmd_aliasrun t =
  let sip = next_int t <> 0 in
  let n = next_int t in
  let dt () = match next_int t with 0 -> F32 | 1 -> F64 | 2 -> U8 | _ -> I64 in
  let cfg () = let d = dt () in let c = next_int t <> 0 in let sp = next_int t <> 0 in let so = next_int t <> 0 in
    { a_dt = d; a_c = c; a_sparse = sp; a_sorted = so } in
  let ops = List.init n (fun _ ->
    match next_int t with
    | 0 -> let c = cfg () in let m = (match next_int t with 0 -> Plain | 1 -> Dot | _ -> Bit) in let tr = next_int t <> 0 in Construct (c, m, tr)
    | 1 -> Prepare
    | 2 -> Query (cfg ())
    | 3 -> let u = cfg () in let f = cfg () in Update (u, f)
    | 4 -> Compress
    | _ -> Pickle) in
  List.iter (fun (sh, w) ->
    out_int (if sh then 1 else 0);
    List.iter (fun b -> out_int (List.length (List.filter (fun x -> x = b) w))) [BufX; BufQ; BufU; BufF];
    out_sep ()) (run sip init_state ops)

(* lifecycle n data[n] nops ops... ; op: 0 np perm | 1 np perm (compress) | 2 nf fresh nu ids xs np perm
   -> per op: raised | raw | vorder (or -1) | graph_rows has_graph searchable *)
let cmd_lifecycle t =
  let n = next_int t in let data = next_list t n in
  let nops = next_int t in
  let natlist () = let k = next_int t in List.init k (fun _ -> nat_of_int (next_int t)) in
  let ops = List.init nops (fun _ ->
    match next_int t with
    | 0 -> LPrepare (natlist ())
    | 1 -> LCompress (natlist ())
    | _ -> let nf = next_int t in let fresh = next_list t nf in
           let ids = natlist () in let nu = List.length ids in let xs = next_list t nu in
           let perm = natlist () in LUpdate (fresh, ids, xs, perm)) in
  List.iter (fun (s, e) ->
    out_int (if e then 1 else 0); out_sep ();
    out_list s.raw; out_sep ();
    (match s.vorder with None -> out_int (-1) | Some p -> List.iter (fun x -> out_int (int_of_nat x)) p); out_sep ();
    out_int (int_of_nat s.graph_rows); out_int (if s.has_graph then 1 else 0); out_int (if s.searchable then 1 else 0);
    out_str "#") (lrun (linit data) ops)

(* invalidate inf nu U[nu] n k ind[n*k] dist[n*k] -> ind | dist *)
let cmd_invalidate t =
  let inf = next_z t in
  let nu = next_int t in let u = List.init nu (fun _ -> nat_of_int (next_int t)) in
  let n = next_int t in let k = next_int t in
  let ind = next_mat t n k in let dist = next_mat t n k in
  let g = List.map2 (fun ri rd -> List.combine ri rd) ind dist in
  let g' = invalidate inf u g in
  out_mat (List.map (List.map fst) g'); out_sep (); out_mat (List.map (List.map snd) g')

(* binding sparse named fast snamed sfast callable -> init-binding load-binding (0 dense-named 1 dense-fast 2 sparse-named 3 sparse-fast 4 callable 5 error) *)
let cmd_binding t =
  let sp = next_bool t in
  let a = next_bool t in let b = next_bool t in let c = next_bool t in let d = next_bool t in let e = next_bool t in
  let m = { in_named = a; in_fast = b; in_sparse_named = c; in_sparse_fast = d; is_callable = e } in
  let code = function BDenseNamed -> 0 | BDenseFast -> 1 | BSparseNamed -> 2 | BSparseFast -> 3 | BCallable -> 4 | BError -> 5 in
  out_int (code (init_binding sp m)); out_int (code (load_binding false sp m))

(* transform nq k ind[nq*k] dist[nq*k] -> per row: nodup-flag col val col val ... ; *)
let cmd_transform t =
  let nq = next_int t in let k = next_int t in
  let ind = next_mat t nq k in let dist = next_mat t nq k in
  List.iteri (fun i ri ->
    out_int (if nodupb ri then 1 else 0);
    List.iter (fun (c, v) -> out_z c; out_z v) (transform_row ind dist (nat_of_int i));
    out_str ";") ind

(*DISPATCH-BEGIN*)
let dispatch : (string * (toks -> unit)) list = [
  ("heapseq", cmd_heapseq);
  ("deheap", cmd_deheap);
  ("siftdown", cmd_siftdown);
  ("rng", cmd_rng);
  ("nbc", cmd_nbc);
  ("applylow", cmd_applylow);
  ("applyhigh", cmd_applyhigh);
  ("ggu", cmd_ggu);
  ("nnd", cmd_nnd);
  ("initheap", cmd_initheap);
  ("divfwd", cmd_divfwd);
  ("divcsr", cmd_divcsr);
  ("prune", cmd_prune);
  ("sgchk", cmd_sgchk);
  ("eutree", cmd_eutree);
  ("flatchk", cmd_flatchk);
  ("linkedchk", cmd_linkedchk);
  ("search", cmd_search);
  ("fmul", cmd_fmul);
  ("sparseops", cmd_sparseops);
  ("binmetrics", cmd_binmetrics);
  ("lattice", cmd_lattice);
  ("angular", cmd_angular);
  ("otcert", cmd_otcert);
  ("rejsample", cmd_rejsample);
  ("aliasrun", cmd_aliasrun);
  ("lifecycle", cmd_lifecycle);
  ("binding", cmd_binding);
  ("transform", cmd_transform);
  ("invalidate", cmd_invalidate);
  ("conncert", cmd_conncert);
]
(*DISPATCH-END*)

let () =
  (try
    while true do
      let line = input_line stdin in
      let parts = Array.of_list (List.filter (fun s -> s <> "") (String.split_on_char ' ' line)) in
      Buffer.clear buf;
      (if Array.length parts > 0 then begin
        let t = { arr = parts; pos = 1 } in
        (match List.assoc_opt parts.(0) dispatch with
         | None -> out_str "UNKNOWN-COMMAND"
         | Some f ->
           (try f t with
            | Invalid_argument _ -> out_str "PARSE-ERROR"
            | Failure _ -> out_str "PARSE-ERROR"
            | Stack_overflow -> out_str "STACK-OVERFLOW"))
      end);
      print_string (Buffer.contents buf); print_newline ()
    done
  with End_of_file -> ())
