"""refmetrics.py — independent float64 reference definitions of the named metrics
(written from the mathematical definitions in the docs / scipy conventions, not
from the numba kernels).  Used by C01, C02, C04, C07, C08, C09, C18, C20."""
import math

import numpy as np

F32MAX = float(np.finfo(np.float32).max)
F32EPS = float(np.finfo(np.float32).eps)


def _f(x):
    return np.asarray(x, dtype=np.float64)


def euclidean(x, y):
    return math.sqrt(float(((_f(x) - _f(y)) ** 2).sum()))


def sqeuclidean(x, y):
    return float(((_f(x) - _f(y)) ** 2).sum())


def manhattan(x, y):
    return float(np.abs(_f(x) - _f(y)).sum())


def chebyshev(x, y):
    d = np.abs(_f(x) - _f(y))
    return float(d.max()) if d.size else 0.0


def minkowski(x, y, p=2):
    return float((np.abs(_f(x) - _f(y)) ** p).sum() ** (1.0 / p))


def seuclidean(x, y, sigma=None):
    sigma = np.ones(len(x)) if sigma is None else _f(sigma)
    return math.sqrt(float((((_f(x) - _f(y)) ** 2) / sigma).sum()))


def wminkowski(x, y, w=None, p=2):
    w = np.ones(len(x)) if w is None else _f(w)
    return float((w * np.abs(_f(x) - _f(y)) ** p).sum() ** (1.0 / p))


def mahalanobis(x, y, vinv=None):
    d = _f(x) - _f(y)
    vinv = np.eye(len(d)) if vinv is None else _f(vinv)
    return math.sqrt(max(0.0, float(d @ vinv @ d)))


def canberra(x, y):
    x, y = _f(x), _f(y)
    den = np.abs(x) + np.abs(y)
    m = den > 0
    return float((np.abs(x - y)[m] / den[m]).sum())


def braycurtis(x, y):
    x, y = _f(x), _f(y)
    den = float(np.abs(x + y).sum())
    return float(np.abs(x - y).sum()) / den if den > 0 else 0.0


def cosine(x, y):
    x, y = _f(x), _f(y)
    nx, ny = float((x * x).sum()), float((y * y).sum())
    if nx == 0 and ny == 0:
        return 0.0
    if nx == 0 or ny == 0:
        return 1.0
    return 1.0 - float((x * y).sum()) / math.sqrt(nx * ny)


def cosine_clamped(x, y):
    return min(1.0, max(0.0, cosine(x, y)))


def correlation(x, y):
    x, y = _f(x), _f(y)
    xs, ys = x - x.mean(), y - y.mean()
    nx, ny = float((xs * xs).sum()), float((ys * ys).sum())
    if nx == 0 and ny == 0:
        return 0.0
    dp = float((xs * ys).sum())
    if dp == 0:
        return 1.0
    return 1.0 - dp / math.sqrt(nx * ny)



def average_ranks(a):
    """ranks 1..n, tied values share the mean of the positions they occupy (the 'average' method)"""
    a = [float(v) for v in a]
    order = sorted(range(len(a)), key=lambda i: a[i])
    ranks = [0.0] * len(a)
    i = 0
    while i < len(order):
        j = i
        while j + 1 < len(order) and a[order[j + 1]] == a[order[i]]:
            j += 1
        for k in range(i, j + 1):
            ranks[order[k]] = 0.5 * (i + j) + 1.0
        i = j + 1
    return np.array(ranks, dtype=np.float64)


def spearmanr(x, y):
    """1 - Spearman's rho: the correlation distance of the average ranks"""
    return correlation(average_ranks(np.asarray(x, dtype=np.float32)), average_ranks(np.asarray(y, dtype=np.float32)))

def haversine(x, y):
    x, y = _f(x), _f(y)
    a = math.sin(0.5 * (x[0] - y[0])) ** 2 + math.cos(x[0]) * math.cos(y[0]) * math.sin(0.5 * (x[1] - y[1])) ** 2
    return 2.0 * math.asin(math.sqrt(min(1.0, max(0.0, a))))


def hellinger(x, y):
    x, y = _f(x), _f(y)
    sx, sy = float(x.sum()), float(y.sum())
    if sx == 0 and sy == 0:
        return 0.0
    if sx == 0 or sy == 0:
        return 1.0
    bc = float(np.sqrt(x * y).sum()) / math.sqrt(sx * sy)
    return math.sqrt(max(0.0, 1.0 - bc))


def true_angular_similarity(x, y):
    """what the code documents for 'true_angular': 1 - angle/pi (larger = closer)"""
    x, y = _f(x), _f(y)
    nx, ny = float((x * x).sum()), float((y * y).sum())
    if nx == 0 and ny == 0:
        return 0.0
    c = float((x * y).sum()) / math.sqrt(nx * ny) if nx > 0 and ny > 0 else 0.0
    if nx == 0 or ny == 0 or c <= 0:
        return None  # saturated (FLOAT32_MAX in the code)
    return 1.0 - math.acos(min(1.0, c)) / math.pi


def _counts(x, y):
    xb, yb = _f(x) != 0, _f(y) != 0
    tt = int((xb & yb).sum())
    tf = int((xb & ~yb).sum())
    ft = int((~xb & yb).sum())
    ff = int((~xb & ~yb).sum())
    return tt, tf, ft, ff


def hamming(x, y):
    return float((_f(x) != _f(y)).sum()) / len(x)


def jaccard(x, y):
    tt, tf, ft, ff = _counts(x, y)
    return 0.0 if tt + tf + ft == 0 else (tf + ft) / (tt + tf + ft)


def dice(x, y):
    tt, tf, ft, ff = _counts(x, y)
    return 0.0 if tf + ft == 0 else (tf + ft) / (2.0 * tt + tf + ft)


def matching(x, y):
    tt, tf, ft, ff = _counts(x, y)
    return (tf + ft) / len(x)


def kulsinski(x, y):
    tt, tf, ft, ff = _counts(x, y)
    n = len(x)
    return 0.0 if tf + ft == 0 else (tf + ft - tt + n) / (tf + ft + n)


def rogerstanimoto(x, y):
    tt, tf, ft, ff = _counts(x, y)
    return 2.0 * (tf + ft) / (len(x) + tf + ft)


def russellrao(x, y):
    tt, tf, ft, ff = _counts(x, y)
    if tf == 0 and ft == 0:
        return 0.0  # the code's convention for identical supports
    return (len(x) - tt) / len(x)


def sokalsneath(x, y):
    tt, tf, ft, ff = _counts(x, y)
    return 0.0 if tf + ft == 0 else (tf + ft) / (0.5 * tt + tf + ft)


def sokalmichener(x, y):
    return rogerstanimoto(x, y)


def yule(x, y):
    tt, tf, ft, ff = _counts(x, y)
    if tf == 0 or ft == 0:
        return 0.0
    return 2.0 * tf * ft / (tt * ff + tf * ft)


def jensen_shannon(x, y):
    x, y = _f(x), _f(y)
    d = len(x)
    px = (x + F32EPS) / (x.sum() + F32EPS * d)
    py = (y + F32EPS) / (y.sum() + F32EPS * d)
    m = 0.5 * (px + py)
    return float((0.5 * (px * np.log(px / m) + py * np.log(py / m))).sum())


def symmetric_kl(x, y):
    x, y = _f(x), _f(y)
    d = len(x)
    px = (x + F32EPS) / (x.sum() + F32EPS * d)
    py = (y + F32EPS) / (y.sum() + F32EPS * d)
    return float((px * np.log(px / py) + py * np.log(py / px)).sum())


def wasserstein_1d(x, y, p=1):
    x, y = _f(x), _f(y)
    cx, cy = np.cumsum(x / x.sum()), np.cumsum(y / y.sum())
    return float((np.abs(cx - cy) ** p).sum() ** (1.0 / p))


def bit_hamming(x, y):
    a = np.asarray(x, dtype=np.uint8) ^ np.asarray(y, dtype=np.uint8)
    return float(np.unpackbits(a).sum())


def bit_jaccard(x, y):
    a, b = np.asarray(x, dtype=np.uint8), np.asarray(y, dtype=np.uint8)
    inter = float(np.unpackbits(a & b).sum())
    union = float(np.unpackbits(a | b).sum())
    if union == 0 or inter == 0:
        return None
    return -math.log(inter / union)


# reported (corrected) values of metrics the index evaluates through a surrogate:
# clamped to the documented range [0, 1]
def dot_normalised(x, y):
    """'dot' metric of the index: data are l2-normalised first; 1 - <x,y>, 1 when <x,y> <= 0"""
    x, y = _f(x), _f(y)
    nx, ny = math.sqrt(float((x * x).sum())), math.sqrt(float((y * y).sum()))
    if nx == 0 or ny == 0:
        return 1.0
    d = float((x * y).sum()) / (nx * ny)
    return 1.0 if d <= 0 else 1.0 - d


REFERENCE = {
    "euclidean": euclidean, "l2": euclidean, "sqeuclidean": sqeuclidean,
    "manhattan": manhattan, "taxicab": manhattan, "l1": manhattan,
    "chebyshev": chebyshev, "linfinity": chebyshev, "linfty": chebyshev, "linf": chebyshev,
    "minkowski": minkowski, "seuclidean": seuclidean, "standardised_euclidean": seuclidean,
    "wminkowski": wminkowski, "weighted_minkowski": wminkowski, "mahalanobis": mahalanobis,
    "canberra": canberra, "cosine": cosine, "correlation": correlation, "haversine": haversine,
    "braycurtis": braycurtis, "hellinger": hellinger,
    "hamming": hamming, "jaccard": jaccard, "dice": dice, "matching": matching, "kulsinski": kulsinski,
    "rogerstanimoto": rogerstanimoto, "russellrao": russellrao, "sokalsneath": sokalsneath,
    "sokalmichener": sokalmichener, "yule": yule,
    "jensen-shannon": jensen_shannon, "jensen_shannon": jensen_shannon,
    "symmetric-kl": symmetric_kl, "symmetric_kl": symmetric_kl, "symmetric_kullback_liebler": symmetric_kl,
    "wasserstein_1d": wasserstein_1d, "wasserstein-1d": wasserstein_1d, "kantorovich-1d": wasserstein_1d,
    "kantorovich_1d": wasserstein_1d,
    "bit_hamming": bit_hamming, "bit_jaccard": bit_jaccard,
}

# value the index reports for a pair (after the surrogate's correction), clamped as C01 states
REPORTED = dict(REFERENCE)
REPORTED["cosine"] = cosine_clamped
REPORTED["dot"] = dot_normalised
