"""run.py — entry point:  python -m harness.run <Cxx> [--tier quick|thorough] [--replay file]

The property module runs in a CHILD process; the parent survives crashes (segfaults)
and hangs of the implementation under test and turns them into a verdict with the
last recorded breadcrumb (the input being processed) as the replay."""
import argparse
import importlib
import json
import os
import subprocess
import sys
import time
import traceback

from harness import common


def parse():
    ap = argparse.ArgumentParser()
    ap.add_argument("pid")
    ap.add_argument("--tier", default=os.environ.get("VERIF_TIER", "quick"))
    ap.add_argument("--replay", default=None)
    ap.add_argument("--child", action="store_true")
    a = ap.parse_args()
    a.tier = a.tier if a.tier in ("quick", "thorough") else "quick"
    try:
        a.seed = int(os.environ.get("VERIF_SEED", "20261001"))
    except ValueError:
        a.seed = 20261001
    return a


def child(a):
    common.setup_impl_env()
    ctx = common.Ctx(a.pid, a.tier, a.seed)
    try:
        mod = importlib.import_module("harness.props.%s" % a.pid)
    except ModuleNotFoundError:
        print("no check for %s" % a.pid)
        return 2
    try:
        if a.replay:
            ctx.replay_file = a.replay
        mod.run(ctx)
    except Exception:
        tb = traceback.format_exc()
        crumb = common.read_crumb(a.pid)
        ctx.violation("harness-error", "the check failed with an exception: %s" % tb.strip().splitlines()[-1][:300],
                      dict(traceback=tb[-3000:], last_input=crumb), found_input=crumb is not None)
    rc = ctx.finish()
    common.write_verdict(a.pid, rc)
    return rc


def parent(a):
    t0 = time.time()
    common.clear_crumb(a.pid)
    common.clear_verdict(a.pid)
    limit = int(os.environ.get("VERIF_TIMEOUT", "2400" if a.tier == "quick" else "14400"))
    cmd = [sys.executable, "-m", "harness.run", a.pid, "--tier", a.tier, "--child"] + (["--replay", a.replay] if a.replay else [])
    p = subprocess.Popen(cmd)
    try:
        rc = p.wait(timeout=limit)
        timed_out = False
    except subprocess.TimeoutExpired:
        p.kill()
        p.wait()
        rc = None
        timed_out = True
    v = common.read_verdict(a.pid)
    if v is not None and rc in (0, 1) and v == rc:
        return rc
    if rc == 2 and v is None:
        return 2
    # crash or hang of the implementation under test
    crumb = common.read_crumb(a.pid)
    ctx = common.Ctx(a.pid, a.tier, a.seed)
    ctx.t0 = t0
    ctx.proof = dict(build_ok=True, props_ok=True, qed=0)
    what = ("the implementation did not return within %d s" % limit) if timed_out else \
        ("the process running the implementation died (exit status %s%s)" % (rc, ", signal %d" % -rc if rc is not None and rc < 0 else ""))
    ctx.notes["rule"] = "check aborted: " + what
    ctx.evaluations = 1
    ctx.nontrivial.update({"crash", "abort"})
    ctx.sample(dict(last_input=crumb))
    ctx.violation("impl-crash" if not timed_out else "impl-hang",
                  "%s while processing the recorded input" % what if crumb is not None else what,
                  dict(last_input=crumb, exit_status=rc, timed_out=timed_out), found_input=crumb is not None)
    ctx.level = "other"
    ctx.notes["explanation"] = what
    return ctx.finish()


def main():
    a = parse()
    if a.child:
        return child(a)
    if a.replay:
        # a replay file records the seed and tier of the run that produced it; every random choice of a check
        # derives from the seed, so re-running the check under them regenerates the recorded input
        try:
            r = json.load(open(a.replay))
            print("REPLAY property=%s key=%s\n  %s" % (r.get("property"), r.get("key"), str(r.get("what"))[:400]))
            if r.get("seed") is not None:
                os.environ["VERIF_SEED"] = str(r["seed"])
                a.seed = int(r["seed"])
            if r.get("tier") in ("quick", "thorough"):
                a.tier = r["tier"]
        except Exception as e:
            print("cannot read replay file %s: %s" % (a.replay, e))
            return 2
    return parent(a)


if __name__ == "__main__":
    sys.exit(main())
