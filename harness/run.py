"""run.py — entry point:  python -m harness.run <Cxx> [--tier quick|thorough] [--replay file]"""
import argparse
import importlib
import os
import sys
import traceback

from harness import common


def main():
    ap = argparse.ArgumentParser()
    ap.add_argument("pid")
    ap.add_argument("--tier", default=os.environ.get("VERIF_TIER", "quick"))
    ap.add_argument("--replay", default=None)
    a = ap.parse_args()
    tier = a.tier if a.tier in ("quick", "thorough") else "quick"
    try:
        seed = int(os.environ.get("VERIF_SEED", "20261001"))
    except ValueError:
        seed = 20261001
    common.setup_impl_env()
    ctx = common.Ctx(a.pid, tier, seed)
    try:
        mod = importlib.import_module("harness.props.%s" % a.pid)
    except ModuleNotFoundError:
        print("no check for %s" % a.pid)
        return 2
    try:
        if a.replay:
            ctx.replay_file = a.replay
        mod.run(ctx)
    except Exception:
        tb = traceback.format_exc()
        ctx.violation("harness-error", "the check itself failed: %s" % tb.splitlines()[-1],
                      dict(traceback=tb), found_input=False)
    return ctx.finish()


if __name__ == "__main__":
    sys.exit(main())
