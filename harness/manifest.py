"""manifest.py — regenerates /verif/MANIFEST.json from the table below."""
import json
import os

LEVEL_NOTE_COMMON = ("Trusted: Coq 8.16.1 kernel; extraction (ExtrOcamlBasic only) + ocaml/driver.ml; the Python harness "
                     "(generators, float32<->order-key map, comparison); numba's compilation of the Python source. "
                     "No axioms declared; Print Assumptions output is recorded in the evidence file.")

CHECKS = {
    "C11": dict(
        technique="Coq proof (induction/invariant + refinement to top-k spec) over a hand-written Gallina model, tied to the numba kernels by exact differential execution of the extracted model",
        text=("Theorems in coq/props/C11.v, for every heap size, every offer sequence and all three push variants: a push terminates, "
              "either changes nothing (exactly when the offer is not better than the root or the candidate is present) or replaces the root "
              "triple by the offered triple keeping priorities/indices/flags aligned and the max-heap order; folding pushes from make_heap "
              "refines the abstract 'k closest distinct candidates' specification; deheap_sort yields an ascending permutation of the pairs. "
              "The model is a line-by-line transcription of utils.py and is compared bit-for-bit with the compiled kernels on exhaustive "
              "small scopes and tie-heavy random sequences on every run; the spec itself is also evaluated on the implementation's arrays."),
        design_ref="6.11",
        note=LEVEL_NOTE_COMMON + " Theorems exclude NaN priorities (keys form a total order) and need size < 32768.",
    ),
    "C12": dict(
        technique="(low = high for EVERY thread count: C12_high_eq_low_any_thread_count via the row-ownership argument of C05) Coq proof (invariant on in_graph sets: a skipped push is a rejected push) over the transcribed update kernels, tied to the code by exact differential execution; refutation witness for the pinned variant",
        text=("Theorem C12_high_eq_low (coq/props/C12.v): for every graph of max-heap rows carrying own distances and every list of update "
              "lists with symmetric distances, the high-memory path (in_graph sets) yields exactly the heaps and change count of the "
              "low-memory path; C12_pinned_second_branch_refuted shows by computation that the variant found in the pinned tree does not. "
              "The models are transcriptions of utils.py compared bit-for-bit with the compiled kernels (and whole nn_descent in both "
              "modes, thread counts 1..4) on every run; the property itself is evaluated on NNDescent(low_memory=True/False) pairs."),
        design_ref="6.12",
        note=LEVEL_NOTE_COMMON + " Thread-count independence of the low-memory prange loop rests on the generic ownership theorem (proofs/Par.v) plus correspondence runs, not on a refinement proof of that kernel.",
    ),
    "C01": dict(
        technique="Coq proof (graph invariant by induction over all push sequences of every kernel; read-out theorem via heap sort) over transcribed kernels; tie = exact differential execution incl. whole builds replayed from recorded nn_descent arguments; spec oracle on neighbor_graph vs float64 references",
        text=("Theorems in coq/props/C01.v: the invariant 'n x k rows, each a max-heap of pairwise distinct in-range row numbers carrying exactly "
              "dm(row,entry) < inf, padded with (-1,+inf)' holds of make_heap and is preserved by init_rp_tree, init_random, update generation "
              "and application in both memory modes for every input, generator state, thread count; sorting a row yields exactly the shape "
              "the property states (ascending, distinct, true distances, sentinels as a suffix), for all n,k. The model is compared "
              "bit-for-bit with the compiled kernels and with complete NNDescent constructions (dense and CSR) on integer-valued data; for all "
              "other metrics/data kinds the read-out specification is evaluated on neighbor_graph against independent float64 references."),
        design_ref="6.1",
        note=LEVEL_NOTE_COMMON + " Also proved: candidate arrays of new_build_candidates are in range, flag clearing keeps the invariant, and nn_descent as a whole (any iteration count, threshold, thread count, both memory modes, with/without leaves or from a well-formed init heap) returns the row-wise sort of a graph satisfying the invariant (C01_nn_descent_invariant). Not proved: float32 rounding of metric kernels (tolerance check); NNDescent.update() re-entering the loop from the invalidated graph is covered through init = Some g only if that graph is well formed (checked per history by C04).",
    ),
    "C13": dict(
        technique="Coq proof (every graph-writing kernel is a fold of heap pushes; a push never lowers any rank: count form, shown equivalent to the rank form) + exact kernel correspondence + rank-profile oracle on the API",
        text=("Theorems in coq/props/C13.v: for every threshold t a push never decreases the number of row entries with distance <= t "
              "(equivalently, by C13_count_form_is_rank_form, every j-th smallest distance is non-increasing); apply_graph_updates in both "
              "memory modes, leaf updates and init_random are folds of pushes and therefore keep every row at least as good as before, with no "
              "assumption on the distance values (covers user-supplied init_dist); the final sort keeps each row's multiset. The heap "
              "initialisation kernels and the NN-descent layer are compared bit-for-bit with the model; the property itself is evaluated on "
              "supplied init_graphs, successive rounds and append-only update histories."),
        design_ref="6.13",
        note=LEVEL_NOTE_COMMON + " Not proved as a theorem: that update() re-inserts the old rows unchanged before new candidates (exact correspondence of init_from_neighbor_graph + history oracle).",
    ),
    "C15": dict(
        technique="Coq proof (models of the four diversification kernels computed equal to a greedy specification, for every storage and tie order) + bit-exact differential execution incl. generator state + specification oracle on kernel outputs and on NNDescent._search_graph (index-level wiring stream)",
        text=("Theorems in coq/props/C15.v: the greedy flags satisfy the property's iff (dropped iff an earlier kept neighbour at non-zero "
              "distance is nearer to it than the point is; nearest always kept); forward rows (dense+sparse) are rewritten to exactly the kept "
              "candidates plus padding; reverse CSR rows are zeroed at exactly the dropped positions for ANY sorting permutation and storage "
              "order; probability 0 removes nothing; the pinned dense CSR variant is refuted by a computed witness. All four compiled kernels "
              "are compared with the extracted model on one thread, generator state included, and the specification is re-evaluated on their outputs; the search graph of dense and sparse indexes rebuilt over one exact neighbour graph is compared with the "
              "specification for diversify_prob 0 and 1 (this stream found the reverse pass of _init_search_graph running over a transposed view: repaired by fix 2161492; the pinned wiring is refuted by C15_index_reverse_pass_refuted and the witness is replayed on the real index every run)."),
        design_ref="6.15",
        note=LEVEL_NOTE_COMMON + " Probability-1 theorems assume the generator never returns 1.0f (C15_tau_rand_can_return_one shows a state where it does).",
    ),
    "C16": dict(
        technique="Coq proof about the degree-pruning kernel model + Coq-proved boolean checker (reflective) executed, extracted, on the search graph of real prepared indexes; exact correspondence of degree_prune_internal",
        text=("Theorems in coq/props/C16.v: degree_prune_row keeps at most max_degree edges strictly shorter than any kept edge (the bound "
              "up to ties with the longest kept one, exactly the property's wording), always keeps the shortest edge, never changes a length, "
              "leaves rows within the bound untouched; search_graph_chk = true implies the graph is square over all points, loop-free, a "
              "subgraph of the symmetrised neighbour graph, degree-bounded up to ties, and keeps for every listing point an edge at least as "
              "short as its nearest listed neighbour. The checker's verdict on each real index is computed by the extracted Coq function."),
        design_ref="6.16",
        note=LEVEL_NOTE_COMMON + " The producer NNDescent._init_search_graph (scipy coo/csr/transpose/maximum/setdiag) is validated per run by the proved checker, not verified as an algorithm.",
    ),
    "C14": dict(
        technique="Coq proof (builder partitions for any partitioning split; euclidean split is a partition; descent of a well-formed flat tree terminates with a valid range for all side decisions) + Coq-proved checkers (reflective) executed on every observed linked/flat tree + node-for-node exact correspondence of euclidean trees on integer data",
        text=("Theorems in coq/props/C14.v: the depth-bounded builder shared by all make_*_tree functions terminates structurally and its leaves "
              "hold each input point exactly once for ANY split that returns a partition; the euclidean split (pivots, hyperplane, coin flips, "
              "all-random fallback) is such a partition for every dataset and generator state; routing any query down a well-formed flat tree "
              "reaches a leaf within n_nodes steps with 0<=start<=end<=n; flat_chk / linked_chk accept only trees whose indices are a "
              "permutation, whose leaves tile the list in pre-order (first leaf start 0 included), whose leaves respect leaf_size unless at the "
              "depth limit. Euclidean trees on integer data (degenerate data included) equal the model node for node, generator state, flat "
              "form and leaf array included; all five split kinds are run through the extracted checkers."),
        design_ref="6.14",
        note=LEVEL_NOTE_COMMON + " Angular, bit-packed and sparse splits are not modelled concretely (float normalisation): generic builder theorem + per-run proved checkers. recursive_convert is modelled and compared exactly; its general correctness is established per tree by flat_chk, not by a once-for-all proof.",
    ),
    "C02": dict(
        technique="Coq proof (invariant over the whole search: visited-guarded pushes keep the result heap duplicate-free with true distances; the search always returns - termination by the visited/seed measure; heap-sort read-out; translation lemmas; refutation of plain fancy indexing) over a bit-exact model of the search closure incl. float32 (1+epsilon)*root; exact differential execution of the compiled closure; C02 oracle on query() answers",
        text=("Theorems in coq/props/C02.v: for every search graph, every duplicate-free leaf candidate list, every generator state, k, "
              "n_neighbors and epsilon, the sorted answer of a query has k slots, every filled slot is an in-range point with exactly "
              "d(v,query) < inf, filled slots are pairwise distinct (random seeds included), ascending, unfilled slots are (-1,+inf) and form "
              "a suffix; a filled slot translates to vertex_order[v]; an unfilled slot stays -1 with the repaired translation, while plain "
              "fancy indexing is shown to fabricate a real row number. The compiled search closure of real prepared indexes (dense and CSR) "
              "reproduces the extracted model bit-for-bit on single queries; query() answers of all index kinds are checked against the C02 "
              "statement with float64 reference distances to the CALLER's rows."),
        design_ref="6.2",
        note=LEVEL_NOTE_COMMON + " The tree descent's float computation is not modelled (its result is taken from the compiled closure); parallel-batch mode is covered by the per-answer theorem (any generator state) and sampled on the implementation.",
    ),
    "C19": dict(
        technique="Coq proof (soundness of an abstract-interpretation checker over control skeletons, all fault sequences) applied to skeletons REGENERATED from the source on every run by a fail-closed ast translator; per-run theorems generated and kernel-checked; behavioural fault-injection probes validate the translator and supply failing inputs",
        text=("Theorem C19_restores_chk_sound (coq/props/C19.v): whenever restores_chk accepts a method skeleton, for every branch resolution, "
              "every fault sequence (each call independently raising or not, inside finally blocks too), every entry thread count, every stale "
              "value of the shared saved attribute and every n_jobs, the thread count on exit - returned or raised - equals the count on entry. "
              "On each run the skeleton of every method of NNDescent and PyNNDescentTransformer is regenerated from /repo's source (callees "
              "inlined so that the shared attribute is tracked across nested calls), restores_chk is evaluated on it inside coqc, and for the "
              "accepted ones a theorem instance is generated and checked. 85 behavioural probes (n_jobs x operations x ambient changes x six "
              "fault injections) observe the real thread count."),
        design_ref="6.19",
        note=LEVEL_NOTE_COMMON + " The translator's call classification (every call may raise; attribute reads do not) is hand-written and validated by a self-test corpus and the probes.",
    ),
    "C08": dict(
        technique="Coq proof (the property itself for squared_euclidean/manhattan/chebyshev/hamming: sparse kernel on the CSR encodings = dense kernel, for all integer vectors, via canonicity of sorted zero-free sparse vectors; sparse kernels regenerated from the source and proved equal to the model on every run; double structural induction on the two-pointer merges: densify(sum/diff/mul) = pointwise op, dot = sum of the product, cursor/limit loop = support intersection) + exact correspondence of the compiled primitives + the property itself over all 4096 support pairs x value pools x every metric in both tables",
        text=("Theorems in coq/props/C08.v, for all sorted sparse vectors (every support pattern): sparse_sum / sparse_diff / sparse_mul keep the "
              "indices sorted and densify to the pointwise sum / difference / product; sparse_dot_product equals the sum of the product's "
              "entries; fast_intersection_size (its cursor-and-limit loop shown equal to the plain merge count) equals the size of the "
              "intersection of the supports, the quantity every sparse binary metric is a formula of. The compiled primitives reproduce the "
              "extracted model exactly on integer values; every metric offered for both dense and CSR data is evaluated on all pairs of "
              "supports over a 6-index universe with signed, all-ones and cancellation-prone value pools, sparse vs dense (JS / symmetric KL vs "
              "dense on the union of supports). C08_sparse_eq_dense / C08_canonical / C08_sparse_diff_of_encodings: sparse = dense for the polynomial family, all integer vectors; "
              "exact streams of the sparse polynomial and angular kernels against the model and the dense kernels."),
        design_ref="6.8",
        note=LEVEL_NOTE_COMMON + " The per-metric formulas on top of the merges (and their float rounding) are compared, not proved; the merge theorems are over exact integers.",
    ),
    "C09": dict(
        technique="Coq proof over the reals (Rpower/ln/sqrt/acos monotonicity and inverse laws) of the surrogate/correction pairs + Coq proof over Z that alternative_cosine / alternative_dot use the documented metric's exact core (result, norm_x*norm_y) with 0 < result, result^2 <= norm_x*norm_y (Cauchy-Schwarz) and give the sentinel only where the documented distance is >= 1, tied by exact branch correspondence + evaluation of the compiled surrogate kernels and correction ufuncs against float64 references, incl. a sweep of float32 bit patterns (all 2^31 non-negative patterns in the thorough tier)",
        text=("Theorems in coq/props/C09.v: for similarity core s > 0, 1 - 2^-(-log2 s) = 1 - s (cosine, dot, jaccard), sqrt(1 - 2^-(-log2 s)) = "
              "sqrt(1 - s) (hellinger), 1 - acos(2^-(-log2 s))/pi = 1 - acos(s)/pi (true_angular), sqrt(d*d) = d; the surrogate orders any two "
              "candidates exactly as the documented metric does (strictly, both directions) for each of these, and squared distances order as "
              "distances; the corrected value stays in [0,1). On every run the compiled dense and sparse surrogates/corrections are checked on "
              "structured vectors (inversion, order over all triples, dense/sparse agreement) and the scalar corrections are swept over float32 "
              "bit patterns for NaN-freedom, monotonicity, range and agreement with the float64 formula."),
        design_ref="6.9",
        note=LEVEL_NOTE_COMMON + " Axioms: Coq.Reals (ClassicalDedekindReals.sig_forall_dec, sig_not_dec, FunctionalExtensionality.functional_extensionality_dep, Classical_Prop.classic). Float32 rounding is measured, not proved; strict order is claimed only on the non-saturated domain.",
    ),
    "C07": dict(
        technique="Coq proof (count-based metric family: symmetry, identity, division safety, ranges for all count vectors; polynomial family squared_euclidean/manhattan/chebyshev/hamming/bray_curtis: metric laws incl. triangle inequality for all integer vectors; angular family: Cauchy-Schwarz => ratio in [-1,1], identity, symmetry) with the polynomial kernels REGENERATED from the source by a fail-closed Python-ast translator and proved equal to the model on every run + exhaustive comparison of the compiled binary metrics with the extracted exact fractions on all 0/1 vector pairs of small dimension + float64 reference comparison, symmetry, NaN and identity checks of every named dense metric on structured float32 vectors",
        text=("Theorems in coq/props/C07.v, for all admissible counts: every count-based metric (hamming, matching, jaccard, dice, kulsinski, "
              "rogerstanimoto, sokalmichener, russellrao, sokalsneath, yule) is symmetric, assigns identical inputs exactly 0, never divides by "
              "zero on the branch that divides, and stays in its documented range; the counting loop swaps tf/ft under argument swap. The "
              "compiled kernels equal the extracted model's exact fractions on ALL pairs of 0/1 vectors up to dimension 5 (6 in thorough). "
              "All other named dense metrics are compared with independent float64 definitions on structured vectors (zero, identical, "
              "multiples, extreme magnitudes, near-identical, ~1e5 values) with all metric arguments, and checked for symmetry, NaN and d(x,x)=0. "
              "Polynomial and angular kernels: theorems for all integer vectors (C07_lattice_*, C07_cauchy_schwarz, C07_cosine_*); harness/latticegen.py regenerates the "
              "accumulator loops from distances.py / sparse.py on every run and coqc checks tie_* (regenerated = model/Lattice.v on all inputs); exact correspondence on "
              "integer-valued float32 vectors (values bit for bit; the branch taken by cosine / true_angular / dot exactly)."),
        design_ref="6.7",
        note=LEVEL_NOTE_COMMON + " Float32 rounding of geometric/distribution kernels is not proved (tolerance comparison); circular_kantorovich and tsss are checked for laws only (spearmanr and true_angular have references); transport metrics are C10.",
    ),
    "C10": dict(
        technique="Coq proof of an LP-duality optimality certificate (weak duality with slack, all sizes) evaluated, extracted and in exact integer arithmetic, on the plan and potentials produced by the real network simplex for every instance; consequences of the property checked on the public entry points",
        text=("Theorem C10_certificate_sound (coq/props/C10.v): if the checker accepts a plan F with potentials (u,v) - F >= 0, all reduced costs "
              ">= -e, arcs carrying flow have reduced cost <= e - then F costs at most 2 e mass(F) more than any non-negative plan with the same "
              "marginals (e = 0: F is an LP minimiser). On every run the steps of distances.kantorovich are executed with the compiled "
              "functions, the flow and node potentials are read back, converted to exact integers and judged by the extracted checker; solver "
              "status, marginals, the value returned by kantorovich / sparse_kantorovich, symmetry, zero on equal inputs, scale invariance and "
              "the one-dimensional closed form are checked on the implementation."),
        design_ref="6.10",
        note=LEVEL_NOTE_COMMON + " The network simplex as an algorithm (pivoting, spanning-tree surgery, termination) is validated per output, not verified; continuity of the LP value in the marginals is not proved.",
    ),
    "C20": dict(
        technique="Coq proof (rejection sampling returns distinct samples whenever it returns and can never return when more samples are requested than the pool holds; bridging every pair of components connects the graph; sound spanning-tree and symmetry certificates; termination of the repaired alternating loop relative to an oracle for the searches) + exact correspondence of utils.rejection_sample with the extracted model + connect_graph run in a worker process under a per-call watchdog with the extracted certificates deciding symmetry and connectedness of every result",
        text=("Theorems C20_rejection_sample_distinct / C20_rejection_sample_needs_pool (for every generator state and every fuel), "
              "C20_bridging_every_pair_connects, C20_connectivity_certificate_sound, C20_symmetry_check_sound (coq/props/C20.v). Every run: "
              "rejection_sample compared value-for-value with the extracted model; connect_graph executed on generated multi-component "
              "indexes (component sizes below, at and above search_size; 10 metrics with and without surrogate; tree_init on/off; "
              "connect -> update -> connect histories); a call that does not return is killed and reported with its input; results are "
              "checked for containment of the input, cross-component placement and the float64 reference distance of every added edge."),
        design_ref="6.20",
        note=LEVEL_NOTE_COMMON + " The alternating loop's termination is proved for a hand model of the loop (searches and candidate bookkeeping as an oracle over the finite set of pair distances); that each restricted search returns is observed under the watchdog; the search closure itself is not modelled.",
    ),
    "C17": dict(
        technique="Coq proof over a hand-written ownership (alias) model of the API operations: no history over any input configuration writes a caller buffer; the model's alias rules are checked against the implementation after every operation of generated histories (np.shares_memory vs the extracted model's alias bit; byte hashes of every caller array before/after)",
        text=("Theorems C17_no_caller_write (all histories, all configurations dtype x layout x dense/CSR x sorted/unsorted x metric class), "
              "C17_aliased_input_is_copied_before_normalising, refutations of the pinned in-place CSR sort (coq/props/C17.v). Every run: "
              "histories construct -> {prepare, query, update, compress, pickle}* with fresh caller arrays of random configuration; after each "
              "operation every caller array (data, CSR triplets, query, xs_updated, xs_fresh, init_graph, init_dist) is re-hashed and the "
              "observed aliasing of index._raw_data is compared with the model; PyNNDescentTransformer fit/transform/fit_transform likewise."),
        design_ref="6.17",
        note=LEVEL_NOTE_COMMON + " The model is hand-written (not regenerated): the alias rules of sklearn check_array/normalize and numpy astype/fancy indexing are assumptions validated by the correspondence stream; numba kernels are covered only by the hash probes.",
    ),
    "C04": dict(
        technique="Coq proof over a line-by-line model of the data bookkeeping of update/prepare/compress (invariant by induction over every finite history, tree order of each rebuild an arbitrary permutation; invalidation lemmas) + history-level correspondence: storage, _vertex_order, graph rows and raised flag compared with the extracted model after every operation, the invalidated graph compared entry-for-entry, neighbor_graph and query answers checked against float64 references over the logical dataset",
        text=("Theorems C04_history_invariant, C04_storage_is_logical_through_vertex_order, C04_graph_rows, C04_argsort_undoes_order, C04_invalidated_graph_true_for_new_data, C04_update_restarts_from_a_true_graph, "
              "C04_invalidation, C04_replaced_rows_emptied (coq/props/C04.v). Every run: generated histories construct -> "
              "{prepare, query, update(fresh / replace / both), compress, pickle round-trip}* over float and bit-packed metrics, twin-row data, "
              "tree_init and low_memory modes; after every operation _raw_data equals the model's storage (row tokens mapped to vectors), the graph "
              "passed to init_from_neighbor_graph equals the extracted invalidate, and every stored graph / query distance equals the reference "
              "distance between the logical rows."),
        design_ref="6.4",
        note=LEVEL_NOTE_COMMON + " That NN-descent restarted from the invalidated graph again satisfies C01 is covered by C01's kernel theorems and validated here per history, not re-proved for the update path; sparse update is unsupported by the library.",
    ),
    "C06": dict(
        technique="Coq proof over a model of __getstate__/__setstate__ and of the metric re-binding (load(save(s)) equals the prepared original on every field a query reads; save idempotent; loaded copies consistent) + correspondence of the binding with the implementation for every metric name + differential round trips (pickle protocols, joblib, fresh interpreter) comparing query answers array-for-array",
        text=("Theorems C06_roundtrip, C06_save_idempotent, C06_loaded_is_consistent, C06_rebinding_agrees, refutation of the pinned dense "
              "re-binding for CSR indexes (coq/props/C06.v). Every run: the function object bound by _set_distance_func / "
              "_set_sparse_distance_func is compared with the extracted model for all 52 metric names x dense/CSR; indexes (dense, CSR, "
              "bit-packed; metrics with arguments and with surrogates; compressed or not) are saved at different points of their life and "
              "the answers of original-before, original-after, copy, copy-of-copy, second save and a fresh-interpreter load are compared."),
        design_ref="6.6",
        note=LEVEL_NOTE_COMMON + " Byte-level fidelity of pickle/joblib/numpy/numba serialisation is runtime behaviour: exercised (in-process and cross-process), not proved.",
    ),
    "C18": dict(
        technique="Coq proof over a model of the COO assembly and CSR conversion (row i stores exactly the (index, distance) pairs; duplicates would be summed) + entry-for-entry comparison of transform / fit_transform output with the extracted model applied to the arrays the index returned (spies on index_.query and neighbor_graph, argument check, independent re-query, float64 reference distances)",
        text=("Theorems C18_row_exact, C18_no_other_rows (coq/props/C18.v). Every run: PyNNDescentTransformer over metrics (with metric_kwds "
              "and surrogates) x n_neighbors x search_epsilon (including 0.0) x tree_init x low_memory x n_jobs x data with blocks of more "
              "than n_neighbors+1 identical samples; the recorded query call must carry k=n_neighbors and epsilon=search_epsilon; CSR rows "
              "must equal the model's rows for the recorded arrays and for an independent query; fit_transform rows must equal the index's "
              "neighbor graph with n_neighbors+1 stored entries."),
        design_ref="6.18",
        note=LEVEL_NOTE_COMMON + " scipy's coo->csr conversion is modelled (summing duplicates) and validated per run, not verified; sklearn parameter plumbing is covered by the argument spy only for k and epsilon.",
    ),
    "C05": dict(
        technique="Coq proof: generic row-ownership theorem (every interleaving of threads that each own their rows equals the sequential run), instantiated to apply_graph_updates_low_memory and to new_build_candidates against the sequential models that the correspondence check ties to the compiled kernels; row independence of diversification with private generator states; independence of a query call from earlier calls + repeated seeded histories compared bit-for-bit",
        text=("Theorems C05_row_ownership_schedule_independent, C05_apply_updates_schedule_independent, C05_build_candidates_schedule_independent, C05_diversify_rowwise, "
              "C05_query_independent_of_history (coq/props/C05.v). Every run: compiled apply_graph_updates_low_memory / high_memory and "
              "new_build_candidates against the extracted sequential models under the whole thread pool; the low-memory kernel repeated on "
              "identical input; histories build -> prepare -> queries -> update -> query repeated under a fixed seed over data kinds x metrics x "
              "n_jobs 2..16 x low_memory x diversify_prob x tree_init, comparing neighbor graphs, search graph, vertex order, rng_state after "
              "prepare, search_rng_state and all query answers between repetitions; repeated and interleaved queries."),
        design_ref="6.5",
        note=LEVEL_NOTE_COMMON + " The ownership theorem is instantiated for the two prange kernels that write shared rows (low-memory update application, candidate building); update generation writes private per-iteration lists (correspondence + repetition); the schedule quantifier relies on the stated interleaving model of prange; independence is between query() calls, not between rows of one batch.",
    ),
    "C03": dict(
        technique="Coq proof of the exactness clause (one leaf listing every point => after init_rp_tree every row is exact up to distance ties, all sizes, all symmetric finite distance tables) + exact comparison of real single-leaf builds with brute force; the recall floors are statistical and are MEASURED (tie-aware recall against float64 brute force over seeded data families x metrics x build modes), not proved",
        text=("Theorems C03_single_leaf_exact, C03_round_keeps_exact, C03_single_leaf_build_exact (coq/props/C03.v: the whole low-memory nn_descent on a single all-covering leaf is exact up to ties), built on the top-k refinement of the heap (C11) and the graph invariant (C01). "
              "Every run: datasets that fit one leaf (gauss / lattice / duplicates / CSR x 6 metrics x low_memory x n_jobs x n_trees) are built "
              "with the real index and every row is compared with the distance table computed by the index's own compiled metric; recall@10 "
              "of neighbor_graph (before and after a query) and of query() is measured for uniform, gaussian, clustered, manifold, sparse and "
              "binary families, including a size that is an exact multiple of the 16384-vertex update block, and compared with 0.90 / 0.80."),
        design_ref="6.3",
        note=LEVEL_NOTE_COMMON + " PARTIAL: only the single-leaf clause is a theorem (for the low-memory mode through the whole of nn_descent; the high-memory mode and the final per-row sort are validated). The 0.90/0.80 floors are measurements on seeded families: a statement 'on average over well-conditioned data' cannot be stated as a theorem about the model; a measured value below the floor is reported as a violation with the configuration as replay.",
    ),
}

REASON_PENDING = "check not built yet in this round (design in DESIGN.md section 6; no claim is made until the check exists)"


def main():
    props = [json.loads(l) for l in open("/verif/properties.jsonl")]
    checks = []
    na = []
    for p in props:
        pid = p["id"]
        if pid in CHECKS and os.path.exists("/verif/harness/props/%s.py" % pid):
            c = CHECKS[pid]
            checks.append(dict(
                property_id=pid,
                quick_cmd="./check %s --tier quick" % pid,
                thorough_cmd="./check %s --tier thorough" % pid,
                evidence_file="/verif/evidence/%s.json" % pid,
                replay_cmd_template="./check %s --replay {path}" % pid,
                engine="coq-proof+correspondence",
                level_claimed=dict(category=c.get("category", "proof"), text=c["text"], design_ref=c["design_ref"]),
                level_note=c["note"],
                technique=c["technique"],
            ))
        else:
            na.append(dict(property_id=pid, reason=NA.get(pid, REASON_PENDING)))
    m = dict(
        version=1,
        setup_cmd="cd /verif && ./setup.sh",
        hooks=dict(guard="PYNNDESCENT_VERIF", enable="no source hooks are needed: checks import /repo as it is (PYTHONPATH=/repo)",
                   baseline_off_cmd="cd /repo && /venv/bin/python -m pytest -ra -q -p no:cacheprovider --timeout=900 --continue-on-collection-errors",
                   source_commits=[], add_only=True),
        engines=[dict(name="coq-proof+correspondence", path="/verif/check",
                      serves_properties=[c["property_id"] for c in checks],
                      kind_free_text="Coq 8.16 theorems over hand-written/regenerated Gallina models (coq/), extracted to OCaml "
                                     "(ocaml/driver) and compared with the real numba kernels / public API by harness/*.py")],
        checks=checks,
        notes="See DESIGN.md. KNOWN_FINDINGS.jsonl lists recorded defects and fixed: entries.",
        not_applicable=na,
    )
    json.dump(m, open("/verif/MANIFEST.json", "w"), indent=1)
    print("MANIFEST.json: %d checks, %d not claimed" % (len(checks), len(na)))


NA = {}

if __name__ == "__main__":
    main()
