"""nnd_corr.py — exact differential execution of the NN-descent kernel layer
(model/Rng.v, model/NND.v) against the compiled kernels of /repo.
Shared by C01, C03, C05, C12, C13."""
import numpy as np

from harness import common
from harness.common import INF_KEY, fmt, f32_keys, keys_f32

_cache = {}


def impl():
    if "m" in _cache:
        return _cache["m"]
    import numba
    from pynndescent import utils, pynndescent_ as pn, distances as pd, sparse_nndescent as snn, sparse as sp

    @numba.njit
    def build_updates(flat, lens):
        ups = [[(np.int64(-1), np.int64(-1), np.float64(np.inf))] for _ in range(0)]
        pos = 0
        for i in range(lens.shape[0]):
            ul = [(np.int64(-1), np.int64(-1), np.float64(np.inf)) for _ in range(0)]
            for j in range(lens[i]):
                ul.append((np.int64(flat[pos, 0]), np.int64(flat[pos, 1]), np.float64(flat[pos, 2])))
                pos += 1
            ups.append(ul)
        return ups

    apply_low = utils.apply_graph_updates_low_memory
    apply_high = utils.apply_graph_updates_high_memory

    @numba.njit
    def run_apply_low(inds, dists, flags, flat, lens, T):
        ups = build_updates(flat, lens)
        return apply_low((inds, dists, flags), ups, T)

    @numba.njit
    def run_apply_high(inds, dists, flags, flat, lens):
        ups = build_updates(flat, lens)
        in_graph = [set(inds[i].astype(np.int64)) for i in range(inds.shape[0])]
        return apply_high((inds, dists, flags), ups, in_graph)

    m = dict(numba=numba, utils=utils, pn=pn, pd=pd, snn=snn, sp=sp, run_apply_low=run_apply_low,
             run_apply_high=run_apply_high)
    _cache["m"] = m
    return m


def mat_keys(a):
    return f32_keys(np.asarray(a, dtype=np.float32))


def fmt_mat(m):
    return " ".join(fmt(r) + " ;" for r in m)


def fmt_kmat(m):
    return " ".join(" ".join("NaN" if k is None else str(int(k)) for k in r) + " ;" for r in m)


def norm(s):
    return " ".join(s.split())


# ------------------------------------------------------------------ RNG

def corr_rng(ctx, nstates):
    m = impl()
    rng = ctx.rng
    states = [[-5, 100, 7], [0, 0, 0], [2 ** 31 - 1, -2 ** 31, 1], [-2 ** 31 + 1, 2 ** 31 - 2, -1]]
    for _ in range(nstates):
        states.append([rng.randrange(-2 ** 31 + 1, 2 ** 31 - 1) for _ in range(3)])
    # states reached after an increment (rng_state + n) and after many steps
    for _ in range(nstates // 4):
        s = [rng.randrange(-2 ** 31, 2 ** 31) + rng.randrange(0, 17) for _ in range(3)]
        states.append(s)
    steps = 12
    lines = ["rng %d %s" % (steps, fmt(s)) for s in states]
    model = common.run_driver(lines)
    dis = 0
    ones = 0
    for s, mo, ln in zip(states, model, lines):
        st = np.array(s, dtype=np.int64)
        out = []
        for _ in range(steps):
            st2 = st.copy()
            i = int(m["utils"].tau_rand_int(st))
            f = m["utils"].tau_rand(st2)
            if not (st == st2).all():
                ctx.violation("rng-corr", "tau_rand and tau_rand_int advance the state differently", dict(state=s), False)
            k = f32_keys(np.array([f], dtype=np.float32))[0]
            if f == 1.0:
                ones += 1
            out += [i, k]
        im = norm("%s | %s" % (fmt(out), fmt(st.tolist())))
        if im != norm(mo):
            dis += 1
            if dis <= 3:
                ctx.violation("rng-corr", "correspondence stream tau_rand/tau_rand_int disagrees with model/Rng.v",
                              dict(case_line=ln, model=mo, implementation=im), False)
    # crafted: the generator's float output for extreme integers (model function only needs the int)
    ctx.count(len(states), [hash(l) for l in lines])
    ctx.stream("tau_rand", cases=len(states), steps=steps, disagreements=dis, draws_equal_to_one=ones)
    return dis


# ------------------------------------------------------------------ new_build_candidates

def random_graph(rng, n, k, fill=0.8, self_loops=True):
    inds = np.full((n, k), -1, dtype=np.int32)
    flags = np.zeros((n, k), dtype=np.uint8)
    for i in range(n):
        cnt = sum(1 for _ in range(k) if rng.random() < fill)
        pool = list(range(n)) if self_loops else [x for x in range(n) if x != i]
        rng.shuffle(pool)
        chosen = pool[:cnt]
        pos = list(range(k))
        rng.shuffle(pos)
        for c, p in zip(chosen, pos):
            inds[i, p] = c
            flags[i, p] = rng.randrange(2)
    return inds, flags


def corr_nbc(ctx, ncases):
    m = impl()
    rng = ctx.rng
    cases = []
    for _ in range(ncases):
        n = rng.choice([1, 2, 3, 5, 8, 13, 21])
        k = rng.choice([1, 2, 3, 5, 8])
        maxc = rng.choice([1, 2, 3, 5, 8])
        T = rng.choice([1, 2, 3, 4, 7])
        inds, flags = random_graph(rng, n, k, rng.choice([0.3, 0.8, 1.0]))
        st = [rng.randrange(-2 ** 31 + 1, 2 ** 31 - 1) for _ in range(3)]
        cases.append((n, k, maxc, T, st, inds, flags))
    lines = ["nbc %d %d %d %d %d %s %s %s" % (n, k, maxc, T, INF_KEY, fmt(st), fmt(inds.ravel().tolist()), fmt(flags.ravel().tolist()))
             for (n, k, maxc, T, st, inds, flags) in cases]
    model = common.run_driver(lines)
    dis = 0
    for (n, k, maxc, T, st, inds, flags), mo, ln in zip(cases, model, lines):
        gi = inds.copy()
        gd = np.full((n, k), np.inf, dtype=np.float32)
        gf = flags.copy()
        rs = np.array(st, dtype=np.int64)
        nc, oc = m["utils"].new_build_candidates((gi, gd, gf), maxc, rs, T)
        im = norm("%s | %s | %s" % (fmt_mat(gf.tolist()), fmt_mat(nc.tolist()), fmt_mat(oc.tolist())))
        if rs.tolist() != st:
            ctx.violation("nbc-corr", "new_build_candidates modified the shared rng_state", dict(case_line=ln), False)
        if im != norm(mo):
            dis += 1
            if dis <= 3:
                ctx.violation("nbc-corr", "correspondence stream new_build_candidates disagrees with model/NND.v",
                              dict(case_line=ln, model=mo, implementation=im), False)
    ctx.count(len(cases), [hash(l) for l in lines])
    ctx.sample(dict(stream="new_build_candidates", case=lines[0][:300], model=model[0][:300]))
    ctx.stream("new_build_candidates", cases=len(cases), disagreements=dis)
    return dis


# ------------------------------------------------------------------ apply_graph_updates_*

LEVEL_F = [0.0, 1.0, 1.0, 2.0, 2.0, 3.0, 4.5, 6.0, 9.0]


def random_heap_graph(rng, n, k, dfun):
    """a reachable heap state: push random candidates with their own distance dfun(i,j)"""
    m = impl()
    gi = np.full((n, k), -1, dtype=np.int32)
    gd = np.full((n, k), np.inf, dtype=np.float32)
    gf = np.zeros((n, k), dtype=np.uint8)
    for i in range(n):
        for _ in range(rng.randrange(0, 2 * k + 1)):
            j = rng.randrange(n)
            m["utils"].checked_flagged_heap_push(gd[i], gi[i], gf[i], np.float32(dfun(i, j)), np.int32(j), np.uint8(rng.randrange(2)))
    return gi, gd, gf


def random_updates(rng, n, nlists, dfun, maxlen=8):
    lists = []
    for _ in range(nlists):
        ul = [(-1, -1, float("inf"))]
        for _ in range(rng.randrange(0, maxlen)):
            p = rng.randrange(n)
            q = rng.randrange(n)
            if rng.random() < 0.05:
                p = -1
            ul.append((p, q, dfun(p, q) if p >= 0 else 1.0))
        lists.append(ul)
    return lists


def updates_arrays(lists):
    flat = np.array([[p, q, d] for ul in lists for (p, q, d) in ul], dtype=np.float64).reshape(-1, 3)
    lens = np.array([len(ul) for ul in lists], dtype=np.int64)
    return flat, lens


def fmt_updates(lists):
    out = [str(len(lists))]
    for ul in lists:
        out.append(str(len(ul)))
        for (p, q, d) in ul:
            out.append("%d %d %d" % (p, q, common.key_of_float(d)))
    return " ".join(out)


def corr_apply(ctx, ncases, second_row_is_q):
    m = impl()
    rng = ctx.rng
    dis_low = dis_high = 0
    cases = []
    for _ in range(ncases):
        n = rng.choice([2, 3, 4, 6, 9, 14])
        k = rng.choice([1, 2, 3, 5])
        T = rng.choice([1, 2, 3, 4])
        tab = {}

        def dfun(i, j, tab=tab):
            key = (min(i, j), max(i, j))
            if key not in tab:
                tab[key] = rng.choice(LEVEL_F)
            return tab[key]
        gi, gd, gf = random_heap_graph(rng, n, k, dfun)
        ups = random_updates(rng, n, rng.choice([1, 2, n]), dfun)
        cases.append((n, k, T, gi, gd, gf, ups))
    low_lines, high_lines = [], []
    for (n, k, T, gi, gd, gf, ups) in cases:
        g = "%s %s %s" % (fmt(gi.ravel().tolist()), fmt(np.array(mat_keys(gd)).ravel().tolist()), fmt(gf.ravel().tolist()))
        low_lines.append("applylow %d %d %d %s %s" % (n, k, T, g, fmt_updates(ups)))
        high_lines.append("applyhigh %d %d %d %s %s" % (n, k, 1 if second_row_is_q else 0, g, fmt_updates(ups)))
    mlow = common.run_driver(low_lines)
    mhigh = common.run_driver(high_lines)
    lowhigh_differ = 0
    first_diff = None
    for idx, (n, k, T, gi, gd, gf, ups) in enumerate(cases):
        flat, lens = updates_arrays(ups)
        a, b, c = gi.copy(), gd.copy(), gf.copy()
        cl = m["run_apply_low"](a, b, c, flat, lens, T)
        il = norm("%d | %s | %s | %s" % (cl, fmt_mat(a.tolist()), fmt_kmat(mat_keys(b)), fmt_mat(c.tolist())))
        a2, b2, c2 = gi.copy(), gd.copy(), gf.copy()
        ch = m["run_apply_high"](a2, b2, c2, flat, lens)
        ih = norm("%d | %s | %s | %s" % (ch, fmt_mat(a2.tolist()), fmt_kmat(mat_keys(b2)), fmt_mat(c2.tolist())))
        if il != norm(mlow[idx]):
            dis_low += 1
            if dis_low <= 3:
                ctx.violation("applylow-corr", "correspondence stream apply_graph_updates_low_memory disagrees with model/NND.v",
                              dict(case_line=low_lines[idx], model=mlow[idx], implementation=il), False)
        if ih != norm(mhigh[idx]):
            dis_high += 1
            if dis_high <= 3:
                ctx.violation("applyhigh-corr", "correspondence stream apply_graph_updates_high_memory disagrees with model/NND.v",
                              dict(case_line=high_lines[idx], model=mhigh[idx], implementation=ih), False)
        if il != ih:
            lowhigh_differ += 1
            if first_diff is None:
                first_diff = dict(case_line=low_lines[idx], low=il, high=ih)
    ctx.count(2 * len(cases), [hash(l) for l in low_lines])
    ctx.sample(dict(stream="apply_graph_updates_low_memory", case=low_lines[0][:300], model=mlow[0][:200]))
    ctx.stream("apply_graph_updates", cases=len(cases), disagreements_low=dis_low, disagreements_high=dis_high,
               implementation_low_vs_high_differ=lowhigh_differ)
    return dis_low, dis_high, lowhigh_differ, first_diff


# ------------------------------------------------------------------ whole nn_descent (direct call)

def int_data(rng, n, dim, kind):
    if kind == "ties":
        return np.array([[rng.randrange(0, 3) for _ in range(dim)] for _ in range(n)], dtype=np.float32)
    if kind == "dups":
        base = [[rng.randrange(-4, 5) for _ in range(dim)] for _ in range(max(1, n // 3))]
        return np.array([rng.choice(base) for _ in range(n)], dtype=np.float32)
    if kind == "half":
        return np.array([[rng.randrange(-20, 21) / 2.0 for _ in range(dim)] for _ in range(n)], dtype=np.float32)
    return np.array([[rng.randrange(-30, 31) for _ in range(dim)] for _ in range(n)], dtype=np.float32)


def dist_matrix(dist, data):
    n = data.shape[0]
    M = np.zeros((n, n), dtype=np.float32)
    for a in range(n):
        for b in range(n):
            M[a, b] = dist(data[a], data[b])
    return M


def nnd_line(n, k, maxc, iters, thr_c, T, low, second_q, rng_state, init, leaves, M):
    parts = ["nnd", n, k, maxc, iters, thr_c, T, 1 if low else 0, 1 if second_q else 0, INF_KEY, fmt(rng_state)]
    if init is None:
        parts.append(0)
    else:
        gi, gd, gf = init
        parts += [1, fmt(np.asarray(gi).ravel().tolist()), fmt(np.array(mat_keys(gd)).ravel().tolist()),
                  fmt(np.asarray(gf).ravel().tolist())]
    if leaves is None:
        parts.append(0)
    else:
        parts += [1, leaves.shape[0], leaves.shape[1], fmt(leaves.ravel().tolist())]
    parts.append(fmt(np.array(mat_keys(M)).ravel().tolist()))
    return " ".join(str(p) for p in parts)


def random_leaves(rng, n, leaf_size, ntrees):
    rows = []
    for _ in range(ntrees):
        perm = list(range(n))
        rng.shuffle(perm)
        i = 0
        while i < n:
            sz = rng.randrange(1, leaf_size + 1)
            leaf = perm[i:i + sz]
            rows.append(leaf + [-1] * (leaf_size - len(leaf)))
            i += sz
    return np.array(rows, dtype=np.int64)


def thr_count(delta, k, n):
    # the code's float64 expression, left to right
    return int(np.floor(np.float64(delta) * k * n))


def corr_nnd_direct(ctx, ncases, second_row_is_q, modes=(True, False)):
    """pynndescent_.nn_descent called directly with chosen rng / leaves; returns stats"""
    m = impl()
    numba = m["numba"]
    rng = ctx.rng
    pd = m["pd"]
    metrics = [("sqeuclidean", pd.squared_euclidean), ("manhattan", pd.manhattan), ("chebyshev", pd.chebyshev),
               ("hamming", pd.hamming)]
    orig_threads = numba.get_num_threads()
    cases = []
    for c in range(ncases):
        n = rng.choice([2, 3, 5, 8, 12, 20, 33])
        k = rng.choice([1, 2, 3, 5, 8])
        dim = rng.choice([1, 2, 3])
        kind = rng.choice(["ties", "dups", "half", "ints"])
        data = int_data(rng, n, dim, kind)
        mname, dist = rng.choice(metrics)
        maxc = rng.choice([1, 2, 4, min(60, k)])
        iters = rng.choice([0, 1, 2, 5, 8])
        delta = rng.choice([0.0, 0.0, 0.001, 0.1, 0.05, 0.25])
        T = rng.choice([1, 2, 3, 4])
        low = rng.choice(list(modes))
        st = [rng.randrange(-2 ** 31 + 1, 2 ** 31 - 1) for _ in range(3)]
        use_tree = rng.random() < 0.6
        leaves = random_leaves(rng, n, rng.choice([2, 3, 5, 10]), rng.choice([1, 2])) if use_tree else np.array([[-1]])
        cases.append(dict(n=n, k=k, data=data, metric=mname, dist=dist, maxc=maxc, iters=iters, delta=delta, T=T, low=low,
                          st=st, leaves=leaves, kind=kind))
    lines = []
    for cs in cases:
        M = dist_matrix(cs["dist"], cs["data"])
        cs["M"] = M
        lines.append(nnd_line(cs["n"], cs["k"], cs["maxc"], cs["iters"], thr_count(cs["delta"], cs["k"], cs["n"]), cs["T"],
                              cs["low"], second_row_is_q, cs["st"], None, cs["leaves"], M))
    model = common.run_driver(lines)
    dis = 0
    bad = []
    try:
        for cs, mo, ln in zip(cases, model, lines):
            numba.set_num_threads(cs["T"])
            rs = np.array(cs["st"], dtype=np.int64)
            gi, gd = m["pn"].nn_descent(cs["data"], cs["k"], rs, cs["maxc"], cs["dist"], cs["iters"], cs["delta"],
                                        low_memory=cs["low"], rp_tree_init=True, leaf_array=cs["leaves"], verbose=False)
            im = norm("%s | %s | %s" % (fmt_mat(gi.tolist()), fmt_kmat(mat_keys(gd)), fmt(rs.tolist())))
            cs["impl_graph"] = (gi, gd)
            if im != norm(mo):
                dis += 1
                bad.append((cs, mo, im, ln))
    finally:
        numba.set_num_threads(orig_threads)
    ctx.count(len(cases), [hash(l) for l in lines])
    ctx.sample(dict(stream="nn_descent(direct)", n=cases[0]["n"], k=cases[0]["k"], metric=cases[0]["metric"],
                    low_memory=cases[0]["low"], threads=cases[0]["T"], model=model[0][:200]))
    ctx.stream("nn_descent-direct", cases=len(cases), disagreements=dis,
               low=sum(1 for c in cases if c["low"]), high=sum(1 for c in cases if not c["low"]))
    return cases, bad
