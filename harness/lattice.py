"""Exact correspondence stream for the polynomial ("lattice") metrics.

model/Lattice.v mirrors the accumulator loops of squared_euclidean / manhattan /
chebyshev / hamming / bray_curtis (distances.py) and of sparse_squared_euclidean /
sparse_manhattan / sparse_chebyshev / sparse_hamming (sparse.py) over integer
vectors.  On float32 vectors that hold small integers every intermediate value of
the compiled kernels is exactly representable (|entries| <= 9, dimension <= 96:
sums stay below 2^24), so kernel and model must agree exactly; the two quotients
(hamming, bray_curtis) are compared as correctly rounded float64 divisions of the
model's exact numerator and denominator.

side = "dense"  (C07): the dense kernels against the model
side = "sparse" (C08): the sparse kernels on the CSR encoding against the model, the
                       encoding against the model's [sparsify], sparse against dense."""
import math

import numpy as np

from harness import common
from harness.common import fmt


def _vectors(rng, dim):
    kind = rng.randrange(8)
    def one(p_zero):
        return [0 if rng.random() < p_zero else rng.choice([-9, -4, -2, -1, 1, 1, 2, 3, 5, 9]) for _ in range(dim)]
    if kind == 0:
        x = one(0.5); y = list(x)                                   # identical
    elif kind == 1:
        x = one(0.5); y = [0 if v else rng.choice([1, -2, 4]) for v in x]   # disjoint supports
    elif kind == 2:
        x = one(0.3); y = [v if rng.random() < 0.5 else 0 for v in x]       # nested supports, equal values where shared
    elif kind == 3:
        x = [0] * dim; y = one(0.5)                                  # one empty
    elif kind == 4:
        x = one(0.6); y = [-v for v in x]                            # opposite: sums cancel, differences double
    elif kind == 5:
        x = [abs(v) for v in one(0.4)]; y = [abs(v) for v in one(0.4)]      # non-negative (bray_curtis' documented domain)
    else:
        x = one(0.5); y = one(0.5)                                   # overlapping
    return x, y


def _close(got, want, name=""):
    if name == "euclidean":     # the final sqrt may be taken in float32: not an exact stream (sqeuclidean is)
        return abs(got - want) <= 2e-7 * max(1.0, abs(want))
    return got == want or abs(got - want) <= 4e-16 * max(1.0, abs(want))


def stream(ctx, ncases, side):
    from pynndescent import distances as pd, sparse as sp
    rng = ctx.rng
    lines, vecs = [], []
    kinds = {}
    for c in range(ncases):
        dim = rng.choice([1, 2, 3, 5, 8, 17, 40, 96])
        x, y = _vectors(rng, dim)
        lines.append("lattice %d %s %s" % (dim, fmt(x), fmt(y)))
        vecs.append((x, y))
        kinds[dim] = kinds.get(dim, 0) + 1
    model = common.run_driver(lines)
    bad = {}

    def report(name, ln, x, y, got, want, what):
        bad[name] = bad.get(name, 0) + 1
        if bad[name] <= 1:
            ctx.violation("lattice-%s:%s" % (side, name),
                          "%s on integer-valued float32 vectors: %s (implementation %r, model/Lattice.v %r)" % (name, what, got, want),
                          dict(metric=name, x=x, y=y, implementation=got, model=want, case_line=ln), True)

    for ln, (x, y), mo in zip(lines, vecs, model):
        parts = [p.strip() for p in mo.split("|")]
        d = [int(t) for t in parts[0].split()]
        s = [int(t) for t in parts[1].split()]
        sq, man, cheb, hn, hd, bn, bd = d
        xs = np.array(x, dtype=np.float32)
        ys = np.array(y, dtype=np.float32)
        ctx.nontrivial.add(hash(ln))
        if side == "dense":
            checks = [("sqeuclidean", float(pd.named_distances["sqeuclidean"](xs, ys)), float(sq)),
                      ("squared_euclidean", float(pd.squared_euclidean(xs, ys)), float(sq)),
                      ("euclidean", float(pd.named_distances["euclidean"](xs, ys)), math.sqrt(sq)),
                      ("manhattan", float(pd.named_distances["manhattan"](xs, ys)), float(man)),
                      ("chebyshev", float(pd.named_distances["chebyshev"](xs, ys)), float(cheb)),
                      ("hamming", float(pd.named_distances["hamming"](xs, ys)), hn / hd),
                      ("braycurtis", float(pd.named_distances["braycurtis"](xs, ys)), bn / bd)]
            for name, got, want in checks:
                if not _close(got, want, name):
                    report(name, ln, x, y, got, want, "value differs from the exact value of the definition")
                back = float(pd.named_distances[name if name != "squared_euclidean" else "sqeuclidean"](ys, xs))
                if back != got:
                    report(name, ln, x, y, got, back, "d(x,y) differs from d(y,x)")
        else:
            i1 = np.nonzero(xs)[0].astype(np.int32); d1 = xs[i1]
            i2 = np.nonzero(ys)[0].astype(np.int32); d2 = ys[i2]
            enc = lambda i, v: "%s ; %s" % (fmt(i.tolist()), fmt(v.astype(int).tolist()))
            if " ".join(parts[2].split()) != " ".join(enc(i1, d1).split()) or " ".join(parts[3].split()) != " ".join(enc(i2, d2).split()):
                report("csr-encoding", ln, x, y, [enc(i1, d1), enc(i2, d2)], [parts[2], parts[3]], "the harness' CSR encoding is not the model's sparsify")
                continue
            ssq, sman, scheb, shn, shd = s
            dim = len(x)
            checks = [("sqeuclidean", float(sp.sparse_named_distances["sqeuclidean"](i1, d1, i2, d2)), float(ssq), float(pd.squared_euclidean(xs, ys))),
                      ("euclidean", float(sp.sparse_named_distances["euclidean"](i1, d1, i2, d2)), math.sqrt(ssq), float(pd.euclidean(xs, ys))),
                      ("manhattan", float(sp.sparse_named_distances["manhattan"](i1, d1, i2, d2)), float(sman), float(pd.manhattan(xs, ys))),
                      ("chebyshev", float(sp.sparse_named_distances["chebyshev"](i1, d1, i2, d2)), float(scheb), float(pd.chebyshev(xs, ys))),
                      ("hamming", float(sp.sparse_named_distances["hamming"](i1, d1, i2, d2, dim)), shn / shd, float(pd.hamming(xs, ys)))]
            for name, got, want, dense in checks:
                if not _close(got, want, name):
                    report(name, ln, x, y, got, want, "sparse kernel on the CSR encoding differs from the exact value")
                if not _close(got, dense, name):
                    report(name, ln, x, y, got, dense, "sparse kernel differs from the dense kernel on the same vectors")
    ctx.count(len(lines))
    ctx.sample(dict(stream="lattice-exact-" + side, case=lines[0], model=model[0]))
    ctx.stream("lattice-exact-" + side, cases=len(lines), dims=kinds, disagreements=bad,
               metrics=["sqeuclidean", "euclidean", "manhattan", "chebyshev", "hamming"] + (["braycurtis"] if side == "dense" else []))


FLOAT32_MAX = float(np.finfo(np.float32).max)


def _angular_expected(kind, cls, r, q):
    """float64 value of the wrapper on the model's exact (class, r, q); None = compare the class only"""
    if cls == 0:
        return 0.0
    if cls == 1:
        return 1.0
    if cls == 2:
        return FLOAT32_MAX
    ratio = r / math.sqrt(q)
    if kind == "cosine":
        return 1.0 - ratio
    if kind == "alternative_cosine":
        return math.log2(1.0 / ratio)
    if kind == "true_angular":
        return 1.0 - math.acos(min(1.0, ratio)) / math.pi
    if kind == "dot":
        return 1.0 - r
    if kind == "alternative_dot":
        return -math.log2(r)
    raise KeyError(kind)


def angular_stream(ctx, ncases, which):
    """cosine / alternative_cosine / true_angular / dot / alternative_dot (dense and CSR twins) against model/Lattice.v:
    the branch taken (zero / one / sentinel / ratio) must be the model's EXACTLY, and on the ratio branch the value must be
    the wrapper applied to the model's exact (result, norm_x * norm_y).
    which: 'metrics' (C07: cosine, dot, true_angular), 'surrogates' (C09: alternative_*), 'sparse' (C08: sparse twins)"""
    from pynndescent import distances as pd, sparse as sp
    rng = ctx.rng
    lines, vecs = [], []
    for c in range(ncases):
        dim = rng.choice([1, 2, 3, 5, 8, 17, 40])
        x, y = _vectors(rng, dim)
        if rng.random() < 0.15:
            y = [2 * v for v in x]           # parallel: ratio exactly 1
        if rng.random() < 0.1 and dim >= 2:
            x = [1, 2] + [0] * (dim - 2); y = [-2, 1] + [0] * (dim - 2)    # orthogonal: ratio exactly 0
        lines.append("angular %d %s %s" % (dim, fmt(x), fmt(y)))
        vecs.append((x, y))
    model = common.run_driver(lines)
    if which == "metrics":
        kernels = [("cosine", 0, "cosine", lambda xs, ys: pd.named_distances["cosine"](xs, ys)),
                   ("true_angular", 1, "true_angular", lambda xs, ys: pd.true_angular(xs, ys)),
                   ("dot", 2, "dot", lambda xs, ys: pd.dot(xs, ys))]
    elif which == "surrogates":
        kernels = [("alternative_cosine", 1, "alternative_cosine", lambda xs, ys: pd.alternative_cosine(xs, ys)),
                   ("alternative_dot", 3, "alternative_dot", lambda xs, ys: pd.alternative_dot(xs, ys))]
    else:
        enc = lambda v: (np.nonzero(v)[0].astype(np.int32), v[np.nonzero(v)[0]])
        # columns 4, 5: the model's sparse_cosine / sparse_alternative_cosine on the CSR encodings (proved equal to the dense
        # columns 0, 1 for all inputs: C08_sparse_cosine_eq_dense)
        kernels = [("sparse_cosine", 4, "cosine", lambda xs, ys: sp.sparse_cosine(*enc(xs), *enc(ys))),
                   ("sparse_alternative_cosine", 5, "alternative_cosine", lambda xs, ys: sp.sparse_alternative_cosine(*enc(xs), *enc(ys))),
                   ("sparse_alternative_dot", 3, "alternative_dot", lambda xs, ys: sp.sparse_alternative_dot(*enc(xs), *enc(ys)))]
    bad, classes = {}, {}
    for ln, (x, y), mo in zip(lines, vecs, model):
        parts = [[int(t) for t in p.split()] for p in mo.split("|")]
        xs = np.array(x, dtype=np.float32)
        ys = np.array(y, dtype=np.float32)
        ctx.nontrivial.add(hash(ln))
        for name, col, kind, fn in kernels:
            cls, r, q = parts[col]
            classes[(name, cls)] = classes.get((name, cls), 0) + 1
            want = _angular_expected(kind, cls, r, q)
            got = float(fn(xs, ys))
            if cls in (0, 1, 2):
                ok = got == want or (cls == 2 and got == float(np.float32(FLOAT32_MAX)))
            else:
                tol = (1e-3 if kind == "true_angular" else 3e-6) * max(1.0, abs(want))
                ok = abs(got - want) <= tol and not (got >= 0.99 * FLOAT32_MAX)
            if not ok:
                bad[name] = bad.get(name, 0) + 1
                if bad[name] <= 1:
                    ctx.violation("angular-%s:%s" % (which, name),
                                  "%s on integer-valued float32 vectors returns %r; model/Lattice.v: branch %s with (result, norm_x*norm_y) = (%d, %d), value %r"
                                  % (name, got, ["zero", "one", "sentinel", "ratio"][cls], r, q, want),
                                  dict(kernel=name, x=x, y=y, implementation=got, model_class=cls, r=r, q=q, expected=want, case_line=ln), True)
    ctx.count(len(lines) * len(kernels))
    ctx.sample(dict(stream="angular-exact-" + which, case=lines[0], model=model[0]))
    ctx.stream("angular-exact-" + which, cases=len(lines), kernels=[k[0] for k in kernels], disagreements=bad,
               branches={"%s:%s" % (n, ["zero", "one", "sentinel", "ratio"][c]): v for (n, c), v in sorted(classes.items())})
