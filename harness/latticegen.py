"""latticegen.py — REGENERATES the Coq model of the polynomial metric kernels from
/repo's source on every run (Python ast -> Gallina), and emits the tie theorems that
the regenerated definitions equal the hand-written model/Lattice.v for ALL inputs.
Those theorems are then checked by coqc: the laws proved about model/Lattice.v
(coq/props/C07.v, C08.v) are thereby re-established for what the source says NOW.

Translated functions
  distances.py : squared_euclidean, manhattan, chebyshev, hamming, bray_curtis;
                 the accumulator loops of cosine, alternative_cosine, true_angular, dot, alternative_dot (the branch
                 structure after the loop is compared, as a syntax tree, with the one model/Lattice.v encodes)
  sparse.py    : sparse_diff, sparse_squared_euclidean, sparse_manhattan,
                 sparse_chebyshev, sparse_hamming
(sparse_sum, the two-pointer merge under sparse_diff, stays hand-modelled in
model/SparseOps.v and is tied by the exact correspondence stream of C08.)

The translator is FAIL-CLOSED: any statement or expression outside the small grammar
below raises Unsupported, which the check reports (a rewrite of the source can thus
break the tie while the property still holds; the exact correspondence stream then
decides whether a failing input exists).

  kernel  ::= init* loop ret                      (dense:  arguments x, y)
            | "_, aux_data = sparse_diff(ind1, data1, ind2, data2)" init* loop ret      (sparse)
  init    ::= v = 0.0 | dim = x.shape[0] | dim = len(aux_data)
  loop    ::= for i in range(bound): stmt+       bound ::= x.shape[0] | aux_data.shape[0] | dim
  stmt    ::= v = e | v += e | if e != e: stmt+
  e       ::= x[i] | y[i] | aux_data[i] | v | 0.0 | 1.0 | e + e | e - e | e * e | e ** 2
            | np.abs(e) | max(e, e) | -e
  ret     ::= return v | return float(v) / x.shape[0]
            | if v > 0.0: return float(v) / v  else: return 0.0

Numbers are read as exact integers (the model is over Z: the kernels are exact on
float32 vectors holding small integers, which is where the correspondence stream
compares them bit for bit)."""
import ast
import os


class Unsupported(Exception):
    pass


def _fn(tree, name):
    for node in tree.body:
        if isinstance(node, ast.FunctionDef) and node.name == name:
            return node
    raise Unsupported("function %s not found" % name)


def _strip_doc(body):
    if body and isinstance(body[0], ast.Expr) and isinstance(getattr(body[0], "value", None), ast.Constant) and isinstance(body[0].value.value, str):
        return body[1:]
    return body


def _is_shape0(e, arr):
    return (isinstance(e, ast.Subscript) and isinstance(e.value, ast.Attribute) and e.value.attr == "shape"
            and isinstance(e.value.value, ast.Name) and e.value.value.id == arr
            and isinstance(e.slice, ast.Constant) and e.slice.value == 0)


class Kernel:
    def __init__(self, name, sparse):
        self.name, self.sparse = name, sparse
        self.state = []          # accumulator variables, in order of initialisation
        self.dim_alias = set()
        self.step = None         # Coq text of the new state tuple (with lets)
        self.result = None       # Coq text over the final state and n

    # ---- expressions
    def expr(self, e, env):
        if isinstance(e, ast.Constant) and isinstance(e.value, (int, float)) and float(e.value) == int(e.value):
            return "%d" % int(e.value)
        if isinstance(e, ast.Name):
            if e.id in env:
                return e.id
            raise Unsupported("unknown name %s in %s" % (e.id, self.name))
        if isinstance(e, ast.Subscript) and isinstance(e.value, ast.Name) and isinstance(e.slice, ast.Name) and e.slice.id == "i":
            if not self.sparse and e.value.id == "x":
                return "a"
            if not self.sparse and e.value.id == "y":
                return "b"
            if self.sparse and e.value.id == "aux_data":
                return "d"
            raise Unsupported("subscript of %s in %s" % (e.value.id, self.name))
        if isinstance(e, ast.BinOp):
            if isinstance(e.op, ast.Pow):
                if isinstance(e.right, ast.Constant) and e.right.value == 2:
                    l = self.expr(e.left, env)
                    return "(%s * %s)" % (l, l)
                raise Unsupported("power other than 2 in %s" % self.name)
            op = {ast.Add: "+", ast.Sub: "-", ast.Mult: "*"}.get(type(e.op))
            if op is None:
                raise Unsupported("operator %s in %s" % (type(e.op).__name__, self.name))
            return "(%s %s %s)" % (self.expr(e.left, env), op, self.expr(e.right, env))
        if isinstance(e, ast.UnaryOp) and isinstance(e.op, ast.USub):
            return "(- %s)" % self.expr(e.operand, env)
        if isinstance(e, ast.Call):
            f = e.func
            if isinstance(f, ast.Attribute) and isinstance(f.value, ast.Name) and f.value.id == "np" and f.attr == "abs" and len(e.args) == 1 and not e.keywords:
                return "(Z.abs %s)" % self.expr(e.args[0], env)
            if isinstance(f, ast.Name) and f.id == "max" and len(e.args) == 2 and not e.keywords:
                return "(Z.max %s %s)" % (self.expr(e.args[0], env), self.expr(e.args[1], env))
        raise Unsupported("expression %s in %s" % (ast.dump(e)[:80], self.name))

    # ---- loop body: returns Coq text 'let v := e in ... <cont>'
    def stmts(self, body, env, cont):
        if not body:
            return cont(env)
        s, rest = body[0], body[1:]
        if isinstance(s, ast.Assign) and len(s.targets) == 1 and isinstance(s.targets[0], ast.Name):
            v = s.targets[0].id
            e = self.expr(s.value, env)
            return "let %s := %s in %s" % (v, e, self.stmts(rest, env | {v}, cont))
        if isinstance(s, ast.AugAssign) and isinstance(s.target, ast.Name) and isinstance(s.op, ast.Add):
            v = s.target.id
            if v not in env:
                raise Unsupported("+= on unknown %s" % v)
            e = self.expr(s.value, env)
            return "let %s := (%s + %s) in %s" % (v, v, e, self.stmts(rest, env, cont))
        if isinstance(s, ast.If) and not s.orelse and isinstance(s.test, ast.Compare) and len(s.test.ops) == 1 \
                and isinstance(s.test.ops[0], ast.NotEq):
            l = self.expr(s.test.left, env)
            r = self.expr(s.test.comparators[0], env)
            # only accumulator updates inside the branch: the state after the branch is a conditional on every accumulator
            inner = self.stmts(s.body, env, lambda env2: self.tuple_of(self.state))
            pat = self.pattern(self.state)
            return "let %s := (if negb (%s =? %s) then %s else %s) in %s" % (
                pat if len(self.state) > 1 else self.state[0], l, r, inner, self.tuple_of(self.state), self.stmts(rest, env, cont))
        raise Unsupported("statement %s in %s" % (type(s).__name__, self.name))

    @staticmethod
    def tuple_of(vs):
        return vs[0] if len(vs) == 1 else "(" + ", ".join(vs) + ")"

    @staticmethod
    def pattern(vs):
        return vs[0] if len(vs) == 1 else "'(" + ", ".join(vs) + ")"

    def translate(self, fn):
        body = _strip_doc(fn.body)
        argn = [a.arg for a in fn.args.args]
        if self.sparse:
            if argn[:4] != ["ind1", "data1", "ind2", "data2"]:
                raise Unsupported("arguments of %s" % self.name)
            s = body[0]
            ok = (isinstance(s, ast.Assign) and isinstance(s.targets[0], ast.Tuple) and [getattr(t, "id", None) for t in s.targets[0].elts] == ["_", "aux_data"]
                  and isinstance(s.value, ast.Call) and getattr(s.value.func, "id", None) == "sparse_diff"
                  and [getattr(a, "id", None) for a in s.value.args] == ["ind1", "data1", "ind2", "data2"] and not s.value.keywords)
            if not ok:
                raise Unsupported("%s does not start with '_, aux_data = sparse_diff(ind1, data1, ind2, data2)'" % self.name)
            body = body[1:]
        elif argn != ["x", "y"]:
            raise Unsupported("arguments of %s" % self.name)
        arr = "aux_data" if self.sparse else "x"
        k = 0
        while k < len(body) and isinstance(body[k], ast.Assign):
            s = body[k]
            if len(s.targets) != 1 or not isinstance(s.targets[0], ast.Name):
                raise Unsupported("initialisation in %s" % self.name)
            v = s.targets[0].id
            if isinstance(s.value, ast.Constant) and s.value.value == 0.0:
                self.state.append(v)
            elif _is_shape0(s.value, arr) or (isinstance(s.value, ast.Call) and getattr(s.value.func, "id", None) == "len"
                                              and len(s.value.args) == 1 and getattr(s.value.args[0], "id", None) == arr):
                self.dim_alias.add(v)
            else:
                raise Unsupported("initialisation of %s in %s" % (v, self.name))
            k += 1
        if not self.state or k >= len(body) or not isinstance(body[k], ast.For):
            raise Unsupported("no accumulator loop in %s" % self.name)
        loop = body[k]
        it = loop.iter
        ok = (isinstance(loop.target, ast.Name) and loop.target.id == "i" and not loop.orelse and isinstance(it, ast.Call)
              and getattr(it.func, "id", None) == "range" and len(it.args) == 1
              and (_is_shape0(it.args[0], arr) or (isinstance(it.args[0], ast.Name) and it.args[0].id in self.dim_alias)))
        if not ok:
            raise Unsupported("loop header of %s" % self.name)
        env = set(self.state)
        self.step = self.stmts(loop.body, env, lambda env2: self.tuple_of(self.state))
        if self.name in ANGULAR_TAILS:
            want = [ast.dump(t) for t in ast.parse(ANGULAR_TAILS[self.name]).body]
            if [ast.dump(t) for t in body[k + 1:]] != want:
                raise Unsupported("the branches after the loop of %s are not the expected ones (zero tests / sentinel / wrapper)" % self.name)
            self.result = ("ANG", None)
        else:
            self.result = self.ret(body[k + 1:], env)
        return self

    def ret(self, tail, env):
        def fl(e):   # float(v) or v
            if isinstance(e, ast.Call) and getattr(e.func, "id", None) == "float" and len(e.args) == 1:
                e = e.args[0]
            if isinstance(e, ast.Name) and e.id in env:
                return e.id
            raise Unsupported("returned quantity in %s" % self.name)
        if len(tail) == 1 and isinstance(tail[0], ast.Return):
            v = tail[0].value
            if isinstance(v, ast.Name):
                return ("Z", fl(v))
            if isinstance(v, ast.BinOp) and isinstance(v.op, ast.Div) and _is_shape0(v.right, "x") and not self.sparse:
                return ("ZZ", "(%s, n)" % fl(v.left))
        if len(tail) == 1 and isinstance(tail[0], ast.If):
            s = tail[0]
            t = s.test
            ok = (isinstance(t, ast.Compare) and len(t.ops) == 1 and isinstance(t.ops[0], ast.Gt) and isinstance(t.comparators[0], ast.Constant)
                  and t.comparators[0].value == 0.0 and len(s.body) == 1 and isinstance(s.body[0], ast.Return)
                  and len(s.orelse) == 1 and isinstance(s.orelse[0], ast.Return) and isinstance(s.orelse[0].value, ast.Constant)
                  and s.orelse[0].value.value == 0.0)
            if ok:
                den = fl(t.left)
                q = s.body[0].value
                if isinstance(q, ast.BinOp) and isinstance(q.op, ast.Div) and fl(q.right) == den:
                    return ("ZZ", "(if 0 <? %s then (%s, %s) else (0, 1))" % (den, fl(q.left), den))
        raise Unsupported("return of %s" % self.name)


# the branch structure after the accumulator loop of the angular kernels: compared as syntax trees (fail closed); it is what
# model/Lattice.v encodes as AZero / AOne / AMax / ARatio
_COS_HEAD = "if norm_x == 0.0 and norm_y == 0.0:\n    return 0.0\nelif norm_x == 0.0 or norm_y == 0.0:\n    return %s\n"
ANGULAR_TAILS = {
    "cosine": _COS_HEAD % "1.0" + "else:\n    return 1.0 - (result / np.sqrt(norm_x * norm_y))\n",
    "alternative_cosine": _COS_HEAD % "FLOAT32_MAX" + "elif result <= 0.0:\n    return FLOAT32_MAX\nelse:\n"
                          "    result = np.sqrt(norm_x * norm_y) / result\n    return np.log2(result)\n",
    "true_angular": _COS_HEAD % "FLOAT32_MAX" + "elif result <= 0.0:\n    return FLOAT32_MAX\nelse:\n"
                    "    result = result / np.sqrt(norm_x * norm_y)\n    return 1.0 - (np.arccos(min(1.0, result)) / np.pi)\n",
    "dot": "if result <= 0.0:\n    return 1.0\nelse:\n    return 1.0 - result\n",
    "alternative_dot": "if result <= 0.0:\n    return FLOAT32_MAX\nelse:\n    return -np.log2(result)\n",
}
ANGULAR = ["cosine", "alternative_cosine", "true_angular", "dot", "alternative_dot"]

DENSE = ["squared_euclidean", "manhattan", "chebyshev", "hamming", "bray_curtis"] + ANGULAR
SPARSE = ["sparse_squared_euclidean", "sparse_manhattan", "sparse_chebyshev"]


def check_sparse_diff(tree):
    fn = _fn(tree, "sparse_diff")
    body = _strip_doc(fn.body)
    ok = False
    if len(body) == 1 and isinstance(body[0], ast.Return) and isinstance(body[0].value, ast.Call):
        c = body[0].value
        a = c.args
        ok = (getattr(c.func, "id", None) == "sparse_sum" and len(a) == 4 and not c.keywords
              and [getattr(t, "id", None) for t in a[:3]] == ["ind1", "data1", "ind2"]
              and isinstance(a[3], ast.UnaryOp) and isinstance(a[3].op, ast.USub) and getattr(a[3].operand, "id", None) == "data2")
    if not ok:
        raise Unsupported("sparse_diff is not 'return sparse_sum(ind1, data1, ind2, -data2)'")


def check_sparse_hamming(tree):
    """num_not_equal = sparse_diff(ind1, data1, ind2, data2)[0].shape[0]; return float(num_not_equal) / n_features"""
    fn = _fn(tree, "sparse_hamming")
    body = _strip_doc(fn.body)
    src = [ast.dump(s) for s in body]
    want = [ast.dump(s) for s in ast.parse(
        "num_not_equal = sparse_diff(ind1, data1, ind2, data2)[0].shape[0]\nreturn float(num_not_equal) / n_features").body]
    if src != want or [a.arg for a in fn.args.args] != ["ind1", "data1", "ind2", "data2", "n_features"]:
        raise Unsupported("sparse_hamming is not 'length of sparse_diff / n_features'")


def translate_repo(repo):
    d = ast.parse(open(os.path.join(repo, "pynndescent", "distances.py")).read())
    s = ast.parse(open(os.path.join(repo, "pynndescent", "sparse.py")).read())
    ks, errs = {}, {}
    for name in DENSE:
        try:
            ks[name] = Kernel(name, False).translate(_fn(d, name))
        except Unsupported as e:
            errs[name] = str(e)
    for name in SPARSE:
        try:
            ks[name] = Kernel(name, True).translate(_fn(s, name))
        except Unsupported as e:
            errs[name] = str(e)
    for name, chk in (("sparse_diff", check_sparse_diff), ("sparse_hamming", check_sparse_hamming)):
        try:
            chk(s)
            ks[name] = None
        except Unsupported as e:
            errs[name] = str(e)
    return ks, errs


PRELUDE = """(* GENERATED from /repo/pynndescent/distances.py and sparse.py by harness/latticegen.py - do not edit *)
From Coq Require Import ZArith List Bool.
From PV Require Import SparseOps.
Import ListNotations.
Open Scope Z_scope.

Fixpoint loop2 {S : Type} (step : S -> Z -> Z -> S) (st : S) (x y : list Z) : S :=
  match x, y with
  | a :: x', b :: y' => loop2 step (step st a b) x' y'
  | _, _ => st
  end.
Fixpoint loop1 {S : Type} (step : S -> Z -> S) (st : S) (v : list Z) : S :=
  match v with
  | d :: v' => loop1 step (step st d) v'
  | [] => st
  end.
"""


def emit_gen(ks, path):
    out = [PRELUDE]
    for name, k in ks.items():
        if k is None:
            continue
        sty = "Z" if len(k.state) == 1 else "(" + " * ".join(["Z"] * len(k.state)) + ")"
        pat = Kernel.pattern(k.state)
        init = Kernel.tuple_of(["0"] * len(k.state))
        kind, res = k.result
        if kind == "ANG":
            out.append("Definition gen_%s_step (st : %s) (a b : Z) : %s := let %s := st in %s." % (name, sty, sty, pat, k.step))
            out.append("Definition gen_%s_acc (x y : list Z) : %s := loop2 gen_%s_step %s x y.\n" % (name, sty, name, init))
            continue
        if k.sparse:
            out.append("Definition gen_%s_step (st : %s) (d : Z) : %s := let %s := st in %s." % (name, sty, sty, pat, k.step))
            out.append("Definition gen_%s (a b : svec) : Z := let %s := loop1 gen_%s_step %s (map snd (sparse_sum a (sparse_neg b))) in %s.\n"
                       % (name, pat, name, init, res))
        else:
            out.append("Definition gen_%s_step (st : %s) (a b : Z) : %s := let %s := st in %s." % (name, sty, sty, pat, k.step))
            rty = "Z" if kind == "Z" else "(Z * Z)"
            out.append("Definition gen_%s (x y : list Z) : %s := let n := Z.of_nat (length x) in let %s := loop2 gen_%s_step %s x y in %s.\n"
                       % (name, rty, pat, name, init, res))
    if "sparse_diff" in ks and "sparse_hamming" in ks:
        out.append("Definition gen_sparse_hamming (a b : svec) (n_features : Z) : Z * Z := "
                   "(Z.of_nat (length (sparse_sum a (sparse_neg b))), n_features).\n")
    open(path, "w").write("\n".join(out) + "\n")


TIE = r"""(* GENERATED tie theorems: the model regenerated from the source equals model/Lattice.v on ALL inputs *)
From Coq Require Import ZArith List Bool Lia.
From PV Require Import SparseOps Lattice.
Require Import LatticeGen.
Import ListNotations.
Open Scope Z_scope.

Ltac step_eq := intros; cbv beta delta [gen_squared_euclidean_step gen_manhattan_step gen_chebyshev_step gen_hamming_step gen_bray_curtis_step
  gen_sparse_squared_euclidean_step gen_sparse_manhattan_step gen_sparse_chebyshev_step] zeta;
  try reflexivity; try ring; try lia.

Lemma tie_sq_loop : forall x y acc, loop2 gen_squared_euclidean_step acc x y = sq_loop acc x y.
Proof. induction x as [|a x IH]; intros [|b y] acc; cbn [loop2 sq_loop]; auto; rewrite IH; f_equal; step_eq. Qed.
Theorem tie_squared_euclidean : forall x y, gen_squared_euclidean x y = squared_euclidean x y.
Proof. intros. unfold gen_squared_euclidean, squared_euclidean. cbv zeta. apply tie_sq_loop. Qed.

Lemma tie_man_loop : forall x y acc, loop2 gen_manhattan_step acc x y = man_loop acc x y.
Proof. induction x as [|a x IH]; intros [|b y] acc; cbn [loop2 man_loop]; auto; rewrite IH; f_equal; step_eq. Qed.
Theorem tie_manhattan : forall x y, gen_manhattan x y = manhattan x y.
Proof. intros. unfold gen_manhattan, manhattan. cbv zeta. apply tie_man_loop. Qed.

Lemma tie_cheb_loop : forall x y acc, loop2 gen_chebyshev_step acc x y = cheb_loop acc x y.
Proof. induction x as [|a x IH]; intros [|b y] acc; cbn [loop2 cheb_loop]; auto; rewrite IH; f_equal; step_eq. Qed.
Theorem tie_chebyshev : forall x y, gen_chebyshev x y = chebyshev x y.
Proof. intros. unfold gen_chebyshev, chebyshev. cbv zeta. apply tie_cheb_loop. Qed.

Lemma tie_ham_loop : forall x y acc, loop2 gen_hamming_step acc x y = ham_loop acc x y.
Proof.
  induction x as [|a x IH]; intros [|b y] acc; cbn [loop2 ham_loop]; auto; rewrite IH;
  f_equal; cbv beta delta [gen_hamming_step] zeta; destruct (a =? b); cbn [negb]; reflexivity.
Qed.
Theorem tie_hamming : forall x y, gen_hamming x y = hamming x y.
Proof. intros. unfold gen_hamming, hamming. cbv zeta. rewrite tie_ham_loop. reflexivity. Qed.

Lemma tie_bc_loop : forall x y n d, loop2 gen_bray_curtis_step (n, d) x y = bc_loop n d x y.
Proof. induction x as [|a x IH]; intros [|b y] n d; cbn [loop2 bc_loop]; auto; rewrite <- IH; f_equal; reflexivity. Qed.
Theorem tie_bray_curtis : forall x y, gen_bray_curtis x y = bray_curtis x y.
Proof. intros. unfold gen_bray_curtis, bray_curtis. cbv zeta. rewrite tie_bc_loop. reflexivity. Qed.

Lemma tie_loop1 : forall (f : Z -> Z -> Z) v acc, loop1 f acc (map snd v) = fold_left (fun acc (p : Z * Z) => f acc (snd p)) v acc.
Proof. intros f. induction v as [|p v IH]; intros acc; cbn [map loop1 fold_left]; auto. Qed.

Theorem tie_sparse_squared_euclidean : forall a b, gen_sparse_squared_euclidean a b = sparse_squared_euclidean a b.
Proof. intros. unfold gen_sparse_squared_euclidean, sparse_squared_euclidean, sparse_diff. cbv zeta. rewrite tie_loop1. reflexivity. Qed.
Theorem tie_sparse_manhattan : forall a b, gen_sparse_manhattan a b = sparse_manhattan a b.
Proof. intros. unfold gen_sparse_manhattan, sparse_manhattan, sparse_diff. cbv zeta. rewrite tie_loop1. reflexivity. Qed.
Theorem tie_sparse_chebyshev : forall a b, gen_sparse_chebyshev a b = sparse_chebyshev a b.
Proof. intros. unfold gen_sparse_chebyshev, sparse_chebyshev, sparse_diff. cbv zeta. rewrite tie_loop1. reflexivity. Qed.
Theorem tie_sparse_hamming : forall a b n, gen_sparse_hamming a b n = sparse_hamming a b n.
Proof. reflexivity. Qed.

From PV Require LatticeProofs.
(* angular kernels: the regenerated accumulator loops are cos_loop / dot_loop; the branches after the loop were compared
   with the expected syntax tree by the translator *)
Ltac ang_eq := cbv beta delta [gen_cosine_step gen_alternative_cosine_step gen_true_angular_step gen_dot_step gen_alternative_dot_step] zeta;
  try reflexivity; try (f_equal; ring); try ring.
Lemma tie_cosine_loop : forall x y r nx ny, loop2 gen_cosine_step (r, nx, ny) x y = cos_loop r nx ny x y.
Proof. induction x as [|a x IH]; intros [|b y] r nx ny; cbn [loop2 cos_loop]; auto; rewrite <- IH; f_equal; ang_eq. Qed.
Lemma tie_alternative_cosine_loop : forall x y r nx ny, loop2 gen_alternative_cosine_step (r, nx, ny) x y = cos_loop r nx ny x y.
Proof. induction x as [|a x IH]; intros [|b y] r nx ny; cbn [loop2 cos_loop]; auto; rewrite <- IH; f_equal; ang_eq. Qed.
Lemma tie_true_angular_loop : forall x y r nx ny, loop2 gen_true_angular_step (r, nx, ny) x y = cos_loop r nx ny x y.
Proof. induction x as [|a x IH]; intros [|b y] r nx ny; cbn [loop2 cos_loop]; auto; rewrite <- IH; f_equal; ang_eq. Qed.
Lemma tie_dot_loop : forall x y r, loop2 gen_dot_step r x y = dot_loop r x y.
Proof. induction x as [|a x IH]; intros [|b y] r; cbn [loop2 dot_loop]; auto; rewrite <- IH; f_equal; ang_eq. Qed.
Lemma tie_alternative_dot_loop : forall x y r, loop2 gen_alternative_dot_step r x y = dot_loop r x y.
Proof. induction x as [|a x IH]; intros [|b y] r; cbn [loop2 dot_loop]; auto; rewrite <- IH; f_equal; ang_eq. Qed.
Theorem tie_angular : forall x y,
  gen_cosine_acc x y = cos_loop 0 0 0 x y /\ gen_alternative_cosine_acc x y = cos_loop 0 0 0 x y /\
  gen_true_angular_acc x y = cos_loop 0 0 0 x y /\ gen_dot_acc x y = dot_loop 0 x y /\ gen_alternative_dot_acc x y = dot_loop 0 x y.
Proof.
  intros. unfold gen_cosine_acc, gen_alternative_cosine_acc, gen_true_angular_acc, gen_dot_acc, gen_alternative_dot_acc.
  repeat split; [apply tie_cosine_loop | apply tie_alternative_cosine_loop | apply tie_true_angular_loop | apply tie_dot_loop | apply tie_alternative_dot_loop].
Qed.
(* Cauchy-Schwarz for the regenerated accumulators *)
Theorem regenerated_cosine_cauchy_schwarz : forall x y,
  let '(r, nx, ny) := gen_cosine_acc x y in 0 <= nx /\ 0 <= ny /\ r * r <= nx * ny.
Proof. intros x y. destruct (tie_angular x y) as (E & _). rewrite E. apply LatticeProofs.cauchy_schwarz. Qed.

(* the laws of coq/props/C07.v and C08.v restated for the regenerated definitions *)
From PV Require Import LatticeProofs.
Theorem regenerated_kernels_symmetric_and_zero_on_identical : forall x y,
  gen_squared_euclidean x y = gen_squared_euclidean y x /\ gen_manhattan x y = gen_manhattan y x /\
  gen_chebyshev x y = gen_chebyshev y x /\ gen_bray_curtis x y = gen_bray_curtis y x /\
  gen_squared_euclidean x x = 0 /\ gen_manhattan x x = 0 /\ gen_chebyshev x x = 0 /\ fst (gen_hamming x x) = 0.
Proof.
  intros x y. rewrite !tie_squared_euclidean, !tie_manhattan, !tie_chebyshev, !tie_bray_curtis, !tie_hamming.
  destruct (lattice_symmetric x y) as (A & B & C & _ & E). destruct (lattice_identity x) as (F & G & H & I & _).
  repeat split; assumption.
Qed.
Theorem regenerated_sparse_eq_dense : forall x y, length x = length y ->
  gen_sparse_squared_euclidean (sparsify 0 x) (sparsify 0 y) = gen_squared_euclidean x y /\
  gen_sparse_manhattan (sparsify 0 x) (sparsify 0 y) = gen_manhattan x y /\
  gen_sparse_chebyshev (sparsify 0 x) (sparsify 0 y) = gen_chebyshev x y /\
  gen_sparse_hamming (sparsify 0 x) (sparsify 0 y) (Z.of_nat (length x)) = gen_hamming x y.
Proof.
  intros x y L. rewrite tie_sparse_squared_euclidean, tie_sparse_manhattan, tie_sparse_chebyshev, tie_sparse_hamming,
    tie_squared_euclidean, tie_manhattan, tie_chebyshev, tie_hamming. apply sparse_eq_dense; assumption.
Qed.
Print Assumptions regenerated_kernels_symmetric_and_zero_on_identical.
Print Assumptions regenerated_sparse_eq_dense.
Print Assumptions regenerated_cosine_cauchy_schwarz.
"""

TIE_THEOREMS = ["tie_squared_euclidean", "tie_manhattan", "tie_chebyshev", "tie_hamming", "tie_bray_curtis",
                "tie_sparse_squared_euclidean", "tie_sparse_manhattan", "tie_sparse_chebyshev", "tie_sparse_hamming",
                "tie_angular", "regenerated_cosine_cauchy_schwarz",
                "regenerated_kernels_symmetric_and_zero_on_identical", "regenerated_sparse_eq_dense"]

# translator self-test: snippets with known verdicts (accepted text / rejected)
SELFTEST = [
    ("def manhattan(x, y):\n    result = 0.0\n    for i in range(x.shape[0]):\n        result += np.abs(x[i] - y[i])\n    return result\n",
     "manhattan", "let result := (result + (Z.abs (a - b))) in result"),
    ("def manhattan(x, y):\n    result = 0.0\n    for i in range(x.shape[0] - 1):\n        result += np.abs(x[i] - y[i])\n    return result\n",
     "manhattan", None),
    ("def manhattan(x, y):\n    result = 0.0\n    for i in range(x.shape[0]):\n        result += np.abs(x[i]) - np.abs(y[i])\n    return result\n",
     "manhattan", "let result := (result + ((Z.abs a) - (Z.abs b))) in result"),
    ("def chebyshev(x, y):\n    result = 0.0\n    for i in range(1, x.shape[0]):\n        result = max(result, np.abs(x[i] - y[i]))\n    return result\n",
     "chebyshev", None),
    ("def hamming(x, y):\n    result = 0.0\n    for i in range(x.shape[0]):\n        if x[i] > y[i]:\n            result += 1.0\n    return float(result) / x.shape[0]\n",
     "hamming", None),
]


def selftest():
    bad = []
    for src, name, want in SELFTEST:
        try:
            k = Kernel(name, False).translate(_fn(ast.parse(src), name))
            got = k.step
        except Unsupported:
            got = None
        if got != want:
            bad.append(dict(snippet=src, expected=want, got=got))
    return bad


def regenerate(ctx, pid):
    """translate /repo's kernels, compile the regenerated model and the tie theorems, report"""
    import re
    import subprocess
    from harness import common
    bad = selftest()
    if bad:
        ctx.violation("lattice-translator-selftest", "the kernel translator no longer gives the expected verdict on its self-test snippets",
                      dict(failures=bad[:3]), False)
    ks, errs = translate_repo(common.REPO)
    gen = os.path.join(common.COQ, "gen")
    os.makedirs(gen, exist_ok=True)
    info = dict(translated=sorted(ks), untranslatable=errs, selftest_failures=len(bad))
    if errs:
        ctx.violation("regenerated-model:untranslatable",
                      "the source of %s is outside the translator's grammar (%s): the theorems of coq/props/%s.v are no longer tied to it"
                      % (sorted(errs), "; ".join(errs.values())[:300], pid),
                      dict(theorems="tie_* in coq/gen/LatticeTie.v", untranslatable=errs), False)
    else:
        with common.BuildLock():
            emit_gen(ks, os.path.join(gen, "LatticeGen.v"))
            open(os.path.join(gen, "LatticeTie.v"), "w").write(TIE)
            out = ""
            rc = 0
            for f in ("LatticeGen.v", "LatticeTie.v"):
                p = subprocess.run("timeout 300 coqc -Q model PV -Q proofs PV -Q gen \"\" gen/%s 2>&1" % f, cwd=common.COQ, shell=True,
                                   stdout=subprocess.PIPE, text=True)
                out += p.stdout
                rc = rc or p.returncode
            gen_text = open(os.path.join(gen, "LatticeGen.v")).read()
        closed = out.count("Closed under the global context")
        info.update(tie_theorems=TIE_THEOREMS, kernel_checked=(rc == 0), closed_under_global_context=closed,
                    regenerated_definitions=[l for l in gen_text.splitlines() if l.startswith("Definition gen_")][:12])
        if rc != 0:
            m = re.search(r'File "\./gen/(\w+\.v)", line (\d+)', out)
            where = ""
            if m and m.group(1) == "LatticeTie.v":
                ln = int(m.group(2))
                head = [l for l in TIE.splitlines()[:ln] if l.startswith(("Lemma", "Theorem"))]
                where = head[-1].split(":")[0] if head else ""
            ctx.violation("regenerated-model:tie-broken",
                          "the model regenerated from the source no longer equals model/Lattice.v (%s does not check): the kernel's loop changed"
                          % (where or "coq/gen/LatticeGen.v"),
                          dict(theorem=where, file="coq/gen/LatticeTie.v", log=out[-1200:],
                               regenerated=info["regenerated_definitions"]), False)
        elif closed < 2:
            ctx.violation("regenerated-model:axioms", "the regenerated theorems are not closed under the global context", dict(log=out[-800:]), False)
    for k in ks:
        ctx.nontrivial.add(("regenerated", k))
    ctx.count(len(ks))
    ctx.sample(dict(stream="regenerated-lattice-model", definitions=info.get("regenerated_definitions", [])[:3]))
    ctx.stream("regenerated-lattice-model", **info)
