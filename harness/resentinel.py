"""resentinel.py — re-baseline harness/sentinels.json to /repo's current sources
(run by hand after a deliberate change to /repo such as a fix: commit)."""
import importlib
import os
import sys

sys.path.insert(0, "/verif")
from harness import common

cur_all = {}
for f in sorted(os.listdir("/verif/harness/props")):
    if f.startswith("C") and f.endswith(".py"):
        mod = importlib.import_module("harness.props." + f[:-3])
        spec = getattr(mod, "SENTINELS", None)
        if spec:
            _, _, cur = common.sentinel_status(f[:-3], spec)
            cur_all.update(cur)
import json
json.dump(cur_all, open("/verif/harness/sentinels.json", "w"), indent=1, sort_keys=True)
print("sentinels:", len(cur_all))
