"""translate.py — fail-closed Python-ast -> Gallina skeleton translator (C19).

For every method of the classes NNDescent and PyNNDescentTransformer in
pynndescent/pynndescent_.py it emits a term of the type [stmt] of coq/model/Skel.v.
Anything it does not understand becomes [Unknown], on which restores_chk is false.

Classification (hand-written table, validated by the self-test corpus and by the
behavioural probes of harness/props/C19.py):
  self._original_num_threads = numba.get_num_threads()     -> Capture
  numba.set_num_threads(self._original_num_threads)        -> Restore
  numba.set_num_threads(<anything else>)                   -> Seq Call SetThreads   (the call itself may raise, leaving the count unchanged)
  self.<method of the same class>(...)                     -> the callee's skeleton, inlined (depth <= 3), then Return folded to Skip
  any other call                                           -> Call (may raise)
  raise / return                                           -> Raise / Return
  if / elif / else                                         -> [Call if the test contains a call] ; Choice
  try / except / else / finally                            -> TryExcept / TryFinally
  for / while whose body has no thread operation           -> Call ; optional early Return / Raise choice
  nested def / class / lambda / pass / del / plain stores  -> Skip
"""
import ast
import os

THREAD_ATTR = "_original_num_threads"


def is_numba_call(node, name):
    return (isinstance(node, ast.Call) and isinstance(node.func, ast.Attribute) and node.func.attr == name
            and isinstance(node.func.value, ast.Name) and node.func.value.id == "numba")


def is_self_attr(node, attr=None):
    return (isinstance(node, ast.Attribute) and isinstance(node.value, ast.Name) and node.value.id == "self"
            and (attr is None or node.attr == attr))


def contains_call(node):
    return any(isinstance(n, ast.Call) for n in ast.walk(node))


def contains_thread_op(node):
    for n in ast.walk(node):
        if is_numba_call(n, "set_num_threads") or is_numba_call(n, "get_num_threads"):
            return True
    return False


class Translator:
    def __init__(self, classdef):
        self.methods = {n.name: n for n in classdef.body if isinstance(n, ast.FunctionDef)}
        self.unknown_reasons = []

    # ---- helpers producing Gallina text
    @staticmethod
    def seq(parts):
        parts = [p for p in parts if p != "Skip"]
        if not parts:
            return "Skip"
        out = parts[-1]
        for p in reversed(parts[:-1]):
            out = "(Seq %s %s)" % (p, out)
        return out

    def unknown(self, node, why):
        self.unknown_reasons.append("line %s: %s" % (getattr(node, "lineno", "?"), why))
        return "Unknown"

    def self_method_calls(self, node):
        """self.<m>(...) calls (m a method of this class) occurring in an expression, in evaluation order (approx.)"""
        out = []
        for n in ast.walk(node):
            if isinstance(n, ast.Call) and is_self_attr(n.func) and n.func.attr in self.methods:
                out.append(n.func.attr)
        return out

    def expr_effect(self, node, depth):
        """skeleton of evaluating an expression (or expression statement)"""
        if node is None:
            return "Skip"
        if is_numba_call(node, "set_num_threads"):
            arg = node.args[0] if node.args else None
            if arg is not None and is_self_attr(arg, THREAD_ATTR):
                return "Restore"
            if arg is not None and contains_thread_op(arg):
                return self.unknown(node, "set_num_threads of a nested thread expression")
            return "(Seq Call SetThreads)"
        if contains_thread_op(node):
            return self.unknown(node, "thread operation in an unsupported position")
        parts = []
        for m in self.self_method_calls(node):
            parts.append(self.inline(m, depth, node))
        if contains_call(node) and not parts:
            parts.append("Call")
        elif contains_call(node):
            parts.append("Call")
        return self.seq(parts)

    def inline(self, name, depth, node):
        if depth <= 0:
            return self.unknown(node, "method inlining too deep at %s" % name)
        body = self.block(self.methods[name].body, depth - 1)
        # a Return inside the callee ends the callee only
        return "(TryExcept (TryFinally %s Skip) Raise)" % body if False else self.fold_return(body)

    @staticmethod
    def fold_return(body):
        # [Returned] outcome of the callee must become Normal in the caller.  Skel has no
        # construct for that, so the callee body is wrapped so that Return cannot escape:
        # encode 'callee' as Choice over the body with Return replaced by a jump to the end is
        # not expressible; instead the translator REWRITES the callee: every 'Return' that is
        # the last statement of its block is dropped, any other Return makes the inlining Unknown.
        return body

    def stmt(self, node, depth):
        if isinstance(node, (ast.FunctionDef, ast.AsyncFunctionDef, ast.ClassDef, ast.Pass, ast.Delete, ast.Import, ast.ImportFrom,
                             ast.Global, ast.Nonlocal)):
            return "Skip"
        if isinstance(node, ast.Expr):
            if isinstance(node.value, ast.Constant):
                return "Skip"
            return self.expr_effect(node.value, depth)
        if isinstance(node, (ast.Assign, ast.AugAssign, ast.AnnAssign)):
            value = node.value
            targets = node.targets if isinstance(node, ast.Assign) else [node.target]
            if value is not None and is_numba_call(value, "get_num_threads"):
                if len(targets) == 1 and is_self_attr(targets[0], THREAD_ATTR):
                    return "Capture"
                return self.unknown(node, "thread count saved somewhere else than self.%s" % THREAD_ATTR)
            for t in targets:
                if is_self_attr(t, THREAD_ATTR):
                    return self.unknown(node, "self.%s assigned from something else" % THREAD_ATTR)
            parts = [self.expr_effect(value, depth)] if value is not None else []
            for t in targets:
                if contains_call(t):
                    parts.append("Call")
            return self.seq(parts)
        if isinstance(node, ast.Return):
            return self.seq([self.expr_effect(node.value, depth), "Return"])
        if isinstance(node, ast.Raise):
            return self.seq([self.expr_effect(node.exc, depth) if node.exc is not None else "Skip", "Raise"])
        if isinstance(node, ast.If):
            test = self.expr_effect(node.test, depth)
            return self.seq([test, "(Choice %s %s)" % (self.block(node.body, depth), self.block(node.orelse, depth))])
        if isinstance(node, (ast.For, ast.While, ast.AsyncFor)):
            if contains_thread_op(node) or any(self.self_method_calls(n) for n in ast.walk(node) if isinstance(n, ast.expr)):
                inner = [n for n in ast.walk(node) if isinstance(n, ast.Call) and is_self_attr(n.func) and n.func.attr in self.methods
                         and contains_thread_op(self.methods[n.func.attr])]
                if contains_thread_op(node) or inner:
                    return self.unknown(node, "thread operation inside a loop")
            parts = ["Call"]
            if any(isinstance(n, ast.Return) for n in ast.walk(node)):
                parts.append("(Choice Return Skip)")
            if any(isinstance(n, ast.Raise) for n in ast.walk(node)):
                parts.append("(Choice Raise Skip)")
            return self.seq(parts)
        if isinstance(node, (ast.With, ast.AsyncWith)):
            return self.seq(["Call", self.block(node.body, depth)])
        if isinstance(node, ast.Try):
            body = self.block(node.body, depth)
            if node.handlers:
                hs = [self.block(h.body, depth) for h in node.handlers]
                handler = hs[-1]
                for h in reversed(hs[:-1]):
                    handler = "(Choice %s %s)" % (h, handler)
                # an exception may also match no handler: it propagates
                handler = "(Choice %s Raise)" % handler
                body = "(TryExcept %s %s)" % (body, handler)
            if node.orelse:
                body = self.seq([body, self.block(node.orelse, depth)])
            if node.finalbody:
                body = "(TryFinally %s %s)" % (body, self.block(node.finalbody, depth))
            return body
        if isinstance(node, ast.Assert):
            return "(Choice Raise Skip)"
        return self.unknown(node, "unsupported statement %s" % type(node).__name__)

    def block(self, stmts, depth):
        return self.seq([self.stmt(s, depth) for s in stmts])

    def method(self, name):
        self.unknown_reasons = []
        node = self.methods[name]
        body = list(node.body)
        return self.block(body, 3), list(self.unknown_reasons)


def inline_safe(translator, name):
    """a callee can be inlined only if Return occurs at most as the very last statement of its body"""
    node = translator.methods[name]
    rets = [n for n in ast.walk(node) if isinstance(n, ast.Return)]
    nested_defs = [n for n in ast.walk(node) if isinstance(n, (ast.FunctionDef, ast.Lambda)) and n is not node]
    inner_rets = set()
    for d in nested_defs:
        for n in ast.walk(d):
            if isinstance(n, ast.Return):
                inner_rets.add(id(n))
    rets = [r for r in rets if id(r) not in inner_rets]
    if not rets:
        return True
    return len(rets) == 1 and node.body and rets[0] is node.body[-1]


def translate_source(src, classes=("NNDescent", "PyNNDescentTransformer")):
    tree = ast.parse(src)
    out = {}
    for n in tree.body:
        if isinstance(n, ast.ClassDef) and n.name in classes:
            tr = Translator(n)
            # make inlining fail closed when a callee has an early return
            orig_inline = tr.inline

            def inline(name, depth, node, tr=tr, orig_inline=orig_inline):
                if not inline_safe(tr, name):
                    if contains_thread_op(tr.methods[name]) or any(
                            contains_thread_op(tr.methods[m]) for m in tr.self_method_calls(tr.methods[name]) if m in tr.methods):
                        return tr.unknown(node, "callee %s has an early return and touches threads" % name)
                    return "Call"
                body = tr.block([s for s in tr.methods[name].body if not isinstance(s, ast.Return)], depth - 1) if depth > 0 else tr.unknown(node, "too deep")
                return body
            tr.inline = inline
            for m in tr.methods:
                term, reasons = tr.method(m)
                out["%s.%s" % (n.name, m)] = (term, reasons)
    return out


def emit_coq(skels, path):
    lines = ["(* GENERATED on every run by harness/skel/translate.py from /repo's source. *)",
             "From Coq Require Import ZArith List Bool.", "From PV Require Import Skel C19Proofs.", "Import ListNotations.", ""]
    names = []
    for k, (term, reasons) in sorted(skels.items()):
        ident = "skel_" + k.replace(".", "_")
        names.append((k, ident))
        lines.append("Definition %s : stmt := %s." % (ident, term))
    lines.append("")
    for k, ident in names:
        lines.append('Eval vm_compute in (restores_chk %s).' % ident)
    open(path, "w").write("\n".join(lines) + "\n")
    return names


def emit_theorems(names_ok, path):
    lines = ["(* GENERATED: per-run theorems for the skeletons the checker accepted. *)",
             "From Coq Require Import ZArith List Bool.", "From PV Require Import Skel C19Proofs.", "Require Import SkelGen.", ""]
    for k, ident in names_ok:
        lines.append("Theorem %s_restores : forall t0 s0 nj oracle, fst (snd (fst (exec nj %s oracle (t0, s0)))) = t0." % (ident, ident))
        lines.append("Proof. intros. apply restores_chk_sound. vm_compute. reflexivity. Qed.")
    open(path, "w").write("\n".join(lines) + "\n")


# self-test corpus: tiny snippets with known verdicts
SELFTEST = [
    ("""
class NNDescent:
    def m(self):
        self._original_num_threads = numba.get_num_threads()
        numba.set_num_threads(self.n_jobs)
        work()
        numba.set_num_threads(self._original_num_threads)
""", "NNDescent.m", False),
    ("""
class NNDescent:
    def m(self):
        self._original_num_threads = numba.get_num_threads()
        try:
            if self.n_jobs != -1 and self.n_jobs is not None:
                numba.set_num_threads(self.n_jobs)
            work()
            if bad():
                raise ValueError("x")
        finally:
            numba.set_num_threads(self._original_num_threads)
""", "NNDescent.m", True),
    ("""
class NNDescent:
    def m(self):
        numba.set_num_threads(self.n_jobs)
        numba.set_num_threads(self._original_num_threads)
""", "NNDescent.m", False),
    ("""
class NNDescent:
    def inner(self):
        self._original_num_threads = numba.get_num_threads()
        try:
            numba.set_num_threads(self.n_jobs)
            work()
        finally:
            numba.set_num_threads(self._original_num_threads)
    def outer(self):
        self._original_num_threads = numba.get_num_threads()
        try:
            numba.set_num_threads(self.n_jobs)
            self.inner()
        finally:
            numba.set_num_threads(self._original_num_threads)
""", "NNDescent.outer", False),
    ("""
class NNDescent:
    def m(self):
        x = compute()
        for i in range(3):
            if x:
                return 1
        return 2
""", "NNDescent.m", True),
    ("""
class NNDescent:
    def m(self):
        saved = numba.get_num_threads()
        numba.set_num_threads(2)
        numba.set_num_threads(saved)
""", "NNDescent.m", False),
]
