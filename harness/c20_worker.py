"""c20_worker.py — runs connect_graph cases in a separate process (line protocol: one
JSON case per input line, one JSON result per output line) so that the check can put a
watchdog on every call: a call that never returns is killed by the parent and reported
with its input."""
import json
import sys
import warnings

import numpy as np


def make_data(spec):
    rs = np.random.RandomState(spec["seed"])
    dim = spec["dim"]
    blocks = []
    for ci, size in enumerate(spec["sizes"]):
        if spec["layout"] == "categorical":
            # tie-heavy data: members of a cluster are a prototype with two columns changed
            proto = rs.randint(0, 5, size=dim) + 7 * ci
            pts = np.tile(proto, (size, 1)).astype(np.float64)
            for r in range(size):
                cols = rs.choice(dim, 2, replace=False)
                pts[r, cols] = rs.randint(0, 5, size=2) + 7 * ci
        elif spec["layout"] == "directions":
            center = rs.uniform(0.05, 1.0, size=dim)
            center[ci % dim] += 3.0
            center = center * rs.uniform(1.0, 4.0)
            pts = center + rs.uniform(-0.03, 0.03, size=(size, dim)) * np.linalg.norm(center)
            pts = np.abs(pts) + 1e-3
        else:
            center = rs.uniform(-1, 1, size=dim) * spec["spread"]
            center[ci % dim] += spec["spread"] * (ci + 1)
            pts = center + rs.normal(size=(size, dim))
            if spec.get("positive"):
                pts = np.abs(pts) + 1e-3
        blocks.append(pts)
    X = np.vstack(blocks).astype(np.float32)
    perm = rs.permutation(X.shape[0])
    return X[perm]


def analyse(graph, result, X, metric, reported):
    from scipy.sparse.csgraph import connected_components, breadth_first_order
    n = graph.shape[0]
    out = dict(n=n, problems=[])
    g = graph.tocsr()
    r = result.tocsr()
    r.sort_indices()
    ncomp, comp = connected_components(g)
    out["n_components"] = int(ncomp)
    out["component_sizes"] = sorted(np.bincount(comp).tolist())
    if r.shape != g.shape:
        out["problems"].append("result shape %s differs from input shape %s" % (r.shape, g.shape))
        return out
    gd = g.todok()
    rd = r.todok()
    # supergraph
    for (i, j), v in gd.items():
        if v != 0 and rd.get((i, j), 0) != v:
            out["problems"].append("input edge (%d,%d)=%r is %r in the result" % (i, j, float(v), float(rd.get((i, j), 0))))
            break
    added = []
    for (i, j), v in rd.items():
        if v != 0 and gd.get((i, j), 0) == 0:
            added.append((int(i), int(j), float(v)))
    out["added"] = len(added)
    for i, j, v in added:
        if comp[i] == comp[j]:
            out["problems"].append("added edge (%d,%d) joins two points of the same component" % (i, j))
            break
    for i, j, v in added:
        ref = reported(X[i].astype(np.float64), X[j].astype(np.float64))
        # hellinger = sqrt(1 - r): one float32 ulp of r near 1 moves the result by ~3.5e-4 (same allowance as C08/C09)
        if not (abs(v - ref) <= 2e-3 * max(abs(ref), 1e-3) + (5e-4 if metric == "hellinger" else 1e-5)):
            out["problems"].append("added edge (%d,%d) has weight %r, the %s distance of the two points is %r" % (i, j, v, metric, ref))
            break
    # certificate inputs for the extracted checkers
    coo = r.tocoo()
    edges = [(int(a), int(b)) for a, b, v in zip(coo.row, coo.col, coo.data) if v != 0]
    out["edges"] = edges
    order, pred = breadth_first_order(r, 0, directed=False, return_predecessors=True)
    depth = [0] * n
    parent = [0] * n
    for v in order:
        p = int(pred[v])
        if p >= 0:
            parent[int(v)] = p
            depth[int(v)] = depth[p] + 1
    out["parent"] = parent
    out["depth"] = depth
    out["result_components"] = int(connected_components(r)[0])
    return out


def run_case(spec):
    from pynndescent import NNDescent
    from pynndescent import graph_utils
    from harness import refmetrics
    X = make_data(spec)
    kw = dict(metric=spec["metric"], n_neighbors=spec["k"], random_state=spec["seed"] % 10007, tree_init=spec["tree_init"], n_jobs=1)
    res = dict(id=spec["id"], stages=[])
    with warnings.catch_warnings():
        warnings.simplefilter("ignore")
        index = NNDescent(X, **kw)
        index.prepare()
        reported = refmetrics.REPORTED[spec["metric"]]
        stages = [("build", X)]
        if spec.get("update"):
            stages.append(("update", None))
        for name, _ in stages:
            if name == "update":
                rs = np.random.RandomState(spec["seed"] + 1)
                extra = make_data(dict(spec, seed=spec["seed"] + 7, sizes=spec["update_sizes"]))
                extra = extra + np.float32(spec.get("update_shift", 0.0))
                if spec.get("positive") or spec["layout"] == "directions":
                    extra = np.abs(extra) + np.float32(1e-3)
                index.update(xs_fresh=extra)
                index.prepare()
                X = np.vstack([X, extra])
            ind, dist = index.neighbor_graph
            graph = graph_utils.adjacency_matrix_representation(ind.copy(), dist.copy())
            gcopy = graph.copy()
            print(json.dumps(dict(id=spec["id"], progress=name, n=int(X.shape[0]))), flush=True)
            result = graph_utils.connect_graph(graph, index, search_size=spec["search_size"], n_jobs=spec.get("n_jobs"))
            st = analyse(gcopy, result, X, spec["metric"], reported)
            st["stage"] = name
            res["stages"].append(st)
    return res


def main():
    sys.path.insert(0, "/verif")
    for line in sys.stdin:
        line = line.strip()
        if not line:
            continue
        spec = json.loads(line)
        try:
            out = run_case(spec)
        except Exception as e:  # reported to the parent, which decides
            import traceback
            out = dict(id=spec["id"], error="%s: %s" % (type(e).__name__, str(e)[:300]), tb=traceback.format_exc()[-1500:])
        print(json.dumps(out), flush=True)


if __name__ == "__main__":
    main()
