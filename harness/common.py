"""common.py — shared machinery of the /verif checks.

Everything here is glue: building the Coq development and the extracted OCaml
driver, running the driver, float32 <-> order-key conversion, evidence and
replay files, the verdict protocol (DESIGN.md section 5).
"""
import fcntl
import glob
import hashlib
import json
import os
import random
import re
import shutil
import subprocess
import sys
import time

VERIF = os.path.dirname(os.path.dirname(os.path.abspath(__file__)))   # /verif (or a snapshot of it)
REPO = os.environ.get("VERIF_REPO", "/repo")   # scratch worktrees for mutation self-tests only
OUT = os.environ.get("VERIF_OUT", VERIF)        # where evidence/ and replays/ are written
COQ = os.path.join(VERIF, "coq")
OCAML = os.path.join(VERIF, "ocaml")
SCRATCH = os.path.join(VERIF, ".scratch")
INF_KEY = 0x7F800000  # order key of float32 +inf

ALLOWED_AXIOMS = {
    # standard-library axioms that may legitimately appear (named in the trusted base)
    "ClassicalDedekindReals.sig_forall_dec",
    "ClassicalDedekindReals.sig_not_dec",
    "FunctionalExtensionality.functional_extensionality_dep",
    "Classical_Prop.classic",
}

FORBIDDEN_RE = re.compile(
    r"\b(Admitted|admit|Axiom|Axioms|Parameter|Parameters|Conjecture|Conjectures|"
    r"Admit Obligations|Unset Guard Checking|Unset Positivity Checking|"
    r"Unset Universe Checking|bypass_check|native_compute)\b"
)


# --------------------------------------------------------------------------
# float32 <-> order key

def f32_keys(arr):
    """numpy float32 array -> python list of order keys (ints); NaN -> None."""
    import numpy as np
    a = np.ascontiguousarray(arr, dtype=np.float32)
    bits = a.view(np.uint32).astype(np.int64)
    mag = bits & 0x7FFFFFFF
    key = np.where(bits >> 31 == 0, mag, -mag)
    out = key.tolist()
    nan = (mag > INF_KEY)
    if nan.any():
        flat = key.ravel().tolist()
        nanf = nan.ravel().tolist()
        flat = [None if n else k for k, n in zip(flat, nanf)]
        import numpy as _np
        return _np.array(flat, dtype=object).reshape(a.shape).tolist()
    return out


def keys_f32(keys):
    """list (possibly nested) of order keys -> numpy float32 array."""
    import numpy as np
    k = np.asarray(keys, dtype=np.int64)
    bits = np.where(k >= 0, k, (-k) | 0x80000000).astype(np.uint32)
    return bits.view(np.float32)


def key_of_float(x):
    import numpy as np
    return f32_keys(np.array([x], dtype=np.float32))[0]


# --------------------------------------------------------------------------
# building

def _run(cmd, cwd=None, timeout=1800, env=None):
    p = subprocess.run(cmd, cwd=cwd, shell=isinstance(cmd, str), stdout=subprocess.PIPE,
                       stderr=subprocess.STDOUT, timeout=timeout, env=env, text=True)
    return p.returncode, p.stdout


class BuildLock:
    def __enter__(self):
        os.makedirs(SCRATCH, exist_ok=True)
        self.f = open(os.path.join(SCRATCH, "build.lock"), "w")
        fcntl.flock(self.f, fcntl.LOCK_EX)
        return self

    def __exit__(self, *a):
        fcntl.flock(self.f, fcntl.LOCK_UN)
        self.f.close()


def coq_files():
    out = []
    for line in open(os.path.join(COQ, "_CoqProject")):
        line = line.strip()
        if line.endswith(".v"):
            out.append(line)
    return out


def scan_forbidden():
    """grep the development for forbidden declarations / switches."""
    hits = []
    for rel in sorted(set(coq_files()) | {os.path.relpath(p, COQ) for p in glob.glob(COQ + "/**/*.v", recursive=True)}):
        path = os.path.join(COQ, rel)
        if not os.path.exists(path):
            continue
        src = open(path).read()
        # strip comments (non-nested is enough for our files; nested handled by loop)
        prev = None
        while prev != src:
            prev = src
            src = re.sub(r"\(\*[^*(]*(?:\*(?!\))[^*(]*|\((?!\*)[^*(]*)*\*\)", " ", src)
        for m in FORBIDDEN_RE.finditer(src):
            hits.append("%s: %s" % (rel, m.group(0)))
    return hits


def build_coq(jobs=16):
    """full .vo build of the Coq project (incremental); returns (ok, log)."""
    with BuildLock():
        if not os.path.exists(os.path.join(COQ, "Makefile")) or \
                os.path.getmtime(os.path.join(COQ, "Makefile")) < os.path.getmtime(os.path.join(COQ, "_CoqProject")):
            rc, out = _run("coq_makefile -f _CoqProject -o Makefile", cwd=COQ)
            if rc != 0:
                return False, out
        rc, out = _run("timeout 1500 make -j%d 2>&1" % jobs, cwd=COQ, timeout=1600)
        ok = rc == 0
        if ok:
            rc2, out2 = build_driver()
            ok = rc2 == 0
            out += out2
        return ok, out


def build_driver():
    ml = os.path.join(OCAML, "model.ml")
    drv = os.path.join(OCAML, "driver")
    src = os.path.join(OCAML, "driver.ml")
    if os.path.exists(drv) and os.path.getmtime(drv) >= max(os.path.getmtime(ml), os.path.getmtime(src)):
        return 0, ""
    return _run("timeout 300 ocamlfind ocamlopt -w -a -package str model.mli model.ml driver.ml -o driver 2>&1",
                cwd=OCAML)


def compile_props(pid):
    """(re)compile props/<pid>.v on its own to capture Print Assumptions output.
    Returns dict(ok, log, theorems, axioms, closed)"""
    rel = "props/%s.v" % pid
    path = os.path.join(COQ, rel)
    if not os.path.exists(path):
        return dict(ok=False, log="missing " + rel, theorems=[], axioms=[], closed=0)
    with BuildLock():
        rc, out = _run("timeout 900 coqc -Q model PV -Q proofs PV -Q props PV -Q extract PV -Q gen PV %s 2>&1" % rel,
                       cwd=COQ, timeout=1000)
    out = "\n".join(l for l in out.splitlines() if "cannot-open-path" not in l and "Cannot open" not in l)
    src = open(path).read()
    theorems = re.findall(r"^\s*(?:Theorem|Lemma|Corollary|Example)\s+([A-Za-z0-9_']+)", src, re.M)
    closed = len(re.findall(r"Closed under the global context", out))
    axioms = []
    for block in re.findall(r"Axioms:\n((?:.+\n?)+?)(?=\n\S|\Z)", out):
        for m in re.finditer(r"^([A-Za-z0-9_.']+)\s*:", block, re.M):
            if m.group(1) != "Axioms":
                axioms.append(m.group(1))
    return dict(ok=(rc == 0), log=out, theorems=theorems, axioms=sorted(set(axioms)), closed=closed)


def count_qed(files):
    n = 0
    names = []
    for rel in files:
        path = os.path.join(COQ, rel)
        if not os.path.exists(path):
            continue
        src = open(path).read()
        n += len(re.findall(r"\bQed\.", src))
        names += re.findall(r"^\s*(?:Theorem|Lemma|Corollary|Example)\s+([A-Za-z0-9_']+)", src, re.M)
    return n, names


# --------------------------------------------------------------------------
# extracted-model driver

def run_driver(lines, timeout=1800):
    """feed case lines to the extracted model; returns list of result strings."""
    drv = os.path.join(OCAML, "driver")
    data = "\n".join(lines) + "\n"
    p = subprocess.run(["/bin/sh", "-c", "ulimit -s unlimited 2>/dev/null; exec %s" % drv], input=data,
                       stdout=subprocess.PIPE, stderr=subprocess.PIPE, text=True, timeout=timeout)
    out = p.stdout.split("\n")
    if out and out[-1] == "":
        out.pop()
    if p.returncode != 0 or len(out) != len(lines):
        raise RuntimeError("driver failed rc=%s lines=%d/%d err=%s" % (p.returncode, len(out), len(lines), p.stderr[:500]))
    return [o.strip() for o in out]


def fmt(xs):
    return " ".join(str(int(x)) for x in xs)


# --------------------------------------------------------------------------
# source sentinels

def func_digests(relpath, names=None):
    """digest of the normalised ast of each top-level function / method in a /repo file"""
    import ast
    path = os.path.join(REPO, relpath)
    tree = ast.parse(open(path).read())
    out = {}

    def strip(node):
        for n in ast.walk(node):
            if isinstance(n, (ast.FunctionDef, ast.ClassDef, ast.Module, ast.AsyncFunctionDef)):
                if n.body and isinstance(n.body[0], ast.Expr) and isinstance(getattr(n.body[0], "value", None), ast.Constant) \
                        and isinstance(n.body[0].value.value, str):
                    n.body = n.body[1:] or [ast.Pass()]
        return node

    def visit(node, prefix):
        for n in node.body:
            if isinstance(n, ast.FunctionDef):
                nm = prefix + n.name
                out[nm] = hashlib.sha1(ast.dump(strip(n)).encode()).hexdigest()[:16]
            elif isinstance(n, ast.ClassDef):
                visit(n, prefix + n.name + ".")
    visit(tree, "")
    if names is not None:
        out = {k: v for k, v in out.items() if k in names}
    return out


def sentinel_status(pid, spec):
    """spec: {relpath: [function names]} -> (changed list, digests)"""
    store = os.path.join(VERIF, "harness", "sentinels.json")
    known = json.load(open(store)) if os.path.exists(store) else {}
    cur = {}
    for rel, names in spec.items():
        try:
            d = func_digests(rel, set(names))
        except Exception as e:  # unparsable source: everything "changed"
            d = {n: "unparsable:%s" % type(e).__name__ for n in names}
        for n in names:
            cur["%s::%s" % (rel, n)] = d.get(n, "missing")
    changed = [k for k, v in cur.items() if known.get(k) not in (None, v)]
    unknown = [k for k, v in cur.items() if k not in known]
    return changed, unknown, cur


def update_sentinels(cur):
    if REPO != "/repo":        # mutation self-tests run against scratch trees: never baseline from those
        return
    store = os.path.join(VERIF, "harness", "sentinels.json")
    known = json.load(open(store)) if os.path.exists(store) else {}
    known.update(cur)
    json.dump(known, open(store, "w"), indent=1, sort_keys=True)


# --------------------------------------------------------------------------
# known findings

def load_known_findings():
    path = os.path.join(VERIF, "KNOWN_FINDINGS.jsonl")
    out = []
    if os.path.exists(path):
        for line in open(path):
            line = line.strip()
            if line and not line.startswith("#"):
                out.append(json.loads(line))
    return out


# --------------------------------------------------------------------------
# breadcrumbs and verdict files (crash / hang survival, see run.py)

def _state_dir():
    d = os.path.join(OUT, ".scratch", "state")
    os.makedirs(d, exist_ok=True)
    return d


def crumb(pid, obj):
    """record the input about to be handed to the implementation"""
    with open(os.path.join(_state_dir(), "%s.crumb.json" % pid), "w") as f:
        json.dump(obj, f, default=str)


def read_crumb(pid):
    p = os.path.join(_state_dir(), "%s.crumb.json" % pid)
    if os.path.exists(p):
        try:
            return json.load(open(p))
        except Exception:
            return None
    return None


def clear_crumb(pid):
    p = os.path.join(_state_dir(), "%s.crumb.json" % pid)
    if os.path.exists(p):
        os.remove(p)


def write_verdict(pid, rc):
    with open(os.path.join(_state_dir(), "%s.verdict" % pid), "w") as f:
        f.write(str(rc))


def read_verdict(pid):
    p = os.path.join(_state_dir(), "%s.verdict" % pid)
    if os.path.exists(p):
        try:
            return int(open(p).read().strip())
        except Exception:
            return None
    return None


def clear_verdict(pid):
    p = os.path.join(_state_dir(), "%s.verdict" % pid)
    if os.path.exists(p):
        os.remove(p)


# --------------------------------------------------------------------------
# check context / verdict protocol

class Ctx:
    def __init__(self, pid, tier, seed):
        self.pid = pid
        self.tier = tier
        self.seed = seed
        self.rng = random.Random(seed)
        self.t0 = time.time()
        self.violations = []       # dicts: key, what, replay(obj), found_input(bool)
        self.streams = []          # per-stream coverage dicts
        self.samples = []
        self.evaluations = 0
        self.nontrivial = set()
        self.assumptions = []
        self.trusted = []
        self.proof = None
        self.notes = {}
        self.level = "proof"
        self.coq_files_for_prop = []
        self.known = [k for k in load_known_findings() if k.get("property") == pid]
        self.sentinels_changed = []
        self.thorough = (tier == "thorough")

    # ---- budgets
    def budget(self, quick, thorough):
        if self.thorough:
            return thorough
        if self.sentinels_changed:
            # the code this property is anchored in changed since the baseline: look harder,
            # but stay within what a per-change run can afford
            return min(thorough, 3 * quick)
        return quick

    # ---- proof side
    def build(self, files):
        """files: the Coq files (relative to coq/) this property's theorems live in / depend on."""
        self.coq_files_for_prop = files
        forb = scan_forbidden()
        ok, log = build_coq()
        pr = compile_props(self.pid) if ok else dict(ok=False, log=log[-3000:], theorems=[], axioms=[], closed=0)
        nq, names = count_qed(files + ["props/%s.v" % self.pid])
        bad_ax = [a for a in pr["axioms"] if a not in ALLOWED_AXIOMS]
        self.proof = dict(build_ok=ok, props_ok=pr["ok"], forbidden=forb, qed=nq, lemma_names=names,
                          prop_theorems=pr["theorems"], axioms=pr["axioms"], closed=pr["closed"],
                          log_tail=(log if not ok else pr["log"])[-2000:])
        if forb:
            self.violation("forbidden-construct", "forbidden declaration or switch in the Coq development: %s" % forb[:5],
                           dict(forbidden=forb), found_input=False)
        if not ok or not pr["ok"]:
            self.violation("proof-broken", "the Coq development or props/%s.v no longer compiles" % self.pid,
                           dict(theorem_file="coq/props/%s.v" % self.pid, log=self.proof["log_tail"]), found_input=False)
        if bad_ax:
            self.violation("axiom", "theorem depends on non-whitelisted axioms %s" % bad_ax,
                           dict(axioms=bad_ax), found_input=False)
        return ok and pr["ok"]

    # ---- coverage accounting
    def count(self, n=1, nontrivial_keys=()):
        self.evaluations += n
        for k in nontrivial_keys:
            self.nontrivial.add(k)

    def sample(self, obj, limit=6):
        if len(self.samples) < limit:
            self.samples.append(obj)

    def stream(self, name, **kw):
        d = dict(name=name)
        d.update(kw)
        self.streams.append(d)

    def crumb(self, obj):
        crumb(self.pid, obj)

    # ---- violations
    def violation(self, key, what, replay, found_input=True):
        self.violations.append(dict(key=key, what=what, replay=replay, found_input=found_input))

    def has_violation(self, key_prefix):
        return any(v["key"].startswith(key_prefix) for v in self.violations)

    def finish(self):
        wall = time.time() - self.t0
        os.makedirs(os.path.join(OUT, "replays"), exist_ok=True)
        os.makedirs(os.path.join(OUT, "evidence"), exist_ok=True)
        for old in glob.glob(os.path.join(OUT, "replays", "%s-*.json" % self.pid)):
            os.remove(old)
        lines = []
        n_viol = 0
        known_keys = {k["key"]: k for k in self.known if k.get("status", "known") == "known"}
        seen_known = set()
        # a proof/correspondence break accompanied by a concrete failing input is
        # reported through that input; generic entries are dropped in that case
        concrete = [v for v in self.violations if v["found_input"]]
        generic = [v for v in self.violations if not v["found_input"]]
        report = []
        for v in concrete:
            report.append(v)
        for v in generic:
            # a generic break is explained by a concrete violation only if it names it
            expl = v.get("explained_by")
            if expl and any(c["key"] == expl for c in concrete):
                continue
            report.append(v)
        emitted = set()
        for v in report:
            if v["key"] in emitted:
                continue
            if v["key"] not in known_keys:
                emitted.add(v["key"])
            if v["key"] in known_keys:
                if v["key"] not in seen_known:
                    seen_known.add(v["key"])
                    lines.append("KNOWN-FINDING: property=%s %s" % (self.pid, known_keys[v["key"]].get("what", v["what"])))
                continue
            n_viol += 1
            h = hashlib.sha1(json.dumps([v["key"], v["what"]], sort_keys=True, default=str).encode()).hexdigest()[:10]
            rp = os.path.join(OUT, "replays", "%s-%s.json" % (self.pid, h))
            json.dump(dict(property=self.pid, key=v["key"], what=v["what"], failing_input_found=v["found_input"],
                           replay=v["replay"], tier=self.tier, seed=self.seed,
                           how_to_rerun="cd /verif && VERIF_SEED=%d ./check %s --tier %s" % (self.seed, self.pid, self.tier)),
                      open(rp, "w"), indent=1, default=str)
            suffix = "" if v["found_input"] else " no-failing-input-found"
            lines.append("VIOLATION property=%s replay=%s%s" % (self.pid, rp, suffix))
        # known findings that did NOT reproduce are worth a note (not an alarm)
        for k in known_keys:
            if k not in seen_known:
                self.notes.setdefault("known_findings_not_reproduced", []).append(k)
        pr = self.proof or {}
        cov = dict(
            obligations=pr.get("qed", 0),
            discharged=pr.get("qed", 0) if (pr.get("build_ok") and pr.get("props_ok")) else 0,
            checker_cmd="cd /verif/coq && coq_makefile -f _CoqProject -o Makefile && make -j16 && coqc props/%s.v (Print Assumptions)" % self.pid,
            trusted_base=self.trusted,
            evaluations=self.evaluations,
            distinct_nontrivial=len(self.nontrivial),
            rule=self.notes.get("rule", ""),
            samples=self.samples if self.samples else [dict(note="no correspondence sample")],
            property_theorems=pr.get("prop_theorems", []),
            axioms=pr.get("axioms", []),
            theorems_closed_under_global_context=pr.get("closed", 0),
            coq_files=self.coq_files_for_prop,
            streams=self.streams,
            sentinels_changed=self.sentinels_changed,
            notes=self.notes,
            known_findings_reported=sorted(seen_known),
            explanation=self.notes.get("explanation", "see streams / notes"),
        )
        ev = dict(property_id=self.pid, tier=self.tier, seed=self.seed, level=self.level, coverage=cov,
                  assumptions=self.assumptions, wall_s=round(wall, 2), violations=n_viol)
        evp = os.path.join(OUT, "evidence", "%s.json" % self.pid)
        json.dump(ev, open(evp, "w"), indent=1, default=str)
        validate_evidence(evp)
        for l in lines:
            print(l)
        print("%s property=%s tier=%s evaluations=%d nontrivial=%d qed=%d wall=%.1fs" % (
            "PASS" if n_viol == 0 else "FAIL", self.pid, self.tier, self.evaluations, len(self.nontrivial),
            pr.get("qed", 0), wall))
        sys.stdout.flush()
        return 0 if n_viol == 0 else 1


def validate_evidence(path):
    """validate against the schema with python3-vt's jsonschema when available (best effort)."""
    schema = "/root/.vp/EVIDENCE.schema.json"
    if not (os.path.exists(schema) and shutil.which("python3-vt")):
        return
    code = ("import json,sys,jsonschema;"
            "jsonschema.validate(json.load(open(sys.argv[1])),json.load(open(sys.argv[2])))")
    p = subprocess.run(["python3-vt", "-c", code, path, schema], stdout=subprocess.PIPE, stderr=subprocess.STDOUT, text=True)
    if p.returncode != 0:
        print("EVIDENCE-INVALID %s: %s" % (path, p.stdout[-400:]))


# --------------------------------------------------------------------------
# environment for importing the implementation

def source_hash():
    h = hashlib.sha1()
    for p in sorted(glob.glob(REPO + "/pynndescent/*.py")):
        h.update(p.encode())
        h.update(open(p, "rb").read())
    return h.hexdigest()[:16]


def setup_impl_env():
    """Called by run.py BEFORE numba is imported: per-source-hash numba cache
    (a cache entry can never be reused across different sources)."""
    os.makedirs(SCRATCH, exist_ok=True)
    tag = source_hash()
    cache = os.path.join(SCRATCH, "numba-" + tag)
    for old in glob.glob(os.path.join(SCRATCH, "numba-*")):
        if old != cache and REPO == "/repo" and time.time() - os.path.getmtime(old) > 6 * 3600:
            # keep at most the current one; another check may be using an old
            # one only if /repo changed under it, which the harness does not do
            shutil.rmtree(old, ignore_errors=True)
    os.makedirs(cache, exist_ok=True)
    os.environ["NUMBA_CACHE_DIR"] = cache
    os.environ.setdefault("PYTHONHASHSEED", "0")
    if REPO not in sys.path:
        sys.path.insert(0, REPO)
    return tag
