"""C06 — serialisation round-trips preserve the index exactly.

Theorems: coq/props/C06.v (load(save(s)) equals the prepared original on every field a
query reads; save leaves the original prepared and is idempotent; loaded copies are
consistent; rebinding agrees with __init__; the pinned dense rebinding of CSR indexes is
refuted).
Tie: (a) the metric binding the implementation derives (object identity against the four
tables of the source) is compared with the extracted model for every metric name, on
construction and after loading; (b) round trips at several points of an index's life,
dense / CSR / bit-packed, metrics with and without arguments and with surrogate distances,
compressed or not, pickle protocols and joblib: query answers of original-before,
original-after, loaded copy, re-saved copies and a copy loaded in a FRESH interpreter must
be identical arrays."""
import io
import os
import pickle
import shutil
import subprocess
import sys
import warnings

import numpy as np

from harness import common

COQ_FILES = ["model/Pickle.v", "proofs/C06Proofs.v"]
SENTINELS = {"pynndescent/pynndescent_.py": ["NNDescent.__getstate__", "NNDescent.__setstate__", "NNDescent._set_distance_func",
                                             "NNDescent._init_search_function", "NNDescent._init_sparse_search_function"],
             "pynndescent/rp_trees.py": ["denumbaify_tree", "renumbaify_tree"]}

CONFIGS = [  # (storage, metric, metric_kwds)
    ("dense", "euclidean", None), ("dense", "dot", None), ("csr", "euclidean", None), ("dense", "minkowski", {"p": 3.0}),
    ("bit", "bit_hamming", None), ("csr", "cosine", None), ("dense", "cosine", None), ("csr", "minkowski", {"p": 3.0}),
    ("dense", "hellinger", None), ("csr", "manhattan", None), ("bit", "bit_jaccard", None), ("dense", "correlation", None),
    ("dense", "canberra", None), ("csr", "hellinger", None), ("dense", "wminkowski", {"w": None, "p": 2.0}), ("csr", "jaccard", None),
    ("dense", "true_angular", None), ("csr", "dot", None), ("dense", "chebyshev", None), ("dense", "jaccard", None),
]

LOADER = r'''
import sys, pickle, numpy as np, warnings
warnings.simplefilter("ignore")
import joblib
d = sys.argv[1]
import json
todo = json.load(open(d + "/todo.json"))
out = {}
for item in todo:
    try:
        if item["kind"] == "joblib":
            idx = joblib.load(d + "/" + item["file"])
        else:
            idx = pickle.load(open(d + "/" + item["file"], "rb"))
        Q = pickle.load(open(d + "/" + item["query"], "rb"))
        i, dd = idx.query(Q, k=item["k"])
        out[item["file"]] = dict(ok=True, ind=i.tolist(), dist=[[float(x) for x in r] for r in dd])
    except Exception as e:
        out[item["file"]] = dict(ok=False, error="%s: %s" % (type(e).__name__, str(e)[:300]))
json.dump(out, open(d + "/result.json", "w"))
'''


def make_data(rs, storage, metric, n, dim):
    import scipy.sparse as sps
    if storage == "bit":
        return rs.randint(0, 256, size=(n, 8)).astype(np.uint8)
    X = rs.uniform(0.05, 3.0, size=(n, dim)).astype(np.float32)
    if storage == "csr":
        mask = rs.uniform(size=X.shape) < 0.55
        mask[:, 0] = True
        X = sps.csr_matrix(np.where(mask, X, 0).astype(np.float32))
    return X


def same(a, b):
    return a[0].shape == b[0].shape and np.array_equal(a[0], b[0]) and np.array_equal(a[1], b[1], equal_nan=True)


def bindings(ctx):
    """model vs implementation: which function object the index binds"""
    import pynndescent.distances as pd
    import pynndescent.sparse as sp
    from pynndescent import NNDescent
    names = sorted(set(pd.named_distances) | set(sp.sparse_named_distances))
    lines, metas = [], []
    for m in names:
        for sparse in (False, True):
            flags = [m in pd.named_distances, m in pd.fast_distance_alternatives, m in sp.sparse_named_distances,
                     m in sp.sparse_fast_distance_alternatives, False]
            lines.append("binding %d %s" % (1 if sparse else 0, " ".join("1" if f else "0" for f in flags)))
            metas.append((m, sparse))
    out = common.run_driver(lines)
    dis = 0
    for (m, sparse), o in zip(metas, out):
        init_b, load_b = [int(x) for x in o.split()]
        stub = NNDescent.__new__(NNDescent)
        stub.metric = m
        stub._dist_args = ()
        stub._is_sparse = sparse
        stub._distance_correction = None
        try:
            if sparse:
                if not hasattr(stub, "_set_sparse_distance_func"):
                    impl = "no-sparse-rebinding"
                else:
                    stub._set_sparse_distance_func()
                    impl = classify(stub._distance_func, m, pd, sp)
            else:
                stub._set_distance_func()
                impl = classify(stub._distance_func, m, pd, sp)
        except ValueError:
            impl = 5
        ctx.nontrivial.add(("binding", m, sparse))
        if impl != load_b:
            dis += 1
            if dis <= 2:
                ctx.violation("binding-corr", "metric %r (%s): the function re-bound on load is %s, the model says %s" %
                              (m, "CSR" if sparse else "dense", impl, load_b), dict(metric=m, sparse=sparse, implementation=impl, model=load_b), False)
    ctx.count(len(lines))
    ctx.stream("metric-binding", names=len(names), cases=len(lines), disagreements=dis)


def classify(f, m, pd, sp):
    if m in pd.fast_distance_alternatives and f is pd.fast_distance_alternatives[m]["dist"]:
        return 1
    if m in sp.sparse_fast_distance_alternatives and f is sp.sparse_fast_distance_alternatives[m]["dist"]:
        return 3
    if m in pd.named_distances and f is pd.named_distances[m]:
        return 0
    if m in sp.sparse_named_distances and f is sp.sparse_named_distances[m]:
        return 2
    return 9


def roundtrips(ctx, nconf):
    import joblib
    import pynndescent.distances as pd
    import pynndescent.sparse as sp
    from pynndescent import NNDescent
    rng = ctx.rng
    scratch = os.path.join(common.SCRATCH, "c06-%d" % os.getpid())
    shutil.rmtree(scratch, ignore_errors=True)
    os.makedirs(scratch)
    todo, expect = [], {}
    stats = dict(indexes=0, round_trips=0, cross_process=0, failures=0, build_errors=0)
    confs = CONFIGS[:nconf] if nconf <= len(CONFIGS) else CONFIGS + [rng.choice(CONFIGS) for _ in range(nconf - len(CONFIGS))]
    try:
        for ci, (storage, metric, kwds) in enumerate(confs):
            rs = np.random.RandomState(rng.randrange(10 ** 6))
            n, dim = rng.choice([120, 200]), 7
            X = make_data(rs, storage, metric, n, dim)
            Q = make_data(rs, storage, metric, 9, dim)
            # rows of the index itself (and, for float data, rescaled copies): exact zero distances are where a
            # mismatched correction shows
            import scipy.sparse as _sps
            if storage == "csr":
                Q = _sps.vstack([Q, X[:4], X[4:7] * 2.0]).tocsr().astype(np.float32)
            elif storage == "dense":
                Q = np.vstack([Q, X[:4], X[4:7] * np.float32(2.0)]).astype(np.float32)
            else:
                Q = np.vstack([Q, X[:4]])
            kw = dict(metric=metric, n_neighbors=6, random_state=rng.randrange(1000), tree_init=rng.choice([True, True, False]), n_jobs=1,
                      compressed=rng.choice([False, False, True]))
            if kwds:
                kk = dict(kwds)
                if "w" in kk:
                    kk["w"] = np.linspace(0.5, 2.0, dim).astype(np.float32)
                kw["metric_kwds"] = kk
            point = rng.choice(["fresh", "prepared", "queried", "updated"])
            if point == "updated" and (storage != "dense" or kw["compressed"]):
                point = "queried"
            proto = rng.choice([2, 3, 4, 5, "joblib"])
            desc = dict(storage=storage, metric=metric, metric_kwds=sorted((kwds or {}).keys()), n=n, kwargs={k: v for k, v in kw.items() if k != "metric_kwds"},
                        point=point, protocol=proto)
            ctx.crumb(dict(stream="roundtrips", config=desc))
            problems = []
            try:
                with warnings.catch_warnings():
                    warnings.simplefilter("ignore")
                    try:
                        idx = NNDescent(X, **kw)
                    except Exception as e:
                        stats["build_errors"] += 1
                        ctx.notes.setdefault("build_errors", []).append("%s/%s: %s" % (storage, metric, str(e)[:100]))
                        continue
                    if point in ("prepared",):
                        idx.prepare()
                    if point == "queried":
                        idx.query(Q, k=3)
                    if point == "updated":
                        idx.update(xs_fresh=make_data(rs, storage, metric, 11, dim))
                    stats["indexes"] += 1
                    # model's binding for this index, observed on the real object
                    f = idx._distance_func

                    def dump(obj):
                        b = io.BytesIO()
                        if proto == "joblib":
                            joblib.dump(obj, b)
                        else:
                            pickle.dump(obj, b, protocol=proto)
                        return b.getvalue()

                    def load(bs):
                        return joblib.load(io.BytesIO(bs)) if proto == "joblib" else pickle.load(io.BytesIO(bs))
                    blob = dump(idx)
                    a0 = idx.query(Q, k=5)           # original, after the first save
                    copy1 = load(blob)
                    a1 = copy1.query(Q, k=5)
                    stats["round_trips"] += 1
                    if not same(a0, a1):
                        problems.append("the loaded copy answers differently from the original (%d of %d rows differ)" %
                                        (int((a0[0] != a1[0]).any(axis=1).sum()), a0[0].shape[0]))
                    if not kwds and classify(copy1._distance_func, metric, pd, sp) != classify(f, metric, pd, sp):
                        problems.append("the loaded copy binds a different metric function (%s) than the original (%s)" %
                                        (classify(copy1._distance_func, metric, pd, sp), classify(f, metric, pd, sp)))
                    if getattr(copy1, "_distance_correction", None) is not getattr(idx, "_distance_correction", None):
                        problems.append("the loaded copy uses a different distance correction (%r) than the original (%r)" %
                                        (getattr(copy1, "_distance_correction", None), getattr(idx, "_distance_correction", None)))
                    blob2 = dump(idx)                # the original must still be saveable
                    a2 = load(blob2).query(Q, k=5)
                    a0b = idx.query(Q, k=5)
                    if not same(a0, a2) or not same(a0, a0b):
                        problems.append("after a second save the original or its second copy answers differently")
                    blob3 = dump(copy1)              # re-save the loaded copy, twice
                    blob4 = dump(copy1)
                    a4 = load(blob4).query(Q, k=5)
                    stats["round_trips"] += 3
                    if not same(a0, a4):
                        problems.append("a copy of a copy answers differently from the original")
                    if ci % 2 == 0 or metric in ("dot", "cosine", "bit_hamming"):
                        fn = "idx%d.bin" % ci
                        open(os.path.join(scratch, fn), "wb").write(blob)
                        pickle.dump(Q, open(os.path.join(scratch, "q%d.bin" % ci), "wb"))
                        todo.append(dict(file=fn, query="q%d.bin" % ci, k=5, kind="joblib" if proto == "joblib" else "pickle"))
                        expect[fn] = (a0, desc)
            except Exception as e:
                import traceback
                problems.append("round trip raised %s: %s" % (type(e).__name__, str(e)[:300]))
                desc["traceback"] = traceback.format_exc()[-1200:]
            ctx.nontrivial.add(("rt", ci))
            if problems:
                stats["failures"] += 1
                key = "roundtrip-" + storage + ("-raised" if "raised" in problems[0] else "")
                ctx.violation(key, "%s %s index (%s, protocol %s): %s" % (storage, metric, point, proto, problems[0]),
                              dict(config=desc, problems=problems, data="make_data(RandomState, ...) in harness/props/C06.py with the run's VERIF_SEED"), True)
        # ---- fresh interpreter
        if todo:
            import json
            json.dump(todo, open(os.path.join(scratch, "todo.json"), "w"))
            open(os.path.join(scratch, "loader.py"), "w").write(LOADER)
            env = dict(os.environ)
            env["PYTHONPATH"] = common.REPO
            ctx.crumb(dict(stream="cross-process", files=[t["file"] for t in todo]))
            p = subprocess.run([sys.executable, os.path.join(scratch, "loader.py"), scratch], env=env, stdout=subprocess.PIPE, stderr=subprocess.STDOUT,
                               text=True, timeout=3000)
            res = {}
            try:
                res = json.load(open(os.path.join(scratch, "result.json")))
            except Exception:
                ctx.violation("cross-process-loader", "the fresh interpreter that loads the saved indexes failed: %s" % p.stdout[-400:],
                              dict(output=p.stdout[-1500:]), False)
            for fn, (a0, desc) in expect.items():
                r = res.get(fn)
                if r is None:
                    continue
                stats["cross_process"] += 1
                ok = r["ok"] and np.array_equal(np.array(r["ind"]), a0[0]) and np.array_equal(np.array(r["dist"], dtype=a0[1].dtype), a0[1], equal_nan=True)
                if not ok:
                    stats["failures"] += 1
                    why = r.get("error") or "answers differ from the original's (%d of %d rows)" % (int((np.array(r["ind"]) != a0[0]).any(axis=1).sum()), a0[0].shape[0])
                    ctx.violation("cross-process-" + desc["storage"], "%s %s index saved and loaded in a fresh interpreter: %s" % (desc["storage"], desc["metric"], why),
                                  dict(config=desc, why=why), True)
    finally:
        shutil.rmtree(scratch, ignore_errors=True)
    ctx.count(stats["round_trips"] + stats["cross_process"])
    ctx.sample(dict(stream="roundtrips", first_config=dict(storage=confs[0][0], metric=confs[0][1])))
    ctx.stream("round-trips", **stats)


def run(ctx):
    ctx.trusted = ["Coq 8.16.1 kernel", "extraction + ocaml/driver.ml (extracted init_binding / load_binding)",
                   "harness: object identity of index._distance_func against the tables of the source; array_equal on query answers; "
                   "a subprocess as the fresh interpreter",
                   "byte-level behaviour of pickle / joblib / numpy / numba serialisation is exercised, not modelled"]
    ctx.assumptions = ["answers are compared with np.array_equal (ids and distances, NaN equal to NaN)",
                       "queries on one index are repeatable (C05), so original-before and original-after can be compared"]
    ctx.notes["rule"] = ("bindings: every metric name of the dense and sparse tables x dense/CSR; round trips: (storage, metric, metric_kwds) from a "
                         "fixed list of 20 x life point (fresh/prepared/queried/updated) x compressed x tree_init x protocol 2..5/joblib; "
                         "5 saves/loads per index + fresh-interpreter load; non-trivial = distinct configuration")
    changed, unknown, cur = common.sentinel_status("C06", SENTINELS)
    ctx.sentinels_changed = changed
    ctx.notes["sentinels"] = cur
    ctx.build(COQ_FILES)
    bindings(ctx)
    roundtrips(ctx, ctx.budget(10, 60))
    if not changed and unknown:
        common.update_sentinels(cur)
