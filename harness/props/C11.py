"""C11 — the bounded top-k heap never loses a better candidate.

Theorems: coq/props/C11.v (over model/Heap.v).
Tie: exact differential execution of the three compiled push kernels, siftdown
and deheap_sort from /repo/pynndescent/utils.py against the extracted model.
Failing-input search: the top-k specification itself evaluated on the
implementation's arrays.
"""
import itertools

import numpy as np

from harness import common
from harness.common import INF_KEY, fmt, f32_keys, keys_f32

COQ_FILES = ["model/Base.v", "model/Heap.v", "proofs/ListAux.v", "proofs/HeapProofs.v",
             "proofs/HeapTopK.v", "proofs/HeapSort.v"]
SENTINELS = {"pynndescent/utils.py": ["simple_heap_push", "checked_heap_push", "checked_flagged_heap_push",
                                      "siftdown", "deheap_sort", "make_heap"]}

VARIANT_NAMES = ["simple_heap_push", "checked_heap_push", "checked_flagged_heap_push"]


def _impl():
    import numba
    from pynndescent import utils

    shp, chp, cfp = utils.simple_heap_push, utils.checked_heap_push, utils.checked_flagged_heap_push

    @numba.njit
    def run_batch(variant, ps0, ids0, fs0, op_p, op_n, op_f, out_r, out_ps, out_ids, out_fs):
        ncase = ps0.shape[0]
        L = op_p.shape[1]
        for c in range(ncase):
            ps = ps0[c].copy()
            ids = ids0[c].copy()
            fs = fs0[c].copy()
            for t in range(L):
                if variant == 0:
                    r = shp(ps, ids, op_p[c, t], op_n[c, t])
                elif variant == 1:
                    r = chp(ps, ids, op_p[c, t], op_n[c, t])
                else:
                    r = cfp(ps, ids, fs, op_p[c, t], op_n[c, t], op_f[c, t])
                out_r[c, t] = r
                out_ps[c, t, :] = ps
                out_ids[c, t, :] = ids
                out_fs[c, t, :] = fs

    return utils, run_batch


class Batch:
    """cases of one (variant, size, L): initial arrays as keys, ops as keys"""

    def __init__(self, variant, size, L):
        self.variant, self.size, self.L = variant, size, L
        self.ps0, self.ids0, self.fs0, self.ops, self.tags = [], [], [], [], []

    def add(self, ps, ids, fs, ops, tag):
        self.ps0.append(ps)
        self.ids0.append(ids)
        self.fs0.append(fs)
        self.ops.append(ops)
        self.tags.append(tag)

    def lines(self):
        out = []
        for ps, ids, fs, ops in zip(self.ps0, self.ids0, self.fs0, self.ops):
            flat = [x for op in ops for x in op]
            out.append("heapseq %d %d %s %s %s %d %s" % (self.variant, self.size, fmt(ps), fmt(ids), fmt(fs), len(ops), fmt(flat)))
        return out

    def run_impl(self, run_batch):
        n = len(self.ps0)
        ps0 = keys_f32(np.array(self.ps0, dtype=np.int64).reshape(n, self.size))
        ids0 = np.array(self.ids0, dtype=np.int32).reshape(n, self.size)
        fs0 = np.array(self.fs0, dtype=np.uint8).reshape(n, self.size)
        ops = np.array(self.ops, dtype=np.int64).reshape(n, self.L, 3)
        op_p = keys_f32(ops[:, :, 0])
        op_n = ops[:, :, 1].astype(np.int32)
        op_f = ops[:, :, 2].astype(np.uint8)
        out_r = np.zeros((n, self.L), dtype=np.int64)
        out_ps = np.zeros((n, self.L, self.size), dtype=np.float32)
        out_ids = np.zeros((n, self.L, self.size), dtype=np.int32)
        out_fs = np.zeros((n, self.L, self.size), dtype=np.uint8)
        run_batch(self.variant, np.ascontiguousarray(ps0), ids0, fs0, np.ascontiguousarray(op_p), op_n, op_f,
                  out_r, out_ps, out_ids, out_fs)
        kps = np.array(f32_keys(out_ps), dtype=object)
        res = []
        for c in range(n):
            parts = []
            for t in range(self.L):
                fs_t = out_fs[c, t].tolist() if self.variant == 2 else list(self.fs0[c])
                parts.append("%d %s %s %s |" % (out_r[c, t], fmt_k(kps[c, t]), fmt(out_ids[c, t].tolist()), fmt(fs_t)))
            res.append(" ".join(parts))
        return res, (out_r, out_ps, out_ids, out_fs)


def fmt_k(ks):
    return " ".join("NaN" if k is None else str(int(k)) for k in ks)


LEVELS = [int(common.key_of_float(x)) for x in (1.0, 2.0, 3.0)] + [INF_KEY]


def gen_single_push_exhaustive(size, variant):
    """every array of priorities over LEVELS^size (heap or not: the model is a
    transcription, so it must agree on any array), ids distinct or partly -1,
    one push of each level with a fresh / first-slot / last-slot candidate id"""
    b = Batch(variant, size, 1)
    for ps in itertools.product(LEVELS, repeat=size):
        ids = [(-1 if p == INF_KEY else 10 + i) for i, p in enumerate(ps)]
        fs = [i % 2 for i in range(size)]
        for p in LEVELS:
            for n in {5, ids[0], ids[-1]}:
                b.add(list(ps), ids, fs, [(p, n, 1)], "single")
    return b


def gen_seq_exhaustive(size, variant, L, n_ids=3):
    """all offer sequences of length L from the empty heap over n_ids candidates x
    3 finite levels + inf (a candidate may come back with another distance)"""
    b = Batch(variant, size, L)
    alphabet = [(p, n, n % 2) for p in LEVELS for n in range(n_ids)]
    for seq in itertools.product(alphabet, repeat=L):
        if variant == 0 and len({n for _, n, _ in seq}) < L:
            # the unchecked variant is only ever used with distinct candidates; still
            # exercised with repeats in the random stream (model must agree anyway)
            pass
        b.add([INF_KEY] * size, [-1] * size, [0] * size, list(seq), "seq")
    return b


def gen_random(rng, variant, size, L, ncase, own_distance):
    b = Batch(variant, size, L)
    pool_f = [0.0, -0.0, 1e-40, 0.5, 1.0, 1.0000001, 2.0, 3.5, 7.25, 100.0, 3.0e38, -1.0, -2.5, float("inf")]
    for _ in range(ncase):
        nid = rng.choice([max(2, size // 2), size, 2 * size, 4 * size + 3])
        npool = rng.choice([2, 3, 5, len(pool_f)])
        pool = [int(common.key_of_float(x)) for x in rng.sample(pool_f, npool)]
        if rng.random() < 0.5:
            pool += [int(common.key_of_float(rng.uniform(0, 10))) for _ in range(rng.choice([1, 5, 50]))]
        delta = {n: rng.choice(pool) for n in range(nid)}
        ops = []
        for _t in range(L):
            n = rng.randrange(nid)
            p = delta[n] if own_distance else rng.choice(pool)
            ops.append((p, n, rng.randrange(2)))
        if variant == 0 and own_distance:
            # distinct candidates, as the callers of simple_heap_push guarantee
            ns = list(range(nid))
            rng.shuffle(ns)
            ops = [(delta[n], n, 0) for n in (ns * ((L // nid) + 1))[:L]] if nid >= L else ops
        b.add([INF_KEY] * size, [-1] * size, [0] * size, ops, "random-own" if own_distance else "random-any")
    return b


# ---------------------------------------------------------------- property oracles on the implementation

def is_heap(ps):
    n = len(ps)
    return all(ps[(c - 1) // 2] >= ps[c] for c in range(1, n))


def oracle_sequence(variant, size, ops, outs):
    """top-k specification on the implementation's arrays after every push of a
    sequence from the empty heap in which every candidate carries its own
    distance.  Returns None or a description of the violated clause."""
    r, ps_all, ids_all, fs_all = outs
    delta = {}
    for (p, n, f) in ops:
        if n in delta and delta[n] != p:
            return None  # hypothesis "own distance" not met: oracle not applicable
        delta[n] = p
    if variant == 0 and len({n for _, n, _ in ops}) < len(ops):
        return None  # unchecked variant needs distinct candidates
    offered = []
    for t, (p, n, f) in enumerate(ops):
        offered.append((p, n, f))
        ps, ids, fs = ps_all[t], ids_all[t], fs_all[t]
        if any(k is None for k in ps):
            return "NaN priority stored at step %d" % t
        real = [(ps[i], ids[i], fs[i]) for i in range(size) if ids[i] != -1]
        sent = [(ps[i], ids[i]) for i in range(size) if ids[i] == -1]
        if not is_heap(ps):
            return "heap order broken after push %d: %s" % (t, ps)
        rid = [e[1] for e in real]
        if len(set(rid)) != len(rid):
            return "candidate stored twice after push %d: %s" % (t, rid)
        for (p_, n_, f_) in real:
            if n_ not in delta or delta[n_] != p_ or not (p_ < INF_KEY):
                return "entry (%s,%s) not paired with its own distance after push %d" % (p_, n_, t)
            if variant == 2 and (p_, n_, f_) not in offered:
                return "flag of candidate %s is not one it was offered with (push %d)" % (n_, t)
        for (p_, n_) in sent:
            if p_ != INF_KEY:
                return "sentinel carries finite priority after push %d" % t
        distinct = {n_: p_ for (p_, n_, f_) in offered if p_ < INF_KEY}
        want = min(size, len(distinct))
        if len(real) != want:
            return "holds %d candidates, expected %d after push %d" % (len(real), want, t)
        worst = max([e[0] for e in real], default=-10 ** 12)
        for n_, p_ in distinct.items():
            if n_ not in rid and p_ < worst:
                return "lost better candidate %s (d=%s) while holding d=%s after push %d" % (n_, p_, worst, t)
    return None


def oracle_sort(ids_in, ds_in, ids_out, ds_out):
    if any(k is None for k in ds_out):
        return "NaN in sorted output"
    if sorted(zip(ds_in, ids_in)) != sorted(zip(ds_out, ids_out)):
        return "sorted row is not a permutation of the (distance, index) pairs"
    if any(ds_out[i] > ds_out[i + 1] for i in range(len(ds_out) - 1)):
        return "sorted row is not ascending"
    return None


# ---------------------------------------------------------------- main

def run(ctx):
    ctx.trusted = [
        "Coq 8.16.1 kernel (coqc); vm_compute in non-vacuity Examples",
        "extraction (ExtrOcamlBasic only, no Extract Constant) + ocaml/driver.ml glue",
        "this harness: case generators, float32<->order-key bijection (NaN excluded), string comparison",
        "numba compilation of utils.py is what is executed; the model mirrors the Python source",
    ]
    ctx.assumptions = [
        "priorities are non-NaN float32 (order-isomorphic to Z keys); NaN offers are outside the theorem and probed separately",
        "heap size >= 1 and < 32768 (uint16 loop indices in the kernels)",
        "top-k refinement needs each candidate to be offered with its own distance (delta); a candidate re-offered with a smaller distance after eviction is accepted (Example readmission_possible)",
    ]
    ctx.notes["rule"] = ("cases = (variant, heap size, initial arrays, push sequence); exhaustive: every priority array over "
                         "3 finite levels+inf with one push, and every sequence of length L over 3 ids x 4 levels from the empty heap; "
                         "random: tie-heavy pools, repeated ids, inf/-0.0/denormal keys; non-trivial = the sequence contains at least one "
                         "accepted push that sifts below the root or a rejected duplicate; distinct = distinct case lines")
    changed, unknown, cur = common.sentinel_status("C11", SENTINELS)
    ctx.sentinels_changed = changed
    ctx.notes["sentinels"] = cur
    ctx.build(COQ_FILES)

    utils, run_batch = _impl()
    batches = []
    # corpus first
    # (the corpus for C11 is the exhaustive small scope below: it is deterministic)
    max_single = ctx.budget(4, 5)
    for variant in range(3):
        for size in range(1, max_single + 1):
            batches.append(gen_single_push_exhaustive(size, variant))
    Ls = ctx.budget(3, 4)
    for variant in range(3):
        for size in (1, 2, 3, 4):
            batches.append(gen_seq_exhaustive(size, variant, Ls))
    nrand = ctx.budget(40, 400)
    for variant in range(3):
        for size in (1, 2, 3, 5, 8, 13, 30, 64):
            for L in (8, 60, ctx.budget(150, 500)):
                batches.append(gen_random(ctx.rng, variant, size, L, nrand // 4 + 1, True))
                batches.append(gen_random(ctx.rng, variant, size, L, nrand // 8 + 1, False))

    total = 0
    disagreements = 0
    tagcount = {}
    accepted_cnt = rejected_dup = rejected_worse = deep_sift = 0
    for b in batches:
        if not b.ps0:
            continue
        lines = b.lines()
        model = common.run_driver(lines)
        impl, outs = b.run_impl(run_batch)
        total += len(lines)
        out_r = outs[0]
        accepted_cnt += int((out_r == 1).sum())
        for c, (m, i) in enumerate(zip(model, impl)):
            tagcount[b.tags[c]] = tagcount.get(b.tags[c], 0) + 1
            nontriv = bool((out_r[c] == 1).any() and (out_r[c] == 0).any()) or b.L == 1
            if nontriv:
                ctx.nontrivial.add(hash(lines[c]))
            if m != i:
                disagreements += 1
                if disagreements <= 5:
                    report_disagreement(ctx, b, c, lines[c], m, i, outs)
        if len(ctx.samples) < 4:
            ctx.sample(dict(stream=b.tags[0], kernel=VARIANT_NAMES[b.variant], case=lines[0][:300], model=model[0][:300]))
    ctx.count(total)
    ctx.stream("push-kernels", cases=total, disagreements=disagreements, by_stream=tagcount,
               accepted_pushes=accepted_cnt)

    # the specification itself, evaluated on the implementation (own-distance sequences)
    spec_checked = spec_fail = 0
    for b in batches:
        if not b.ps0 or b.tags[0] not in ("seq", "random-own"):
            continue
        impl, outs = b.run_impl(run_batch)
        r, ps, ids, fs = outs
        kps = f32_keys(ps)
        for c in range(len(b.ps0)):
            why = oracle_sequence(b.variant, b.size, b.ops[c], (r[c], kps[c], ids[c].tolist(), fs[c].tolist()))
            spec_checked += 1
            if why:
                spec_fail += 1
                if spec_fail <= 3:
                    ctx.violation("topk-spec:%s" % VARIANT_NAMES[b.variant], "%s: %s" % (VARIANT_NAMES[b.variant], why),
                                  dict(kernel=VARIANT_NAMES[b.variant], size=b.size, ops_keys=b.ops[c], why=why,
                                       note="keys are float32 order keys (bits of non-negative floats)"))
        if b.tags[0] == "seq" and spec_checked > ctx.budget(60000, 10 ** 9):
            break
    ctx.count(spec_checked)
    ctx.stream("topk-spec-on-implementation", cases=spec_checked, failures=spec_fail)

    sort_and_siftdown(ctx, utils)
    nan_probe(ctx, utils)
    if not changed:
        common.update_sentinels(cur) if unknown else None


def report_disagreement(ctx, b, c, line, m, i, outs):
    """classify: does the implementation violate the property on this case?"""
    r, ps, ids, fs = outs
    kps = f32_keys(ps[c])
    why = None
    if b.tags[c] in ("seq", "random-own"):
        why = oracle_sequence(b.variant, b.size, b.ops[c], (r[c], kps, ids[c].tolist(), fs[c].tolist()))
    if why is None:
        # single-step oracle when the pre-state is a duplicate-free heap
        why = oracle_single(b, c, r[c], kps, ids[c].tolist(), fs[c].tolist())
    key = "push-corr:%s" % VARIANT_NAMES[b.variant]
    rep = dict(kernel=VARIANT_NAMES[b.variant], case_line=line, model=m, implementation=i, spec_verdict=why)
    if why:
        ctx.violation(key, "%s violates the top-k heap specification: %s" % (VARIANT_NAMES[b.variant], why), rep, True)
    else:
        ctx.violation(key, "correspondence stream push-kernels/%s disagrees with model/Heap.v (theorems of props/C11.v no longer "
                           "known to describe the code)" % VARIANT_NAMES[b.variant], rep, False)


def oracle_single(b, c, r, kps, ids, fs):
    """multiset / heap-order specification of ONE push sequence step by step, applicable
    from any duplicate-free max-heap pre-state"""
    ps0, ids0, fs0 = list(b.ps0[c]), list(b.ids0[c]), list(b.fs0[c])
    for t, (p, n, f) in enumerate(b.ops[c]):
        real0 = [x for x in ids0 if x != -1]
        pre_ok = is_heap(ps0) and len(set(real0)) == len(real0)
        ps1, ids1, fs1 = list(kps[t]), list(ids[t]), list(fs[t]) if b.variant == 2 else fs0
        if pre_ok:
            should_reject = p >= ps0[0] or (b.variant > 0 and n in ids0)
            if should_reject:
                if (ps1, ids1) != (ps0, ids0) or r[t] != 0:
                    return "a push that must be rejected changed the heap (step %d)" % t
            else:
                before = sorted(zip(ps0, ids0, fs0 if b.variant == 2 else [0] * len(ps0)))
                after = sorted(zip(ps1, ids1, fs1 if b.variant == 2 else [0] * len(ps0)))
                exp = list(before)
                exp.remove((ps0[0], ids0[0], (fs0[0] if b.variant == 2 else 0)))
                exp.append((p, n, f if b.variant == 2 else 0))
                if sorted(exp) != after or r[t] != 1:
                    return "accepted push did not replace exactly the root by the new triple (step %d)" % t
                if not is_heap(ps1):
                    return "heap order broken (step %d)" % t
        ps0, ids0, fs0 = ps1, ids1, (fs1 if b.variant == 2 else fs0)
    return None


def sort_and_siftdown(ctx, utils):
    rng = ctx.rng
    cases = []
    pool_f = [0.0, 0.5, 1.0, 1.0, 2.0, 2.0, 3.5, 7.25, float("inf"), float("inf")]
    # exhaustive: every heap-ordered and non-heap array over 3 levels+inf, sizes 1..5
    for size in range(1, ctx.budget(5, 6) + 1):
        for ds in itertools.product(LEVELS, repeat=size):
            cases.append((list(range(100, 100 + size)), list(ds)))
    for _ in range(ctx.budget(300, 3000)):
        size = rng.choice([1, 2, 3, 4, 5, 7, 10, 16, 30, 61])
        # build a real heap by pushing, or a random array
        ds = [int(common.key_of_float(rng.choice(pool_f + [rng.uniform(0, 5)]))) for _ in range(size)]
        if rng.random() < 0.7:
            ds.sort(reverse=True)  # a descending array is a max-heap
            # random heap-preserving shuffle: swap siblings
            for _s in range(size):
                i = rng.randrange(size)
                j = i + 1
                if i % 2 == 1 and j < size:
                    ds[i], ds[j] = ds[j], ds[i]
                    if not is_heap(ds):
                        ds[i], ds[j] = ds[j], ds[i]
        ids = [(-1 if d == INF_KEY else rng.randrange(1000)) for d in ds]
        cases.append((ids, ds))
    lines = ["deheap %d %s %s" % (len(i), fmt(i), fmt(d)) for i, d in cases]
    model = common.run_driver(lines)
    # implementation: one 2-D call per distinct size (prange over rows)
    by_size = {}
    for k, (i, d) in enumerate(cases):
        by_size.setdefault(len(i), []).append(k)
    impl = [None] * len(cases)
    fails = 0
    for size, ks in by_size.items():
        I = np.array([cases[k][0] for k in ks], dtype=np.int32).reshape(len(ks), size)
        D = np.ascontiguousarray(keys_f32(np.array([cases[k][1] for k in ks], dtype=np.int64).reshape(len(ks), size)))
        utils.deheap_sort(I, D)
        KD = f32_keys(D)
        for row, k in enumerate(ks):
            impl[k] = "%s | %s" % (fmt(I[row].tolist()), fmt_k(KD[row]))
    dis = 0
    for k, (m, i) in enumerate(zip(model, impl)):
        ids_in, ds_in = cases[k]
        if is_heap(ds_in):
            ctx.nontrivial.add(hash(lines[k]))
        if m != i:
            dis += 1
            if dis <= 3:
                toks = i.split("|")
                io = [int(x) for x in toks[0].split()]
                do = [None if x == "NaN" else int(x) for x in toks[1].split()]
                why = oracle_sort(ids_in, ds_in, io, do) if is_heap(ds_in) else None
                rep = dict(kernel="deheap_sort", case_line=lines[k], model=m, implementation=i, spec_verdict=why)
                if why:
                    ctx.violation("sort-corr", "deheap_sort violates its specification: %s" % why, rep, True)
                else:
                    ctx.violation("sort-corr", "correspondence stream deheap_sort disagrees with model/Heap.v", rep, False)
        # independent oracle on the implementation for heap inputs
        if is_heap(ds_in):
            toks = i.split("|")
            io = [int(x) for x in toks[0].split()]
            do = [None if x == "NaN" else int(x) for x in toks[1].split()]
            why = oracle_sort(ids_in, ds_in, io, do)
            if why:
                fails += 1
                if fails <= 3:
                    ctx.violation("sort-spec", "deheap_sort: %s" % why, dict(ids=ids_in, ds_keys=ds_in, out_ids=io, out_ds=do), True)
    ctx.count(len(cases))
    ctx.sample(dict(stream="deheap_sort", case=lines[len(lines) // 2], model=model[len(lines) // 2]))
    ctx.stream("deheap_sort", cases=len(cases), disagreements=dis, spec_failures=fails)

    # siftdown alone, arbitrary arrays and positions
    sc = []
    for _ in range(ctx.budget(500, 5000)):
        size = rng.choice([1, 2, 3, 4, 5, 6, 9, 17])
        h1 = [int(common.key_of_float(rng.choice(pool_f))) for _ in range(size)]
        h2 = [rng.randrange(50) for _ in range(size)]
        sc.append((h1, h2, rng.randrange(size)))
    lines = ["siftdown %d %s %s %d" % (len(a), fmt(a), fmt(b), e) for a, b, e in sc]
    model = common.run_driver(lines)
    dis = 0
    for k, (a, b, e) in enumerate(sc):
        A = np.ascontiguousarray(keys_f32(np.array(a, dtype=np.int64)))
        B = np.array(b, dtype=np.int32)
        utils.siftdown(A, B, e)
        i = "%s | %s" % (fmt_k(f32_keys(A)), fmt(B.tolist()))
        if i != model[k]:
            dis += 1
            if dis <= 3:
                ctx.violation("siftdown-corr", "correspondence stream siftdown disagrees with model/Heap.v",
                              dict(case_line=lines[k], model=model[k], implementation=i), False)
    ctx.count(len(sc))
    ctx.stream("siftdown", cases=len(sc), disagreements=dis)


def nan_probe(ctx, utils):
    """malformed stream: NaN offers.  Outside the theorem (keys are a total order);
    recorded, not judged: a NaN offer is rejected or stored depending on the comparison
    direction, and C07/C01 are where a NaN *distance* is reported."""
    ps = np.full(4, np.inf, dtype=np.float32)
    ids = np.full(4, -1, dtype=np.int32)
    r = utils.checked_heap_push(ps, ids, np.float32(np.nan), np.int32(3))
    ctx.notes["nan_offer_into_empty_heap"] = dict(returned=int(r), stored=bool(np.isnan(ps).any()))
