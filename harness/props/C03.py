"""C03 — accuracy floor: the index finds the neighbours it promises on well-behaved data.

Theorem: coq/props/C03.v — when one tree leaf lists every point, after init_rp_tree each
row holds every other point or only points at least as close as any point it misses
(exact up to distance ties), for all sizes and all symmetric finite distance tables.
The recall floors (0.90 graph / 0.80 query on average) are statistical statements about
data families; no theorem can carry them: they are MEASURED here against brute force on
seeded families x metrics x build modes, and reported as measurements.
Tie: single-leaf datasets are built with the real index and compared with brute-force
distance profiles computed with the index's own compiled metric (exact float32 equality,
ties respected)."""
import warnings

import numpy as np

from harness import common, nnd_corr

COQ_FILES = ["model/Base.v", "model/Heap.v", "model/NND.v", "proofs/ListAux.v", "proofs/HeapProofs.v", "proofs/HeapTopK.v", "proofs/Par.v",
             "proofs/C05Proofs.v", "proofs/C03Proofs.v", "proofs/C03Loop.v"]
SENTINELS = {"pynndescent/pynndescent_.py": ["nn_descent", "nn_descent_internal_low_memory_parallel", "nn_descent_internal_high_memory_parallel",
                                             "process_candidates", "init_rp_tree", "init_random", "generate_leaf_updates", "generate_graph_updates",
                                             "NNDescent._init_search_graph", "NNDescent.neighbor_graph"],
             "pynndescent/utils.py": ["new_build_candidates", "apply_graph_updates_low_memory", "apply_graph_updates_high_memory",
                                      "checked_flagged_heap_push"],
             "pynndescent/rp_trees.py": ["make_forest", "rptree_leaf_array", "search_flat_tree"]}


def family(rs, kind, n):
    import scipy.sparse as sps
    if kind == "uniform":
        return rs.uniform(size=(n, 8)).astype(np.float32)
    if kind == "gaussian":
        return rs.normal(size=(n, 8)).astype(np.float32)      # low intrinsic dimension: the property's domain
    if kind == "clustered":
        centers = rs.normal(scale=6.0, size=(12, 10))
        return (centers[rs.randint(0, 12, size=n)] + rs.normal(size=(n, 10))).astype(np.float32)
    if kind == "manifold":
        t = rs.uniform(size=(n, 3))
        A = rs.normal(size=(3, 40))
        return (np.tanh(t @ A) + 0.01 * rs.normal(size=(n, 40))).astype(np.float32)
    if kind == "sparse":
        # sparse rows of LOW intrinsic dimension (the property's domain): rectified sparse loadings of 3 latent factors
        t = rs.uniform(size=(n, 3))
        A = np.where(rs.uniform(size=(3, 60)) < 0.5, rs.normal(size=(3, 60)), 0)
        b = rs.uniform(0.0, 0.6, size=60)
        X = np.maximum(t @ A - b, 0).astype(np.float32)
        X[:, 0] = 1.0
        return sps.csr_matrix(X)
    if kind == "binary":
        proto = rs.uniform(size=(20, 64)) < 0.3
        flip = rs.uniform(size=(n, 64)) < 0.05
        return np.logical_xor(proto[rs.randint(0, 20, size=n)], flip).astype(np.float32)
    raise ValueError(kind)


def dense64(X):
    import scipy.sparse as sps
    return (X.toarray() if sps.issparse(X) else X).astype(np.float64)


def brute_kth(X, metric, k, chunk=2048):
    """distance of every point to its k-th nearest point (itself included), float64 brute force"""
    from sklearn.metrics import pairwise_distances
    D = dense64(X)
    n = D.shape[0]
    kth = np.empty(n)
    for lo in range(0, n, chunk):
        with warnings.catch_warnings():
            warnings.simplefilter("ignore")
            P = pairwise_distances(D[lo:lo + chunk], D, metric=metric)
        kth[lo:lo + chunk] = np.partition(P, k - 1, axis=1)[:, k - 1]
    return kth


def tie_recall(X, metric, rows, found, kth, k, chunk=2048):
    """fraction of the k answer slots filled with a point no farther than the true k-th neighbour
    (tie-aware recall: any point at the k-th distance counts, whichever of the tied points it is)"""
    from sklearn.metrics import pairwise_distances
    D = dense64(X)
    hits = 0
    for lo in range(0, len(rows), chunk):
        rr = rows[lo:lo + chunk]
        with warnings.catch_warnings():
            warnings.simplefilter("ignore")
            P = pairwise_distances(D[rr], D, metric=metric)
        f = found[lo:lo + chunk][:, :k]
        ok = f >= 0
        g = np.take_along_axis(P, np.where(ok, f, 0), axis=1)
        lim = kth[rr][:, None]
        good = ok & (g <= lim * (1 + 1e-6) + 1e-9)
        for r in range(f.shape[0]):      # a point listed twice counts once
            hits += len(set(f[r][good[r]].tolist()))
    return hits / float(len(rows) * k)


def single_leaf(ctx, ncases):
    import scipy.sparse as sps
    from pynndescent import NNDescent
    rng = ctx.rng
    stats = dict(cases=0, rows=0, inexact=0)
    for c in range(ncases):
        rs = np.random.RandomState(rng.randrange(10 ** 6))
        n = rng.choice([12, 20, 33, 40])
        k = rng.choice([3, 5, 8])
        kind = rng.choice(["gauss", "lattice", "dups", "sparse"])
        metric = rng.choice(["euclidean", "manhattan", "cosine", "chebyshev", "hamming", "canberra"]) if kind != "sparse" else rng.choice(["euclidean", "manhattan", "cosine"])
        if kind == "gauss":
            X = rs.normal(size=(n, 4)).astype(np.float32)
        elif kind == "lattice":
            X = rs.randint(0, 3, size=(n, 3)).astype(np.float32) + np.float32(1.0)
        elif kind == "dups":
            base = rs.normal(size=(n // 3 + 1, 3)).astype(np.float32)
            X = base[rs.randint(0, base.shape[0], size=n)]
        else:
            D = np.where(rs.uniform(size=(n, 9)) < 0.5, rs.uniform(0.2, 2.0, size=(n, 9)), 0).astype(np.float32)
            D[:, 0] = 1.0
            X = sps.csr_matrix(D)
        kw = dict(metric=metric, n_neighbors=k, leaf_size=n + 5, tree_init=True, random_state=rng.randrange(1000), low_memory=rng.choice([True, False]),
                  n_jobs=rng.choice([1, 2, None]), n_trees=rng.choice([1, 3]))
        desc = dict(n=n, data=kind, kwargs=kw)
        ctx.crumb(dict(stream="single-leaf", case=desc))
        with warnings.catch_warnings():
            warnings.simplefilter("ignore")
            idx = NNDescent(X, **kw)
            from pynndescent.rp_trees import rptree_leaf_array
            la = rptree_leaf_array(idx._rp_forest) if getattr(idx, "_rp_forest", None) is not None else np.array([[-1]])
            leaves = int((np.asarray(la) >= 0).sum(axis=1).max())
            ind, dist = idx._neighbor_graph      # internal (surrogate) distances: exact comparison with the compiled metric
        if leaves < n:
            ctx.notes.setdefault("not_single_leaf", 0)
            ctx.notes["not_single_leaf"] += 1
            continue
        dfun = idx._distance_func
        if sps.issparse(X):
            Xs = idx._raw_data
            M = np.array([[dfun(Xs[a].indices, Xs[a].data, Xs[b].indices, Xs[b].data) for b in range(n)] for a in range(n)], dtype=np.float32)
        else:
            Xd = idx._raw_data
            M = np.array([[dfun(Xd[a], Xd[b]) for b in range(n)] for a in range(n)], dtype=np.float32)
        stats["cases"] += 1
        ctx.nontrivial.add(("sl", c))
        for i in range(n):
            stats["rows"] += 1
            row = [(float(d), int(j)) for j, d in zip(ind[i], dist[i]) if j >= 0]
            kept = set(j for _, j in row)
            worst = max(d for d, _ in row) if row else float("inf")
            missing_closer = [j for j in range(n) if j != i and j not in kept and M[i, j] < worst]
            wrong = [(j, d) for d, j in row if np.float32(d) != M[i, j]]
            if len(row) < min(k, n - 1) or missing_closer or wrong:
                stats["inexact"] += 1
                if stats["inexact"] <= 3:
                    ctx.violation("single-leaf-inexact", "n=%d points in one leaf (%s, %s): row %d keeps %s but misses closer point(s) %s (stored distances wrong: %s)" %
                                  (n, metric, kind, i, sorted(row)[:k], [(j, float(M[i, j])) for j in missing_closer[:3]], wrong[:2]),
                                  dict(case=desc, row=i, kept=sorted(row), missing_closer=missing_closer[:5], X=(X.toarray() if sps.issparse(X) else X).tolist()), True)
                break
    ctx.count(stats["cases"])
    ctx.stream("single-leaf-exactness", **stats)


def floors(ctx, configs):
    from pynndescent import NNDescent
    rng = ctx.rng
    rows = []
    below = 0
    for (kind, metric, n, kw) in configs:
        rs = np.random.RandomState(rng.randrange(10 ** 6))
        X = family(rs, kind, n)
        desc = dict(family=kind, metric=metric, n=n, kwargs=kw)
        ctx.crumb(dict(stream="recall", config=desc))
        kth = brute_kth(X, metric, 10)
        allrows = np.arange(n)
        with warnings.catch_warnings():
            warnings.simplefilter("ignore")
            idx = NNDescent(X, metric=metric, random_state=rng.randrange(10 ** 4), **kw)
            g0 = idx.neighbor_graph[0].copy()
            r_graph = tie_recall(X, metric, allrows, g0, kth, 10)
            qn = min(n, 400)
            sel = np.sort(rs.choice(n, qn, replace=False))
            qi, _ = idx.query(X[sel], k=10)
            r_query = tie_recall(X, metric, sel, qi, kth, 10)
            g1 = idx.neighbor_graph[0]
            r_graph_after = tie_recall(X, metric, allrows, g1, kth, 10)
        rows.append(dict(config=desc, graph_recall=round(r_graph, 4), query_recall=round(r_query, 4), graph_recall_after_query=round(r_graph_after, 4)))
        ctx.nontrivial.add(("recall", kind, metric, n, str(sorted(kw.items()))))
        why = None
        if r_graph < 0.90:
            why = "neighbor-graph recall@10 %.3f < 0.90" % r_graph
        elif r_graph_after < 0.90:
            why = "neighbor-graph recall@10 read after a query %.3f < 0.90 (%.3f before)" % (r_graph_after, r_graph)
        elif r_query < 0.80 and kw.get("tree_init", True):
            # the query floor is stated for the default tree-seeded search; an index built with tree_init=False
            # starts every search from random points and is not covered by it (measured and reported all the same)
            why = "query recall@10 %.3f < 0.80" % r_query
        if why:
            below += 1
            if below <= 4:
                ctx.violation("recall-floor-%s-%s" % (kind, "graph" if "graph" in why else "query"),
                              "%s (%s, %s, n=%d, %s)" % (why, kind, metric, n, kw), dict(config=desc, measured=rows[-1]), True)
    ctx.count(len(configs))
    ctx.notes["measured_recall"] = rows
    ctx.stream("recall-floors", configurations=len(configs), below_floor=below,
               min_graph_recall=min(r["graph_recall"] for r in rows) if rows else None,
               min_query_recall=min(r["query_recall"] for r in rows) if rows else None)


def run(ctx):
    ctx.trusted = ["Coq 8.16.1 kernel", "harness: brute-force ground truth (sklearn pairwise_distances, float64), distance tables computed with the "
                   "index's own compiled metric for the exactness comparison"]
    ctx.assumptions = ["the recall floors are MEASUREMENTS on seeded data families, not theorems: a statistical statement over data cannot be "
                       "proved in the model; they are reported per configuration in notes.measured_recall",
                       "recall is measured at n_neighbors=10 (stricter than the default 30) unless stated; it is tie-aware: an answer slot counts when its point is no farther than the true 10th neighbour",
                       "exactness concerns pairs of DISTINCT points (the theorem's statement): a row need not list its own point"]
    ctx.notes["rule"] = ("single leaf: n <= leaf_size, data gauss/lattice/duplicates/CSR x 6 metrics x low_memory x n_jobs x n_trees; floors: families "
                         "uniform/gaussian/clustered/manifold/sparse/binary x metric families x low_memory x tree_init x n_jobs, one size that is an "
                         "exact multiple of the 16384-vertex update block; non-trivial = configuration")
    changed, unknown, cur = common.sentinel_status("C03", SENTINELS)
    ctx.sentinels_changed = changed
    ctx.notes["sentinels"] = cur
    ctx.build(COQ_FILES)
    single_leaf(ctx, ctx.budget(30, 300))
    base = [
        ("uniform", "euclidean", 16384, dict(n_neighbors=10, tree_init=False, low_memory=True, n_jobs=None)),
        ("gaussian", "euclidean", 2500, dict(n_neighbors=10, low_memory=False, n_jobs=4)),
        ("clustered", "manhattan", 2500, dict(n_neighbors=10, low_memory=True, n_jobs=1)),
        ("manifold", "cosine", 2500, dict(n_neighbors=10, low_memory=True, tree_init=False, n_jobs=None)),
        ("sparse", "cosine", 2000, dict(n_neighbors=10, low_memory=True, n_jobs=None)),
        ("binary", "jaccard", 2000, dict(n_neighbors=10, low_memory=False, n_jobs=None)),
        ("gaussian", "correlation", 2000, dict(n_neighbors=10, low_memory=True, n_jobs=4)),
        ("sparse", "euclidean", 2000, dict(n_neighbors=10, low_memory=True, tree_init=False, n_jobs=None)),
        ("uniform", "euclidean", 2500, dict(n_neighbors=10, low_memory=False, tree_init=False, n_jobs=None)),
    ]
    if ctx.thorough or changed:
        extra = []
        fams = [("uniform", "euclidean"), ("gaussian", "manhattan"), ("clustered", "cosine"), ("manifold", "euclidean"), ("sparse", "euclidean"),
                ("binary", "hamming"), ("clustered", "correlation"), ("uniform", "chebyshev")]
        if not ctx.thorough:
            fams = fams[:3]          # anchored code changed: every build mode, fewer families
        for kind, metric in fams:
            for lm in (True, False):
                for ti in (True, False):
                    extra.append((kind, metric, 3000 if ctx.thorough else 2000,
                                  dict(n_neighbors=10, low_memory=lm, tree_init=ti, n_jobs=ctx.rng.choice([1, 4, None]))))
        if ctx.thorough:
            extra.append(("uniform", "euclidean", 32768, dict(n_neighbors=10, tree_init=False, low_memory=True, n_jobs=None)))
            extra.append(("uniform", "euclidean", 16384, dict(n_neighbors=30, low_memory=True, n_jobs=None)))
        base += extra
    floors(ctx, base)
    if not changed and unknown:
        common.update_sentinels(cur)
