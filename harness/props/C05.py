"""C05 — seeded runs are bit-reproducible under every thread schedule.

Theorems: coq/props/C05.v (row ownership => every interleaving equals the sequential
run; instantiated to apply_graph_updates_low_memory; diversification rows independent with
private generator states; a query call is independent of the calls before it).
Tie: the compiled apply_graph_updates_low_memory / new_build_candidates are compared
with the extracted sequential model (the object of the interleaving theorem) under the
process's full thread pool; whole histories build -> prepare -> query -> update -> query are
repeated under a fixed seed and thread count and every observable (neighbor graph, query
answers, rng_state after prepare, search_rng_state) must be bit-identical between
repetitions; queries are repeated and interleaved with other queries."""
import warnings

import numpy as np

from harness import common, nnd_corr

COQ_FILES = ["model/Base.v", "model/Heap.v", "model/Rng.v", "model/NND.v", "model/Diversify.v", "model/Repro.v", "proofs/ListAux.v", "proofs/Par.v",
             "proofs/C05Proofs.v", "proofs/C05Nbc.v", "proofs/C05Threads.v"]
SENTINELS = {"pynndescent/utils.py": ["apply_graph_updates_low_memory", "apply_graph_updates_high_memory", "new_build_candidates", "tau_rand_int",
                                      "tau_rand", "deheap_sort"],
             "pynndescent/pynndescent_.py": ["diversify", "diversify_csr", "degree_prune_internal", "generate_leaf_updates", "generate_graph_updates",
                                             "process_candidates", "nn_descent_internal_low_memory_parallel",
                                             "nn_descent_internal_high_memory_parallel", "init_rp_tree", "NNDescent._init_search_function",
                                             "NNDescent.query", "NNDescent.update"],
             "pynndescent/sparse.py": ["diversify", "diversify_csr"],
             "pynndescent/rp_trees.py": ["make_forest", "select_side", "search_flat_tree"]}


def make_data(rs, kind, n, dim):
    import scipy.sparse as sps
    if kind == "gauss":
        return rs.normal(size=(n, dim)).astype(np.float32)
    if kind == "lattice":
        return rs.randint(0, 4, size=(n, dim)).astype(np.float32)
    if kind == "dups":
        base = rs.normal(size=(max(4, n // 5), dim)).astype(np.float32)
        return base[rs.randint(0, base.shape[0], size=n)]
    X = np.where(rs.uniform(size=(n, dim)) < 0.35, rs.uniform(0.1, 2.0, size=(n, dim)), 0).astype(np.float32)
    X[:, 0] = 1.0
    return sps.csr_matrix(X)


def observe(kw, X, Q, F, do_update):
    """one complete history; returns the dict of observables"""
    from pynndescent import NNDescent
    obs = {}
    with warnings.catch_warnings():
        warnings.simplefilter("ignore")
        idx = NNDescent(X, **kw)
        g = idx.neighbor_graph
        obs["graph"] = (g[0].copy(), g[1].copy())
        obs["rng_after_build"] = idx.rng_state.copy()
        idx.prepare()
        obs["rng_after_prepare"] = idx.rng_state.copy()
        obs["vertex_order"] = np.array(idx._vertex_order).copy()
        sg = idx._search_graph.tocsr()
        obs["search_graph"] = (sg.indptr.copy(), sg.indices.copy(), sg.data.copy())
        s0 = idx.search_rng_state.copy()
        a = idx.query(Q, k=5)
        obs["query1"] = (a[0].copy(), a[1].copy())
        obs["search_rng_unchanged"] = bool(np.array_equal(s0, idx.search_rng_state))
        b = idx.query(Q, k=5)
        obs["repeat_equal"] = bool(np.array_equal(a[0], b[0]) and np.array_equal(a[1], b[1], equal_nan=True))
        # other queries in between, then the same query again
        idx.query(Q[::-1][: max(1, Q.shape[0] // 2)], k=3)
        idx.query(Q[:1], k=7, epsilon=0.3)
        c = idx.query(Q, k=5)
        obs["after_others_equal"] = bool(np.array_equal(a[0], c[0]) and np.array_equal(a[1], c[1], equal_nan=True))
        obs["search_rng_unchanged"] = obs["search_rng_unchanged"] and bool(np.array_equal(s0, idx.search_rng_state))
        if do_update:
            idx.update(xs_fresh=F)
            g = idx.neighbor_graph
            obs["graph_after_update"] = (g[0].copy(), g[1].copy())
            a = idx.query(Q, k=5)
            obs["query_after_update"] = (a[0].copy(), a[1].copy())
    return obs


def same(a, b):
    if isinstance(a, tuple):
        return all(same(x, y) for x, y in zip(a, b))
    if isinstance(a, np.ndarray):
        return a.shape == b.shape and np.array_equal(a, b, equal_nan=a.dtype.kind == "f")
    return a == b


def histories(ctx, nconf, reps):
    import scipy.sparse as sps
    rng = ctx.rng
    stats = dict(configurations=0, runs=0, irreproducible=0, query_dependence=0)
    for c in range(nconf):
        rs = np.random.RandomState(rng.randrange(10 ** 6))
        kind = rng.choice(["gauss", "gauss", "lattice", "dups", "sparse"])
        sparse = kind == "sparse"
        n, dim = rng.choice([1500, 3000, 5000]), rng.choice([6, 12])
        metric = rng.choice(["euclidean", "cosine", "manhattan"]) if sparse else rng.choice(["euclidean", "cosine", "manhattan", "correlation", "hamming"])
        X = make_data(rs, kind, n, dim)
        if sparse:
            Q = X[rs.choice(n, 30, replace=False)]
            F = None
        else:
            Q = np.vstack([X[rs.choice(n, 20, replace=False)], make_data(rs, "gauss" if kind != "lattice" else "lattice", 10, dim),
                           np.zeros((2, dim), dtype=np.float32)])
            F = make_data(rs, kind if kind != "sparse" else "gauss", 150, dim)
        kw = dict(metric=metric, n_neighbors=rng.choice([8, 12]), random_state=rng.randrange(10 ** 4), n_jobs=rng.choice([2, 3, 4, 6, 8, 16]),
                  low_memory=rng.choice([True, False]), diversify_prob=rng.choice([1.0, 1.0, 0.5]), tree_init=rng.choice([True, True, False]))
        desc = dict(data=kind, n=n, dim=dim, kwargs=kw, update=not sparse)
        ctx.crumb(dict(stream="histories", config=desc))
        try:
            runs = [observe(kw, X, Q, F, not sparse) for _ in range(reps)]
        except Exception as e:
            ctx.notes.setdefault("errors", []).append("%s: %s" % (desc, str(e)[:150]))
            continue
        stats["configurations"] += 1
        stats["runs"] += reps
        ctx.nontrivial.add(("conf", c))
        diff = [k for k in runs[0] if any(not same(runs[0][k], r[k]) for r in runs[1:])]
        if diff:
            stats["irreproducible"] += 1
            if stats["irreproducible"] <= 3:
                first = diff[0]
                ctx.violation("irreproducible-" + ("after-prepare" if first not in ("graph", "rng_after_build") else "build"),
                              "%d seeded repetitions (n_jobs=%d, %s, low_memory=%s, diversify_prob=%s) differ in %s" %
                              (reps, kw["n_jobs"], kind, kw["low_memory"], kw["diversify_prob"], diff),
                              dict(config=desc, differing_observables=diff,
                                   rng_after_prepare=[r["rng_after_prepare"].tolist() for r in runs]), True)
        bad = [k for k in ("search_rng_unchanged", "repeat_equal", "after_others_equal") if not all(r[k] for r in runs)]
        if bad:
            stats["query_dependence"] += 1
            if stats["query_dependence"] <= 3:
                ctx.violation("query-history-dependence", "query answers depend on earlier calls (%s): %s" % (metric, bad),
                              dict(config=desc, failed=bad), True)
    ctx.count(stats["runs"])
    ctx.sample(dict(stream="histories", last_config=desc))
    ctx.stream("seeded-histories", repetitions=reps, **stats)


def kernel_repeats(ctx, ncases):
    """the compiled low-memory update kernel, same input, many runs with the whole thread pool: identical output"""
    m = nnd_corr.impl()
    rng = ctx.rng
    differ = 0
    for c in range(ncases):
        n, k, T = rng.choice([200, 800]), rng.choice([4, 8]), rng.choice([2, 5, 16])
        tab = {}

        def dfun(i, j, tab=tab):
            key = (min(i, j), max(i, j))
            if key not in tab:
                tab[key] = rng.choice(nnd_corr.LEVEL_F)
            return tab[key]
        gi, gd, gf = nnd_corr.random_heap_graph(rng, n, k, dfun)
        ups = nnd_corr.random_updates(rng, n, n, dfun, maxlen=6)
        flat, lens = nnd_corr.updates_arrays(ups)
        outs = []
        for _ in range(4):
            a, b, cc = gi.copy(), gd.copy(), gf.copy()
            cl = m["run_apply_low"](a, b, cc, flat, lens, T)
            outs.append((cl, a, b, cc))
        if any(o[0] != outs[0][0] or not np.array_equal(o[1], outs[0][1]) or not np.array_equal(o[2], outs[0][2]) for o in outs[1:]):
            differ += 1
            if differ <= 2:
                ctx.violation("kernel-irreproducible", "apply_graph_updates_low_memory gives different results on identical input (n=%d, n_threads=%d)" % (n, T),
                              dict(n=n, k=k, n_threads=T), True)
        ctx.nontrivial.add(("kr", c))
    ctx.count(4 * ncases)
    ctx.stream("kernel-repeats", cases=ncases, differing=differ)


def small_repeats(ctx, ncases):
    """small indexes whose size is not a multiple of 8 (the visited table's last byte is partial), dense and CSR: every query
    visits most points, so anything that survives from one query row or call to the next changes the answers"""
    import scipy.sparse as sps
    from pynndescent import NNDescent
    rng = ctx.rng
    bad = 0
    for c in range(ncases):
        rs = np.random.RandomState(rng.randrange(10 ** 6))
        n = rng.choice([13, 37, 67, 131, 203, 1003])
        sparse = rng.random() < 0.5
        X = np.where(rs.uniform(size=(n, 10)) < 0.6, rs.uniform(0.1, 2.0, size=(n, 10)), 0).astype(np.float32)
        X[:, 0] = 1.0
        data = sps.csr_matrix(X) if sparse else X
        kw = dict(metric=rng.choice(["euclidean", "cosine", "manhattan"]), n_neighbors=6, random_state=rng.randrange(1000), n_jobs=1,
                  tree_init=rng.choice([True, False]), parallel_batch_queries=False)
        desc = dict(n=n, sparse=sparse, kwargs=kw)
        ctx.crumb(dict(stream="small-repeats", case=desc))
        with warnings.catch_warnings():
            warnings.simplefilter("ignore")
            idx = NNDescent(data, **kw)
            k = min(10, n)
            a = idx.query(data, k=k)
            a = (a[0].copy(), a[1].copy())
            b = idx.query(data, k=k)
            rows = [idx.query(data[i:i + 1], k=k) for i in range(0, n, max(1, n // 6))]
            c2 = idx.query(data, k=k)
            fresh = NNDescent(data, **kw)
            f = fresh.query(data, k=k)
        ctx.nontrivial.add(("sr", c))
        why = None
        if not same(a, (b[0], b[1])) or not same(a, (c2[0], c2[1])):
            why = "the same batch asked again returns different answers (%d of %d rows differ)" % (int((a[0] != c2[0]).any(axis=1).sum() + (a[0] != b[0]).any(axis=1).sum()), n)
        elif not same(a, (f[0], f[1])):
            why = "an index with a query history answers differently from an identically seeded fresh index (%d rows)" % int((a[0] != f[0]).any(axis=1).sum())
        if why:
            bad += 1
            if bad <= 2:
                ctx.violation("query-history-dependence-small", "%s index of %d points: %s" % ("CSR" if sparse else "dense", n, why), dict(case=desc, why=why), True)
    ctx.count(ncases)
    ctx.stream("small-index-repeats", cases=ncases, failures=bad)


def run(ctx):
    ctx.trusted = ["Coq 8.16.1 kernel", "extraction + ocaml/driver.ml (sequential models of apply_graph_updates_low_memory / new_build_candidates)",
                   "the interleaving model: a prange iteration's accesses to ONE heap row are atomic with respect to other threads' accesses to "
                   "OTHER rows (numba threads share nothing else); numba/TBB/OpenMP scheduling itself is not modelled",
                   "harness: np.array_equal on every observable between repetitions"]
    ctx.assumptions = ["fixed integer seed, data, parameters and thread count (n_jobs given explicitly)",
                       "independence is claimed between query() CALLS; rows of one batch share the call's private generator copy",
                       "repetition samples schedules; the quantifier over all schedules is carried by the theorems"]
    ctx.notes["rule"] = ("kernel correspondence under the full thread pool; histories build -> prepare -> 5 queries -> update -> query repeated R times per "
                         "configuration over data gauss/lattice/duplicates/CSR x metric x n_jobs 2..16 x low_memory x diversify_prob 1/0.5 x tree_init, "
                         "queries include rows of the data, fresh rows and all-zero rows; non-trivial = configuration")
    changed, unknown, cur = common.sentinel_status("C05", SENTINELS)
    ctx.sentinels_changed = changed
    ctx.notes["sentinels"] = cur
    ctx.build(COQ_FILES)
    nnd_corr.corr_apply(ctx, ctx.budget(150, 1500), True)
    nnd_corr.corr_nbc(ctx, ctx.budget(100, 1000))
    kernel_repeats(ctx, ctx.budget(6, 60))
    small_repeats(ctx, ctx.budget(10, 80))
    histories(ctx, ctx.budget(8, 60), 3 if not ctx.thorough else 5)
    if not changed and unknown:
        common.update_sentinels(cur)
