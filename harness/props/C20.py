"""C20 — connect_graph terminates and returns a connected supergraph.

Theorems: coq/props/C20.v (rejection_sample: distinct whenever it returns, can never
return when n_samples > pool_size; bridging every pair of components connects the
graph; soundness of the spanning-tree certificate and of the symmetry check).
Tie: exact correspondence of the compiled utils.rejection_sample with the model;
connect_graph runs on generated multi-component indexes in a worker process under a
per-call watchdog; the extracted, proved checkers decide symmetry and connectedness of
every result; containment of the input, cross-component placement and the true metric
distance of the added edges are compared with float64 references."""
import json
import os
import select
import subprocess
import sys
import time

import numpy as np

from harness import common, nnd_corr
from harness.common import fmt

COQ_FILES = ["model/Base.v", "model/Rng.v", "model/Connect.v", "proofs/C20Proofs.v"]
SENTINELS = {"pynndescent/graph_utils.py": ["create_component_search", "find_component_connection_edge", "adjacency_matrix_representation",
                                            "connect_graph"],
             "pynndescent/utils.py": ["rejection_sample", "tau_rand_int", "simple_heap_push", "deheap_sort", "make_heap",
                                      "mark_visited", "has_been_visited"]}
METRICS = ["euclidean", "euclidean", "manhattan", "cosine", "sqeuclidean", "chebyshev", "hellinger", "correlation", "dot", "canberra"]
FIRST_CALL_TIMEOUT = 300      # compilation of the closure for a new metric
CALL_TIMEOUT = 120


def corr_rejection(ctx, ncases):
    m = nnd_corr.impl()
    rng = ctx.rng
    lines, impls = [], []
    spec_fail = 0
    for c in range(ncases):
        pool = rng.choice([1, 2, 3, 5, 10, 11, 17, 40, 1000])
        n = rng.choice([0, 1, pool, max(0, pool - 1), rng.randrange(0, pool + 1)])
        n = min(n, 30)
        st = [rng.randrange(-2 ** 31 + 1, 2 ** 31 - 1) for _ in range(3)]
        a = np.array(st, dtype=np.int64)
        ctx.crumb(dict(stream="rejection_sample", n_samples=n, pool_size=pool, rng_state=st))
        out = m["utils"].rejection_sample(np.int64(n), pool, a)
        res = [int(x) for x in out]
        if len(set(res)) != len(res) or any(not (0 <= x < pool) for x in res) or len(res) != n:
            spec_fail += 1
            if spec_fail <= 2:
                ctx.violation("rejection-spec", "rejection_sample(%d, %d) returned %s: not %d distinct values in range" % (n, pool, res, n),
                              dict(n_samples=n, pool_size=pool, rng_state=st, result=res), True)
        lines.append("rejsample 4000 %d %d %s" % (n, pool, fmt(st)))
        impls.append(nnd_corr.norm("%s | %s" % (fmt(res), fmt(a.tolist()))))
    # the model's verdict on requests that exceed the pool (never run on the implementation in-process: it would not return)
    over = ["rejsample 300 %d %d %s" % (p + e, p, fmt([rng.randrange(1, 2 ** 30) for _ in range(3)])) for p in (1, 2, 5, 9) for e in (1, 3)]
    model = common.run_driver(lines + over)
    dis = 0
    for ln, mo, im in zip(lines, model, impls):
        ctx.nontrivial.add(hash(ln))
        if nnd_corr.norm(mo) != im:
            dis += 1
            if dis <= 2 and spec_fail == 0:
                ctx.violation("rejection-corr", "correspondence stream utils.rejection_sample disagrees with model/Connect.v",
                              dict(case_line=ln, model=mo, implementation=im), False)
    ctx.notes["model_on_oversized_requests"] = sorted(set(x.strip() for x in model[len(lines):]))
    ctx.count(len(lines))
    ctx.sample(dict(stream="rejection_sample", case=lines[0], model=model[0]))
    ctx.stream("rejection_sample", cases=len(lines), disagreements=dis, spec_failures=spec_fail)


class Worker:
    def __init__(self):
        self.p = None

    def start(self):
        env = dict(os.environ)
        env["PYTHONPATH"] = common.REPO + os.pathsep + common.VERIF
        env.setdefault("PYTHONHASHSEED", "0")
        self.p = subprocess.Popen([sys.executable, "-m", "harness.c20_worker"], stdin=subprocess.PIPE, stdout=subprocess.PIPE,
                                  stderr=subprocess.DEVNULL, cwd=common.VERIF, env=env, text=True, bufsize=1)

    def kill(self):
        if self.p is not None:
            self.p.kill()
            self.p.wait()
            self.p = None

    def call(self, spec, timeout):
        """-> (result dict | None on hang/death, last progress dict, reason)"""
        if self.p is None or self.p.poll() is not None:
            self.start()
        self.p.stdin.write(json.dumps(spec) + "\n")
        self.p.stdin.flush()
        deadline = time.time() + timeout
        progress = None
        while True:
            left = deadline - time.time()
            if left <= 0:
                self.kill()
                return None, progress, "hang"
            r, _, _ = select.select([self.p.stdout], [], [], min(left, 5))
            if not r:
                if self.p.poll() is not None:
                    rc = self.p.returncode
                    self.kill()
                    return None, progress, "died (exit status %s)" % rc
                continue
            line = self.p.stdout.readline()
            if not line:
                rc = self.p.poll()
                self.kill()
                return None, progress, "died (exit status %s)" % rc
            try:
                d = json.loads(line)
            except ValueError:
                continue
            if "progress" in d:
                progress = d
                deadline = max(deadline, time.time() + timeout)    # each connect_graph call gets its own allowance
                continue
            return d, progress, None


def gen_spec(rng, cid):
    k = rng.choice([2, 3, 4, 5, 8])
    search_size = rng.choice([10, 10, 10, 3, 20])
    ncl = rng.choice([2, 2, 2, 3, 4, 6])
    kind = rng.choice(["small", "small", "mixed", "large"])
    sizes = []
    for _ in range(ncl):
        if kind == "small":
            sizes.append(rng.randrange(k + 1, max(k + 2, search_size)))
        elif kind == "large":
            sizes.append(rng.randrange(max(k + 1, search_size), search_size + 25))
        else:
            sizes.append(rng.choice([k + 1, k + 2, search_size - 1, search_size, search_size + 1, 30]))
    sizes = [max(s, k + 1) for s in sizes]
    metric = rng.choice(METRICS)
    layout = "directions" if metric in ("cosine", "correlation", "dot", "hellinger") else "offsets"
    if rng.random() < 0.25:
        # tie-heavy categorical data: many pairs at exactly the same distance
        metric = rng.choice(["hamming", "hamming", "manhattan", "euclidean"])
        layout = "categorical"
    spec = dict(id=cid, seed=rng.randrange(10 ** 6), dim=16 if layout == "categorical" else (rng.choice([2, 3, 5]) if layout == "offsets" else rng.choice([4, 6])),
                sizes=sizes, layout=layout, spread=rng.choice([30.0, 100.0]), positive=metric in ("canberra", "hellinger"),
                metric=metric, k=k, tree_init=rng.choice([True, True, False]), search_size=search_size,
                n_jobs=rng.choice([None, None, None, 2, 4]))
    if rng.random() < 0.3:
        spec["update"] = True
        spec["update_sizes"] = [rng.randrange(k + 1, 16) for _ in range(rng.choice([1, 2]))]
        spec["update_shift"] = rng.choice([0.0, 500.0]) if layout == "offsets" else 0.0
    return spec


def connect_stream(ctx, ncases):
    rng = ctx.rng
    w = Worker()
    seen_metrics = set()
    stats = dict(cases=0, calls=0, multi_component=0, small_component=0, hangs=0, errors=0, rejected=0, after_update=0, added_edges=0)
    cert_lines, cert_meta = [], []
    try:
        for c in range(ncases):
            spec = gen_spec(rng, c)
            ctx.crumb(dict(stream="connect_graph", spec=spec))
            to = FIRST_CALL_TIMEOUT if (spec["metric"] not in seen_metrics or w.p is None) else CALL_TIMEOUT
            res, progress, reason = w.call(spec, to)
            seen_metrics.add(spec["metric"])
            stats["cases"] += 1
            if res is None:
                stats["hangs"] += 1
                small = min(spec["sizes"] + spec.get("update_sizes", [])) < spec["search_size"]
                if stats["hangs"] <= 3:
                    ctx.violation("connect-hang" + ("-small-component" if small else ("-ties" if spec["layout"] == "categorical" else "")),
                                  "connect_graph %s within %d s (stage %s; cluster sizes %s, search_size %d)%s" %
                                  ("did not return" if reason == "hang" else reason, to, (progress or {}).get("progress"), spec["sizes"],
                                   spec["search_size"], "; a component is smaller than search_size" if small else ""),
                                  dict(spec=spec, stage=progress, reason=reason, how_to_run="echo '<spec json>' | PYTHONPATH=/repo:/verif "
                                       "/venv/bin/python -m harness.c20_worker"), True)
                if stats["hangs"] >= 4:
                    break
                continue
            if "error" in res:
                stats["errors"] += 1
                if stats["errors"] <= 2:
                    ctx.violation("connect-error", "connect_graph raised %s" % res["error"], dict(spec=spec, error=res["error"], tb=res.get("tb")), True)
                continue
            for st in res["stages"]:
                stats["calls"] += 1
                if st["n_components"] >= 2:
                    stats["multi_component"] += 1
                    ctx.nontrivial.add((c, st["stage"]))
                if st["component_sizes"] and st["component_sizes"][0] < spec["search_size"]:
                    stats["small_component"] += 1
                if st["stage"] == "update":
                    stats["after_update"] += 1
                stats["added_edges"] += st.get("added", 0)
                for pr in st["problems"][:2]:
                    stats["rejected"] += 1
                    if stats["rejected"] <= 3:
                        ctx.violation("connect-result", "connect_graph result (%s, after %s): %s" % (spec["metric"], st["stage"], pr),
                                      dict(spec=spec, stage=st["stage"], problem=pr, components=st["component_sizes"]), True)
                if "edges" in st:
                    e = st["edges"]
                    cert_lines.append("conncert %d %d %s %s %s" % (st["n"], len(e), fmt([x for p in e for x in p]), fmt(st["parent"]), fmt(st["depth"])))
                    cert_meta.append(dict(spec=spec, stage=st["stage"], result_components=st["result_components"],
                                          components=st["component_sizes"]))
            ctx.count(len(res["stages"]))
    finally:
        w.kill()
    out = common.run_driver(cert_lines) if cert_lines else []
    for ln, o, me in zip(cert_lines, out, cert_meta):
        sym, conn = (o.split() + ["0", "0"])[:2]
        if sym != "1":
            stats["rejected"] += 1
            ctx.violation("connect-symmetric", "connect_graph result is not symmetric (%s, after %s)" % (me["spec"]["metric"], me["stage"]), me, True)
        if conn != "1":
            stats["rejected"] += 1
            if not ctx.has_violation("connect-connected") or stats["rejected"] <= 3:
                ctx.violation("connect-connected", "connect_graph result is not connected: %d components remain (input components %s, after %s)" %
                              (me["result_components"], me["components"], me["stage"]), me, True)
    if cert_meta:
        ctx.sample(dict(stream="connect_graph", spec=cert_meta[0]["spec"], components=cert_meta[0]["components"], checker=out[0]))
    ctx.stream("connect_graph-under-watchdog", **stats)


def run(ctx):
    ctx.trusted = ["Coq 8.16.1 kernel", "extraction + ocaml/driver.ml (extracted rejection_sample, conn_cert_chk, sym_chk)",
                   "harness: worker process + watchdog, scipy connected_components / breadth_first_order (only to PROPOSE the spanning tree "
                   "the proved checker verifies, and to label input components), float64 reference metrics (harness/refmetrics.py)",
                   "NOT modelled: the restricted graph search closure and the alternating loop of find_component_connection_edge "
                   "(termination observed under the watchdog, not proved)"]
    ctx.assumptions = ["the graph passed is adjacency_matrix_representation(index.neighbor_graph) of the same prepared index",
                       "n_jobs None, 2 or 4 for the per-pair edge searches",
                       "a call is reported as non-terminating when it exceeds %d s (%d s when a closure must be compiled)" % (CALL_TIMEOUT, FIRST_CALL_TIMEOUT)]
    ctx.notes["rule"] = ("rejection_sample: pools 1..1000, requests 0..pool, random generator states; connect_graph: 2..6 clusters, cluster "
                         "sizes from n_neighbors+1 up (below, at and above search_size in {3,10,20}), 10 metrics with and without surrogate, "
                         "tree_init on/off, 30% with connect -> update -> connect on the same index; non-trivial = call on a graph with >= 2 components")
    changed, unknown, cur = common.sentinel_status("C20", SENTINELS)
    ctx.sentinels_changed = changed
    ctx.notes["sentinels"] = cur
    ctx.build(COQ_FILES)
    corr_rejection(ctx, ctx.budget(300, 3000))
    connect_stream(ctx, ctx.budget(36, 400))
    if not changed and unknown:
        common.update_sentinels(cur)
    ctx.level = "proof"
