"""C13 — neighbour lists only ever improve.

Theorems: coq/props/C13.v (a push never lowers any rank; every graph-writing
kernel is a sequence of pushes; count form == rank form; sorting keeps the
profile).
Tie: exact correspondence of the heap-initialisation kernels and of the NN-descent
kernel layer with the model; the property itself evaluated on the implementation:
rank profiles before/after (supplied init_graph with/without init_dist, successive
NN-descent rounds, append-only update histories)."""
import warnings

import numpy as np

from harness import common, nnd_corr
from harness.common import INF_KEY, fmt

COQ_FILES = ["model/Base.v", "model/Heap.v", "model/Rng.v", "model/NND.v", "proofs/ListAux.v", "proofs/HeapProofs.v",
             "proofs/HeapTopK.v", "proofs/HeapArrays.v", "proofs/NNDProofs.v", "proofs/C13Proofs.v", "proofs/C13Loop.v"]
SENTINELS = {"pynndescent/utils.py": ["checked_flagged_heap_push", "initalize_heap_from_graph_indices",
                                      "initalize_heap_from_graph_indices_and_distances", "apply_graph_updates_low_memory",
                                      "apply_graph_updates_high_memory"],
             "pynndescent/pynndescent_.py": ["init_from_neighbor_graph", "init_rp_tree", "init_random", "nn_descent", "NNDescent.update"]}


def profile(dists):
    return np.sort(np.where(np.isnan(dists), np.inf, dists), axis=1)


def worse_rows(before, after):
    """rows where some rank got larger"""
    return np.nonzero((after > before).any(axis=1))[0]


def corr_initheap(ctx, ncases):
    m = nnd_corr.impl()
    utils, pn, pd = m["utils"], m["pn"], m["pd"]
    rng = ctx.rng
    lines, impls = [], []
    for c in range(ncases):
        n = rng.choice([2, 3, 5, 9])
        k = rng.choice([1, 2, 3, 5])
        cols = rng.choice([1, k, k, k + 2])
        data = nnd_corr.int_data(rng, n, 2, rng.choice(["ties", "ints"]))
        M = nnd_corr.dist_matrix(pd.squared_euclidean, data)
        inds = np.array([[rng.randrange(-1, n) for _ in range(cols)] for _ in range(n)], dtype=np.int64)
        mode = rng.choice([0, 1, 2])
        heap = utils.make_heap(n, k)
        if mode == 0:
            utils.initalize_heap_from_graph_indices(heap, inds, data, pd.squared_euclidean)
            line = "initheap 0 %d %d %d %d %s %s" % (n, k, cols, INF_KEY, fmt(inds.ravel().tolist()),
                                                     fmt(np.array(nnd_corr.mat_keys(M)).ravel().tolist()))
        else:
            ds = np.array([[rng.choice([0.0, 1.0, 2.0, 2.0, 5.0, np.inf]) for _ in range(cols)] for _ in range(n)], dtype=np.float32)
            if mode == 1:
                utils.initalize_heap_from_graph_indices_and_distances(heap, inds, ds)
            else:
                inds32 = inds.astype(np.int32)
                pn.init_from_neighbor_graph(heap, inds32, ds)
            line = "initheap %d %d %d %d %d %s %s" % (mode, n, k, cols, INF_KEY, fmt(inds.ravel().tolist()),
                                                      fmt(np.array(nnd_corr.mat_keys(ds)).ravel().tolist()))
        lines.append(line)
        impls.append(nnd_corr.norm("%s | %s | %s" % (nnd_corr.fmt_mat(heap[0].tolist()), nnd_corr.fmt_kmat(nnd_corr.mat_keys(heap[1])),
                                                      nnd_corr.fmt_mat(heap[2].tolist()))))
    model = common.run_driver(lines)
    dis = 0
    for ln, mo, im in zip(lines, model, impls):
        ctx.nontrivial.add(hash(ln))
        if nnd_corr.norm(mo) != im:
            dis += 1
            if dis <= 3:
                ctx.violation("initheap-corr", "correspondence stream heap initialisation kernels disagrees with model/NND.v",
                              dict(case_line=ln, model=mo, implementation=im), False)
    ctx.count(len(lines))
    ctx.sample(dict(stream="initheap", case=lines[0][:200], model=model[0][:200]))
    ctx.stream("initheap", cases=len(lines), disagreements=dis)


def rounds_monotone(ctx, ncases):
    """successive NN-descent rounds on the implementation (direct calls, same inputs, n_iters = t and t+1)"""
    m = nnd_corr.impl()
    numba, pn, pd = m["numba"], m["pn"], m["pd"]
    rng = ctx.rng
    orig = numba.get_num_threads()
    fails = 0
    done = 0
    try:
        for c in range(ncases):
            n = rng.choice([5, 12, 30, 60])
            k = rng.choice([2, 4, 8])
            data = nnd_corr.int_data(rng, n, rng.choice([1, 2, 3]), rng.choice(["ties", "ints", "half", "dups"]))
            dist = rng.choice([pd.squared_euclidean, pd.manhattan, pd.chebyshev])
            st = [rng.randrange(-2 ** 31 + 1, 2 ** 31 - 1) for _ in range(3)]
            T = rng.choice([1, 2, 4])
            low = rng.choice([True, False])
            leaves = nnd_corr.random_leaves(rng, n, 4, 1) if rng.random() < 0.5 else np.array([[-1]])
            numba.set_num_threads(T)
            prev = None
            for it in range(0, 4):
                gi, gd = pn.nn_descent(data, k, np.array(st, dtype=np.int64), rng.choice([2, k]) if False else k, dist, it, 0.0,
                                       low_memory=low, rp_tree_init=True, leaf_array=leaves, verbose=False)
                prof = profile(gd)
                if prev is not None:
                    bad = worse_rows(prev, prof)
                    if len(bad):
                        fails += 1
                        if fails <= 2:
                            ctx.violation("round-worse", "NN-descent round %d made the neighbour list of point %d worse" % (it, int(bad[0])),
                                          dict(data=data.tolist(), k=k, metric=str(dist), rng_state=st, threads=T, low_memory=low,
                                               leaves=leaves.tolist(), iteration=it, before=prev[bad[0]].tolist(), after=prof[bad[0]].tolist()), True)
                prev = prof
            done += 1
            ctx.nontrivial.add(("rounds", c))
    finally:
        numba.set_num_threads(orig)
    ctx.count(done)
    ctx.stream("rounds-monotone", sequences=done, failures=fails)


def init_graph_monotone(ctx, nbuilds):
    from pynndescent import NNDescent, distances as pd
    rng = ctx.rng
    fails = 0
    done = 0
    for b in range(nbuilds):
        n = rng.choice([6, 15, 40, 80])
        dim = rng.choice([2, 4])
        k = rng.choice([2, 3, 6])
        rs = np.random.RandomState(rng.randrange(10 ** 6))
        X = (rs.randint(0, 4, size=(n, dim)) if rng.random() < 0.5 else rs.normal(size=(n, dim))).astype(np.float32)
        metric = rng.choice(["euclidean", "manhattan", "cosine", "chebyshev"])
        if metric == "cosine":
            X = np.abs(X) + np.float32(0.5)
        cols = k
        ig = np.array([[rng.randrange(-1, n) for _ in range(cols)] for _ in range(n)], dtype=np.int64)
        # a row must not contain the same id twice at different distances (hypothesis); same id twice is fine
        internal = pd.fast_distance_alternatives[metric]["dist"] if metric in pd.fast_distance_alternatives else pd.named_distances[metric]
        true_d = np.array([[internal(X[i], X[j]) if j >= 0 else np.inf for j in row] for i, row in enumerate(ig)], dtype=np.float32)
        with_dist = rng.random() < 0.5
        kw = dict(metric=metric, n_neighbors=k, random_state=rng.randrange(10 ** 4), init_graph=ig, low_memory=rng.choice([True, False]),
                  n_jobs=rng.choice([None, 2]), n_iters=rng.choice([None, 0, 1]))
        if with_dist:
            # the caller supplies distances of the metric itself (as documented); the profile above is in the index's internal scale
            doc = pd.named_distances[metric]
            kw["init_dist"] = np.array([[doc(X[i], X[j]) if j >= 0 else np.inf for j in row] for i, row in enumerate(ig)], dtype=np.float32)
        try:
            with warnings.catch_warnings():
                warnings.simplefilter("ignore")
                idx = NNDescent(X, **kw)
        except Exception as e:
            ctx.notes.setdefault("construction_errors", []).append(str(e)[:100])
            continue
        # profile of the supplied graph: distinct ids per row, best k
        before = np.full((n, k), np.inf, dtype=np.float32)
        for i in range(n):
            seen = {}
            for j, d in zip(ig[i], true_d[i]):
                if j >= 0 and j not in seen:
                    seen[int(j)] = d
            ds = sorted(seen.values())[:k]
            before[i, :len(ds)] = ds
        after = profile(idx._neighbor_graph[1])
        bad = worse_rows(before, after)
        done += 1
        ctx.nontrivial.add(("init", b))
        if len(ctx.samples) < 6:
            ctx.sample(dict(stream="init_graph", n=n, k=k, metric=metric, with_init_dist=with_dist, worse_rows=int(len(bad))))
        if len(bad):
            fails += 1
            if fails <= 2:
                r = int(bad[0])
                ctx.violation("init-worse", "building from init_graph made the neighbour list of point %d worse than the supplied one" % r,
                              dict(X=X.tolist(), kwargs={a: (v.tolist() if isinstance(v, np.ndarray) else v) for a, v in kw.items()},
                                   row=r, supplied_profile=before[r].tolist(), result_profile=after[r].tolist()), True)
    ctx.count(done)
    ctx.stream("init_graph-monotone", builds=done, failures=fails)


def update_monotone(ctx, nhist):
    from pynndescent import NNDescent
    rng = ctx.rng
    fails = 0
    done = 0
    for h in range(nhist):
        n = rng.choice([20, 50, 90])
        dim = rng.choice([2, 5])
        k = rng.choice([3, 6])
        rs = np.random.RandomState(rng.randrange(10 ** 6))
        gen = (lambda m: rs.randint(0, 5, size=(m, dim)).astype(np.float32)) if rng.random() < 0.5 else \
              (lambda m: rs.normal(size=(m, dim)).astype(np.float32))
        X = gen(n)
        metric = rng.choice(["euclidean", "manhattan"])
        try:
            with warnings.catch_warnings():
                warnings.simplefilter("ignore")
                idx = NNDescent(X, metric=metric, n_neighbors=k, random_state=rng.randrange(10 ** 4),
                                low_memory=rng.choice([True, False]), tree_init=rng.choice([True, False]))
                if rng.random() < 0.5:
                    idx.prepare()
                for step in range(rng.choice([1, 2, 3])):
                    before = profile(idx._neighbor_graph[1].copy())
                    nold = before.shape[0]
                    idx.update(xs_fresh=gen(rng.choice([1, 5, 20])))
                    after = profile(idx._neighbor_graph[1][:nold])
                    bad = worse_rows(before, after)
                    if len(bad):
                        fails += 1
                        if fails <= 2:
                            r = int(bad[0])
                            ctx.violation("update-worse", "update(xs_fresh) made the neighbour list of existing point %d worse" % r,
                                          dict(n=n, dim=dim, k=k, metric=metric, step=step, before=before[r].tolist(), after=after[r].tolist()), True)
        except Exception as e:
            ctx.notes.setdefault("update_errors", []).append(str(e)[:100])
            continue
        done += 1
        ctx.nontrivial.add(("update", h))
    ctx.count(done)
    ctx.stream("update-monotone", histories=done, failures=fails)


def run(ctx):
    ctx.trusted = ["Coq 8.16.1 kernel", "extraction + ocaml/driver.ml", "harness rank-profile comparison (numpy sort)"]
    ctx.assumptions = [
        "a supplied init_graph row does not contain the same id twice at DIFFERENT distances; init_dist is taken as given",
        "if init_graph has more than k columns only the best k distinct entries form the 'before' profile",
        "the re-insertion of old rows before new candidates in update() (init_from_neighbor_graph into empty heaps keeps the old profile) "
        "is tied by exact correspondence of that kernel and checked on update histories, not proved as a separate theorem",
    ]
    ctx.notes["rule"] = ("initheap cases: random index/distance matrices incl. -1, repeats, more/fewer columns than k; rounds: nn_descent with "
                         "n_iters=0..3 on identical inputs; init_graph and append-only update histories through the public API; "
                         "non-trivial = distinct configuration")
    changed, unknown, cur = common.sentinel_status("C13", SENTINELS)
    ctx.sentinels_changed = changed
    ctx.notes["sentinels"] = cur
    ctx.build(COQ_FILES)
    corr_initheap(ctx, ctx.budget(150, 1500))
    nnd_corr.corr_apply(ctx, ctx.budget(50, 400), True)
    cases, bad = nnd_corr.corr_nnd_direct(ctx, ctx.budget(15, 150), True)
    for (cs, mo, im, ln) in bad[:2]:
        ctx.violation("nnd-corr", "correspondence stream nn_descent(direct) disagrees with model/NND.v",
                      dict(case_line=ln[:1500], model=mo[:800], implementation=im[:800]), False)
    rounds_monotone(ctx, ctx.budget(20, 200))
    init_graph_monotone(ctx, ctx.budget(16, 150))
    update_monotone(ctx, ctx.budget(8, 60))
    if not changed and unknown:
        common.update_sentinels(cur)
