"""C15 — diversification removes exactly the long edges of triangles.

Theorems: coq/props/C15.v (greedy specification; forward rows and reverse CSR rows
compute it for every storage order / tie order; pinned dense CSR variant refuted).
Tie: the four compiled kernels (pynndescent_.diversify, sparse.diversify,
pynndescent_.diversify_csr, sparse.diversify_csr) run under one numba thread against
the extracted model, bit-exact including the generator state.
Failing-input search: the greedy specification evaluated on the kernels' outputs."""
import numpy as np

from harness import common, nnd_corr
from harness.common import INF_KEY, fmt

COQ_FILES = ["model/Base.v", "model/Rng.v", "model/Diversify.v", "proofs/ListAux.v", "proofs/C15Proofs.v", "proofs/C15Wiring.v"]
SENTINELS = {"pynndescent/pynndescent_.py": ["diversify", "diversify_csr", "NNDescent._init_search_graph"],
             "pynndescent/sparse.py": ["diversify", "diversify_csr"],
             "pynndescent/utils.py": ["tau_rand", "tau_rand_int"]}

EPS = float(np.finfo(np.float32).eps)
EPS_KEY = None


def impl():
    m = nnd_corr.impl()
    if "argsort" not in m:
        import numba

        @numba.njit
        def nb_argsort(x):
            return np.argsort(x)
        m["argsort"] = nb_argsort
    return m


def spec_flags(cands, dfun):
    """cands: list of (id, d) in processing order -> kept flags (greedy specification)"""
    kept = []
    flags = []
    for (j, dj) in cands:
        occluded = any((dl > EPS) and (dfun(j, l) < dj) for (l, dl) in kept)
        if not flags:
            occluded = False
        flags.append(not occluded)
        if not occluded:
            kept.append((j, dj))
    return flags


def make_points(rng, n):
    kind = rng.choice(["line", "plane", "dups"])
    if kind == "line":
        X = np.array([[rng.randrange(0, 12)] for _ in range(n)], dtype=np.float32)
    elif kind == "plane":
        X = np.array([[rng.randrange(0, 5), rng.randrange(0, 5)] for _ in range(n)], dtype=np.float32)
    else:
        base = [[rng.randrange(0, 6), rng.randrange(0, 3)] for _ in range(max(2, n // 3))]
        X = np.array([rng.choice(base) for _ in range(n)], dtype=np.float32)
    return X


def forward_cases(ctx, ncases, sparse):
    """diversify (dense / sparse): neighbour rows in ascending order with -1 padding"""
    import scipy.sparse as sps
    m = impl()
    numba, pn, pd, sp = m["numba"], m["pn"], m["pd"], m["sp"]
    rng = ctx.rng
    lines, impls, metas = [], [], []
    orig = numba.get_num_threads()
    numba.set_num_threads(1)
    try:
        for c in range(ncases):
            n = rng.choice([3, 5, 8, 12])
            k = rng.choice([1, 2, 3, 5, 7])
            X = make_points(rng, n)
            if sparse:
                X = X + np.float32(1.0)  # keep rows non-empty in CSR form
            dist = sp.sparse_squared_euclidean if sparse else pd.squared_euclidean
            csr = sps.csr_matrix(X) if sparse else None
            if sparse:
                rows = [(csr.indices[csr.indptr[i]:csr.indptr[i + 1]], csr.data[csr.indptr[i]:csr.indptr[i + 1]]) for i in range(n)]
                M = np.array([[dist(rows[a][0], rows[a][1], rows[b][0], rows[b][1]) for b in range(n)] for a in range(n)], dtype=np.float32)
            else:
                M = nnd_corr.dist_matrix(dist, X)
            inds = np.full((n, k), -1, dtype=np.int32)
            ds = np.full((n, k), np.inf, dtype=np.float32)
            for i in range(n):
                cnt = rng.randrange(0, k + 1)
                nb = list(range(n))
                rng.shuffle(nb)
                nb = sorted(nb[:cnt], key=lambda j: M[i, j])
                if rng.random() < 0.15 and cnt:
                    rng.shuffle(nb)  # not ascending: the model must still agree
                for t, j in enumerate(nb):
                    inds[i, t] = j
                    ds[i, t] = M[i, j]
            prob = rng.choice([1.0, 1.0, 1.0, 0.5, 0.0])
            st = [rng.randrange(-2 ** 31 + 1, 2 ** 31 - 1) for _ in range(3)]
            line = "divfwd %d %d %d %d %d %d %s %s %s %s" % (
                n, n, k, EPS_KEY, common.key_of_float(prob), INF_KEY, fmt(st), fmt(inds.ravel().tolist()),
                fmt(np.array(nnd_corr.mat_keys(ds)).ravel().tolist()), fmt(np.array(nnd_corr.mat_keys(M)).ravel().tolist()))
            oi, od = inds.copy(), ds.copy()
            rs = np.array(st, dtype=np.int64)
            if sparse:
                sp.diversify(oi, od, csr.indices, csr.indptr, csr.data, dist, rs, prob)
            else:
                pn.diversify(oi, od, X, dist, rs, prob)
            impls.append(nnd_corr.norm("%s | %s | %s" % (nnd_corr.fmt_mat(oi.tolist()), nnd_corr.fmt_kmat(nnd_corr.mat_keys(od)), fmt(rs.tolist()))))
            lines.append(line)
            metas.append(dict(X=X.tolist(), inds=inds.tolist(), ds=ds.tolist(), prob=prob, M=M, out_i=oi, out_d=od, rng=st))
    finally:
        numba.set_num_threads(orig)
    model = common.run_driver(lines)
    name = "sparse.diversify" if sparse else "pynndescent_.diversify"
    dis = spec_fail = 0
    for ln, mo, im, me in zip(lines, model, impls, metas):
        ctx.nontrivial.add(hash(ln))
        # the specification on the implementation's output (probability 1 and 0 only)
        why = None
        if me["prob"] in (1.0, 0.0):
            M = me["M"]
            for i, (ri, rd) in enumerate(zip(me["inds"], me["ds"])):
                cands = []
                for j, d in zip(ri, rd):
                    if j < 0:
                        break
                    cands.append((j, d))
                if not cands:
                    continue
                flags = spec_flags(cands, lambda a, b: M[a, b]) if me["prob"] == 1.0 else [True] * len(cands)
                want = [c[0] for c, f in zip(cands, flags) if f]
                got = [int(x) for x in me["out_i"][i] if x >= 0]
                if want != got:
                    why = "row %d: kept %s, the specification keeps %s (candidates %s)" % (i, got, want, cands)
                    break
        if why:
            spec_fail += 1
            if spec_fail <= 2:
                ctx.violation("fwd-spec:%s" % name, "%s violates the diversification specification: %s" % (name, why),
                              dict(kernel=name, X=me["X"], indices=me["inds"], distances=me["ds"], prune_probability=me["prob"],
                                   rng_state=me["rng"], why=why), True)
        if nnd_corr.norm(mo) != im:
            dis += 1
            if dis <= 2 and not why:
                ctx.violation("fwd-corr:%s" % name, "correspondence stream %s disagrees with model/Diversify.v" % name,
                              dict(case_line=ln[:1500], model=mo[:800], implementation=im[:800]), False)
    ctx.count(len(lines))
    ctx.sample(dict(stream=name, case=lines[0][:200], model=model[0][:200]))
    ctx.stream(name, cases=len(lines), disagreements=dis, spec_failures=spec_fail)


def csr_cases(ctx, ncases, sparse, use_l):
    import scipy.sparse as sps
    m = impl()
    numba, pn, pd, sp = m["numba"], m["pn"], m["pd"], m["sp"]
    rng = ctx.rng
    lines, impls, metas = [], [], []
    orig = numba.get_num_threads()
    numba.set_num_threads(1)
    try:
        for c in range(ncases):
            n = rng.choice([3, 4, 6, 9, 12])
            X = make_points(rng, n)
            if sparse:
                X = X + np.float32(1.0)
            dist = sp.sparse_squared_euclidean if sparse else pd.squared_euclidean
            csr = sps.csr_matrix(X) if sparse else None
            if sparse:
                rows = [(csr.indices[csr.indptr[i]:csr.indptr[i + 1]], csr.data[csr.indptr[i]:csr.indptr[i + 1]]) for i in range(n)]
                M = np.array([[dist(rows[a][0], rows[a][1], rows[b][0], rows[b][1]) for b in range(n)] for a in range(n)], dtype=np.float32)
            else:
                M = nnd_corr.dist_matrix(dist, X)
            indptr = [0]
            gi, gd = [], []
            for i in range(n):
                cnt = rng.randrange(0, n)
                nb = [j for j in range(n)]
                rng.shuffle(nb)
                nb = nb[:cnt]
                order_kind = rng.choice(["asc", "desc", "random", "byindex"])
                if order_kind == "asc":
                    nb.sort(key=lambda j: M[i, j])
                elif order_kind == "desc":
                    nb.sort(key=lambda j: -M[i, j])
                elif order_kind == "byindex":
                    nb.sort()
                for j in nb:
                    gi.append(j)
                    # zero distances are stored as FLOAT32_EPS by _init_search_graph
                    gd.append(M[i, j] if M[i, j] != 0 else np.float32(EPS))
                indptr.append(len(gi))
            indptr = np.array(indptr, dtype=np.int32)
            gi = np.array(gi, dtype=np.int32)
            gd = np.array(gd, dtype=np.float32)
            prob = rng.choice([1.0, 1.0, 1.0, 0.5, 0.0])
            st = [rng.randrange(-2 ** 31 + 1, 2 ** 31 - 1) for _ in range(3)]
            parts = ["divcsr", n, 1 if use_l else 0, EPS_KEY, common.key_of_float(prob), n]
            orders = []
            for i in range(n):
                ci = gi[indptr[i]:indptr[i + 1]]
                cd = gd[indptr[i]:indptr[i + 1]]
                o = m["argsort"](cd.copy()) if len(cd) else np.array([], dtype=np.int64)
                orders.append(o.tolist())
                parts += [len(ci), fmt(ci.tolist()), fmt(common.f32_keys(cd)), fmt(o.tolist())]
            parts += [fmt(st), fmt(np.array(nnd_corr.mat_keys(M)).ravel().tolist())]
            out = gd.copy()
            rs = np.array(st, dtype=np.int64)
            if sparse:
                sp.diversify_csr(indptr, gi, out, csr.indptr, csr.indices, csr.data, dist, rs, prob)
            else:
                pn.diversify_csr(indptr, gi, out, X, dist, rs, prob)
            okeys = common.f32_keys(out)
            im = " ".join(fmt(okeys[indptr[i]:indptr[i + 1]]) + " ;" for i in range(n))
            impls.append(nnd_corr.norm("%s | %s" % (im, fmt(rs.tolist()))))
            lines.append(" ".join(str(p) for p in parts))
            metas.append(dict(X=X.tolist(), indptr=indptr.tolist(), indices=gi.tolist(), data=gd.tolist(), out=out.tolist(), prob=prob,
                              M=M, orders=orders, rng=st))
    finally:
        numba.set_num_threads(orig)
    model = common.run_driver(lines)
    name = "sparse.diversify_csr" if sparse else "pynndescent_.diversify_csr"
    dis = spec_fail = 0
    decisions = wrong = 0
    for ln, mo, im, me in zip(lines, model, impls, metas):
        ctx.nontrivial.add(hash(ln))
        why = None
        if me["prob"] in (1.0, 0.0):
            M = me["M"]
            ip = me["indptr"]
            for i in range(len(ip) - 1):
                ci = me["indices"][ip[i]:ip[i + 1]]
                cd = me["data"][ip[i]:ip[i + 1]]
                o = me["orders"][i]
                cands = [(ci[t], np.float32(cd[t])) for t in o]
                if not cands:
                    continue
                flags = spec_flags(cands, lambda a, b: M[a, b]) if me["prob"] == 1.0 else [True] * len(cands)
                for t, f in zip(o, flags):
                    decisions += 1
                    got_kept = me["out"][ip[i] + t] != 0
                    if got_kept != f:
                        wrong += 1
                        if why is None:
                            why = "node %d: edge to %d (length %r) %s, the specification %s it (row %s, lengths %s)" % (
                                i, ci[t], float(cd[t]), "kept" if got_kept else "removed", "removes" if not f else "keeps", ci, [float(x) for x in cd])
        if why:
            spec_fail += 1
            if spec_fail <= 2:
                ctx.violation("csr-spec:%s" % name, "%s violates the diversification specification: %s" % (name, why),
                              dict(kernel=name, X=me["X"], indptr=me["indptr"], indices=me["indices"], data=me["data"],
                                   prune_probability=me["prob"], rng_state=me["rng"], why=why), True)
        if nnd_corr.norm(mo) != im:
            dis += 1
            if dis <= 2 and not why:
                ctx.violation("csr-corr:%s" % name, "correspondence stream %s disagrees with model/Diversify.v (use_l=%s)" % (name, use_l),
                              dict(case_line=ln[:1500], model=mo[:800], implementation=im[:800]), False)
    ctx.count(len(lines))
    ctx.sample(dict(stream=name, case=lines[0][:200], model=model[0][:200]))
    ctx.stream(name, cases=len(lines), disagreements=dis, spec_failures=spec_fail, decisions=decisions, wrong_decisions=wrong, model_variant_use_l=use_l)
    return dis, spec_fail


def index_wiring(ctx, nsets):
    """the property at NNDescent._search_graph: the index hands its diversify_prob to all four passes (dense / sparse x forward /
    reverse).  The neighbour graph of a built index is replaced by the exact brute-force graph (so that the dense and the sparse index
    prune the same rows), the search graph is rebuilt, and its edge set is compared with
      probability 0 : the symmetrised neighbour graph (nothing removed),
      probability 1 : the greedy specification applied forward and then to the reversed graph (skipped when a row has tied
                      distances: the order of ties is not specified), and dense = sparse in every case."""
    import scipy.sparse as sps
    from pynndescent import NNDescent
    rng = ctx.rng
    bad = {}
    done = 0
    ambiguous = 0

    def edges(m):
        m = m.tocoo()
        return set((int(a), int(b)) for a, b, v in zip(m.row, m.col, m.data) if v != 0 and a != b)

    # the four-point witness of coq/props/C15.v (C15_index_reverse_pass_refuted; edge lists: witness_edges in proofs/C15Wiring.v)
    WIT = np.array([(4, 2), (0, 7), (4, 7), (6, 4)], dtype=np.float32)
    WIT_CODED = {(0, 1), (0, 3), (1, 0), (1, 2), (2, 1), (2, 3), (3, 0), (3, 2)}
    WIT_INTENDED = WIT_CODED - {(1, 0)}
    for t in range(-1, nsets):
        if t < 0:
            n, k = 4, 4
            X = WIT.copy()
        else:
            n, k = rng.choice([(60, 5), (90, 6), (120, 8)])
            rs = np.random.RandomState(rng.randrange(10 ** 6))
            X = rs.randint(0, 400, size=(n, 3)).astype(np.float32)
            if t % 3 == 2:
                X[n // 2:n // 2 + 6] = X[:6]            # exact duplicates (zero-distance neighbours)
            X[:, 0] += 1.0                               # no all-zero row (CSR rows never empty)
        D = ((X[:, None, :].astype(np.float64) - X[None, :, :]) ** 2).sum(-1)     # exact: squared euclidean of small integers
        order = np.argsort(D + np.eye(n) * -1.0, axis=1, kind="stable")[:, :k]
        knn_i = order.astype(np.int32)
        knn_d = np.take_along_axis(D, order, axis=1).astype(np.float32)
        dfun = lambda a, b: float(D[a, b])
        graphs = {}
        for prob in (0.0, 1.0):
            for kind in ("dense", "sparse"):
                for compressed in ((False, True) if prob == 0.0 else (False,)):
                    data = X if kind == "dense" else sps.csr_matrix(X)
                    try:
                        idx = NNDescent(data, metric="euclidean", n_neighbors=k, tree_init=False, diversify_prob=prob,
                                        pruning_degree_multiplier=100.0, random_state=7, compressed=compressed, n_jobs=1)
                        idx._neighbor_graph = (knn_i.copy(), knn_d.copy())
                        for a in ("_search_graph", "_search_function", "_vertex_order"):
                            if hasattr(idx, a):
                                delattr(idx, a)
                        idx._init_search_graph()
                        g = idx._search_graph
                        vo = np.asarray(idx._vertex_order)
                        got = set((int(vo[a]), int(vo[b])) for (a, b) in edges(g))
                    except Exception as e:
                        key = "index-wiring-raises:%s" % kind
                        if key not in bad:
                            bad[key] = 1
                            ctx.violation(key, "building the search graph of a %s index with diversify_prob=%r raises %s" % (kind, prob, type(e).__name__),
                                          dict(kind=kind, diversify_prob=prob, error=str(e)[:300], data=X.tolist()), True)
                        continue
                    graphs[(prob, kind, compressed)] = got
                    done += 1
        if t < 0:
            # replay of the Coq witness on the real index: the model of the wiring as coded must describe the code
            for kind in ("dense", "sparse"):
                got = graphs.get((1.0, kind, False))
                if got is not None and got != WIT_CODED and got != WIT_INTENDED:
                    bad["index-witness:%s" % kind] = 1
                    ctx.violation("index-witness:%s" % kind,
                                  "the four-point witness of C15_index_reverse_pass_refuted: the %s index's search graph %s is neither the graph of the "
                                  "wiring as coded nor the intended one (proofs/C15Wiring.v no longer describes _init_search_graph)" % (kind, sorted(got)),
                                  dict(data=X.tolist(), n_neighbors=k, got=sorted(got), as_coded=sorted(WIT_CODED), intended=sorted(WIT_INTENDED)), True)
            ctx.notes["witness_replay"] = {kind: ("as coded (reverse edge 1->0 present: finding reproduced)" if graphs.get((1.0, kind, False)) == WIT_CODED
                                                  else "intended" if graphs.get((1.0, kind, False)) == WIT_INTENDED else "other")
                                           for kind in ("dense", "sparse")}
        base = set((i, int(j)) for i in range(n) for j in knn_i[i] if int(j) != i)
        sym = base | set((b, a) for (a, b) in base)
        # specification for probability 1
        tied = False
        fwd = set()
        for i in range(n):
            cands = [(int(j), float(knn_d[i, c])) for c, j in enumerate(knn_i[i])]
            ds = [d for _, d in cands]
            if len(set(ds)) < len(ds) or any(dfun(a, b) == db for (a, da) in cands for (b, db) in cands if a != b and a != i and b != i):
                tied = True
            fl = spec_flags(cands, dfun)
            fwd |= set((i, j) for (j, d), f in zip(cands, fl) if f and j != i)
        rev = set()
        for i in range(n):
            inc = sorted([(max(float(D[j, i]), EPS), j) for (j, t2) in fwd if t2 == i])
            cands = [(j, d) for d, j in inc]
            ds = [d for _, d in cands]
            if len(set(ds)) < len(ds) or any(dfun(a, b) == db for (a, da) in cands for (b, db) in cands if a != b):
                tied = True
            fl = spec_flags(cands, dfun)
            rev |= set((i, j) for (j, d), f in zip(cands, fl) if f)
        spec1 = fwd | rev
        ambiguous += tied

        def report(key, what, got, want, extra):
            if key in bad:
                bad[key] += 1
                return
            bad[key] = 1
            miss = sorted(want - got)[:8]
            add = sorted(got - want)[:8]
            ctx.violation(key, "%s: %d edges missing (e.g. %s), %d extra (e.g. %s)" % (what, len(want - got), miss[:3], len(got - want), add[:3]),
                          dict(data=X.tolist(), n_neighbors=k, missing=miss, extra=add, **extra), True)
        for (prob, kind, compressed), got in graphs.items():
            if prob == 0.0 and got != sym:
                report("index-prob0:%s" % kind, "%s index (compressed=%s) with diversify_prob=0: the search graph is not the symmetrised neighbour graph "
                       "(probability 0 must remove nothing)" % (kind, compressed), got, sym, dict(kind=kind, diversify_prob=0.0, compressed=compressed))
            if prob == 1.0 and not tied and got != spec1 and got == (fwd | set((b, a) for (a, b) in fwd)):
                # forward rows right, reverse rows not diversified at all: the call site hands diversify_csr the arrays of
                # self._search_graph.transpose(), a CSC *view* whose (indptr, indices, data) are the forward rows again
                report("index-reverse-pass-not-applied:%s" % kind,
                       "%s index with diversify_prob=1: reverse edges that the rule removes are all kept - _init_search_graph applies the reverse "
                       "pass to a transposed view (the forward rows again), so it removes nothing" % kind, got, spec1, dict(kind=kind, diversify_prob=1.0))
            elif prob == 1.0 and not tied and got != spec1:
                report("index-prob1:%s" % kind, "%s index with diversify_prob=1: the search graph differs from the forward + reverse specification" % kind,
                       got, spec1, dict(kind=kind, diversify_prob=1.0))
        for prob in (0.0, 1.0):
            a, b = graphs.get((prob, "dense", False)), graphs.get((prob, "sparse", False))
            if a is not None and b is not None and a != b:
                report("index-dense-vs-sparse:%s" % prob, "dense and sparse index with diversify_prob=%r keep different edges on the same neighbour graph" % prob,
                       a, b, dict(diversify_prob=prob))
        ctx.nontrivial.add(("wiring", t))
    ctx.count(done)
    ctx.sample(dict(stream="index-wiring", sets=nsets))
    ctx.stream("index-wiring", datasets=nsets, search_graphs_built=done, datasets_with_tied_rows_skipped_for_prob1_spec=ambiguous, problems=bad)


def run(ctx):
    global EPS_KEY
    EPS_KEY = common.key_of_float(EPS)
    ctx.trusted = ["Coq 8.16.1 kernel; vm_compute for the refutation witness / Examples", "extraction + ocaml/driver.ml",
                   "harness: numba's own np.argsort (called through a one-line njit helper) supplies the sorting permutation the "
                   "compiled diversify_csr uses; distance matrices computed with the compiled metric"]
    ctx.assumptions = [
        "prune_probability is float32-representable (0, 0.5, 1 are used)",
        "theorems for probability 1 assume the generator never returns a value >= 1.0f; C15_tau_rand_can_return_one exhibits a "
        "state where it does (measure about 2^-25 per draw): recorded, not judged a violation of the quantified statement",
        "the kernels run on one numba thread in the correspondence (the shared generator is a C05 matter)",
    ]
    ctx.notes["rule"] = ("rows over integer points (line / plane / duplicates): ascending, descending, random and by-index storage, ties, "
                         "zero-distance duplicates stored as FLOAT32_EPS, -1 padding; probabilities 1, 0.5, 0; non-trivial = distinct case line")
    changed, unknown, cur = common.sentinel_status("C15", SENTINELS)
    ctx.sentinels_changed = changed
    ctx.notes["sentinels"] = cur
    ctx.build(COQ_FILES)
    m = impl()
    one = m["utils"].tau_rand(np.array([524286, 0, 0], dtype=np.int64))
    ctx.notes["tau_rand_on_witness_state_[524286,0,0]"] = float(one)
    nc = ctx.budget(120, 1200)
    forward_cases(ctx, nc, False)
    forward_cases(ctx, nc, True)
    csr_cases(ctx, nc, True, True)
    # dense CSR: which variant does the tree implement?
    probe = common.Ctx("C15", ctx.tier, ctx.seed)
    probe.rng.seed(ctx.seed + 7)
    d_true, s_true = csr_cases(probe, max(40, nc // 3), False, True)
    if d_true == 0:
        ctx.notes["dense_diversify_csr_compares_with"] = "current_indices[order[k]] (repaired variant; C15_reverse_row applies)"
        csr_cases(ctx, nc, False, True)
    else:
        probe2 = common.Ctx("C15", ctx.tier, ctx.seed)
        probe2.rng.seed(ctx.seed + 7)
        d_false, _ = csr_cases(probe2, max(40, nc // 3), False, False)
        ctx.notes["dense_diversify_csr_compares_with"] = "current_indices[k] (pinned variant)" if d_false == 0 else "neither model variant"
        csr_cases(ctx, nc, False, d_false != 0)
    index_wiring(ctx, ctx.budget(3, 12))
    if not changed and unknown:
        common.update_sentinels(cur)
