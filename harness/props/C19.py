"""C19 — an index never leaves the process-wide thread setting changed.

Theorem: coq/props/C19.v (soundness of restores_chk for all skeletons, all fault
sequences, all entry counts, stale saved values and n_jobs).
Tie: the skeleton of every method of NNDescent / PyNNDescentTransformer is
REGENERATED from /repo's source on every run (harness/skel/translate.py), compiled,
and restores_chk evaluated on it inside coqc (vm_compute); for accepted skeletons a
per-run theorem is generated and kernel-checked.  The translator is validated by a
self-test corpus and by behavioural probes of the real code (thread count before /
after, normal completion and every fault the harness can trigger from outside).
Failing-input search: the probes."""
import os
import re
import subprocess
import warnings

import numpy as np

from harness import common
from harness.skel import translate as T

COQ_FILES = ["model/Skel.v", "proofs/C19Proofs.v"]
SENTINELS = {"pynndescent/pynndescent_.py": ["NNDescent.__init__", "NNDescent._init_search_graph", "NNDescent.prepare", "NNDescent.query",
                                             "NNDescent.update", "NNDescent.compress_index", "NNDescent.__getstate__",
                                             "NNDescent.__setstate__"]}
GEN = os.path.join(common.COQ, "gen")


def coqc_gen(fname):
    p = subprocess.run("timeout 300 coqc -Q model PV -Q proofs PV -Q gen \"\" gen/%s 2>&1" % fname, cwd=common.COQ, shell=True,
                       stdout=subprocess.PIPE, text=True)
    return p.returncode, p.stdout


def evaluate_skeletons(skels, tag):
    """emit, compile, return {name: bool}"""
    os.makedirs(GEN, exist_ok=True)
    fname = "SkelGen.v" if tag == "repo" else "SkelSelf%s.v" % tag
    names = T.emit_coq(skels, os.path.join(GEN, fname))
    rc, out = coqc_gen(fname)
    vals = re.findall(r"=\s*(true|false)", out)
    if rc != 0 or len(vals) != len(names):
        return None, out
    return {k: (v == "true") for (k, ident), v in zip(names, vals)}, names


def probes(ctx):
    """behavioural probes on the real code: thread count before/after"""
    import numba
    import scipy.sparse as sps
    from pynndescent import NNDescent
    import pickle
    rs = np.random.RandomState(5)
    X = rs.normal(size=(60, 4)).astype(np.float32)
    Xs = sps.csr_matrix(np.abs(X))
    base = numba.get_num_threads()
    results = []

    @numba.njit
    def bad_metric(x, y):
        if x[0] > -1e30:
            raise ValueError("metric failure")
        return 0.0

    def run(label, fn, ambient=None, expect_raise=None):
        numba.set_num_threads(base)
        if ambient is not None:
            numba.set_num_threads(ambient)
        before = numba.get_num_threads()
        raised = None
        ctx.crumb(dict(stream="probes", probe=label))
        try:
            with warnings.catch_warnings():
                warnings.simplefilter("ignore")
                fn()
        except BaseException as e:  # noqa
            raised = type(e).__name__
        after = numba.get_num_threads()
        numba.set_num_threads(base)
        results.append(dict(probe=label, before=before, after=after, raised=raised))
        return before == after

    state = {}
    for nj in (None, -1, 1, 2, 7):
        run("construct dense n_jobs=%s" % nj, lambda nj=nj: state.__setitem__("idx", NNDescent(X, n_neighbors=5, random_state=1, n_jobs=nj)))
        run("prepare n_jobs=%s" % nj, lambda: state["idx"].prepare())
        run("query n_jobs=%s" % nj, lambda: state["idx"].query(X[:3], k=3))
        run("update (prepared) n_jobs=%s" % nj, lambda: state["idx"].update(xs_fresh=X[:5] + 1))
        run("pickle round trip n_jobs=%s" % nj, lambda: pickle.loads(pickle.dumps(state["idx"])))
        run("compress n_jobs=%s" % nj, lambda: state["idx"].compress_index())
        run("construct CSR n_jobs=%s" % nj, lambda nj=nj: NNDescent(Xs, n_neighbors=5, random_state=1, n_jobs=nj).prepare())
        # ambient count changed between construction and prepare / lazy prepare in query / update
        run("construct (ambient 5) n_jobs=%s" % nj, lambda nj=nj: state.__setitem__("idx2", NNDescent(X, n_neighbors=5, random_state=1, n_jobs=nj)), ambient=5)
        run("prepare after ambient change 5->3 n_jobs=%s" % nj, lambda: state["idx2"].prepare(), ambient=3)
        run("query after ambient change n_jobs=%s" % nj, lambda: state["idx2"].query(X[:2], k=2), ambient=4)
        run("update after ambient change n_jobs=%s" % nj, lambda: state["idx2"].update(xs_fresh=X[:4] + 2), ambient=6)
        # faults after the threads were limited
        run("FAULT sparse unsupported metric n_jobs=%s" % nj, lambda nj=nj: NNDescent(Xs, metric="haversine", n_jobs=nj))
        run("FAULT init_graph row mismatch n_jobs=%s" % nj,
            lambda nj=nj: NNDescent(X, n_neighbors=5, init_graph=np.zeros((10, 5), dtype=np.int64), n_jobs=nj))
        run("FAULT init_dist shape mismatch n_jobs=%s" % nj,
            lambda nj=nj: NNDescent(X, n_neighbors=5, init_graph=np.zeros((60, 5), dtype=np.int64), init_dist=np.zeros((60, 4), dtype=np.float32), n_jobs=nj))
        run("FAULT invalid initial graph (k mismatch) n_jobs=%s" % nj,
            lambda nj=nj: NNDescent(X, n_neighbors=5, init_graph=np.zeros((60, 3), dtype=np.int64), n_jobs=nj))
        run("FAULT raising metric n_jobs=%s" % nj, lambda nj=nj: NNDescent(X, metric=bad_metric, n_neighbors=5, n_jobs=nj, tree_init=False))
        run("FAULT sparse init_graph row mismatch n_jobs=%s" % nj,
            lambda nj=nj: NNDescent(Xs, n_neighbors=5, init_graph=np.zeros((10, 5), dtype=np.int64), n_jobs=nj))
    return results


def run(ctx):
    ctx.trusted = ["Coq 8.16.1 kernel; vm_compute evaluates restores_chk on the regenerated terms",
                   "the translator harness/skel/translate.py (Python ast -> Skel.stmt; fail closed; call classification table in its docstring)",
                   "numba.get_num_threads()/set_num_threads() are the only accessors of the setting"]
    ctx.assumptions = ["restoring a previously valid thread count does not itself raise",
                       "attribute reads / subscripts / plain stores are treated as non-raising; every call may raise",
                       "loops that contain a thread operation are rejected (Unknown) rather than modelled"]
    ctx.notes["rule"] = ("programs = methods of NNDescent and PyNNDescentTransformer translated this run; probes = n_jobs in {None,-1,1,2,7} x "
                         "{construct, prepare, query, update, pickle, compress, CSR, ambient thread count changed between calls, six fault "
                         "injections}; non-trivial = probe in which threads were actually limited or a fault was raised")
    changed, unknown, cur = common.sentinel_status("C19", SENTINELS)
    ctx.sentinels_changed = changed
    ctx.notes["sentinels"] = cur
    ctx.build(COQ_FILES)

    # translator self-test corpus
    self_bad = []
    for i, (src, name, expect) in enumerate(T.SELFTEST):
        sk = T.translate_source(src)
        vals, names = evaluate_skeletons(sk, str(i))
        got = None if vals is None else vals.get(name)
        if got is not expect:
            self_bad.append(dict(snippet=i, method=name, expected=expect, got=got))
    if self_bad:
        ctx.violation("translator-selftest", "the skeleton translator fails its self-test corpus (machinery error)", dict(failures=self_bad), False)
    ctx.count(len(T.SELFTEST))
    ctx.stream("translator-selftest", snippets=len(T.SELFTEST), failures=len(self_bad))

    # regenerate the skeletons of the real source
    src = open(os.path.join(common.REPO, "pynndescent", "pynndescent_.py")).read()
    skels = T.translate_source(src)
    vals, names = evaluate_skeletons(skels, "repo")
    rejected = []
    if vals is None:
        ctx.violation("skeleton-compile", "the regenerated skeleton file does not compile", dict(log=str(names)[-1500:]), False)
        vals = {}
    else:
        rejected = sorted(k for k, v in vals.items() if not v)
        ok = [(k, ident) for (k, ident) in names if vals[k]]
        T.emit_theorems(ok, os.path.join(GEN, "SkelThms.v"))
        rc, out = coqc_gen("SkelThms.v")
        ctx.notes["per_run_theorems"] = dict(generated=len(ok), kernel_checked=(rc == 0))
        if rc != 0:
            ctx.violation("per-run-theorems", "generated per-run theorems do not check", dict(log=out[-1500:]), False)
    ctx.notes["skeleton_verdicts"] = vals
    ctx.notes["unknown_constructs"] = {k: r for k, (t, r) in skels.items() if r}
    for k in skels:
        ctx.nontrivial.add(("skel", k))
    ctx.count(len(skels))
    ctx.sample(dict(stream="regenerated-skeletons", method="NNDescent.prepare", term=skels.get("NNDescent.prepare", ("", []))[0][:400]))
    ctx.stream("regenerated-skeletons", programs=len(skels), accepted=sum(1 for v in vals.values() if v), rejected=rejected)

    # behavioural probes
    res = probes(ctx)
    bad = [r for r in res if r["before"] != r["after"]]
    for r in res:
        if r["raised"] or "n_jobs=None" not in r["probe"]:
            ctx.nontrivial.add(r["probe"])
    ctx.count(len(res))
    ctx.sample(dict(stream="probes", example=res[0]))
    ctx.stream("behavioural-probes", probes=len(res), thread_count_changed=len(bad), faults_raised=sum(1 for r in res if r["raised"]))
    if bad:
        ctx.violation("threads-changed",
                      "the numba thread count after the call differs from the count before it: %s (before %d, after %d%s)" % (
                          bad[0]["probe"], bad[0]["before"], bad[0]["after"], ", raised %s" % bad[0]["raised"] if bad[0]["raised"] else ""),
                      dict(failing_probes=bad[:12], data="np.random.RandomState(5).normal(size=(60,4)) float32"), True)
    if rejected:
        ctx.violation("skeleton-rejected",
                      "restores_chk rejects the regenerated skeleton of %s: some exit path does not restore the entry thread count" % ", ".join(rejected),
                      dict(rejected=rejected, unknown_constructs=ctx.notes["unknown_constructs"],
                           theorem="C19_restores_chk_sound is no longer applicable to these methods"), False)
        if bad:
            ctx.violations[-1]["explained_by"] = "threads-changed"
    if not changed and unknown:
        common.update_sentinels(cur)
