"""C12 — low_memory trades memory for time and never changes the result.

Theorems: coq/props/C12.v (high-memory path with the q-row second branch ==
low-memory path; the pinned variant refuted).
Tie: exact correspondence of apply_graph_updates_{low,high}_memory and of the
whole nn_descent (both modes) with model/NND.v; the property itself is also
evaluated on the implementation: kernel level (same updates into both compiled
functions) and API level (NNDescent(low_memory=True) vs (False))."""
import numpy as np

from harness import common, nnd_corr

COQ_FILES = ["model/Base.v", "model/Heap.v", "model/Rng.v", "model/NND.v", "proofs/ListAux.v", "proofs/HeapProofs.v",
             "proofs/HeapTopK.v", "proofs/HeapArrays.v", "proofs/NNDProofs.v", "proofs/C12Proofs.v", "proofs/Par.v", "proofs/C05Proofs.v", "proofs/C05Threads.v"]
SENTINELS = {"pynndescent/utils.py": ["apply_graph_updates_low_memory", "apply_graph_updates_high_memory",
                                      "checked_flagged_heap_push", "new_build_candidates"],
             "pynndescent/pynndescent_.py": ["nn_descent", "nn_descent_internal_low_memory_parallel",
                                             "nn_descent_internal_high_memory_parallel", "process_candidates",
                                             "generate_graph_updates"],
             "pynndescent/sparse_nndescent.py": ["nn_descent", "nn_descent_internal_low_memory_parallel",
                                                 "nn_descent_internal_high_memory_parallel", "generate_graph_updates"]}


def api_builds(ctx, nconf):
    """the property itself on the public API: identical neighbour graphs"""
    import numba
    import scipy.sparse as sps
    from pynndescent import NNDescent
    rng = ctx.rng
    orig = numba.get_num_threads()
    fails = 0
    done = 0
    try:
        for c in range(nconf):
            # the last configuration of every run is larger than one 16384-vertex update block (the block loop of the low-memory path)
            n = rng.choice([30, 60, 120, 200]) if c < nconf - 1 else 16384 + rng.choice([700, 3000])
            dim = rng.choice([2, 5, 10]) if n < 1000 else 4
            kind = rng.choice(["gauss", "ints", "dups"])
            rs = np.random.RandomState(rng.randrange(10 ** 6))
            if kind == "gauss":
                X = rs.normal(size=(n, dim)).astype(np.float32)
            elif kind == "ints":
                X = rs.randint(0, 4, size=(n, dim)).astype(np.float32)
            else:
                X = rs.randint(0, 3, size=(max(2, n // 4), dim)).astype(np.float32)[rs.randint(0, max(2, n // 4), size=n)]
            sparse = rng.random() < 0.35 and n < 1000
            metric = rng.choice(["euclidean", "manhattan", "cosine"] if not sparse else ["euclidean", "manhattan", "cosine"])
            if metric == "cosine":
                X = np.abs(X) + np.float32(0.25)
            kw = dict(metric=metric, n_neighbors=rng.choice([3, 5, 10, 15]), random_state=rng.randrange(1000),
                      tree_init=rng.choice([True, False]), n_jobs=rng.choice([None, 1, 2, 4]),
                      max_candidates=rng.choice([None, 3, 10]), n_iters=rng.choice([None, 1, 3]),
                      delta=rng.choice([0.001, 0.05, 0.2]))
            if kw["n_neighbors"] >= n:
                kw["n_neighbors"] = max(1, n // 3)
            if n > 1000:
                kw.update(n_neighbors=5, max_candidates=None, n_iters=rng.choice([None, 3]), tree_init=False, n_jobs=rng.choice([None, 2]))
            use_init = (not sparse) and n < 1000 and rng.random() < 0.25
            if use_init:
                ig = rs.randint(-1, n, size=(n, kw["n_neighbors"])).astype(np.int64)
                kw["init_graph"] = ig
            data = sps.csr_matrix(X) if sparse else X
            import warnings
            with warnings.catch_warnings():
                warnings.simplefilter("ignore")
                a = NNDescent(data, low_memory=True, **kw)
                b = NNDescent(data, low_memory=False, **kw)
            gi_a, gd_a = a._neighbor_graph
            gi_b, gd_b = b._neighbor_graph
            same = np.array_equal(gi_a, gi_b) and np.array_equal(gd_a.view(np.uint32), gd_b.view(np.uint32))
            done += 1
            ctx.nontrivial.add(("api", c))
            if len(ctx.samples) < 6:
                ctx.sample(dict(stream="api-low-vs-high", n=n, dim=dim, data=kind, sparse=sparse, identical=bool(same),
                                **{k: (v if not isinstance(v, np.ndarray) else "init_graph %s" % (v.shape,)) for k, v in kw.items()}))
            if not same:
                fails += 1
                if fails <= 2:
                    diff = int((gi_a != gi_b).sum())
                    ctx.violation("api-low-vs-high",
                                  "NNDescent(low_memory=True) and (low_memory=False) build different neighbour graphs (%d of %d entries differ)" % (diff, gi_a.size),
                                  dict(data_kind=kind, n=n, dim=dim, sparse=sparse, data_seed="np.random.RandomState stream of this run",
                                       X=X.tolist() if n <= 60 else "n>60: regenerate with VERIF_SEED", kwargs={k: (v.tolist() if isinstance(v, np.ndarray) else v) for k, v in kw.items()},
                                       rows_differing=np.nonzero((gi_a != gi_b).any(axis=1))[0][:10].tolist()), True)
    finally:
        numba.set_num_threads(orig)
    ctx.count(done)
    ctx.stream("api-low-vs-high", builds=done, differing=fails)
    return fails


def direct_low_vs_high(ctx, cases):
    """the property itself on direct nn_descent calls: the other memory mode must give the identical graph
    (includes delta = 0 and small integer thresholds, where the stopping test ties)"""
    m = nnd_corr.impl()
    numba, pn = m["numba"], m["pn"]
    orig = numba.get_num_threads()
    differ = 0
    done = 0
    try:
        for cs in cases:
            if "impl_graph" not in cs:
                continue
            numba.set_num_threads(cs["T"])
            rs = np.array(cs["st"], dtype=np.int64)
            gi2, gd2 = pn.nn_descent(cs["data"], cs["k"], rs, cs["maxc"], cs["dist"], cs["iters"], cs["delta"],
                                     low_memory=not cs["low"], rp_tree_init=True, leaf_array=cs["leaves"], verbose=False)
            gi, gd = cs["impl_graph"]
            done += 1
            if not (np.array_equal(gi, gi2) and np.array_equal(gd.view(np.uint32), gd2.view(np.uint32))):
                differ += 1
                if differ <= 2:
                    ctx.violation("direct-low-vs-high",
                                  "nn_descent(low_memory=True) and (low_memory=False) return different graphs on identical inputs",
                                  dict(data=cs["data"].tolist(), metric=cs["metric"], n_neighbors=cs["k"], rng_state=cs["st"],
                                       max_candidates=cs["maxc"], n_iters=cs["iters"], delta=cs["delta"], threads=cs["T"],
                                       leaf_array=cs["leaves"].tolist(), rows_differing=np.nonzero((gi != gi2).any(axis=1))[0][:10].tolist()), True)
    finally:
        numba.set_num_threads(orig)
    ctx.count(done)
    ctx.stream("direct-low-vs-high", pairs=done, differing=differ)


def run(ctx):
    ctx.trusted = [
        "Coq 8.16.1 kernel; vm_compute for the refutation witness and Examples",
        "extraction (ExtrOcamlBasic) + ocaml/driver.ml",
        "harness: update-list generators, njit wrapper that builds numba lists and calls the compiled kernels of /repo",
        "schedule independence of the low-memory prange loop for T>1 is the generic theorem of proofs/Par.v (C05), "
        "tied to this kernel by the correspondence runs with T in 1..4, not by a refinement proof",
    ]
    ctx.assumptions = [
        "every offered triple (p,q,d), in the update lists and already in the heaps, carries d = delta(p,q) = delta(q,p) "
        "(a user-supplied init_dist that contradicts the metric is outside the theorem)",
        "non-NaN distances; heap rows are max-heaps (C11) with k >= 1",
    ]
    ctx.notes["rule"] = ("kernel cases = (reachable heap graph, update lists with ties / repeated pairs / p==q / -1 sentinels, thread count); "
                         "whole-build cases = nn_descent on integer data in both modes; API cases = NNDescent pairs differing only in low_memory; "
                         "non-trivial = at least one accepted and one rejected push; distinct = distinct case lines")
    changed, unknown, cur = common.sentinel_status("C12", SENTINELS)
    ctx.sentinels_changed = changed
    ctx.notes["sentinels"] = cur
    ctx.build(COQ_FILES)

    ncases = ctx.budget(150, 1500)
    # which second branch does the working tree implement?
    dl, dh, lowhigh, first = nnd_corr.corr_apply(ctx, ncases, True)
    variant_q = True
    if dh:
        # does the pinned variant explain the implementation?  (separate context: no double reporting)
        probe = common.Ctx("C12", ctx.tier, ctx.seed)
        _, dh2, _, _ = nnd_corr.corr_apply(probe, ncases, False)
        ctx.notes["high_memory_second_branch"] = "pushes into row p (pinned variant)" if dh2 == 0 else "matches neither model variant"
        variant_q = dh2 != 0
    else:
        ctx.notes["high_memory_second_branch"] = "pushes into row q (repaired variant; theorem C12_high_eq_low applies)"
    if lowhigh:
        ctx.violation("kernel-low-vs-high",
                      "apply_graph_updates_high_memory and apply_graph_updates_low_memory produce different heaps from the same updates "
                      "(%d of %d cases)" % (lowhigh, ncases), first, True)
        # the generic correspondence violations are explained by this concrete one
        for v in ctx.violations:
            if v["key"] == "applyhigh-corr":
                v["explained_by"] = "kernel-low-vs-high"
    cases, bad = nnd_corr.corr_nnd_direct(ctx, ctx.budget(60, 400), variant_q)
    for (cs, mo, im, ln) in bad[:3]:
        ctx.violation("nnd-corr", "correspondence stream nn_descent(direct) disagrees with model/NND.v",
                      dict(params={k: cs[k] for k in ("n", "k", "metric", "maxc", "iters", "delta", "T", "low", "kind")},
                           case_line=ln[:2000], model=mo[:1000], implementation=im[:1000]), False)
    direct_low_vs_high(ctx, cases)
    api_builds(ctx, ctx.budget(14, 120))
    if not changed and unknown:
        common.update_sentinels(cur)
