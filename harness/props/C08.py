"""C08 — sparse metrics agree with their dense counterparts.

Theorems: coq/props/C08.v (two-pointer merges: sparse_sum / sparse_diff / sparse_mul /
sparse_dot_product / fast_intersection_size compute the pointwise sum, product, dot
product and support intersection of the densified vectors, for all sorted inputs).
Tie: the compiled merge primitives against the extracted model (exact, integer
values); the property itself on the implementation: for every name in both metric
tables, every pair of supports over a 6-index universe (4096 pairs) and value pools,
compiled sparse metric on the CSR encoding vs compiled dense metric on the vectors."""
import itertools

import numpy as np

from harness import common, nnd_corr, lattice, latticegen
from harness.common import fmt

COQ_FILES = ["model/Base.v", "model/SparseOps.v", "proofs/ListAux.v", "proofs/C08Proofs.v", "model/Lattice.v", "proofs/LatticeProofs.v"]
SENTINELS = {"pynndescent/sparse.py": ["fast_intersection_size", "sparse_sum", "sparse_diff", "sparse_mul", "sparse_dot_product",
                                       "dense_union", "arr_union", "arr_unique", "sparse_euclidean", "sparse_squared_euclidean",
                                       "sparse_manhattan", "sparse_chebyshev", "sparse_minkowski", "sparse_hamming", "sparse_canberra",
                                       "sparse_bray_curtis", "sparse_jaccard", "sparse_alternative_jaccard", "sparse_matching",
                                       "sparse_dice", "sparse_kulsinski", "sparse_rogers_tanimoto", "sparse_russellrao",
                                       "sparse_sokal_michener", "sparse_sokal_sneath", "sparse_cosine", "sparse_alternative_cosine",
                                       "sparse_correlation", "sparse_hellinger", "sparse_alternative_hellinger",
                                       "sparse_wasserstein_1d", "sparse_jensen_shannon_divergence", "sparse_symmetric_kl_divergence"]}

UNION_METRICS = {"jensen-shannon", "jensen_shannon", "symmetric-kl", "symmetric_kl", "symmetric_kullback_liebler"}
POSITIVE = {"hellinger", "jensen-shannon", "jensen_shannon", "symmetric-kl", "symmetric_kl", "symmetric_kullback_liebler",
            "wasserstein_1d", "wasserstein-1d", "kantorovich-1d", "kantorovich", "wasserstein"}
SKIP = {"kantorovich", "wasserstein"}     # needs a ground metric / cost matrix: C10


def encode(v):
    idx = np.nonzero(v)[0].astype(np.int32)
    return idx, v[idx].astype(np.float32)


def value_pools(rng, dim):
    signed = [np.array([rng.choice([1.0, -1.0, 2.0, 0.5, -2.5, 3.0]) for _ in range(dim)], dtype=np.float32) for _ in range(2)]
    signed.append(np.ones(dim, dtype=np.float32))
    # a pool in which some entries equal the row mean / each other, to provoke exact cancellations
    signed.append(np.array([2.0, 2.0, 1.0, 1.0, 3.0, 3.0][:dim] + [1.0] * max(0, dim - 6), dtype=np.float32))
    positive = [np.abs(p) for p in signed]
    return signed, positive


def metric_pairs(ctx, dim, stride):
    from pynndescent import distances as pd, sparse as sp
    rng = ctx.rng
    names = sorted(set(sp.sparse_named_distances) & set(pd.named_distances))
    signed, positive = value_pools(rng, dim)
    supports = list(itertools.product([0, 1], repeat=dim))
    total = fails = 0
    per_metric = {}
    seen_fn = set()
    for name in names:
        if name in SKIP:
            continue
        sfn = sp.sparse_named_distances[name]
        dfn = pd.named_distances[name]
        if (sfn, dfn) in seen_fn:
            continue
        seen_fn.add((sfn, dfn))
        pools = positive if name in POSITIVE else signed
        nfeat = name in sp.sparse_need_n_features
        extra_s, extra_d = (), ()
        if name == "minkowski":
            extra_s, extra_d = (3.0,), (3.0,)
        worst = 0.0
        mfail = 0
        count = 0
        for pi, pool in enumerate(pools):
            pool2 = pools[(pi + 1) % len(pools)]
            for si, sa in enumerate(supports):
                for sj in range(si % stride, len(supports), stride):
                    sb = supports[sj]
                    x = (np.array(sa, dtype=np.float32) * pool).astype(np.float32)
                    y = (np.array(sb, dtype=np.float32) * pool2).astype(np.float32)
                    if name in POSITIVE and name not in UNION_METRICS and name not in ("hellinger",) and (x.sum() == 0 or y.sum() == 0):
                        continue  # zero mass is outside the documented domain of the 1-d transport metrics
                    i1, d1 = encode(x)
                    i2, d2 = encode(y)
                    try:
                        s = float(sfn(i1, d1, i2, d2, *(extra_s + ((dim,) if nfeat else ()))))
                        if name in UNION_METRICS:
                            u = np.union1d(i1, i2)
                            d = float(dfn(x[u], y[u])) if len(u) else float(dfn(x[:0], y[:0]))
                        else:
                            d = float(dfn(x, y, *extra_d))
                    except Exception as e:
                        mfail += 1
                        if mfail <= 1:
                            ctx.violation("sparse-raises:%s" % name, "sparse or dense %s raises %s on supports %s / %s" % (name, type(e).__name__, sa, sb),
                                          dict(metric=name, x=x.tolist(), y=y.tolist(), error=str(e)[:200]), True)
                        continue
                    count += 1
                    if np.isnan(s) and np.isnan(d):
                        continue
                    err = abs(s - d)
                    tol = (1e-3 if name == "hellinger" else 2e-5) + 2e-5 * abs(d)
                    worst = max(worst, err if np.isfinite(err) else float("inf"))
                    if not (err <= tol):
                        mfail += 1
                        if mfail <= 1:
                            ctx.violation("sparse-vs-dense:%s" % name,
                                          "sparse %s = %r but dense %s = %r on x=%s y=%s" % (name, s, name, d, x.tolist(), y.tolist()),
                                          dict(metric=name, x=x.tolist(), y=y.tolist(), sparse_value=s, dense_value=d, n_features=dim,
                                               support_x=list(sa), support_y=list(sb)), True)
        per_metric[name] = dict(pairs=count, failures=mfail, max_abs_err=worst)
        total += count
        fails += mfail
        ctx.nontrivial.add(("metric", name))
    ctx.count(total)
    ctx.sample(dict(stream="sparse-vs-dense", metric="jaccard", x=[1, 0, 2, 0, 0, 3], y=[0, 0, 2, 1, 0, 0]))
    ctx.stream("sparse-vs-dense", metrics=len(per_metric), pairs=total, failures=fails, support_pairs_per_pool=len(supports) ** 2 // stride,
               per_metric=per_metric, exhaustive_supports=(stride == 1))
    for k in range(total // 1000):
        ctx.nontrivial.add(("block", k))


def primitives(ctx, ncases):
    """compiled merge primitives vs the extracted model (integer values: exact)"""
    import numba
    from pynndescent import sparse as sp
    rng = ctx.rng

    @numba.njit
    def call_fis(a, b):
        return sp.fast_intersection_size(a, b)

    @numba.njit
    def call_mul(i1, d1, i2, d2):
        ri, rd = sp.sparse_mul(i1, d1, i2, d2)
        return np.array([x for x in ri], dtype=np.int32), np.array([x for x in rd], dtype=np.float32)
    lines, impls = [], []
    for c in range(ncases):
        dim = rng.choice([1, 3, 6, 12])
        def vec():
            sup = sorted(rng.sample(range(dim), rng.randrange(0, dim + 1)))
            return (np.array(sup, dtype=np.int32), np.array([rng.choice([-3, -1, 1, 1, 2, 5]) for _ in sup], dtype=np.float32))
        (i1, d1), (i2, d2) = vec(), vec()
        si, sd = sp.sparse_sum(i1, d1, i2, d2)
        di, dd = sp.sparse_diff(i1, d1, i2, d2)
        mi, md = call_mul(i1, d1, i2, d2)
        dot = float(sp.sparse_dot_product(i1, d1, i2, d2))
        fis = int(call_fis(i1, i2))
        lines.append("sparseops %d %s %s %d %s %s" % (len(i1), fmt(i1.tolist()), fmt(d1.astype(int).tolist()), len(i2), fmt(i2.tolist()),
                                                      fmt(d2.astype(int).tolist())))
        impls.append(nnd_corr.norm("%s ; %s | %s ; %s | %s ; %s | %d | %d" % (
            fmt(si.tolist()), fmt(sd.astype(int).tolist()), fmt(di.tolist()), fmt(dd.astype(int).tolist()),
            fmt(mi.tolist()), fmt(md.astype(int).tolist()), int(dot), fis)))
    model = common.run_driver(lines)
    dis = 0
    for ln, mo, im in zip(lines, model, impls):
        ctx.nontrivial.add(hash(ln))
        if nnd_corr.norm(mo) != im:
            dis += 1
            if dis <= 3:
                ctx.violation("sparseops-corr", "correspondence stream sparse merge primitives disagrees with model/SparseOps.v",
                              dict(case_line=ln, model=mo, implementation=im), False)
    ctx.count(len(lines))
    ctx.sample(dict(stream="sparse-primitives", case=lines[0], model=model[0]))
    ctx.stream("sparse-primitives", cases=len(lines), disagreements=dis)


def run(ctx):
    ctx.trusted = ["Coq 8.16.1 kernel", "extraction + ocaml/driver.ml", "harness: CSR encoding of the test vectors (sorted indices, no explicit zeros)"]
    ctx.assumptions = [
        "sparse vectors have strictly increasing indices (what sort_indices() establishes) and fewer than 65536 entries (uint16 loop indices)",
        "no explicitly stored zeros for the binary family (dense code tests x != 0, sparse code counts stored indices)",
        "float rounding differences between sparse and dense summation orders are bounded by tolerance (2e-5 abs + 2e-5 rel), not proved; "
        "hellinger uses 1e-3 abs: sqrt(1 - ratio) amplifies one float32 ulp of the ratio (1.2e-7) to 3.5e-4 near zero, which is the dense "
        "float32 kernel's accuracy limit, not a disagreement of definitions",
        "the merge theorems are over exact integer values",
    ]
    ctx.notes["rule"] = ("pairs = (support pattern x, support pattern y) over a 6-index universe x value pools (signed, all-ones, cancellation-prone) "
                         "x every metric name in both tables; quick tier takes every 7th support pair (all 4096 in thorough); "
                         "non-trivial = per metric + per 1000 evaluated pairs")
    changed, unknown, cur = common.sentinel_status("C08", SENTINELS)
    ctx.sentinels_changed = changed
    ctx.notes["sentinels"] = cur
    ctx.build(COQ_FILES)
    latticegen.regenerate(ctx, "C08")
    primitives(ctx, ctx.budget(400, 4000))
    lattice.stream(ctx, ctx.budget(600, 6000), "sparse")
    lattice.angular_stream(ctx, ctx.budget(500, 5000), "sparse")
    metric_pairs(ctx, 6, ctx.budget(7, 1))
    if not changed and unknown:
        common.update_sentinels(cur)
