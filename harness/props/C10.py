"""C10 — the optimal-transport metric returns the true minimum transport cost.

Theorem: coq/props/C10.v (soundness of the optimality certificate: weak duality
with slack, for all sizes).
Tie: for every instance the harness runs the very steps of distances.kantorovich
(compiled functions of /repo) up to network_simplex_core, reads back the plan and
the node potentials, converts the float64 numbers to exact integers (common power-of-
two scales) and lets the EXTRACTED checker decide; marginals, solver status, the
value returned by the public entry points (dense and sparse) and the consequences
named in the property (symmetry, zero on equal inputs, scale invariance, 1-d closed
form) are checked on the implementation.  A hang is caught by the parent process."""
from fractions import Fraction

import numpy as np

from harness import common, nnd_corr

COQ_FILES = ["model/OT.v", "proofs/C10Proofs.v"]
SENTINELS = {"pynndescent/optimal_transport.py": ["find_entering_arc", "find_join_node", "find_leaving_arc", "update_flow",
                                                  "update_spanning_tree", "update_potential", "arc_id", "construct_initial_pivots",
                                                  "allocate_graph_structures", "initialize_graph_structures", "initialize_supply",
                                                  "initialize_cost", "total_cost", "network_simplex_core"],
             "pynndescent/distances.py": ["kantorovich"], "pynndescent/sparse.py": ["sparse_kantorovich"]}


def solve(x, y, cost, max_iter=100000):
    """the steps of distances.kantorovich, with access to the internals"""
    from pynndescent import optimal_transport as ot
    row_mask = x != 0
    col_mask = y != 0
    a = x[row_mask].astype(np.float64)
    b = y[col_mask].astype(np.float64)
    a /= a.sum()
    b /= b.sum()
    sub = np.ascontiguousarray(cost[row_mask, :][:, col_mask])
    n, m = a.shape[0], b.shape[0]
    nad, st, g = ot.allocate_graph_structures(n, m, False)
    ot.initialize_supply(a, -b, g, nad.supply)
    ot.initialize_cost(sub, g, nad.cost)
    ok = ot.initialize_graph_structures(g, nad, st)
    status = ot.network_simplex_core(nad, st, g, max_iter)
    nn, na = n + m, n * m
    F = np.array([[nad.flow[na - (i * m + j) - 1] for j in range(m)] for i in range(n)]).reshape(n, m)
    u = np.array([nad.pi[nn - i - 1] for i in range(n)])
    v = np.array([nad.pi[nn - (j + n) - 1] for j in range(m)])
    art = nad.flow[na:]
    return dict(a=a, b=b, C=sub, F=F, u=u, v=v, status=str(status), init_ok=bool(ok), value=float(ot.total_cost(nad.flow, nad.cost)),
                artificial_flow=float(np.abs(art).max()) if len(art) else 0.0, n=n, m=m)


def scale_ints(arrs):
    """common power-of-two scale turning all float64 numbers into exact integers"""
    den = 1
    for a in arrs:
        for x in np.asarray(a, dtype=np.float64).ravel():
            d = Fraction(float(x)).denominator
            if d > den:
                den = d
    return den, [[int(Fraction(float(x)) * den) for x in np.asarray(a, dtype=np.float64).ravel()] for a in arrs]


def cert_line(sol, eps_rel=1e-9):
    sc, (Ci, ui, vi) = scale_ints([sol["C"], sol["u"], sol["v"]])
    sf, (Fi,) = scale_ints([sol["F"]])
    cmax = max(1.0, float(np.abs(sol["C"]).max()) if sol["C"].size else 1.0)
    e = int(Fraction(eps_rel * cmax) * sc) + 1
    return "otcert %d %d %d %s %s %s %s" % (sol["n"], sol["m"], e, " ".join(map(str, Ci)), " ".join(map(str, Fi)),
                                           " ".join(map(str, ui)), " ".join(map(str, vi)))


def gen_instance(rng, rs):
    dim = rng.choice([1, 2, 3, 5, 8, 13, 30, 60])
    kind = rng.choice(["random", "equalweight", "intcounts", "degenerate", "onehot", "disjoint"])
    if kind == "random":
        x, y = rs.rand(dim), rs.rand(dim)
    elif kind == "equalweight":
        x, y = np.ones(dim), np.ones(dim)
    elif kind == "intcounts":
        x, y = rs.randint(0, 4, size=dim).astype(float), rs.randint(0, 4, size=dim).astype(float)
    elif kind == "degenerate":
        x, y = rs.rand(dim), rs.rand(dim)
        x[rs.randint(dim)] = 1e-12
        y[rs.randint(dim)] = 1.0
    elif kind == "onehot":
        x, y = np.zeros(dim), np.zeros(dim)
        x[rs.randint(dim)] = 2.0
        y[rs.randint(dim)] = 0.5
    else:
        x, y = np.zeros(dim), np.zeros(dim)
        h = max(1, dim // 2)
        x[:h] = rs.rand(h) + 0.1
        y[h:] = rs.rand(dim - h) + 0.1 if dim - h > 0 else 0
        if dim - h == 0:
            y[0] = 1.0
    if x.sum() == 0:
        x[0] = 1.0
    if y.sum() == 0:
        y[-1] = 1.0
    ck = rng.choice(["absdiff", "metric", "nonmetric", "ties", "allequal", "zero", "asym"])
    idx = np.arange(dim)
    if ck == "absdiff":
        C = np.abs(idx[:, None] - idx[None, :]).astype(float)
    elif ck == "metric":
        P = rs.normal(size=(dim, 2))
        C = np.sqrt(((P[:, None, :] - P[None, :, :]) ** 2).sum(-1))
    elif ck == "nonmetric":
        C = rs.rand(dim, dim) * 3
        C = (C + C.T) / 2
        np.fill_diagonal(C, 0)
    elif ck == "ties":
        C = rs.randint(0, 3, size=(dim, dim)).astype(float)
        C = np.maximum(C, C.T)
        np.fill_diagonal(C, 0)
    elif ck == "allequal":
        C = np.ones((dim, dim))
        np.fill_diagonal(C, 0)
    elif ck == "zero":
        C = np.zeros((dim, dim))
    else:
        C = rs.rand(dim, dim)
        np.fill_diagonal(C, 0)
    return x.astype(np.float64), y.astype(np.float64), np.ascontiguousarray(C, dtype=np.float64), kind, ck


def certificates(ctx, ninst):
    from pynndescent import distances as pd
    rng = ctx.rng
    rs = np.random.RandomState(rng.randrange(10 ** 6))
    lines, metas = [], []
    for t in range(ninst):
        x, y, C, kind, ck = gen_instance(rng, rs)
        ctx.crumb(dict(stream="certificates", x=x.tolist(), y=y.tolist(), cost=C.tolist(), masses=kind, cost_kind=ck))
        try:
            sol = solve(x, y, C)
            pub = float(pd.kantorovich(x, y, C))
        except Exception as e:
            ctx.violation("kantorovich-raises", "kantorovich raises %s on a valid instance (%s masses, %s cost): %s" % (type(e).__name__, kind, ck, str(e)[:100]),
                          dict(x=x.tolist(), y=y.tolist(), cost=C.tolist()), True)
            continue
        prob = None
        if "OPTIMAL" not in sol["status"]:
            prob = "solver status %s" % sol["status"]
        elif np.abs(sol["F"].sum(1) - sol["a"]).max() > 1e-9 or np.abs(sol["F"].sum(0) - sol["b"]).max() > 1e-9:
            prob = "plan does not have the marginals of the normalised inputs"
        elif sol["artificial_flow"] > 1e-9:
            prob = "artificial arcs still carry flow %g" % sol["artificial_flow"]
        elif abs(pub - float((sol["F"] * sol["C"]).sum())) > 1e-9 * max(1.0, abs(pub)):
            prob = "kantorovich() returned %r, the cost of the solver's plan is %r" % (pub, float((sol["F"] * sol["C"]).sum()))
        if prob:
            ctx.violation("ot-internal", "optimal transport: %s (%s masses, %s cost)" % (prob, kind, ck),
                          dict(x=x.tolist(), y=y.tolist(), cost=C.tolist(), value=pub), True)
            continue
        lines.append(cert_line(sol))
        metas.append(dict(x=x.tolist(), y=y.tolist(), cost=C.tolist(), masses=kind, cost_kind=ck, value=pub, sol=sol))
    out = common.run_driver(lines) if lines else []
    rej = 0
    for ln, o, me in zip(lines, out, metas):
        ctx.nontrivial.add(hash(ln))
        if o.strip() != "1":
            rej += 1
            if rej <= 2:
                sol = me["sol"]
                R = sol["C"] + sol["u"][:, None] - sol["v"][None, :]
                why = "min reduced cost %g; max |reduced cost| on arcs carrying flow %g; min flow %g" % (
                    float(R.min()), float(np.abs(R[sol["F"] > 0]).max()) if (sol["F"] > 0).any() else 0.0, float(sol["F"].min()))
                ref = reference_lp(sol["a"], sol["b"], sol["C"])
                ctx.violation("ot-certificate", "the plan returned by network_simplex_core is not optimal: certificate rejected (%s); "
                                                "returned cost %r, linear-programming reference %r" % (why, me["value"], ref),
                              dict(x=me["x"], y=me["y"], cost=me["cost"], returned=me["value"], reference=ref, detail=why), True)
    ctx.count(len(lines))
    if lines:
        ctx.sample(dict(stream="certificates", masses=metas[0]["masses"], cost_kind=metas[0]["cost_kind"], n=metas[0]["sol"]["n"],
                        m=metas[0]["sol"]["m"], value=metas[0]["value"], accepted=out[0]))
    ctx.stream("optimality-certificates", instances=len(lines), rejected=rej)


def reference_lp(a, b, C):
    try:
        from scipy.optimize import linprog
        n, m = C.shape
        A = []
        for i in range(n):
            r = np.zeros((n, m)); r[i, :] = 1; A.append(r.ravel())
        for j in range(m):
            r = np.zeros((n, m)); r[:, j] = 1; A.append(r.ravel())
        res = linprog(C.ravel(), A_eq=np.array(A), b_eq=np.concatenate([a, b]), bounds=(0, None), method="highs")
        return float(res.fun) if res.success else None
    except Exception:
        return None


def consequences(ctx, ninst):
    from pynndescent import distances as pd, sparse as sp
    import numba
    rng = ctx.rng
    rs = np.random.RandomState(rng.randrange(10 ** 6))
    fails = 0

    def report(key, what, rep):
        nonlocal fails
        fails += 1
        if fails <= 3:
            ctx.violation(key, what, rep, True)
    for t in range(ninst):
        dim = rng.choice([2, 3, 6, 12, 25])
        kind = rng.choice(["rand", "ints", "equal"])
        x = rs.rand(dim) if kind == "rand" else (rs.randint(0, 4, size=dim).astype(float) if kind == "ints" else np.ones(dim))
        y = rs.rand(dim) if kind == "rand" else (rs.randint(0, 4, size=dim).astype(float) if kind == "ints" else np.ones(dim))
        if x.sum() == 0:
            x[0] = 1
        if y.sum() == 0:
            y[-1] = 1
        idx = np.arange(dim)
        P = rs.normal(size=(dim, 2))
        Cm = np.ascontiguousarray(np.sqrt(((P[:, None, :] - P[None, :, :]) ** 2).sum(-1)))
        C1 = np.abs(idx[:, None] - idx[None, :]).astype(np.float64)
        ctx.crumb(dict(stream="consequences", x=x.tolist(), y=y.tolist()))
        dxy, dyx = float(pd.kantorovich(x, y, Cm)), float(pd.kantorovich(y, x, Cm))
        if abs(dxy - dyx) > 1e-9 * max(1, abs(dxy)):
            report("ot-symmetry", "kantorovich(x,y)=%r but kantorovich(y,x)=%r under a symmetric cost" % (dxy, dyx), dict(x=x.tolist(), y=y.tolist(), cost=Cm.tolist()))
        dxx = float(pd.kantorovich(x, x.copy(), Cm))
        if abs(dxx) > 1e-9:
            report("ot-identity", "kantorovich(x,x)=%r under a zero-diagonal cost" % dxx, dict(x=x.tolist(), cost=Cm.tolist()))
        ds = float(pd.kantorovich(3.5 * x, 0.25 * y, Cm))
        if abs(ds - dxy) > 1e-9 * max(1, abs(dxy)):
            report("ot-scale", "rescaling the inputs changed the value: %r vs %r" % (ds, dxy), dict(x=x.tolist(), y=y.tolist(), cost=Cm.tolist()))
        d1 = float(pd.kantorovich(x, y, C1))
        cx, cy = np.cumsum(x / x.sum()), np.cumsum(y / y.sum())
        closed = float(np.abs(cx - cy).sum())
        if abs(d1 - closed) > 1e-8 * max(1, closed):
            report("ot-1d", "with cost |i-j| kantorovich=%r but the one-dimensional closed form is %r" % (d1, closed), dict(x=x.tolist(), y=y.tolist()))
        ref = reference_lp(x[x != 0] / x.sum(), y[y != 0] / y.sum(), Cm[x != 0, :][:, y != 0])
        if ref is not None and abs(ref - dxy) > 1e-7 * max(1, abs(ref)):
            report("ot-lp", "kantorovich=%r but the LP minimum (scipy HiGHS) is %r" % (dxy, ref), dict(x=x.tolist(), y=y.tolist(), cost=Cm.tolist()))
        ctx.nontrivial.add(("conseq", t))
    # sparse entry point with a ground metric
    gv = rs.normal(size=(12, 3)).astype(np.float32)
    gm = sp.create_ground_metric(gv, pd.euclidean)
    Cg = np.array([[float(pd.euclidean(gv[i], gv[j])) for j in range(12)] for i in range(12)])
    sfail = 0
    for t in range(max(4, ninst // 4)):
        x = np.where(rs.rand(12) < 0.5, rs.rand(12), 0).astype(np.float32)
        y = np.where(rs.rand(12) < 0.5, rs.rand(12), 0).astype(np.float32)
        if not x.any():
            x[0] = 1
        if not y.any():
            y[3] = 1
        i1, i2 = np.nonzero(x)[0].astype(np.int32), np.nonzero(y)[0].astype(np.int32)
        s = float(sp.sparse_kantorovich(i1, x[i1], i2, y[i2], gm))
        d = float(pd.kantorovich(x, y, Cg))
        if abs(s - d) > 1e-6 * max(1, abs(d)):
            sfail += 1
            report("ot-sparse", "sparse_kantorovich=%r, dense kantorovich with the same ground cost=%r" % (s, d), dict(x=x.tolist(), y=y.tolist()))
    ctx.count(ninst)
    ctx.stream("consequences", instances=ninst, failures=fails, sparse_entry_point_failures=sfail)


def run(ctx):
    ctx.trusted = ["Coq 8.16.1 kernel", "extraction + ocaml/driver.ml (big decimal integers are parsed with the extracted Z arithmetic)",
                   "harness: read-back of flow / potentials by the arc and node numbering of allocate_graph_structures(use_arc_mixing=False), "
                   "exact scaling of float64 values to integers, scipy HiGHS as an auxiliary reference in reports"]
    ctx.assumptions = [
        "the network simplex (pivot rule, spanning-tree updates) is validated per output by the proved certificate, not verified; its "
        "termination rests on max_iter and unproved tree invariants (a hang is caught by the parent process watchdog)",
        "certificate tolerance e = 1e-9 x max(1, max cost) on reduced costs; marginals of the plan must match the normalised inputs to 1e-9",
        "continuity of the LP value in the marginals (to pass from the plan's own marginals to the inputs') is not proved",
        "sinkhorn is regularised transport and outside this property",
    ]
    ctx.notes["rule"] = ("instances = (mass pattern: random / equal weights / integer counts / near-degenerate 1e-12 / one-hot / disjoint supports) x "
                         "(cost: |i-j|, euclidean, non-metric, ties, all-equal, zero, asymmetric) x dimension 1..60; non-trivial = distinct instance")
    changed, unknown, cur = common.sentinel_status("C10", SENTINELS)
    ctx.sentinels_changed = changed
    ctx.notes["sentinels"] = cur
    ctx.build(COQ_FILES)
    certificates(ctx, ctx.budget(250, 3000))
    consequences(ctx, ctx.budget(40, 400))
    if not changed and unknown:
        common.update_sentinels(cur)
