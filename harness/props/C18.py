"""C18 — the scikit-learn transformer reports exactly what the index found.

Theorems: coq/props/C18.v (row i of the assembled CSR matrix stores exactly the pairs
(indices[i][c], distances[i][c]); no other rows).
Tie: PyNNDescentTransformer runs on generated data; a spy records what index_.query /
NNDescent.neighbor_graph were asked and what they returned; the CSR matrix returned by
transform / fit_transform is compared entry-for-entry with the extracted model applied to
the recorded arrays; the recorded call must be query(X, k=n_neighbors,
epsilon=search_epsilon); an independent index_.query with those arguments must return the
same arrays; stored values are compared with float64 reference distances."""
import warnings

import numpy as np

from harness import common, nnd_corr, refmetrics
from harness.common import fmt

COQ_FILES = ["model/Transformer.v", "proofs/C18Proofs.v"]
SENTINELS = {"pynndescent/pynndescent_.py": ["PyNNDescentTransformer.fit", "PyNNDescentTransformer.transform", "PyNNDescentTransformer.fit_transform",
                                             "PyNNDescentTransformer.__init__", "NNDescent.neighbor_graph"]}
METRICS = [("euclidean", None), ("cosine", None), ("manhattan", None), ("minkowski", {"p": 3.0}), ("dot", None), ("chebyshev", None)]


def csr_rows(m):
    m = m.tocsr()
    rows = []
    for i in range(m.shape[0]):
        lo, hi = m.indptr[i], m.indptr[i + 1]
        rows.append(sorted(zip(m.indices[lo:hi].tolist(), common.f32_keys(m.data[lo:hi].astype(np.float32)))))
    return rows


def ref(metric, kwds, x, y):
    if metric == "minkowski":
        return refmetrics.minkowski(x, y, p=kwds["p"])
    return refmetrics.REPORTED[metric](x, y)


def model_rows(ind, dist):
    nq, k = ind.shape
    keys = nnd_corr.mat_keys(dist.astype(np.float32))
    if any(x is None for r in keys for x in r):
        return None
    line = "transform %d %d %s %s" % (nq, k, fmt(ind.ravel().tolist()), fmt(np.array(keys).ravel().tolist()))
    out = common.run_driver([line])[0]
    rows = []
    for seg in out.split(";"):
        t = seg.split()
        if not t:
            continue
        rows.append((int(t[0]), sorted((int(t[j]), int(t[j + 1])) for j in range(1, len(t), 2))))
    return rows


def cases(ctx, ncases):
    from pynndescent import PyNNDescentTransformer, NNDescent
    rng = ctx.rng
    stats = dict(cases=0, transform_calls=0, fit_transform_calls=0, entries=0, failures=0, duplicate_blocks=0)
    for c in range(ncases):
        rs = np.random.RandomState(rng.randrange(10 ** 6))
        metric, kwds = rng.choice(METRICS)
        nn = rng.choice([3, 5, 8])
        eps = rng.choice([0.0, 0.0, 0.05, 0.1, 0.3])
        n, dim = rng.choice([60, 150, 400]), rng.choice([3, 8])
        kind = rng.choice(["uniform", "uniform", "block", "pairs", "lattice"])
        X = rs.uniform(0.1, 4.0, size=(n, dim)).astype(np.float32)
        if kind == "block":
            X[: nn + 6] = X[0]                       # more than n_neighbors + 1 identical samples
            stats["duplicate_blocks"] += 1
        elif kind == "pairs":
            X[1::2] = X[0::2][: len(X[1::2])]
        elif kind == "lattice":
            X = rs.randint(0, 3, size=(n, dim)).astype(np.float32) + np.float32(0.5)
        Q = np.vstack([X[rs.choice(n, 5, replace=False)], rs.uniform(0.1, 4.0, size=(12, dim)).astype(np.float32)])
        params = dict(n_neighbors=nn, metric=metric, metric_kwds=kwds, search_epsilon=eps, tree_init=rng.choice([True, True, False]),
                      low_memory=rng.choice([True, False]), n_jobs=rng.choice([None, 1, 2]), random_state=rng.randrange(1000))
        desc = dict(params={k: v for k, v in params.items()}, n=n, dim=dim, data_kind=kind)
        ctx.crumb(dict(stream="transformer", case=desc))
        problems = []
        try:
            with warnings.catch_warnings():
                warnings.simplefilter("ignore")
                # ---- fit + transform
                t = PyNNDescentTransformer(**params).fit(X)
                calls = []
                orig_query = t.index_.query

                def spy(query_data, k=10, epsilon=0.1):
                    r = orig_query(query_data, k=k, epsilon=epsilon)
                    calls.append((k, epsilon, r[0].copy(), r[1].copy()))
                    return r
                t.index_.query = spy
                Xt = t.transform(Q)
                t.index_.query = orig_query
                stats["transform_calls"] += 1
                if Xt.shape != (Q.shape[0], n):
                    problems.append("transform returned shape %s, expected %s" % (Xt.shape, (Q.shape[0], n)))
                elif len(calls) != 1:
                    problems.append("transform called index_.query %d times" % len(calls))
                else:
                    k, e, ind, dist = calls[0]
                    if k != nn or e != eps:
                        problems.append("transform queried the index with k=%r, epsilon=%r; the transformer was configured with n_neighbors=%r, "
                                        "search_epsilon=%r" % (k, e, nn, eps))
                    i2, d2 = orig_query(Q, k=nn, epsilon=eps)
                    rows = csr_rows(Xt)
                    mr = model_rows(i2, d2)
                    if mr is not None:
                        for i, (nodup, want) in enumerate(mr):
                            stats["entries"] += len(want)
                            if nodup and rows[i] != want:
                                problems.append("row %d of transform(X) stores %s; index_.query(X, k=%d, epsilon=%r) returns %s" %
                                                (i, rows[i][:4], nn, eps, want[:4]))
                                break
                    for i in range(Q.shape[0]):
                        for j, kv in rows[i][:3]:
                            v = float(common.keys_f32([kv])[0])
                            r = ref(metric, kwds, Q[i].astype(np.float64), X[j].astype(np.float64))
                            if abs(v - r) > 3e-3 * max(1.0, abs(r)):
                                problems.append("transform(X)[%d,%d] = %r, the %s distance is %r" % (i, j, v, metric, r))
                                break
                        if problems:
                            break
                # ---- a batch with fewer rows than n_neighbors (single-sample / streaming use)
                if not problems:
                    small = Q[: rng.choice([1, 2, 3])]
                    del calls[:]
                    t.index_.query = spy
                    Xs = t.transform(small)
                    t.index_.query = orig_query
                    stats["transform_calls"] += 1
                    i3, d3 = orig_query(small, k=nn, epsilon=eps)
                    mr = model_rows(i3, d3)
                    rows_s = csr_rows(Xs)
                    if Xs.shape != (small.shape[0], n):
                        problems.append("transform of %d rows returned shape %s" % (small.shape[0], Xs.shape))
                    elif len(calls) != 1 or calls[0][0] != nn or calls[0][1] != eps:
                        problems.append("transform of a %d-row batch queried the index with k=%r, epsilon=%r; configured n_neighbors=%r, search_epsilon=%r" %
                                        (small.shape[0], calls[0][0] if calls else None, calls[0][1] if calls else None, nn, eps))
                    elif mr is not None:
                        for i, (nodup, want) in enumerate(mr):
                            if nodup and rows_s[i] != want:
                                problems.append("row %d of transform(%d-row batch) stores %d entries %s; index_.query(k=%d) returns %s" %
                                                (i, small.shape[0], len(rows_s[i]), rows_s[i][:4], nn, want[:4]))
                                break
                # ---- fit_transform
                if not problems:
                    graphs = []
                    prop = NNDescent.__dict__["neighbor_graph"]

                    def spy_graph(self):
                        r = prop.fget(self)
                        if r is not None:
                            graphs.append((r[0].copy(), r[1].copy()))
                        return r
                    NNDescent.neighbor_graph = property(spy_graph)
                    try:
                        t2 = PyNNDescentTransformer(**params)
                        Xg = t2.fit_transform(X)
                    finally:
                        NNDescent.neighbor_graph = prop
                    stats["fit_transform_calls"] += 1
                    if Xg.shape != (n, n):
                        problems.append("fit_transform returned shape %s, expected %s" % (Xg.shape, (n, n)))
                    elif not graphs:
                        problems.append("fit_transform did not read the index's neighbor_graph")
                    else:
                        gi, gd = graphs[-1]
                        rows = csr_rows(Xg)
                        counts = np.diff(Xg.tocsr().indptr)
                        mr = model_rows(gi, gd)
                        if mr is not None:
                            for i, (nodup, want) in enumerate(mr):
                                stats["entries"] += len(want)
                                if nodup and rows[i] != want:
                                    problems.append("row %d of fit_transform(X) stores %d entries %s; the index's neighbor graph row is %s" %
                                                    (i, len(rows[i]), rows[i][:4], want[:4]))
                                    break
                                if nodup and (gi[i] >= 0).all() and counts[i] != nn + 1:
                                    problems.append("row %d of fit_transform(X) has %d stored entries, expected n_neighbors+1 = %d" % (i, counts[i], nn + 1))
                                    break
        except Exception as e:
            import traceback
            problems.append("transformer raised %s: %s" % (type(e).__name__, str(e)[:300]))
            desc["traceback"] = traceback.format_exc()[-1000:]
        stats["cases"] += 1
        ctx.nontrivial.add(("case", c))
        if problems:
            stats["failures"] += 1
            if stats["failures"] <= 4:
                key = "transform" if "fit_transform" not in problems[0] else "fit_transform"
                if "queried the index" in problems[0]:
                    key = "transform-arguments"
                ctx.violation(key, "%s (%s, %s data): %s" % (key, metric, kind, problems[0]), dict(case=desc, problems=problems), True)
    ctx.count(stats["transform_calls"] + stats["fit_transform_calls"])
    ctx.sample(dict(stream="transformer", last_case=desc))
    ctx.stream("transformer", **stats)


def run(ctx):
    ctx.trusted = ["Coq 8.16.1 kernel", "extraction + ocaml/driver.ml (extracted transform_row)",
                   "harness: spies on index_.query and NNDescent.neighbor_graph, reading CSR rows through indptr/indices/data, float32 -> key map, "
                   "float64 reference metrics", "scipy's coo -> csr conversion is modelled (duplicates summed) and validated per run, not verified"]
    ctx.assumptions = ["more than n_neighbors+1 fitted points", "queries on one index are repeatable (C05)",
                       "rows in which the index itself lists a point twice (C02 violated) are left to C02"]
    ctx.notes["rule"] = ("cases: metric in 6 (with metric_kwds and surrogates) x n_neighbors 3/5/8 x search_epsilon 0/0.05/0.1/0.3 x tree_init x "
                         "low_memory x n_jobs x data uniform / block of > n_neighbors+1 identical rows / duplicated pairs / lattice; "
                         "transform and fit_transform per case; non-trivial = case")
    changed, unknown, cur = common.sentinel_status("C18", SENTINELS)
    ctx.sentinels_changed = changed
    ctx.notes["sentinels"] = cur
    ctx.build(COQ_FILES)
    cases(ctx, ctx.budget(24, 240))
    if not changed and unknown:
        common.update_sentinels(cur)
