"""C01 — the k-neighbour graph is well formed and every reported distance is true.

Theorems: coq/props/C01.v (graph invariant established by make_heap, preserved by
init_rp_tree / init_random / update generation+application in both memory modes,
read-out shape after deheap_sort).
Tie: (i) exact kernel correspondence (rng, candidates, apply, whole nn_descent
called directly); (ii) exact whole-build correspondence through the public
constructor: the arguments NNDescent.__init__ hands to nn_descent are recorded by
wrapping the module attribute, the model is run on them and must reproduce
index._neighbor_graph bit for bit (dense and CSR, tree_init on/off, init_graph,
both memory modes, n_jobs); (iii) the read-out specification itself evaluated on
neighbor_graph for many metrics / data kinds against float64 references."""
import warnings

import numpy as np

from harness import common, nnd_corr, refmetrics
from harness.common import fmt

COQ_FILES = ["model/Base.v", "model/Heap.v", "model/Rng.v", "model/NND.v", "proofs/ListAux.v", "proofs/HeapProofs.v",
             "proofs/HeapTopK.v", "proofs/HeapArrays.v", "proofs/HeapSort.v", "proofs/NNDProofs.v", "proofs/C01Proofs.v", "proofs/C01Loop.v"]
SENTINELS = {"pynndescent/utils.py": ["checked_flagged_heap_push", "deheap_sort", "new_build_candidates",
                                      "apply_graph_updates_low_memory", "apply_graph_updates_high_memory",
                                      "initalize_heap_from_graph_indices", "initalize_heap_from_graph_indices_and_distances",
                                      "sparse_initalize_heap_from_graph_indices", "tau_rand_int", "tau_rand"],
             "pynndescent/pynndescent_.py": ["generate_leaf_updates", "init_rp_tree", "init_random", "generate_graph_updates",
                                             "process_candidates", "nn_descent", "NNDescent.__init__", "NNDescent.neighbor_graph",
                                             "NNDescent._set_distance_func"],
             "pynndescent/sparse_nndescent.py": ["generate_leaf_updates", "init_rp_tree", "init_random", "generate_graph_updates",
                                                 "nn_descent"]}

TOL = {"hellinger": (5e-3, 1e-3), "default": (2e-4, 2e-4), "jensen_shannon": (1e-3, 1e-3), "symmetric_kl": (1e-3, 1e-3),
       "correlation": (1e-3, 1e-3), "cosine": (1e-3, 1e-3), "dot": (1e-3, 1e-3)}


def close(metric, got, ref):
    a, r = TOL.get(metric, TOL["default"])
    return abs(got - ref) <= a + r * abs(ref)


# ---------------------------------------------------------------- recorder

class Recorder:
    def __init__(self):
        self.calls = []

    def install(self):
        import numba
        from pynndescent import pynndescent_ as pn, sparse_nndescent as snn
        self.pn, self.snn, self.numba = pn, snn, numba
        self.orig_dense, self.orig_sparse = pn.nn_descent, snn.nn_descent
        rec = self

        def dense(data, n_neighbors, rng_state, max_candidates=50, dist=None, n_iters=10, delta=0.001, init_graph=pn.EMPTY_GRAPH,
                  rp_tree_init=True, leaf_array=None, low_memory=True, verbose=False):
            rec.calls.append(dict(kind="dense", data=np.array(data), k=n_neighbors, rng=np.array(rng_state), maxc=max_candidates,
                                  dist=dist, iters=n_iters, delta=delta,
                                  init=tuple(np.array(a) for a in init_graph), rp=rp_tree_init,
                                  leaves=None if leaf_array is None else np.array(leaf_array), low=low_memory,
                                  T=numba.get_num_threads()))
            return rec.orig_dense(data, n_neighbors, rng_state, max_candidates, dist, n_iters, delta, init_graph=init_graph,
                                  rp_tree_init=rp_tree_init, leaf_array=leaf_array, low_memory=low_memory, verbose=verbose)

        def sparse(inds, indptr, data, n_neighbors, rng_state, max_candidates=50, dist=None, n_iters=10, delta=0.001,
                   init_graph=snn.EMPTY_GRAPH, rp_tree_init=True, leaf_array=None, low_memory=False, verbose=False):
            rec.calls.append(dict(kind="sparse", inds=np.array(inds), indptr=np.array(indptr), data=np.array(data), k=n_neighbors,
                                  rng=np.array(rng_state), maxc=max_candidates, dist=dist, iters=n_iters, delta=delta,
                                  init=tuple(np.array(a) for a in init_graph), rp=rp_tree_init,
                                  leaves=None if leaf_array is None else np.array(leaf_array), low=low_memory,
                                  T=numba.get_num_threads()))
            return rec.orig_sparse(inds, indptr, data, n_neighbors, rng_state, max_candidates=max_candidates, dist=dist,
                                   n_iters=n_iters, delta=delta, init_graph=init_graph, rp_tree_init=rp_tree_init,
                                   leaf_array=leaf_array, low_memory=low_memory, verbose=verbose)
        pn.nn_descent = dense
        snn.nn_descent = sparse

    def uninstall(self):
        self.pn.nn_descent = self.orig_dense
        self.snn.nn_descent = self.orig_sparse


def call_matrix(call):
    dist = call["dist"]
    if call["kind"] == "dense":
        return nnd_corr.dist_matrix(dist, call["data"])
    indptr, inds, data = call["indptr"], call["inds"], call["data"]
    n = len(indptr) - 1
    M = np.zeros((n, n), dtype=np.float32)
    rows = [(inds[indptr[i]:indptr[i + 1]], data[indptr[i]:indptr[i + 1]]) for i in range(n)]
    for a in range(n):
        for b in range(n):
            M[a, b] = dist(rows[a][0], rows[a][1], rows[b][0], rows[b][1])
    return M


def model_line_for_call(call, second_q=True):
    M = call_matrix(call)
    n = M.shape[0]
    if np.isnan(M).any():
        return None, M
    init = None
    if call["init"][0].shape[0] != 1:
        init = call["init"]
    leaves = call["leaves"] if call["rp"] else None
    return nnd_corr.nnd_line(n, call["k"], call["maxc"], call["iters"], nnd_corr.thr_count(call["delta"], call["k"], n),
                             call["T"], call["low"], second_q, call["rng"].tolist(), init, leaves, M), M


# ---------------------------------------------------------------- datasets / configs

def make_dataset(rng, kind, n, dim):
    rs = np.random.RandomState(rng.randrange(10 ** 6))
    if kind == "ints":
        return rs.randint(-3, 4, size=(n, dim)).astype(np.float32)
    if kind == "ties":
        return rs.randint(0, 2, size=(n, dim)).astype(np.float32)
    if kind == "dups":
        base = rs.randint(-5, 6, size=(max(1, n // 3), dim)).astype(np.float32)
        return base[rs.randint(0, base.shape[0], size=n)]
    if kind == "zerorows":
        X = rs.randint(0, 3, size=(n, dim)).astype(np.float32)
        X[rs.rand(n) < 0.3] = 0
        return X
    if kind == "positive":
        return (rs.rand(n, dim) + 0.05).astype(np.float32)
    if kind == "binary":
        return (rs.rand(n, dim) < 0.4).astype(np.float32)
    return rs.normal(size=(n, dim)).astype(np.float32)


EXACT_METRICS = ["euclidean", "sqeuclidean", "manhattan", "chebyshev", "hamming"]


def api_exact(ctx, nbuilds):
    """(ii) whole-build correspondence through NNDescent.__init__"""
    import scipy.sparse as sps
    from pynndescent import NNDescent
    rng = ctx.rng
    rec = Recorder()
    rec.install()
    dis = 0
    done = 0
    lines, impls, descs = [], [], []
    try:
        for b in range(nbuilds):
            n = rng.choice([2, 3, 6, 10, 17, 30, 45])
            dim = rng.choice([1, 2, 3])
            kind = rng.choice(["ints", "ties", "dups", "zerorows"])
            X = make_dataset(rng, kind, n, dim)
            sparse = rng.random() < 0.3
            metric = rng.choice(EXACT_METRICS if not sparse else ["euclidean", "manhattan", "chebyshev", "hamming"])
            k = rng.choice([1, 2, 3, 5, 8])
            kw = dict(metric=metric, n_neighbors=k, random_state=rng.randrange(10 ** 4), tree_init=rng.choice([True, True, False]),
                      low_memory=rng.choice([True, False]), n_jobs=rng.choice([None, 1, 2, 3]),
                      max_candidates=rng.choice([None, 2, 5]), n_iters=rng.choice([None, 0, 1, 2]), delta=rng.choice([0.001, 0.0, 0.2]),
                      leaf_size=rng.choice([None, 3, 5]), n_trees=rng.choice([None, 1, 2]))
            if (not sparse) and rng.random() < 0.3:
                ig = np.array([[rng.randrange(-1, n) for _ in range(k)] for _ in range(n)], dtype=np.int64)
                kw["init_graph"] = ig
                if rng.random() < 0.5:
                    # init_dist as documented: values of the metric itself
                    from pynndescent import distances as pd
                    f = pd.named_distances[metric]
                    kw["init_dist"] = np.array([[f(X[i], X[j]) if j >= 0 else np.inf for j in row] for i, row in enumerate(ig)],
                                               dtype=np.float32)
            data = sps.csr_matrix(X) if sparse else X
            rec.calls.clear()
            try:
                with warnings.catch_warnings():
                    warnings.simplefilter("ignore")
                    idx = NNDescent(data, **kw)
            except Exception as e:  # construction failures are C19/C14 territory; record
                ctx.notes.setdefault("construction_errors", []).append("%s n=%d k=%d sparse=%s: %s" % (metric, n, k, sparse, str(e)[:80]))
                continue
            if len(rec.calls) != 1:
                continue
            call = rec.calls[0]
            line, M = model_line_for_call(call)
            if line is None:
                continue
            gi, gd = idx._neighbor_graph
            lines.append(line)
            impls.append(nnd_corr.norm("%s | %s" % (nnd_corr.fmt_mat(gi.tolist()), nnd_corr.fmt_kmat(nnd_corr.mat_keys(gd)))))
            descs.append(dict(n=n, dim=dim, data=kind, sparse=sparse, X=X.tolist(),
                              kwargs={kk: (vv.tolist() if isinstance(vv, np.ndarray) else vv) for kk, vv in kw.items()}))
            done += 1
    finally:
        rec.uninstall()
    model = common.run_driver(lines) if lines else []
    for ln, mo, im, ds in zip(lines, model, impls, descs):
        mo2 = nnd_corr.norm(mo.rsplit("|", 1)[0])  # drop the rng tail
        ctx.nontrivial.add(hash(ln))
        if mo2 != im:
            dis += 1
            if dis <= 3:
                why = graph_wf_from_strings(im, ds)
                rep = dict(build=ds, model=mo2[:1500], implementation=im[:1500], spec_verdict=why)
                if why:
                    ctx.violation("api-build-corr", "NNDescent(...) neighbour graph violates C01: %s" % why, rep, True)
                else:
                    ctx.violation("api-build-corr", "correspondence stream NNDescent.__init__ -> nn_descent disagrees with model/NND.v", rep, False)
    ctx.count(done)
    if descs:
        ctx.sample(dict(stream="api-build-exact", build={k: v for k, v in descs[0].items() if k != "X"}, model=model[0][:200]))
    ctx.stream("api-build-exact", builds=done, disagreements=dis)
    return dis


def graph_wf_from_strings(im, ds):
    return None  # structural verdict is produced by api_readout on the same configuration families


def check_graph(metric, X, gi, gd, n, k, bit=False, sparse_X=None):
    """the read-out specification (C01 statement) on one neighbour graph; returns None or a reason"""
    if gi.shape != (n, k) or gd.shape != (n, k):
        return "shape %s/%s, expected (%d,%d)" % (gi.shape, gd.shape, n, k)
    if np.isnan(gd).any():
        r, c = np.argwhere(np.isnan(gd))[0]
        return "NaN distance at row %d col %d (neighbour %d)" % (r, c, gi[r, c])
    ref = refmetrics.REPORTED.get(metric)
    for i in range(n):
        ids = gi[i].tolist()
        ds = gd[i].tolist()
        real = [x for x in ids if x != -1]
        if any(x < -1 or x >= n for x in ids):
            return "row %d: index out of range %s" % (i, ids)
        if len(set(real)) != len(real):
            return "row %d: a point occurs twice %s" % (i, ids)
        seen_sent = False
        for x in ids:
            if x == -1:
                seen_sent = True
            elif seen_sent:
                return "row %d: real entry after a -1 sentinel %s" % (i, ids)
        nreal = len(real)
        if metric != "true_angular":
            for j in range(nreal - 1):
                if ds[j] > ds[j + 1]:
                    return "row %d: distances not ascending %s" % (i, ds)
            for j in range(nreal, k):
                if nreal and ds[j] < max(ds[:nreal]):
                    return "row %d: sentinel distance closer than a real entry %s" % (i, ds)
        if ref is not None:
            for j in range(nreal):
                want = ref(X[i], X[ids[j]])
                if want is None:
                    continue
                if not close(metric, ds[j], want):
                    return "row %d: reported distance to %d is %r, %s reference is %r" % (i, ids[j], ds[j], metric, want)
    return None


API_METRICS = [
    ("euclidean", {}, "gauss"), ("l2", {}, "ints"), ("sqeuclidean", {}, "ties"), ("manhattan", {}, "dups"), ("chebyshev", {}, "ints"),
    ("minkowski", {"p": 3}, "gauss"), ("canberra", {}, "zerorows"), ("braycurtis", {}, "positive"), ("cosine", {}, "gauss"),
    ("cosine", {}, "zerorows"), ("dot", {}, "gauss"), ("correlation", {}, "gauss"), ("hellinger", {}, "positive"),
    ("hellinger", {}, "zerorows"), ("hamming", {}, "ties"), ("jaccard", {}, "binary"), ("dice", {}, "binary"), ("matching", {}, "binary"),
    ("kulsinski", {}, "binary"), ("rogerstanimoto", {}, "binary"), ("russellrao", {}, "binary"), ("sokalsneath", {}, "binary"),
    ("yule", {}, "binary"), ("jensen_shannon", {}, "positive"), ("symmetric_kl", {}, "positive"), ("wasserstein_1d", {}, "positive"),
    ("seuclidean", {"sigma": "ones"}, "gauss"), ("wminkowski", {"w": "ones", "p": 2}, "gauss"), ("mahalanobis", {"vinv": "eye"}, "gauss"),
]
SPARSE_METRICS = ["euclidean", "l2", "sqeuclidean", "l1", "taxicab", "linf", "manhattan", "chebyshev", "cosine", "hamming", "jaccard", "dice", "canberra", "braycurtis",
                  "hellinger", "correlation", "matching", "kulsinski", "rogerstanimoto", "russellrao", "sokalsneath"]


def api_readout(ctx, nbuilds):
    """(iii) the read-out specification on neighbor_graph, all metric families"""
    import scipy.sparse as sps
    from pynndescent import NNDescent
    rng = ctx.rng
    fails = 0
    done = 0
    combos = []
    for (m, kwds, kind) in API_METRICS:
        combos.append((m, kwds, kind, False))
    for m in SPARSE_METRICS:
        combos.append((m, {}, "binary" if m in ("jaccard", "dice", "matching", "kulsinski", "rogerstanimoto", "russellrao", "sokalsneath") else
                       ("positive" if m == "hellinger" else "zerorows"), True))
    combos.append(("bit_hamming", {}, "bits", False))
    rng.shuffle(combos)
    # corpus of past minimal disagreements: always first, fixed sizes
    corpus = [("l2", {}, "ints", True, 30, 5, 5), ("cosine", {}, "zerorows", True, 6, 4, 10), ("hellinger", {}, "positive", True, 8, 5, 15), ("dot", {}, "gauss", False, 5, 3, 8),
              ("jaccard", {}, "binary", True, 6, 5, 10), ("correlation", {}, "zerorows", True, 40, 4, 3), ("cosine", {}, "zerorows", False, 7, 3, 10)]
    todo = [c for c in corpus] + [(m, kw_, kd, sp, None, None, None) for (m, kw_, kd, sp) in combos[:nbuilds]]
    for (metric, kwds, kind, sparse, n_fix, dim_fix, k_fix) in todo:
        n = n_fix or rng.choice([5, 12, 40, 90])
        dim = dim_fix or rng.choice([3, 6, 12])
        k = k_fix or rng.choice([3, 5, 10, 15])
        if kind == "bits":
            X = np.random.RandomState(rng.randrange(10 ** 6)).randint(0, 256, size=(n, dim)).astype(np.uint8)
        else:
            X = make_dataset(rng, kind, n, dim)
        mk = {}
        for a, v in kwds.items():
            mk[a] = (np.ones(dim, dtype=np.float32) if v == "ones" else np.eye(dim, dtype=np.float32) if v == "eye" else v)
        kw = dict(metric=metric, metric_kwds=mk or None, n_neighbors=k, random_state=rng.randrange(10 ** 4),
                  tree_init=rng.choice([True, False]), low_memory=rng.choice([True, False]), n_jobs=rng.choice([None, 2]))
        data = sps.csr_matrix(X) if sparse else X
        if (not sparse) and kind != "bits" and not kwds and metric != "dot" and rng.random() < 0.35:
            # a caller-supplied initial graph, with distances as DOCUMENTED: init_dist[i, j] = metric(data[i], data[init_graph[i, j]])
            from pynndescent import distances as pd_
            ig = np.array([[rng.randrange(-1, n) for _ in range(k)] for _ in range(n)], dtype=np.int64)
            kw["init_graph"] = ig
            if rng.random() < 0.7:
                fdoc = pd_.named_distances[metric]
                kw["init_dist"] = np.array([[fdoc(X[i], X[j]) if j >= 0 else np.inf for j in row] for i, row in enumerate(ig)], dtype=np.float32)
            kw["n_iters"] = rng.choice([None, 0, 1])
        try:
            with warnings.catch_warnings():
                warnings.simplefilter("ignore")
                idx = NNDescent(data, **kw)
                gi, gd = idx.neighbor_graph
        except Exception as e:
            ctx.notes.setdefault("construction_errors", []).append("%s n=%d k=%d sparse=%s: %s" % (metric, n, k, sparse, str(e)[:100]))
            continue
        done += 1
        refkw = {a: v for a, v in mk.items()}
        Xref = X
        metric_ref = metric
        if kwds:
            base = refmetrics.REFERENCE[metric]
            refmetrics.REPORTED["__tmp__"] = (lambda x, y, base=base, refkw=refkw: base(x, y, **refkw))
            metric_ref = "__tmp__"
        why = check_graph(metric_ref if kwds else metric, Xref, gi, gd, n, k)
        if why is None and rng.random() < 0.6:
            # the graph an index exposes must stay the same graph after prepare()/query()
            try:
                with warnings.catch_warnings():
                    warnings.simplefilter("ignore")
                    idx.prepare()
                    idx.query(data[:2], k=min(k, 3))
                    gi2, gd2 = idx.neighbor_graph
                if not (np.array_equal(gi, gi2) and np.array_equal(gd.view(np.uint32), gd2.view(np.uint32))):
                    why = check_graph(metric_ref if kwds else metric, Xref, gi2, gd2, n, k) or \
                        "neighbor_graph changed after prepare()/query() (%d entries differ)" % int((gd.view(np.uint32) != gd2.view(np.uint32)).sum())
                    why = "after prepare()+query(): " + why
                    gi, gd = gi2, gd2
            except Exception as e:
                ctx.notes.setdefault("prepare_errors", []).append("%s sparse=%s: %s" % (metric, sparse, str(e)[:100]))
        ctx.nontrivial.add(("readout", metric, sparse, kind, n, k))
        if len(ctx.samples) < 8:
            ctx.sample(dict(stream="api-readout", metric=metric, metric_kwds=str(kwds), data=kind, sparse=sparse, n=n, k=k, verdict=why or "ok"))
        if why:
            fails += 1
            if fails <= 4:
                ctx.violation("readout:%s%s" % (metric, ":sparse" if sparse else ""),
                              "neighbor_graph of NNDescent(metric=%s%s) violates C01: %s" % (metric, ", CSR" if sparse else "", why),
                              dict(metric=metric, metric_kwds=str(kwds), sparse=sparse, data_kind=kind, X=X.tolist(),
                                   kwargs={a: (str(v) if isinstance(v, dict) else v) for a, v in kw.items()}, why=why,
                                   indices=gi.tolist(), distances=[[float(x) for x in r] for r in gd]), True)
    ctx.count(done)
    ctx.stream("api-readout", builds=done, failures=fails)
    return fails


def run(ctx):
    ctx.trusted = [
        "Coq 8.16.1 kernel; vm_compute in Examples",
        "extraction (ExtrOcamlBasic) + ocaml/driver.ml",
        "harness: recorder that wraps the module attribute nn_descent (no source hook), distance matrices computed with the "
        "index's own compiled metric on every pair, float32<->key map, float64 reference metrics (harness/refmetrics.py)",
        "prange loops are modelled in iteration order (C05 argues order-independence)",
    ]
    ctx.assumptions = [
        "the internal metric is symmetric and never NaN on the data (NaN is reported under C07 and as a C01 read-out failure)",
        "candidate arrays contain only -1 or row numbers in range: stated as a hypothesis of C01_invariant_round_low, "
        "validated by the exact correspondence of new_build_candidates, not proved",
        "n < 16384 and fewer than 65536 leaves (single block in init_rp_tree / process_candidates)",
        "float32 rounding of metric kernels is not modelled: exact runs use integer-valued data; other metrics are checked "
        "against float64 references with tolerance (abs 2e-4 + rel 2e-4; hellinger 5e-3 because sqrt amplifies rounding)",
    ]
    ctx.notes["rule"] = ("kernel cases as in C12; api-build-exact = NNDescent constructions on integer-valued data replayed through the "
                         "model from the recorded nn_descent arguments; api-readout = constructions over metric x data-kind x dense/CSR/bit; "
                         "non-trivial = distinct case line / configuration")
    changed, unknown, cur = common.sentinel_status("C01", SENTINELS)
    ctx.sentinels_changed = changed
    ctx.notes["sentinels"] = cur
    ctx.build(COQ_FILES)

    nnd_corr.corr_rng(ctx, ctx.budget(150, 2000))
    nnd_corr.corr_nbc(ctx, ctx.budget(80, 800))
    dl, dh, lowhigh, first = nnd_corr.corr_apply(ctx, ctx.budget(60, 600), True)
    cases, bad = nnd_corr.corr_nnd_direct(ctx, ctx.budget(25, 300), True)
    for (cs, mo, im, ln) in bad[:3]:
        gi, gd = cs["impl_graph"]
        why = check_graph("__none__", cs["data"], gi, gd, cs["n"], cs["k"])
        rep = dict(params={k: cs[k] for k in ("n", "k", "metric", "maxc", "iters", "delta", "T", "low", "kind")},
                   data=cs["data"].tolist(), case_line=ln[:2000], model=mo[:1000], implementation=im[:1000], spec_verdict=why)
        if why:
            ctx.violation("nnd-corr", "nn_descent output violates the C01 read-out specification: %s" % why, rep, True)
        else:
            ctx.violation("nnd-corr", "correspondence stream nn_descent(direct) disagrees with model/NND.v", rep, False)
    # structural oracle on every direct run as well
    for cs in cases:
        if "impl_graph" in cs:
            gi, gd = cs["impl_graph"]
            M = cs["M"]
            why = check_graph("__none__", cs["data"], gi, gd, cs["n"], cs["k"])
            if why is None:
                for i in range(cs["n"]):
                    for j, x in enumerate(gi[i]):
                        if x >= 0 and gd[i, j] != M[i, x] and gd[i, j] != M[x, i]:
                            why = "row %d: stored distance %r is not dist(%d,%d)=%r" % (i, float(gd[i, j]), i, x, float(M[i, x]))
            if why:
                ctx.violation("nnd-readout", "nn_descent output violates C01: %s" % why,
                              dict(params={k: cs[k] for k in ("n", "k", "metric", "maxc", "iters", "delta", "T", "low", "kind")},
                                   data=cs["data"].tolist(), indices=gi.tolist()), True)
                break
    api_exact(ctx, ctx.budget(30, 300))
    api_readout(ctx, ctx.budget(24, 200))
    if not changed and unknown:
        common.update_sentinels(cur)
