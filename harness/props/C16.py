"""C16 — the search graph is a bounded-degree subgraph of the neighbour graph.

Theorems: coq/props/C16.v (degree_prune_row: bound up to ties, shortest edge kept,
short rows untouched; soundness of search_graph_chk).
Tie: exact correspondence of the compiled degree_prune_internal with the model;
the proved checker (extracted) is run on (_neighbor_graph, _search_graph,
_vertex_order, max_degree) of real prepared indexes; a Python mirror of the checker
explains rejections."""
import warnings

import numpy as np

from harness import common, nnd_corr
from harness.common import fmt

COQ_FILES = ["model/Base.v", "model/SearchGraph.v", "proofs/ListAux.v", "proofs/C16Proofs.v"]
SENTINELS = {"pynndescent/pynndescent_.py": ["degree_prune_internal", "degree_prune", "NNDescent._init_search_graph", "diversify",
                                             "diversify_csr"],
             "pynndescent/sparse.py": ["diversify", "diversify_csr"]}
EPS = np.finfo(np.float32).eps


def corr_prune(ctx, ncases):
    m = nnd_corr.impl()
    pn = m["pn"]
    rng = ctx.rng
    lines, impls = [], []
    spec_fail = 0
    for c in range(ncases):
        nrows = rng.choice([1, 3, 6])
        maxd = rng.choice([0, 1, 2, 3, 5, 8])
        pool = [float(x) for x in rng.sample([0.5, 1.0, 1.0, 2.0, 2.0, 2.0, 3.0, 4.5, 7.0, 9.0, 9.0, 1e-7, 20.0], rng.choice([3, 6, 13]))]
        indptr = [0]
        data = []
        for r in range(nrows):
            ln = rng.choice([0, 1, maxd, maxd + 1, maxd + 2, 2 * maxd + 3, rng.randrange(0, 15)])
            data += [rng.choice(pool) if rng.random() < 0.7 else rng.uniform(0.1, 10) for _ in range(ln)]
            indptr.append(len(data))
        d = np.array(data, dtype=np.float32)
        ip = np.array(indptr, dtype=np.int32)
        before = d.copy()
        pn.degree_prune_internal(ip, d, maxd)
        for r in range(nrows):
            row = before[ip[r]:ip[r + 1]]
            out = d[ip[r]:ip[r + 1]]
            lines.append("prune %d %d %s" % (maxd, len(row), fmt(common.f32_keys(row))))
            impls.append(nnd_corr.norm(fmt(common.f32_keys(out))))
            # property on the implementation's row
            kept = out[out != 0]
            why = None
            if ((out != 0) & (out != row)).any():
                why = "an edge length was changed"
            elif len(row) and row.min() > 0 and not (out == row.min()).any():
                why = "the shortest edge of the row was removed"
            elif len(kept) and int((kept < kept.max()).sum()) > maxd and len(row) > maxd:
                why = "%d kept edges strictly shorter than the longest kept one, bound %d" % (int((kept < kept.max()).sum()), maxd)
            elif len(row) <= maxd and not np.array_equal(out, row):
                why = "a row within the bound was modified"
            if why:
                spec_fail += 1
                if spec_fail <= 2:
                    ctx.violation("prune-spec", "degree_prune_internal: %s (row %s, max_degree %d -> %s)" % (why, row.tolist(), maxd, out.tolist()),
                                  dict(row=row.tolist(), max_degree=maxd, out=out.tolist(), why=why), True)
    model = common.run_driver(lines)
    dis = 0
    for ln, mo, im in zip(lines, model, impls):
        ctx.nontrivial.add(hash(ln))
        if nnd_corr.norm(mo) != im:
            dis += 1
            if dis <= 2 and spec_fail == 0:
                ctx.violation("prune-corr", "correspondence stream degree_prune_internal disagrees with model/SearchGraph.v",
                              dict(case_line=ln, model=mo, implementation=im), False)
    ctx.count(len(lines))
    ctx.sample(dict(stream="degree_prune_internal", case=lines[0], model=model[0]))
    ctx.stream("degree_prune_internal", rows=len(lines), disagreements=dis, spec_failures=spec_fail)


def py_checker(n, ki, kd, sg_rows, vorder, maxdeg):
    """Python mirror of search_graph_chk, returning a reason (diagnostics only)"""
    if len(sg_rows) != n or sorted(vorder) != list(range(n)):
        return "shape / vertex order not a permutation"

    def elen(u, v):
        a = [kd[u][j] for j, x in enumerate(ki[u]) if x == v][:1]
        b = [kd[v][j] for j, x in enumerate(ki[v]) if x == u][:1]
        if a and b:
            return max(a[0], b[0])
        return (a or b or [None])[0]
    for a, row in enumerate(sg_rows):
        u = vorder[a]
        lens = []
        for b in row:
            if not (0 <= b < n):
                return "row %d: endpoint %d out of range" % (a, b)
            if b == a:
                return "self-loop at internal position %d (point %d)" % (a, u)
            ln = elen(u, vorder[b])
            if ln is None:
                return "edge %d -> %d: neither point lists the other in the neighbour graph" % (u, vorder[b])
            lens.append(ln)
        if lens:
            mx = max(lens)
            if sum(1 for x in lens if x < mx) > maxdeg:
                return "point %d has %d out-edges strictly shorter than its longest one, bound %d" % (u, sum(1 for x in lens if x < mx), maxdeg)
        first = [(x, kd[u][j]) for j, x in enumerate(ki[u]) if x >= 0 and x != u][:1]
        if first and not any(x <= first[0][1] for x in lens):
            return "point %d lists neighbour %d at %r but keeps no edge that short (kept lengths %s)" % (u, first[0][0], first[0][1], sorted(lens)[:5])
    return None


def api_graphs(ctx, nbuilds):
    import scipy.sparse as sps
    from pynndescent import NNDescent
    rng = ctx.rng
    lines, metas = [], []
    for b in range(nbuilds):
        n = rng.choice([8, 20, 45, 90])
        dim = rng.choice([2, 3, 6])
        k = rng.choice([2, 3, 4, 5, 7, 9, 10])      # with the multipliers below: products at x.5 of both parities (round-half-even matters)
        rs = np.random.RandomState(rng.randrange(10 ** 6))
        kind = rng.choice(["gauss", "ints", "dups", "line"])
        if kind == "gauss":
            X = rs.normal(size=(n, dim)).astype(np.float32)
        elif kind == "ints":
            X = rs.randint(0, 4, size=(n, dim)).astype(np.float32)
        elif kind == "line":
            X = np.zeros((n, dim), dtype=np.float32)
            X[:, 0] = rs.permutation(n)
        else:
            base = rs.randint(0, 5, size=(max(2, n // 3), dim)).astype(np.float32)
            X = base[rs.randint(0, base.shape[0], size=n)]
        sparse = rng.random() < 0.3
        metric = rng.choice(["euclidean", "manhattan", "cosine", "chebyshev"])
        if metric == "cosine" or sparse:
            X = np.abs(X) + np.float32(0.5)
        pdm = rng.choice([0.5, 1.0, 1.5, 3.0])
        kw = dict(metric=metric, n_neighbors=min(k, n - 1), random_state=rng.randrange(10 ** 4), tree_init=rng.choice([True, False]),
                  pruning_degree_multiplier=pdm, diversify_prob=rng.choice([1.0, 1.0, 0.5, 0.0]), n_jobs=rng.choice([None, 2]),
                  low_memory=rng.choice([True, False]))
        try:
            with warnings.catch_warnings():
                warnings.simplefilter("ignore")
                idx = NNDescent(sps.csr_matrix(X) if sparse else X, **kw)
                ki = idx._neighbor_graph[0].copy()
                kd = idx._neighbor_graph[1].copy()
                idx.prepare()
        except Exception as e:
            ctx.notes.setdefault("build_errors", []).append("%s sparse=%s: %s" % (metric, sparse, str(e)[:100]))
            continue
        sg = idx._search_graph.tocsr()
        vorder = np.asarray(idx._vertex_order).tolist()
        maxdeg = int(np.round(pdm * kw["n_neighbors"]))
        kd = np.where(kd <= 0, EPS, kd).astype(np.float32)   # _init_search_graph maps non-positive lengths to FLOAT32_EPS
        kk = ki.shape[1]
        rows = [sg.indices[sg.indptr[a]:sg.indptr[a + 1]].tolist() for a in range(n)] if sg.shape == (n, n) else []
        kdk = nnd_corr.mat_keys(kd)
        if any(x is None for r in kdk for x in r):
            ctx.notes.setdefault("nan_graphs", []).append(metric)
            continue
        line = "sgchk %d %d %d %s %s %s %s" % (n, kk, maxdeg, fmt(ki.ravel().tolist()), fmt(np.array(kdk).ravel().tolist()), fmt(vorder),
                                               " ".join("%d %s" % (len(r), fmt(r)) for r in rows))
        lines.append(line)
        metas.append(dict(n=n, X=X.tolist(), sparse=sparse, kwargs=kw, ki=ki.tolist(), kd=kdk, rows=rows, vorder=vorder, maxdeg=maxdeg,
                          shape=list(sg.shape)))
    out = common.run_driver(lines) if lines else []
    fails = 0
    for ln, o, me in zip(lines, out, metas):
        ctx.nontrivial.add(hash(ln))
        if o.strip() != "1":
            fails += 1
            if fails <= 3:
                why = py_checker(me["n"], me["ki"], me["kd"], me["rows"], me["vorder"], me["maxdeg"]) or "checker rejected (shape %s)" % me["shape"]
                ctx.violation("search-graph", "search graph of a prepared index violates C16: %s" % why,
                              dict(X=me["X"], sparse=me["sparse"], kwargs=me["kwargs"], max_degree=me["maxdeg"], why=why,
                                   vertex_order=me["vorder"], search_graph_rows=me["rows"], neighbor_indices=me["ki"]), True)
    ctx.count(len(lines))
    if metas:
        ctx.sample(dict(stream="search_graph_chk", n=metas[0]["n"], kwargs=metas[0]["kwargs"], max_degree=metas[0]["maxdeg"], accepted=out[0]))
    ctx.stream("search_graph_chk-on-prepared-indexes", graphs=len(lines), rejected=fails)


def run(ctx):
    ctx.trusted = ["Coq 8.16.1 kernel", "extraction + ocaml/driver.ml (the extracted search_graph_chk decides)",
                   "harness: reading _neighbor_graph/_search_graph/_vertex_order off the index, zero distances mapped to FLOAT32_EPS as "
                   "_init_search_graph does, float32->key map",
                   "scipy's coo/csr/transpose/maximum/setdiag/eliminate_zeros are part of the producer and are validated per run, not modelled"]
    ctx.assumptions = ["edge lengths are read from the neighbour graph (the larger listing when both endpoints list each other)",
                       "nearest-edge clause is checked as: a point that lists a neighbour keeps an edge at least as short as its nearest "
                       "listed one (pruning may keep a shorter reverse edge instead when more than max_degree shorter in-edges exist)",
                       "symmetric metric; probability-1 diversification with a generator that never returns 1.0f"]
    ctx.notes["rule"] = ("prune rows: shorter/equal/longer than the bound, ties at the cut, bound 0; graphs: prepared NNDescent indexes over "
                         "data kind x metric x dense/CSR x tree_init x n_neighbors x pruning_degree_multiplier x diversify_prob; "
                         "non-trivial = distinct case line")
    changed, unknown, cur = common.sentinel_status("C16", SENTINELS)
    ctx.sentinels_changed = changed
    ctx.notes["sentinels"] = cur
    ctx.build(COQ_FILES)
    corr_prune(ctx, ctx.budget(300, 3000))
    api_graphs(ctx, ctx.budget(24, 200))
    if not changed and unknown:
        common.update_sentinels(cur)
