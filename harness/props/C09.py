"""C09 — internal surrogate distances preserve neighbour order and invert exactly.

Theorems: coq/props/C09.v (over the reals: corrections invert the surrogates, the
surrogates order candidates as the documented metric does, corrected range).
Tie: the compiled surrogate kernels and correction ufuncs of /repo are evaluated on
structured vectors (dense and CSR) against float64 evaluations of the same real
functions; the scalar correction ufuncs are swept over float32 bit patterns
(a stride of them in quick, all 2^32 in thorough): NaN-freedom, monotonicity, range,
agreement with the float64 formula."""
import numpy as np

from harness import common, refmetrics

COQ_FILES = ["proofs/C09Proofs.v", "model/Lattice.v", "proofs/LatticeProofs.v"]
SENTINELS = {"pynndescent/pynndescent_.py": ["NNDescent.neighbor_graph"], "pynndescent/distances.py": ["squared_euclidean", "alternative_cosine", "alternative_dot", "alternative_hellinger",
                                          "alternative_jaccard", "correct_alternative_cosine", "correct_alternative_hellinger",
                                          "correct_alternative_jaccard", "true_angular_from_alt_cosine", "cosine", "dot", "hellinger",
                                          "jaccard", "euclidean", "true_angular"],
             "pynndescent/sparse.py": ["sparse_squared_euclidean", "sparse_alternative_cosine", "sparse_alternative_dot",
                                       "sparse_alternative_hellinger", "sparse_alternative_jaccard", "sparse_correct_alternative_cosine",
                                       "sparse_correct_alternative_hellinger", "correct_alternative_jaccard"]}
F32MAX = float(np.finfo(np.float32).max)


def enc(v):
    i = np.nonzero(v)[0].astype(np.int32)
    return i, v[i].astype(np.float32)


def vectors(rng, metric, dim, n):
    """structured vectors in the metric's domain"""
    rs = np.random.RandomState(rng.randrange(10 ** 6))
    out = []
    base = rs.normal(size=dim).astype(np.float32)
    if metric in ("hellinger",):
        base = np.abs(base) + np.float32(0.05)
    if metric == "jaccard":
        # jaccard counts NON-ZERO coordinates: signed and non-unit values are in its domain
        base = ((rs.rand(dim) < 0.5) * rs.choice([1.0, -1.0, 2.5], size=dim)).astype(np.float32)
    out.append(base.copy())                              # a point
    out.append(base.copy())                              # identical
    out.append((base * np.float32(2.0)).astype(np.float32))  # positive multiple
    out.append(np.zeros(dim, dtype=np.float32))          # zero vector
    if metric not in ("hellinger", "jaccard"):
        out.append((-base).astype(np.float32))           # opposite (obtuse)
        o = rs.normal(size=dim).astype(np.float32)
        o = (o - base * (o @ base) / max(1e-9, base @ base)).astype(np.float32)
        out.append(o)                                    # (nearly) orthogonal
    out.append((base + np.float32(1e-3) * rs.normal(size=dim).astype(np.float32)).astype(np.float32))  # nearly identical
    while len(out) < n:
        v = rs.normal(size=dim).astype(np.float32)
        if metric == "hellinger":
            v = np.abs(v)
            v[rs.rand(dim) < 0.3] = 0
        if metric == "jaccard":
            v = ((rs.rand(dim) < rs.choice([0.2, 0.5, 0.8])) * rs.choice([1.0, -1.0, 2.5], size=dim)).astype(np.float32)
        out.append(v.astype(np.float32))
    return out


def documented(metric, x, y):
    if metric in ("euclidean", "l2"):
        return refmetrics.euclidean(x, y)
    if metric == "cosine":
        return refmetrics.cosine_clamped(x, y)
    if metric == "dot":
        # the documented 'dot' distance applies to l2-normalised data; on raw vectors 1 - <x,y>, 1 when <= 0
        d = float(np.asarray(x, dtype=np.float64) @ np.asarray(y, dtype=np.float64))
        return 1.0 if d <= 0 else 1.0 - d
    if metric == "hellinger":
        return refmetrics.hellinger(x, y)
    if metric == "jaccard":
        return refmetrics.jaccard(x, y)
    if metric == "true_angular":
        if not np.any(x) and not np.any(y):
            return None  # zero-norm pair: outside the documented range (the function itself returns 0.0, the corrected surrogate 1.0)
        return refmetrics.true_angular_similarity(x, y)
    raise KeyError(metric)


def pairs(ctx, nvec):
    from pynndescent import distances as pd, sparse as sp
    rng = ctx.rng
    stats = {}
    for table, is_sparse in ((pd.fast_distance_alternatives, False), (sp.sparse_fast_distance_alternatives, True)):
        for metric, entry in table.items():
            alt, corr = entry["dist"], entry["correction"]
            dim = rng.choice([3, 8, 20])
            vs = vectors(rng, metric, dim, nvec)
            if metric == "dot":
                vs = [(v / np.float32(max(1e-12, np.sqrt((v.astype(np.float64) ** 2).sum())))).astype(np.float32) for v in vs]
            n = len(vs)
            A = np.zeros((n, n), dtype=np.float32)
            D = np.full((n, n), np.nan)
            inv_fail = order_fail = 0
            worst = 0.0
            for i in range(n):
                for j in range(n):
                    if is_sparse:
                        a = alt(*enc(vs[i]), *enc(vs[j]))
                    else:
                        a = alt(vs[i], vs[j])
                    A[i, j] = a
                    d = documented(metric, vs[i], vs[j])
                    D[i, j] = np.nan if d is None else d
            C = np.asarray(corr(A), dtype=np.float64)
            if np.isnan(A).any() or np.isnan(C).any():
                i, j = np.argwhere(np.isnan(A) | np.isnan(C))[0]
                ctx.violation("surrogate-nan:%s%s" % (metric, ":sparse" if is_sparse else ""),
                              "surrogate or corrected %s%s value is NaN" % (metric, " (CSR)" if is_sparse else ""),
                              dict(metric=metric, sparse=is_sparse, x=vs[i].tolist(), y=vs[j].tolist(), surrogate=float(A[i, j])), True)
            tol_abs = 5e-3 if metric == "hellinger" else (2e-4 if metric != "dot" else 5e-4)
            for i in range(n):
                for j in range(n):
                    if np.isnan(D[i, j]):
                        continue
                    err = abs(C[i, j] - D[i, j])
                    worst = max(worst, err)
                    if not (err <= tol_abs + 1e-4 * abs(D[i, j])):
                        inv_fail += 1
                        if inv_fail <= 1:
                            ctx.violation("inversion:%s%s" % (metric, ":sparse" if is_sparse else ""),
                                          "correction(surrogate) = %r but the documented %s value is %r" % (float(C[i, j]), metric, float(D[i, j])),
                                          dict(metric=metric, sparse=is_sparse, x=vs[i].tolist(), y=vs[j].tolist(), surrogate=float(A[i, j]),
                                               corrected=float(C[i, j]), documented=float(D[i, j])), True)
            # order: for every anchor q and candidates a, b
            sign = -1.0 if metric == "true_angular" else 1.0   # reported true_angular is a similarity
            margin = 5e-3 if metric == "hellinger" else 1e-3
            for q in range(n):
                for a in range(n):
                    for b in range(a + 1, n):
                        da, db = D[q, a], D[q, b]
                        if np.isnan(da) or np.isnan(db):
                            continue
                        if sign * (da - db) < -margin and not (A[q, a] < A[q, b]):
                            if A[q, a] >= F32MAX or A[q, b] >= F32MAX:
                                continue  # saturated (s <= 0): outside the strict claim
                            order_fail += 1
                            if order_fail <= 1:
                                ctx.violation("order:%s%s" % (metric, ":sparse" if is_sparse else ""),
                                              "surrogate orders two candidates differently from the documented %s metric" % metric,
                                              dict(metric=metric, sparse=is_sparse, q=vs[q].tolist(), a=vs[a].tolist(), b=vs[b].tolist(),
                                                   documented=[float(da), float(db)], surrogate=[float(A[q, a]), float(A[q, b])]), True)
            stats["%s%s" % (metric, ":sparse" if is_sparse else "")] = dict(pairs=n * n, inversion_failures=inv_fail, order_failures=order_fail,
                                                                            max_inversion_err=worst)
            ctx.count(n * n)
            ctx.nontrivial.add(("pairs", metric, is_sparse))
    # dense and sparse surrogates agree on the same vectors
    agree_fail = 0
    for metric in sp.sparse_fast_distance_alternatives:
        if metric not in pd.fast_distance_alternatives:
            continue
        da_, sa_ = pd.fast_distance_alternatives[metric]["dist"], sp.sparse_fast_distance_alternatives[metric]["dist"]
        vs = vectors(rng, metric, 8, nvec)
        if metric == "dot":
            vs = [(v / np.float32(max(1e-12, np.sqrt((v.astype(np.float64) ** 2).sum())))).astype(np.float32) for v in vs]
        for i in range(len(vs)):
            for j in range(len(vs)):
                d1 = float(da_(vs[i], vs[j]))
                d2 = float(sa_(*enc(vs[i]), *enc(vs[j])))
                if min(d1, d2) > 15.0:
                    continue  # similarity core below 3e-5: rounding decides on which side of the saturation boundary s = 0 it falls
                if not (abs(d1 - d2) <= 1e-4 + 1e-4 * abs(d1)):
                    agree_fail += 1
                    if agree_fail <= 1:
                        ctx.violation("dense-vs-sparse-surrogate:%s" % metric, "dense and sparse surrogates of %s differ: %r vs %r" % (metric, d1, d2),
                                      dict(metric=metric, x=vs[i].tolist(), y=vs[j].tolist(), dense=d1, sparse=d2), True)
        ctx.count(len(vs) ** 2)
    ctx.sample(dict(stream="surrogate-pairs", stats=stats.get("cosine")))
    ctx.stream("surrogate-pairs", per_metric=stats, dense_vs_sparse_failures=agree_fail)


def sweep(ctx, stride_log2):
    """scalar correction functions over float32 bit patterns"""
    from pynndescent import distances as pd, sparse as sp
    funcs = [("correct_alternative_cosine", pd.correct_alternative_cosine, lambda d: 1.0 - np.exp2(-d), False),
             ("correct_alternative_jaccard", pd.correct_alternative_jaccard, lambda d: 1.0 - np.exp2(-d), False),
             ("correct_alternative_hellinger", pd.correct_alternative_hellinger, lambda d: np.sqrt(np.maximum(0.0, 1.0 - np.exp2(-d))), False),
             ("true_angular_from_alt_cosine", pd.true_angular_from_alt_cosine, lambda d: 1.0 - np.arccos(np.minimum(1.0, np.exp2(-d))) / np.pi, True),
             ("sparse_correct_alternative_cosine", sp.sparse_correct_alternative_cosine, lambda d: 1.0 - np.exp2(-d), False),
             ("sparse_correct_alternative_hellinger", sp.sparse_correct_alternative_hellinger, lambda d: np.sqrt(np.maximum(0.0, 1.0 - np.exp2(-d))), False),
             ("np.sqrt", np.sqrt, np.sqrt, False)]
    stride = 1 << stride_log2
    chunk = 1 << 22
    res = {}
    total = 0
    for name, f, ref, decreasing in funcs:
        bad = None
        n_eval = 0
        prev_last = None
        # non-negative finite values and +inf, in increasing numeric order (bit order)
        start = 0
        top = 0x7F800000 + 1
        while start < top and bad is None:
            bits = np.arange(start, min(top, start + chunk * stride), stride, dtype=np.uint32)
            d = bits.view(np.float32)
            with np.errstate(all="ignore"):
                out = np.asarray(f(d), dtype=np.float64)
                want = ref(d.astype(np.float64))
            n_eval += len(d)
            if np.isnan(out).any():
                k = int(np.argmax(np.isnan(out)))
                bad = ("NaN on non-NaN input", float(d[k]), float(out[k]))
                break
            seq = out if not decreasing else -out
            if prev_last is not None and seq[0] < prev_last - 1e-12:
                bad = ("not monotone across chunk", float(d[0]), float(out[0]))
                break
            dec = np.nonzero(np.diff(seq) < -1e-7)[0]
            if len(dec):
                k = int(dec[0])
                bad = ("not monotone in d: f(%r)=%r then f(%r)=%r" % (float(d[k]), float(out[k]), float(d[k + 1]), float(out[k + 1])), float(d[k]), float(out[k]))
                break
            prev_last = seq[-1]
            if name != "np.sqrt":
                if (out < -1e-6).any() or (out > 1.0 + 1e-6).any():
                    k = int(np.argmax((out < -1e-6) | (out > 1.0 + 1e-6)))
                    bad = ("outside [0,1]", float(d[k]), float(out[k]))
                    break
            finite = np.isfinite(want)
            err = np.abs(out[finite] - want[finite])
            lim = 2e-4 + 1e-5 * np.abs(want[finite]) if "hellinger" not in name else 1e-3 + 1e-5 * np.abs(want[finite])
            if name.startswith("sparse_"):
                # the sparse corrections snap |d| <= 1e-7 to 0
                lim = lim + 4e-4
            if (err > lim).any():
                k = int(np.argmax(err > lim))
                bad = ("differs from the float64 formula", float(d[finite][k]), float(out[finite][k]))
                break
            start += chunk * stride
        # a few negative inputs (a rounding artefact of the surrogate): only NaN-freedom for the non-sqrt functions
        if bad is None and name != "np.sqrt":
            neg = -np.array([1e-8, 1e-7, 1e-6, 1e-3], dtype=np.float32)
            with np.errstate(all="ignore"):
                outn = np.asarray(f(neg), dtype=np.float64)
            if np.isnan(outn).any() and "hellinger" not in name:
                bad = ("NaN on a small negative surrogate value", float(neg[int(np.argmax(np.isnan(outn)))]), float("nan"))
        res[name] = dict(evaluated=n_eval, problem=bad)
        total += n_eval
        ctx.nontrivial.add(("sweep", name))
        if bad is not None:
            ctx.violation("correction:%s" % name, "%s: %s (d=%r -> %r)" % (name, bad[0], bad[1], bad[2]),
                          dict(function=name, input=bad[1], output=bad[2], problem=bad[0]), True)
    ctx.count(total)
    ctx.sample(dict(stream="correction-sweep", function="correct_alternative_cosine", stride=stride))
    ctx.stream("correction-sweep", stride=stride, exhaustive=(stride == 1), per_function=res)


def index_readout(ctx, nbuilds):
    """the inverse transform as the index applies it: reading neighbor_graph corrects a COPY of the stored surrogate values —
    every read returns the same corrected distances, and the stored surrogates (which prepare/update/query keep comparing)
    are left as they are"""
    import warnings
    import scipy.sparse as sps
    from pynndescent import NNDescent
    from harness import refmetrics
    rng = ctx.rng
    bad = 0
    done = 0
    for b in range(nbuilds):
        rs = np.random.RandomState(rng.randrange(10 ** 6))
        metric = ["euclidean", "cosine", "hellinger", "l2", "cosine", "correlation", "dot"][b % 7]
        sparse = (b % 2 == 1) and metric in ("euclidean", "cosine", "hellinger", "l2")
        X = rs.uniform(0.1, 3.0, size=(rng.choice([60, 150]), 6)).astype(np.float32)
        data = sps.csr_matrix(np.where(rs.uniform(size=X.shape) < 0.7, X, 0).astype(np.float32) + np.eye(X.shape[0], 6, dtype=np.float32)) if sparse else X
        ctx.crumb(dict(stream="index-readout", metric=metric, sparse=sparse, n=int(X.shape[0])))
        with warnings.catch_warnings():
            warnings.simplefilter("ignore")
            idx = NNDescent(data, metric=metric, n_neighbors=6, random_state=rng.randrange(1000), n_jobs=1)
            stored = idx._neighbor_graph[1].copy()
            i1, d1 = idx.neighbor_graph
            d1 = d1.copy()
            stored_after = idx._neighbor_graph[1].copy()
            i2, d2 = idx.neighbor_graph
            idx.prepare()
            i3, d3 = idx.neighbor_graph
        done += 1
        ctx.nontrivial.add(("readout", b))
        why = None
        if not np.array_equal(stored, stored_after, equal_nan=True):
            why = "reading neighbor_graph changed the stored surrogate distances (%d entries)" % int((stored != stored_after).sum())
        elif not np.array_equal(d1, d2, equal_nan=True):
            why = "two consecutive reads of neighbor_graph return different distances (%d entries differ)" % int((d1 != d2).sum())
        elif not np.array_equal(d1, d3, equal_nan=True):
            why = "neighbor_graph read after prepare() differs from the read before (%d entries)" % int((d1 != d3).sum())
        else:
            D = data.toarray() if sparse else X
            ref = refmetrics.REPORTED[metric]
            for r in range(0, D.shape[0], 7):
                for j, dv in zip(i1[r], d1[r]):
                    if j >= 0:
                        t = ref(D[r].astype(np.float64), D[int(j)].astype(np.float64))
                        if abs(float(dv) - t) > 5e-3 * max(1.0, abs(t)):
                            why = "neighbor_graph[%d] lists %d at %r; the documented %s distance is %r" % (r, j, float(dv), metric, t)
                            break
                if why:
                    break
        if why:
            bad += 1
            if bad <= 2:
                ctx.violation("index-readout", "%s%s index: %s" % ("CSR " if sparse else "", metric, why),
                              dict(metric=metric, sparse=sparse, n=int(X.shape[0]), why=why), True)
    ctx.count(done)
    ctx.stream("index-readout", builds=done, failures=bad)


def run(ctx):
    ctx.trusted = ["Coq 8.16.1 kernel", "Coq.Reals axioms (ClassicalDedekindReals.sig_forall_dec, sig_not_dec, functional_extensionality_dep, Classical_Prop.classic)",
                   "harness: float64 numpy/libm evaluations of exp2, sqrt, arccos as the reference for the compiled float32 kernels"]
    ctx.assumptions = [
        "theorems are over the reals; float32 rounding (fastmath, libm) is measured by the sweep and the pair checks, not proved",
        "strict order preservation is claimed on the non-saturated domain (similarity core s > 0); for s <= 0 every candidate receives "
        "FLOAT32_MAX (the corrected value is the clamp 1 of the documented range)",
        "true_angular's reported value 1 - angle/pi is a similarity: larger = closer",
        "hellinger: sqrt amplifies one float32 ulp near 0 to 3.5e-4; tolerance 5e-3 there",
        "dense/sparse surrogate agreement is not judged when the similarity core is below 3e-5 (surrogate > 15): rounding decides whether it "
        "saturates; zero-norm pairs are outside true_angular's documented range",
    ]
    ctx.notes["rule"] = ("pairs: structured vectors (identical, multiples, zero, opposite, orthogonal, nearly identical, random) per metric in both "
                         "surrogate tables, all ordered pairs and all (anchor, a, b) triples; sweep: float32 bit patterns of non-negative values at a "
                         "stride (every pattern in thorough); non-trivial = per metric table entry / per swept function")
    changed, unknown, cur = common.sentinel_status("C09", SENTINELS)
    ctx.sentinels_changed = changed
    ctx.notes["sentinels"] = cur
    ctx.build(COQ_FILES)
    from harness import lattice, latticegen
    latticegen.regenerate(ctx, "C09")
    lattice.angular_stream(ctx, ctx.budget(500, 5000), "surrogates")
    pairs(ctx, ctx.budget(14, 40))
    sweep(ctx, 0 if ctx.thorough else (8 if changed else 10))
    index_readout(ctx, ctx.budget(7, 28))
    if not changed and unknown:
        common.update_sentinels(cur)
