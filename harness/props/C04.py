"""C04 — the index stays truthful over any history of prepare / update / compress.

Theorems: coq/props/C04.v (for every history the stored rows are the logical dataset seen
through _vertex_order and the graph has one row per logical point; argsort undoes the tree
order; invalidation leaves no trace of replaced rows and touches nothing else).
Tie: generated histories run on the implementation; after EVERY operation the extracted
model's storage (row tokens), _vertex_order presence, graph row count and raised flag are
compared with the index; the graph handed to init_from_neighbor_graph inside update() is
compared entry-for-entry with the extracted invalidate; neighbor_graph and query answers
are checked against float64 reference distances over the logical dataset kept by the
harness (C01/C02 oracles)."""
import io
import pickle
import warnings

import numpy as np

from harness import common, nnd_corr, refmetrics
from harness.common import fmt

COQ_FILES = ["model/Base.v", "model/Lifecycle.v", "proofs/ListAux.v", "proofs/C04Proofs.v", "proofs/C04Compose.v"]
SENTINELS = {"pynndescent/pynndescent_.py": ["NNDescent.update", "NNDescent.prepare", "NNDescent.compress_index", "NNDescent._init_search_graph",
                                             "NNDescent.__getstate__", "NNDescent.__setstate__", "NNDescent.neighbor_graph",
                                             "init_from_neighbor_graph", "init_rp_tree"]}
METRICS = ["euclidean", "euclidean", "manhattan", "cosine", "dot", "bit_hamming", "bit_jaccard", "hellinger"]


def ref_distance(metric, x, y):
    if metric.startswith("bit_"):
        return refmetrics.REFERENCE[metric](x, y)
    return refmetrics.REPORTED[metric](x.astype(np.float64), y.astype(np.float64))


def close(a, b, metric):
    if np.isinf(a) or np.isinf(b):
        return a == b or (np.isinf(a) and b > 1e30) or (np.isinf(b) and a > 1e30)
    tol = 3e-3 if metric in ("hellinger", "cosine", "dot") else 1e-3
    return abs(a - b) <= tol * max(1.0, abs(b))


def gen_rows(rs, n, dim, metric, kind):
    if metric.startswith("bit_"):
        return rs.randint(0, 256, size=(n, dim)).astype(np.uint8)
    if kind == "ints":
        X = rs.randint(1, 6, size=(n, dim)).astype(np.float32)
    else:
        X = rs.uniform(0.1, 5.0, size=(n, dim)).astype(np.float32)
    return X


def check_truth(ctx, index, logical, metric, trace, stats, what):
    """neighbor_graph (if present) and a query batch against the logical dataset"""
    n = logical.shape[0]
    problems = []
    if hasattr(index, "_neighbor_graph"):
        ind, dist = index.neighbor_graph
        if ind.shape[0] != n:
            problems.append("neighbor graph has %d rows, the logical dataset has %d points" % (ind.shape[0], n))
        else:
            for i in range(n):
                row = [int(x) for x in ind[i] if x >= 0]
                if not row and n > ind.shape[1] + 1 and any(
                        np.isfinite(ref_distance(metric, logical[i], logical[j]) or np.inf) for j in range(n) if j != i):
                    # (a point at infinite distance from every other point, e.g. an all-zero row under bit_jaccard, has no neighbours)
                    problems.append("row %d of the neighbor graph is empty (all -1) although the logical dataset has %d points: the point is not indexed" % (i, n))
                    break
                if len(set(row)) != len(row):
                    problems.append("row %d of the neighbor graph lists a point twice: %s" % (i, ind[i].tolist()))
                    break
                bad = False
                for j, d in zip(ind[i], dist[i]):
                    if j < 0:
                        continue
                    if j >= n:
                        problems.append("row %d references point %d, out of range (n=%d)" % (i, j, n))
                        bad = True
                        break
                    ref = ref_distance(metric, logical[i], logical[int(j)])
                    stats["graph_entries"] += 1
                    if not close(float(d), ref, metric):
                        problems.append("neighbor graph entry (%d,%d) stores distance %r; the %s distance of the logical rows is %r" %
                                        (i, j, float(d), metric, ref))
                        bad = True
                        break
                if bad:
                    break
    if not problems and what in ("query", "final"):
        qi = list(range(0, n, max(1, n // 6)))[:6]
        Q = logical[qi]
        ind, dist = index.query(Q, k=min(4, n))
        for r, i in enumerate(qi):
            row = [int(x) for x in ind[r] if x >= 0]
            if len(set(row)) != len(row):
                problems.append("query answer for logical row %d lists a point twice: %s" % (i, ind[r].tolist()))
                break
            for j, d in zip(ind[r], dist[r]):
                if j < 0:
                    continue
                if j >= n:
                    problems.append("query answer references point %d, out of range (n=%d)" % (j, n))
                    break
                ref = ref_distance(metric, logical[i], logical[int(j)])
                stats["query_entries"] += 1
                if not close(float(d), ref, metric):
                    problems.append("query for logical row %d returns point %d at distance %r; the %s distance to that logical row is %r" %
                                    (i, j, float(d), metric, ref))
                    break
    return problems


def histories(ctx, nhist):
    from pynndescent import NNDescent
    import pynndescent.pynndescent_ as pn
    rng = ctx.rng
    stats = dict(histories=0, operations=0, updates=0, raised=0, graph_entries=0, query_entries=0, invalidations=0, truth_failures=0,
                 storage_mismatches=0)
    life_lines, life_meta = [], []
    inv_lines, inv_meta = [], []
    recorded = []
    orig_init = pn.init_from_neighbor_graph

    def spy(heap, indices, distances):
        recorded.append((np.array(indices).copy(), np.array(distances).copy()))
        return orig_init(heap, indices, distances)
    pn.init_from_neighbor_graph = spy
    try:
        for h in range(nhist):
            rs = np.random.RandomState(rng.randrange(10 ** 6))
            metric = rng.choice(METRICS)
            bit = metric.startswith("bit_")
            kind = rng.choice(["uniform", "uniform", "ints", "dups"])
            n0, dim = rng.choice([30, 45, 70]), (4 if bit else rng.choice([4, 6]))
            X = gen_rows(rs, n0, dim, metric, kind)
            if kind == "dups" or (bit and rng.random() < 0.3):
                half = n0 // 2
                X[half:2 * half] = X[:half]          # exact twins: rows i and i + half
            kw = dict(metric=metric, n_neighbors=5, random_state=rng.randrange(1000), tree_init=rng.choice([True, True, False]),
                      low_memory=rng.choice([True, False]), n_jobs=1)
            tokens = list(range(100, 100 + n0))
            vec = {t: X[i].copy() for i, t in enumerate(tokens)}
            next_tok = 100 + n0
            logical_tok = list(tokens)
            trace = [dict(op="construct", n=n0, dim=dim, data_kind=kind, kwargs=kw, seed_rows="RandomState stream of the history")]
            ctx.crumb(dict(stream="histories", history=trace))
            ops_enc = []
            impl_obs = []
            problems = []
            raised_expected_stop = False
            try:
                with warnings.catch_warnings():
                    warnings.simplefilter("ignore")
                    index = NNDescent(X.copy(), **kw)
                    compressed = False
                    nops = rng.choice([2, 3, 4, 6])
                    for step in range(nops):
                        kindop = rng.choice(["prepare", "query", "update_fresh", "update_replace", "update_both", "update_both", "compress", "pickle"])
                        if kindop == "compress" and (compressed or rng.random() < 0.5):
                            kindop = "query"
                        n = len(logical_tok)
                        entry = dict(op=kindop)
                        raised = False
                        if kindop.startswith("update"):
                            nf = rng.choice([1, 4, 9]) if kindop != "update_replace" else 0
                            nu = rng.choice([1, 2, 5]) if kindop != "update_fresh" else 0
                            F = gen_rows(rs, nf, dim, metric, kind) if nf else None
                            ids = []
                            if nu:
                                ids = [int(x) for x in rs.choice(n, size=min(nu, n), replace=False)]
                                if kind == "dups" or rng.random() < 0.3:
                                    ids[0] = int(rs.randint(0, max(1, min(n, n0) // 2)))   # first member of a twin pair when twins exist
                                    ids = list(dict.fromkeys(ids))
                                    nu = len(ids)
                            U = gen_rows(rs, nu, dim, metric, kind) if nu else None
                            if nu and rng.random() < 0.2:
                                U = U + (np.uint8(0) if bit else np.float32(100.0))
                            entry.update(n_fresh=nf, updated_indices=ids)
                            trace.append(entry)
                            ctx.crumb(dict(stream="histories", history=trace))
                            snap = None
                            if hasattr(index, "_neighbor_graph"):
                                snap = (index._neighbor_graph[0].copy(), index._neighbor_graph[1].copy())
                            del recorded[:]
                            try:
                                kwargs = {}
                                if nf:
                                    kwargs["xs_fresh"] = F.copy()
                                if nu:
                                    kwargs["xs_updated"] = U.copy()
                                    kwargs["updated_indices"] = list(ids)
                                index.update(**kwargs)
                            except (AttributeError, NotImplementedError) as e:
                                raised = True
                                entry["raised"] = "%s: %s" % (type(e).__name__, str(e)[:120])
                            stats["updates"] += 1
                            ftok = list(range(next_tok, next_tok + nf))
                            next_tok += nf
                            utok = list(range(next_tok, next_tok + nu))
                            next_tok += nu
                            for t, r in zip(ftok, F if nf else []):
                                vec[t] = r.copy()
                            for t, r in zip(utok, U if nu else []):
                                vec[t] = r.copy()
                            if not raised:
                                for t, i in zip(utok, ids):
                                    logical_tok[i] = t
                                logical_tok += ftok
                                if snap is not None and recorded and ids:
                                    k = snap[0].shape[1]
                                    dk = nnd_corr.mat_keys(snap[1])
                                    rk = nnd_corr.mat_keys(recorded[0][1])
                                    if not any(x is None for r in dk for x in r):
                                        inv_lines.append("invalidate %d %d %s %d %d %s %s" % (common.INF_KEY, len(ids), fmt(ids), snap[0].shape[0], k,
                                                                                           fmt(snap[0].ravel().tolist()), fmt(np.array(dk).ravel().tolist())))
                                        inv_meta.append(dict(history=list(trace), impl_ind=recorded[0][0].tolist(), impl_dist=rk))
                            perm = index._vertex_order.tolist() if hasattr(index, "_vertex_order") else list(range(len(logical_tok)))
                            ops_enc.append([2, nf] + ftok + [len(ids)] + ids + utok + [len(perm)] + perm)
                        else:
                            trace.append(entry)
                            ctx.crumb(dict(stream="histories", history=trace))
                            if kindop == "prepare":
                                index.prepare()
                            elif kindop == "query":
                                index.query(np.stack([vec[t] for t in logical_tok[:3]]), k=min(3, n))
                            elif kindop == "compress":
                                index.compress_index()
                                compressed = True
                            else:
                                index = pickle.loads(pickle.dumps(index))
                            perm = index._vertex_order.tolist()
                            ops_enc.append([1 if kindop == "compress" else 0, len(perm)] + perm)
                        if raised:
                            stats["raised"] += 1
                        # observation after the operation
                        rawrows = index._raw_data
                        obs = dict(raised=raised, n_raw=int(rawrows.shape[0]), has_vorder=hasattr(index, "_vertex_order"),
                                   graph_rows=int(index._neighbor_graph[0].shape[0]) if hasattr(index, "_neighbor_graph") else 0,
                                   has_graph=hasattr(index, "_neighbor_graph"))
                        obs["raw"] = np.array(rawrows).copy()
                        impl_obs.append(obs)
                        logical = np.stack([vec[t] for t in logical_tok])
                        pr = check_truth(ctx, index, logical, metric, trace, stats,
                                         "query" if kindop in ("query", "pickle", "compress") or step == nops - 1 else "graph")
                        if pr:
                            problems = pr
                            break
                        if raised:
                            raised_expected_stop = True
            except Exception as e:
                import traceback
                problems = ["operation raised %s: %s" % (type(e).__name__, str(e)[:300])]
                trace[-1]["traceback"] = traceback.format_exc()[-800:]
            stats["histories"] += 1
            stats["operations"] += len(trace) - 1
            ctx.nontrivial.add(h)
            if problems:
                stats["truth_failures"] += 1
                if stats["truth_failures"] <= 4:
                    key = "history-" + ("raised" if problems[0].startswith("operation raised") else "untruthful")
                    key += "-bit" if bit else ""
                    ctx.violation(key, "after %s (%s, %s data): %s" % (" -> ".join(t["op"] for t in trace), metric, kind, problems[0]),
                                  dict(history=trace, problem=problems[0], initial_rows=X.tolist(),
                                       rows_by_token={str(t): v.tolist() for t, v in vec.items()}, logical_tokens=list(logical_tok),
                                       note="initial_rows = the constructor's data; rows_by_token holds every row handed to update() "
                                            "(tokens >= 100 + n in order of appearance: fresh rows, then replacement rows, per update)"), True)
                continue
            if ops_enc:
                life_lines.append("lifecycle %d %s %d %s" % (n0, fmt(tokens), len(ops_enc), " ".join(fmt(o) for o in ops_enc)))
                life_meta.append(dict(history=trace, obs=impl_obs, vec=vec, metric=metric))
    finally:
        pn.init_from_neighbor_graph = orig_init
    # ---- storage bookkeeping against the extracted model
    out = common.run_driver(life_lines) if life_lines else []
    for ln, o, me in zip(life_lines, out, life_meta):
        per = [x for x in o.split("#") if x.strip()]
        for step, (seg, obs) in enumerate(zip(per, me["obs"])):
            parts = [x.split() for x in seg.split("|")]
            m_raised = parts[0] == ["1"]
            m_raw = [int(x) for x in parts[1]]
            m_vorder = None if parts[2] == ["-1"] else [int(x) for x in parts[2]]
            m_rows, m_hasg, m_search = [int(x) for x in parts[3]]
            why = None
            if m_raised != obs["raised"]:
                why = "model raised=%s, implementation raised=%s" % (m_raised, obs["raised"])
            elif len(m_raw) != obs["n_raw"]:
                why = "_raw_data has %d rows, the model has %d" % (obs["n_raw"], len(m_raw))
            elif (m_vorder is not None) != obs["has_vorder"]:
                why = "_vertex_order present=%s, model=%s" % (obs["has_vorder"], m_vorder is not None)
            elif bool(m_hasg) != obs["has_graph"] or (m_hasg and m_rows != obs["graph_rows"]):
                why = "neighbor graph rows %s (present=%s), model %s (present=%s)" % (obs["graph_rows"], obs["has_graph"], m_rows, bool(m_hasg))
            else:
                want = np.stack([me["vec"][t] for t in m_raw])
                got = obs["raw"]
                if me["metric"] == "dot":
                    want = want / np.maximum(np.linalg.norm(want.astype(np.float64), axis=1, keepdims=True), 1e-30)
                    same = np.allclose(got, want, atol=1e-5)
                else:
                    same = got.shape == want.shape and np.array_equal(got, want.astype(got.dtype))
                if not same:
                    badrows = [int(i) for i in range(len(m_raw)) if not np.allclose(got[i], want[i], atol=1e-5)][:6]
                    why = "_raw_data rows %s differ from the model's storage (logical rows seen through _vertex_order)" % badrows
            if why:
                stats["storage_mismatches"] += 1
                if stats["storage_mismatches"] <= 3:
                    ctx.violation("storage-corr", "after operation %d (%s): %s" % (step + 1, me["history"][step + 1]["op"], why),
                                  dict(history=me["history"][:step + 2], why=why, model_segment=seg.strip()), True)
                break
    # ---- invalidation against the extracted model
    out = common.run_driver(inv_lines) if inv_lines else []
    inv_dis = 0
    for ln, o, me in zip(inv_lines, out, inv_meta):
        mi, md = [[[int(x) for x in r.split()] for r in part.split(";") if r.strip()] for part in o.split("|")]
        stats["invalidations"] += 1
        if mi != me["impl_ind"] or md != me["impl_dist"]:
            inv_dis += 1
            if inv_dis <= 2:
                rows = [i for i, (a, b) in enumerate(zip(mi, me["impl_ind"])) if a != b][:5]
                ctx.violation("invalidate-corr", "the graph update() hands to init_from_neighbor_graph differs from the model's invalidation in rows %s" % rows,
                              dict(history=me["history"], rows=rows, model_rows=[mi[i] for i in rows], impl_rows=[me["impl_ind"][i] for i in rows]), True)
    ctx.count(stats["operations"] + stats["invalidations"])
    if life_meta:
        ctx.sample(dict(stream="histories", history=life_meta[0]["history"], model=(out[0][:200] if out else None)))
    ctx.stream("histories", invalidation_disagreements=inv_dis, **stats)


def run(ctx):
    ctx.trusted = ["Coq 8.16.1 kernel", "extraction + ocaml/driver.ml (extracted lrun, invalidate)",
                   "harness: logical dataset bookkeeping (tokens -> vectors), float64 reference metrics (harness/refmetrics.py), "
                   "spy on pynndescent_.init_from_neighbor_graph to read the invalidated graph, float32 -> key map",
                   "the tree order of every rebuild is taken from the implementation (_vertex_order) as the model's oracle"]
    ctx.assumptions = ["dense indexes (sparse update raises NotImplementedError by design)",
                       "an update that raises must leave the index as it was (the model's LUpdate on an index without neighbour graph)",
                       "distance tolerance 1e-3 relative (3e-3 for cosine/dot/hellinger)"]
    ctx.notes["rule"] = ("histories: construct(metric in 8 incl. bit-packed and dot, uniform/integer/duplicate-twin data, tree_init, low_memory) then 2-6 of "
                         "prepare/query/update_fresh/update_replace/update_both/compress/pickle round-trip; every operation followed by storage, "
                         "graph and query checks against the logical dataset; non-trivial = history")
    changed, unknown, cur = common.sentinel_status("C04", SENTINELS)
    ctx.sentinels_changed = changed
    ctx.notes["sentinels"] = cur
    ctx.build(COQ_FILES)
    histories(ctx, ctx.budget(60, 600))
    if not changed and unknown:
        common.update_sentinels(cur)
