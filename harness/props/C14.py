"""C14 — random-projection trees partition the data and every descent ends in a leaf.

Theorems: coq/props/C14.v (builder partitions for any partitioning split; the
euclidean split is a partition; descent of a well-formed flat tree terminates with a
valid range for ALL side decisions; soundness of the flat / linked checkers).
Tie: (i) euclidean dense trees on integer-valued data: linked tree, generator
state, flat tree and leaf array equal to the model's, node for node;
(ii) all five split kinds through make_forest / convert_tree_format / the index's
search forest: the proved checkers (extracted) decide; (iii) routing probes through
the compiled search functions."""
import warnings

import numpy as np

from harness import common, nnd_corr
from harness.common import fmt

COQ_FILES = ["model/Base.v", "model/Rng.v", "model/RPTree.v", "proofs/ListAux.v", "proofs/C14Proofs.v"]
SENTINELS = {"pynndescent/rp_trees.py": ["euclidean_random_projection_split", "angular_random_projection_split",
                                         "angular_bitpacked_random_projection_split", "sparse_angular_random_projection_split",
                                         "sparse_euclidean_random_projection_split", "make_euclidean_tree", "make_angular_tree",
                                         "make_bit_tree", "make_sparse_euclidean_tree", "make_sparse_angular_tree", "make_dense_tree",
                                         "make_sparse_tree", "make_dense_bit_tree", "make_forest", "get_leaves_from_tree",
                                         "rptree_leaf_array_parallel", "rptree_leaf_array", "recursive_convert",
                                         "recursive_convert_sparse", "convert_tree_format", "select_side", "select_side_bit",
                                         "sparse_select_side", "search_flat_tree"]}


def pairs(ch):
    return " ".join("%d %d ," % (int(a), int(b)) for a, b in ch)


def exact_euclidean(ctx, ncases):
    from pynndescent import rp_trees as rp
    rng = ctx.rng
    lines, impls, metas = [], [], []
    for c in range(ncases):
        n = rng.choice([1, 2, 3, 5, 9, 16, 30])
        dim = rng.choice([1, 2, 3])
        kind = rng.choice(["ints", "ties", "identical", "zeros", "collinear", "dups"])
        if kind == "identical":
            X = np.tile(np.array([[rng.randrange(-3, 4) for _ in range(dim)]], dtype=np.float32), (n, 1))
        elif kind == "zeros":
            X = np.zeros((n, dim), dtype=np.float32)
        elif kind == "collinear":
            d = np.array([rng.randrange(-2, 3) for _ in range(dim)], dtype=np.float32)
            X = np.array([rng.randrange(-4, 5) * d for _ in range(n)], dtype=np.float32)
        else:
            X = nnd_corr.int_data(rng, n, dim, kind)
        leaf_size = rng.choice([1, 2, 3, 5, 10])
        max_depth = rng.choice([0, 1, 2, 4, 8, 50])
        st = [rng.randrange(-2 ** 31 + 1, 2 ** 31 - 1) for _ in range(3)]
        rs = np.array(st, dtype=np.int64)
        X = np.ascontiguousarray(X)
        ctx.crumb(dict(stream="euclidean-tree-exact", call="rp_trees.make_dense_tree(X, rng_state, leaf_size, False, max_depth)",
                       X=X.tolist(), data_kind=kind, leaf_size=leaf_size, max_depth=max_depth, rng_state=st))
        try:
            tree = rp.make_dense_tree(X, rs, leaf_size, False, max_depth)
            flat = rp.convert_tree_format(tree, n, dim)
            leaves = rp.get_leaves_from_tree(tree, tree.leaf_size)
        except Exception as e:
            ctx.violation("tree-exception", "euclidean tree construction raised on %s data: %s" % (kind, str(e)[:200]),
                          dict(X=X.tolist(), leaf_size=leaf_size, max_depth=max_depth, rng_state=st), True)
            continue
        ch = [(int(a), int(b)) for (a, b) in tree.children]
        pts = [[int(x) for x in p] for p in tree.indices]
        im = "%s | %s | %s | %s | %s | %s" % (pairs(ch), nnd_corr.fmt_mat(pts), fmt(rs.tolist()), pairs(flat.children.tolist()),
                                             fmt(flat.indices.tolist()), nnd_corr.fmt_mat(leaves.tolist()))
        lines.append("eutree %d %d %d %d %s %s" % (n, dim, leaf_size, max_depth, fmt(st), fmt(X.astype(np.int64).ravel().tolist())))
        impls.append(nnd_corr.norm(im))
        metas.append(dict(X=X.tolist(), kind=kind, leaf_size=leaf_size, max_depth=max_depth, rng_state=st, n=n, children=ch, points=pts,
                          flat_children=flat.children.tolist(), flat_indices=flat.indices.tolist()))
    model = common.run_driver(lines)
    dis = 0
    for ln, mo, im, me in zip(lines, model, impls, metas):
        ctx.nontrivial.add(hash(ln))
        if nnd_corr.norm(mo) != im:
            dis += 1
            if dis <= 3:
                why = tree_problem(me["n"], me["leaf_size"], me["max_depth"], me["children"], me["points"]) or \
                    flat_problem(me["n"], me["flat_children"], me["flat_indices"])
                rep = dict(case_line=ln[:1500], model=mo[:1200], implementation=im[:1200], data=me["X"], data_kind=me["kind"],
                           leaf_size=me["leaf_size"], max_depth=me["max_depth"], rng_state=me["rng_state"], spec_verdict=why)
                if why:
                    ctx.violation("eutree-corr", "euclidean RP-tree violates C14: %s" % why, rep, True)
                else:
                    ctx.violation("eutree-corr", "correspondence stream make_dense_tree/convert_tree_format disagrees with model/RPTree.v", rep, False)
    ctx.count(len(lines))
    if lines:
        ctx.sample(dict(stream="euclidean-tree-exact", case=lines[0][:200], model=model[0][:300]))
    ctx.stream("euclidean-tree-exact", cases=len(lines), disagreements=dis)


def tree_problem(n, leaf_size, max_depth, children, points):
    """python mirror of linked_chk (diagnostics)"""
    nn = len(children)
    if nn == 0 or len(points) != nn:
        return "empty or inconsistent linked tree"
    leaves = []
    stack = [(nn - 1, 0)]
    visited = 0
    while stack:
        node, depth = stack.pop()
        visited += 1
        if visited > 4 * nn + 4:
            return "linked tree is not a tree (cycle or shared node)"
        c0, c1 = children[node]
        if c0 < 0 or c1 < 0:
            leaves.append((node, depth))
        else:
            stack.append((c1, depth + 1))
            stack.append((c0, depth + 1))
    pts = [x for (node, d) in leaves for x in points[node]]
    if sorted(pts) != list(range(n)):
        missing = sorted(set(range(n)) - set(pts))[:5]
        dup = sorted({x for x in pts if pts.count(x) > 1})[:5]
        return "leaves do not hold each point exactly once (missing %s, repeated %s, %d entries for %d points)" % (missing, dup, len(pts), n)
    if 2 * len(leaves) - 1 != nn:
        return "node count %d inconsistent with %d leaves" % (nn, len(leaves))
    for node, d in leaves:
        if len(points[node]) > leaf_size and d < max_depth:
            return "leaf of %d points exceeds leaf_size %d at depth %d < max depth %d" % (len(points[node]), leaf_size, d, max_depth)
    return None


def flat_problem(n, fch, find):
    nn = len(fch)
    if nn == 0:
        return "empty flat tree"
    if sorted(find) != list(range(n)):
        return "flat indices are not a permutation of 0..n-1: %s" % (find[:20],)
    expect = 0
    for node, (c0, c1) in enumerate(fch):
        if c0 > 0:
            if not (node < c0 < c1 < nn):
                return "internal node %d has children (%d,%d) outside (node, n_nodes)" % (node, c0, c1)
        else:
            if -c0 != expect or -c1 < -c0:
                return "leaf node %d has range [%d,%d), expected to start at %d" % (node, -c0, -c1, expect)
            expect = -c1
    if expect != n:
        return "leaf ranges end at %d, not n=%d" % (expect, n)
    return None


def structural(ctx, nforests):
    import scipy.sparse as sps
    from pynndescent import rp_trees as rp
    rng = ctx.rng
    lines, metas = [], []
    kinds = ["euclidean", "angular", "bit", "sparse_euclidean", "sparse_angular"]
    for c in range(nforests):
        kind = kinds[c % len(kinds)]
        n = rng.choice([3, 10, 40, 120])
        dim = rng.choice([2, 4, 8])
        rs = np.random.RandomState(rng.randrange(10 ** 6))
        dk = rng.choice(["gauss", "identical", "zeros", "collinear", "dups", "ints"])
        if dk == "gauss":
            X = rs.normal(size=(n, dim))
        elif dk == "identical":
            X = np.tile(rs.normal(size=(1, dim)), (n, 1))
        elif dk == "zeros":
            X = np.zeros((n, dim))
        elif dk == "collinear":
            X = np.outer(rs.normal(size=n), rs.normal(size=dim))
        elif dk == "dups":
            base = rs.randint(0, 3, size=(max(2, n // 4), dim))
            X = base[rs.randint(0, base.shape[0], size=n)]
        else:
            X = rs.randint(-3, 4, size=(n, dim))
        X = X.astype(np.float32)
        leaf_size = rng.choice([1, 2, 5, 10, 30])
        max_depth = rng.choice([1, 3, 8, 200])
        ntrees = rng.choice([1, 2, 3])
        st = np.array([rng.randrange(-2 ** 31 + 1, 2 ** 31 - 1) for _ in range(3)], dtype=np.int64)
        if kind == "bit":
            data = (rs.randint(0, 256, size=(n, dim)) if dk not in ("identical", "zeros") else
                    np.tile(rs.randint(0, 256, size=(1, dim)) if dk == "identical" else np.zeros((1, dim)), (n, 1))).astype(np.uint8)
        elif kind.startswith("sparse"):
            data = sps.csr_matrix(np.where(np.abs(X) < 0.3, 0, X).astype(np.float32))
            data.sort_indices()
        else:
            data = np.ascontiguousarray(X)
        angular = kind in ("angular", "bit", "sparse_angular")
        ctx.crumb(dict(stream="proved-checkers-on-forests", call="rp_trees.make_forest", split=kind, data_kind=dk,
                       X=(X.tolist() if n <= 40 else "n=%d dim=%d (regenerate with VERIF_SEED)" % (n, dim)), leaf_size=leaf_size,
                       max_depth=max_depth, n_trees=ntrees, rng_state=st.tolist()))
        try:
            with warnings.catch_warnings():
                warnings.simplefilter("ignore")
                forest = rp.make_forest(data, 5, ntrees, leaf_size, st, np.random.RandomState(rng.randrange(10 ** 6)), rng.choice([None, 1, 2]),
                                        angular, kind == "bit", max_depth=max_depth)
                la = rp.rptree_leaf_array(forest)
                flats = [rp.convert_tree_format(t, n, data.shape[1]) for t in forest]
        except Exception as e:
            ctx.violation("forest-exception", "%s forest construction / leaf array / flattening raised on %s data: %s" % (kind, dk, str(e)[:200]),
                          dict(split=kind, data_kind=dk, X=X.tolist() if n <= 40 else "n=%d" % n, leaf_size=leaf_size, max_depth=max_depth,
                               n_trees=ntrees, rng_state=st.tolist()), True)
            continue
        if len(forest) != ntrees:
            ctx.violation("forest-missing", "%s forest returned %d of %d trees on %s data" % (kind, len(forest), ntrees, dk),
                          dict(split=kind, data_kind=dk, leaf_size=leaf_size, max_depth=max_depth), True)
            continue
        for t, f in zip(forest, flats):
            ch = [(int(a), int(b)) for (a, b) in t.children]
            pts = [[int(x) for x in p] for p in t.indices]
            lines.append("linkedchk %d %d %d %d %s %s" % (n, leaf_size, max_depth, len(ch), " ".join("%d %d" % p for p in ch),
                                                          " ".join("%d %s" % (len(p), fmt(p)) for p in pts)))
            metas.append(("linked", kind, dk, dict(n=n, leaf_size=leaf_size, max_depth=max_depth, children=ch, points=pts)))
            fch = f.children.tolist()
            lines.append("flatchk %d %d %s %d %s" % (n, len(fch), " ".join("%d %d" % tuple(p) for p in fch), len(f.indices), fmt(f.indices.tolist())))
            metas.append(("flat", kind, dk, dict(n=n, flat_children=fch, flat_indices=f.indices.tolist())))
        # leaf array: every row lists distinct in-range points, every tree contributes each point once
        rows = la.tolist()
        flatpts = [x for r in rows for x in r if x >= 0]
        if sorted(flatpts) != sorted(list(range(n)) * ntrees):
            ctx.violation("leaf-array", "rptree_leaf_array of a %s forest does not list every point once per tree" % kind,
                          dict(split=kind, data_kind=dk, n=n, n_trees=ntrees, leaf_size=leaf_size, max_depth=max_depth), True)
    out = common.run_driver(lines) if lines else []
    rej = 0
    by_kind = {}
    for ln, o, (what, kind, dk, me) in zip(lines, out, metas):
        ctx.nontrivial.add(hash(ln))
        by_kind[kind] = by_kind.get(kind, 0) + 1
        if o.strip() != "1":
            rej += 1
            if rej <= 3:
                why = (tree_problem(me["n"], me["leaf_size"], me["max_depth"], me["children"], me["points"]) if what == "linked"
                       else flat_problem(me["n"], me["flat_children"], me["flat_indices"])) or "checker rejected"
                ctx.violation("tree-chk:%s:%s" % (what, kind), "%s %s tree on %s data violates C14: %s" % (kind, what, dk, why),
                              dict(split=kind, data_kind=dk, tree=me, why=why), True)
    ctx.count(len(lines))
    ctx.stream("proved-checkers-on-forests", trees_checked=len(lines), rejected=rej, by_split=by_kind)


def routing(ctx, nidx):
    """the index's own search forest and compiled routing closure"""
    import scipy.sparse as sps
    from pynndescent import NNDescent
    rng = ctx.rng
    lines, metas = [], []
    probes = bad = 0
    for c in range(nidx):
        n = rng.choice([12, 50, 150])
        dim = rng.choice([2, 5])
        rs = np.random.RandomState(rng.randrange(10 ** 6))
        sparse = rng.random() < 0.3
        metric = rng.choice(["euclidean", "cosine"])
        X = rs.normal(size=(n, dim)).astype(np.float32)
        if rng.random() < 0.3:
            X[: n // 2] = X[0]
        if sparse:
            X = np.abs(X)
        ctx.crumb(dict(stream="search-forest-and-routing", call="NNDescent(...).prepare()", n=n, dim=dim, metric=metric, sparse=sparse))
        try:
            with warnings.catch_warnings():
                warnings.simplefilter("ignore")
                idx = NNDescent(sps.csr_matrix(X) if sparse else X, metric=metric, n_neighbors=rng.choice([3, 8]), random_state=rng.randrange(1000),
                                leaf_size=rng.choice([None, 3]), max_rptree_depth=rng.choice([200, 4]))
                idx.prepare()
        except Exception as e:
            ctx.notes.setdefault("index_errors", []).append(str(e)[:100])
            continue
        t = idx._search_forest[0]
        fch = t.children.tolist()
        lines.append("flatchk %d %d %s %d %s" % (n, len(fch), " ".join("%d %d" % tuple(p) for p in fch), len(t.indices), fmt(np.asarray(t.indices).tolist())))
        metas.append(dict(n=n, flat_children=fch, flat_indices=np.asarray(t.indices).tolist(), metric=metric, sparse=sparse))
        vo = np.asarray(idx._vertex_order)
        if sorted(vo.tolist()) != list(range(n)):
            ctx.violation("vertex-order", "_vertex_order is not a permutation of the data rows", dict(vertex_order=vo.tolist()), True)
        # routing probes through the compiled closure
        if not sparse:
            qs = [np.zeros(dim, dtype=np.float32), X[0].copy(), (X[0] * -1).astype(np.float32), rs.normal(size=dim).astype(np.float32) * 1e6,
                  rs.normal(size=dim).astype(np.float32)]
            for q in qs:
                r = idx._tree_search(np.ascontiguousarray(q), idx.search_rng_state.copy())
                s, e = int(r[0]), int(r[1])
                probes += 1
                if not (0 <= s <= e <= n):
                    bad += 1
                    ctx.violation("routing", "tree_search_closure returned an invalid leaf range (%d,%d) for n=%d" % (s, e, n),
                                  dict(query=q.tolist(), metric=metric), True)
    out = common.run_driver(lines) if lines else []
    rej = 0
    for ln, o, me in zip(lines, out, metas):
        ctx.nontrivial.add(hash(ln))
        if o.strip() != "1":
            rej += 1
            why = flat_problem(me["n"], me["flat_children"], me["flat_indices"]) or "checker rejected"
            ctx.violation("search-forest", "the search tree of a prepared index violates C14: %s" % why, dict(tree=me, why=why), True)
    ctx.count(len(lines) + probes)
    ctx.stream("search-forest-and-routing", search_trees=len(lines), rejected=rej, routing_probes=probes, invalid_ranges=bad)


def run(ctx):
    ctx.trusted = ["Coq 8.16.1 kernel; vm_compute in the Example", "extraction + ocaml/driver.ml (extracted checkers decide)",
                   "harness: conversion of numba typed lists / arrays to the case lines; Python mirrors of the checkers only explain rejections"]
    ctx.assumptions = [
        "exact model only for the euclidean dense split on integer-valued data (float32 arithmetic exact); angular, bit-packed and "
        "sparse splits are covered by the generic builder theorem (any partitioning split) + the proved checkers on their outputs",
        "joblib thread pool in make_forest is not modelled (trees are independent: each gets its own generator state)",
        "routing theorem quantifies over all side decisions; select_side's float computation is not modelled",
    ]
    ctx.notes["rule"] = ("exact: integer datasets incl. all-identical/all-zero/collinear x leaf_size x max_depth (0..50) x seeds; structural: five "
                         "split kinds x degenerate data x leaf_size x max_depth x n_trees; non-trivial = distinct case line")
    changed, unknown, cur = common.sentinel_status("C14", SENTINELS)
    ctx.sentinels_changed = changed
    ctx.notes["sentinels"] = cur
    ctx.build(COQ_FILES)
    exact_euclidean(ctx, ctx.budget(200, 2000))
    structural(ctx, ctx.budget(40, 400))
    routing(ctx, ctx.budget(6, 40))
    if not changed and unknown:
        common.update_sentinels(cur)
