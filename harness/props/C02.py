"""C02 — query answers are true, in the caller's row order, and never fabricated.

Theorems: coq/props/C02.v (search result sound for every graph / seeds / generator
state / k / epsilon; translation through vertex_order; unfilled-slot rule).
Tie: the compiled search closure of real prepared indexes (dense and CSR) is called
directly on single queries and compared bit-for-bit with the extracted model
(result heap, then the sorted answer); float32 multiplication of the (1+epsilon)
bound is modelled exactly.  The specification itself is evaluated on query()
answers for all index kinds against float64 references."""
import warnings

import numpy as np

from harness import common, nnd_corr, refmetrics
from harness.common import INF_KEY, fmt

COQ_FILES = ["model/Base.v", "model/Heap.v", "model/Rng.v", "model/Search.v", "proofs/ListAux.v", "proofs/HeapProofs.v",
             "proofs/HeapTopK.v", "proofs/HeapArrays.v", "proofs/HeapSort.v", "proofs/C02Proofs.v", "proofs/C02Term.v"]
SENTINELS = {"pynndescent/pynndescent_.py": ["NNDescent._init_search_function", "NNDescent._init_sparse_search_function",
                                             "NNDescent.query", "NNDescent.prepare", "NNDescent._init_search_graph"],
             "pynndescent/utils.py": ["simple_heap_push", "deheap_sort", "has_been_visited", "mark_visited", "tau_rand_int"],
             "pynndescent/rp_trees.py": ["select_side", "sparse_select_side"]}


def corr_fmul(ctx, ncases):
    rng = ctx.rng
    cases = []
    scales = [1.0, 1.1, 1.25, 1.5, 1.3, 1.05, 1.001]
    vals = [0.0, 1.0, 2.0, 3.0, 5.0, 7.0, 10.0, 100.0, 0.5, 0.25, 1e-3, 12345.0, float("inf")]
    for _ in range(ncases):
        s = np.float32(rng.choice(scales) if rng.random() < 0.7 else 1.0 + rng.random() * 0.5)
        v = np.float32(rng.choice(vals) if rng.random() < 0.6 else rng.uniform(0, 50))
        cases.append((s, v))
    lines = ["fmul %d %d" % (common.key_of_float(s), common.key_of_float(v)) for s, v in cases]
    model = common.run_driver(lines)
    dis = 0
    for (s, v), mo, ln in zip(cases, model, lines):
        want = common.key_of_float(np.float32(s) * np.float32(v))
        if int(mo.strip()) != want:
            dis += 1
            if dis <= 3:
                ctx.violation("fmul-model", "model fmul32 disagrees with float32 multiplication (model error)",
                              dict(case_line=ln, model=mo, float32=want), False)
    ctx.count(len(cases))
    ctx.stream("fmul32-model-vs-numpy-float32", cases=len(cases), disagreements=dis)


def build_index(rng, sparse, n=None):
    import scipy.sparse as sps
    from pynndescent import NNDescent
    n = n or rng.choice([6, 15, 40, 90])
    dim = rng.choice([1, 2, 3])
    kind = rng.choice(["ints", "ties", "dups", "half"])
    X = nnd_corr.int_data(rng, n, dim, kind)
    if sparse:
        X = np.abs(X) + np.float32(1.0)
    metric = rng.choice(["euclidean", "sqeuclidean", "manhattan", "chebyshev"] if not sparse else ["euclidean", "manhattan", "chebyshev"])
    kw = dict(metric=metric, n_neighbors=min(rng.choice([2, 4, 8]), n - 1), random_state=rng.randrange(10 ** 4),
              tree_init=rng.choice([True, True, False]), leaf_size=rng.choice([None, 3]), n_jobs=rng.choice([None, 2]))
    with warnings.catch_warnings():
        warnings.simplefilter("ignore")
        idx = NNDescent(sps.csr_matrix(X) if sparse else X, **kw)
        idx.prepare()
    return idx, X, kw


def exact_search(ctx, nidx, nq):
    """single-query calls of the compiled search closure vs the model"""
    import scipy.sparse as sps
    rng = ctx.rng
    lines, impls, metas = [], [], []
    for c in range(nidx):
        sparse = rng.random() < 0.3
        ctx.crumb(dict(stream="search-exact", step="build+prepare", sparse=sparse))
        try:
            idx, X, kw = build_index(rng, sparse)
        except Exception as e:
            ctx.notes.setdefault("build_errors", []).append(str(e)[:100])
            continue
        n = X.shape[0]
        sg = idx._search_graph
        indptr = sg.indptr.tolist()
        indices = sg.indices.tolist()
        tree_indices = np.asarray(idx._search_forest[0].indices) if idx.tree_init else None
        raw = idx._raw_data
        dist = idx._distance_func
        for qn in range(nq):
            mode = rng.choice(["data", "near", "far", "int"])
            if mode == "data":
                q = X[rng.randrange(n)].copy()
            elif mode == "near":
                q = (X[rng.randrange(n)] + np.float32(0.5)).astype(np.float32)
            elif mode == "far":
                q = (X[rng.randrange(n)] + np.float32(100)).astype(np.float32)
            else:
                q = np.array([rng.randrange(-5, 6) for _ in range(X.shape[1])], dtype=np.float32)
            if sparse:
                q = np.abs(q) + np.float32(1.0)
            k = rng.choice([1, 2, 3, 5, 10, n, n + 3])
            eps = rng.choice([0.0, 0.0, 0.1, 0.25, 0.5])
            st0 = idx.search_rng_state.copy()
            ctx.crumb(dict(stream="search-exact", X=X.tolist(), kwargs=kw, sparse=sparse, query=q.tolist(), k=k, epsilon=eps))
            if sparse:
                qs = sps.csr_matrix(q.reshape(1, -1).astype(np.float32))
                qs.sort_indices()
                if idx.tree_init:
                    b = idx._tree_search(qs.indices, qs.data, st0)
                    cands = tree_indices[int(b[0]):int(b[1])].tolist()
                else:
                    cands = []
                dq = [dist(raw.indices[raw.indptr[v]:raw.indptr[v + 1]], raw.data[raw.indptr[v]:raw.indptr[v + 1]], qs.indices, qs.data)
                      for v in range(n)]
                ri, rd, _ = idx._search_function(qs.indices, qs.indptr, qs.data, k, eps, idx._visited, idx.search_rng_state)
            else:
                qq = np.ascontiguousarray(q.reshape(1, -1).astype(np.float32))
                if idx.tree_init:
                    b = idx._tree_search(qq[0], st0)
                    cands = tree_indices[int(b[0]):int(b[1])].tolist()
                else:
                    cands = []
                dq = [dist(raw[v], qq[0]) for v in range(n)]
                ri, rd, _ = idx._search_function(qq, k, eps, idx._visited, idx.search_rng_state)
            dqk = common.f32_keys(np.array(dq, dtype=np.float32))
            if any(x is None for x in dqk):
                continue
            heap_i, heap_d = ri[0].copy(), rd[0].copy()
            si, sd = idx._deheap_function(ri, rd)
            scale = common.key_of_float(np.float32(1.0 + eps))
            line = "search %d %d %d %d %d %s %d %s %d %s %d %s %s" % (
                n, k, idx.n_neighbors, scale, INF_KEY, fmt(st0.tolist()), len(cands), fmt(cands), len(indptr), fmt(indptr),
                len(indices), fmt(indices), fmt(dqk))
            im = "%s | %s | %s | %s" % (fmt(common.f32_keys(heap_d)), fmt(heap_i.tolist()), fmt(si[0].tolist()), fmt(common.f32_keys(sd[0])))
            lines.append(line)
            impls.append(nnd_corr.norm(im))
            metas.append(dict(X=X.tolist(), kwargs=kw, sparse=sparse, query=q.tolist(), k=k, epsilon=eps, n=n, dq=dqk,
                              sorted_indices=si[0].tolist(), sorted_dists=common.f32_keys(sd[0])))
    model = common.run_driver(lines) if lines else []
    dis = 0
    for ln, mo, im, me in zip(lines, model, impls, metas):
        ctx.nontrivial.add(hash(ln))
        parts = [p.strip() for p in mo.split("|")]
        mo2 = nnd_corr.norm(" | ".join(parts[:2] + parts[3:5])) if len(parts) >= 5 else nnd_corr.norm(mo)
        if mo2 != im:
            dis += 1
            if dis <= 3:
                why = raw_answer_problem(me["n"], me["k"], me["sorted_indices"], me["sorted_dists"], me["dq"])
                rep = dict(case=me, model=mo2[:800], implementation=im[:800], spec_verdict=why)
                if why:
                    ctx.violation("search-corr", "the search closure violates C02: %s" % why, rep, True)
                else:
                    ctx.violation("search-corr", "correspondence stream search_closure disagrees with model/Search.v", rep, False)
    ctx.count(len(lines))
    if lines:
        ctx.sample(dict(stream="search-exact", case=lines[0][:250], model=model[0][:250]))
    ctx.stream("search-exact", queries=len(lines), disagreements=dis)


def raw_answer_problem(n, k, ids, ds, dq):
    """specification of the sorted raw answer (internal numbering, order keys)"""
    if len(ids) != k:
        return "answer has %d slots, k=%d" % (len(ids), k)
    real = [x for x in ids if x != -1]
    if any(x < 0 or x >= n for x in real):
        return "slot out of range: %s" % ids
    if len(set(real)) != len(real):
        return "a point is reported twice: %s" % ids
    seen = False
    for x, d in zip(ids, ds):
        if x == -1:
            seen = True
            if d != INF_KEY:
                return "unfilled slot carries a finite distance"
        else:
            if seen:
                return "filled slot after an unfilled one"
            if d != dq[x]:
                return "reported distance of %d is not the metric distance" % x
    fd = [d for x, d in zip(ids, ds) if x != -1]
    if any(fd[i] > fd[i + 1] for i in range(len(fd) - 1)):
        return "not closest first"
    return None


def query_problem(metric, X, Q, ind, dist, k, metric_kwds=None, bit=False):
    """C02 statement on a query() answer in CALLER numbering with reported distances"""
    n = X.shape[0]
    if ind.shape != (Q.shape[0], k) or dist.shape != (Q.shape[0], k):
        return "answer shape %s, expected (%d,%d)" % (ind.shape, Q.shape[0], k)
    ref = refmetrics.REPORTED.get(metric)
    for qi in range(Q.shape[0]):
        ids = ind[qi].tolist()
        ds = dist[qi].tolist()
        if any(np.isnan(d) for d in ds):
            return "query %d: NaN distance" % qi
        real = [x for x in ids if x != -1]
        if any(x < -1 or x >= n for x in ids):
            return "query %d: row number out of range %s" % (qi, ids)
        if len(set(real)) != len(real):
            return "query %d: a data point is named twice %s" % (qi, ids)
        seen = False
        for j, (x, d) in enumerate(zip(ids, ds)):
            if x == -1:
                seen = True
                continue
            if seen:
                return "query %d: filled slot after an unfilled one %s" % (qi, ids)
            if ref is not None:
                want = ref(X[x], Q[qi], **(metric_kwds or {}))
                if want is not None and not (abs(d - want) <= 2e-3 + 2e-3 * abs(want)):
                    return "query %d: slot %d names caller row %d with distance %r but the %s distance to that row is %r" % (qi, j, x, d, metric, want)
        fd = [d for x, d in zip(ids, ds) if x != -1]
        if metric != "true_angular" and any(fd[i] > fd[i + 1] + 1e-6 for i in range(len(fd) - 1)):
            return "query %d: not closest first %s" % (qi, fd)
    return None


def fabricated_slots(ctx):
    """unfilled slots must stay -1: k larger than the dataset, and zero-norm queries under angular metrics"""
    from pynndescent import NNDescent
    rng = ctx.rng
    found = []
    rs = np.random.RandomState(11)
    X = rs.normal(size=(30, 4)).astype(np.float32)
    for metric, Q, k, label in [("euclidean", X[:2], 40, "k=40 > n=30"), ("cosine", np.zeros((2, 4), dtype=np.float32), 3, "zero-norm query under cosine"),
                                ("dot", np.zeros((1, 4), dtype=np.float32), 3, "zero-norm query under dot")]:
        for tree_init in (True, False):
            with warnings.catch_warnings():
                warnings.simplefilter("ignore")
                idx = NNDescent(X, metric=metric, n_neighbors=5, random_state=3, tree_init=tree_init)
                ind, dist = idx.query(Q, k=k)
            # a slot is unfilled iff its distance is not a finite metric value for a real neighbour:
            # at most n distinct real points can be found, and a zero-norm angular query finds none
            for qi in range(Q.shape[0]):
                ids = ind[qi].tolist()
                real = [x for x in ids if x != -1]
                max_real = X.shape[0] if "zero" not in label else 0
                if len(real) > max_real or len(set(real)) != len(real):
                    found.append(dict(metric=metric, tree_init=tree_init, case=label, indices=ids, distances=[float(x) for x in dist[qi]]))
                    break
    for f in found[:1]:
        ctx.violation("unfilled-slot", "query() reports the number of a real data point in a slot for which no neighbour was found "
                                       "(%s): indices %s" % (f["case"], f["indices"][-6:]), dict(examples=found, data="np.random.RandomState(11).normal(size=(30,4)) float32"), True)
    ctx.count(6)
    ctx.stream("unfilled-slots", probes=6, fabricated=len(found))


API_CASES = [("euclidean", "gauss"), ("manhattan", "ints"), ("cosine", "gauss"), ("dot", "gauss"), ("correlation", "gauss"),
             ("hellinger", "positive"), ("chebyshev", "dups"), ("jaccard", "binary"), ("hamming", "ties"), ("canberra", "positive"),
             ("minkowski", "gauss"), ("braycurtis", "positive")]


def api_queries(ctx, ncases):
    import scipy.sparse as sps
    from pynndescent import NNDescent
    from harness.props.C01 import make_dataset
    rng = ctx.rng
    fails = done = 0
    for c in range(ncases):
        metric, kind = API_CASES[c % len(API_CASES)]
        n = rng.choice([12, 40, 100])
        dim = rng.choice([3, 6])
        X = make_dataset(rng, kind, n, dim)
        sparse = rng.random() < 0.25 and metric in ("euclidean", "manhattan", "cosine", "jaccard", "hellinger", "chebyshev", "canberra", "braycurtis")
        mk = {"p": 3} if metric == "minkowski" else None
        kw = dict(metric=metric, metric_kwds=mk, n_neighbors=rng.choice([3, 6, 10]), random_state=rng.randrange(10 ** 4),
                  tree_init=rng.choice([True, False]), compressed=rng.choice([False, True]),
                  parallel_batch_queries=rng.choice([False, True]), n_jobs=rng.choice([None, 2]))
        nqs = rng.choice([1, 4, 9])
        Q = np.vstack([X[:nqs // 2 + 1], make_dataset(rng, kind, nqs, dim)])[:max(1, nqs)]
        k = rng.choice([1, 3, kw["n_neighbors"], kw["n_neighbors"] + 4])
        eps = rng.choice([0.0, 0.1, 0.3, 0.5])
        ctx.crumb(dict(stream="api-query", X=X.tolist(), Q=Q.tolist(), kwargs=kw, sparse=sparse, k=k, epsilon=eps))
        try:
            with warnings.catch_warnings():
                warnings.simplefilter("ignore")
                idx = NNDescent(sps.csr_matrix(X) if sparse else X, **kw)
                ind, dist = idx.query(sps.csr_matrix(Q) if sparse else Q, k=k, epsilon=eps)
                ind2, dist2 = idx.query(sps.csr_matrix(Q) if sparse else Q, k=k, epsilon=eps)
        except Exception as e:
            msg = [l for l in str(e).splitlines() if l.strip()]
            ctx.notes.setdefault("query_errors", []).append("%s sparse=%s: %s" % (metric, sparse, " / ".join(msg[:3])[:300]))
            raised = ctx.notes.setdefault("_raised", 0)
            ctx.notes["_raised"] = raised + 1
            if raised < 2:
                ctx.violation("query-raises:%s" % type(e).__name__,
                              "construction/query() raises %s instead of returning k columns per query (tree_init=%s, parallel_batch_queries=%s, "
                              "compressed=%s): %s" % (type(e).__name__, kw["tree_init"], kw["parallel_batch_queries"], kw["compressed"], " / ".join(msg[:3])[:300]),
                              dict(X=X.tolist(), Q=Q.tolist(), kwargs=kw, sparse=sparse, k=k, epsilon=eps, error=" / ".join(msg[:6])[:800]), True)
            continue
        done += 1
        ctx.nontrivial.add(("api", metric, sparse, n, k, eps, kw["tree_init"], kw["compressed"], kw["parallel_batch_queries"]))
        why = query_problem(metric, X, Q, ind, dist, k, mk)
        if why is None and not kw["parallel_batch_queries"] and not (np.array_equal(ind, ind2) and np.array_equal(dist, dist2, equal_nan=True)):
            # repeatability is C05's clause; here only the truth of BOTH answers is required
            why = query_problem(metric, X, Q, ind2, dist2, k, mk)
            ctx.notes["repeat_query_differs"] = ctx.notes.get("repeat_query_differs", 0) + 1
        if len(ctx.samples) < 8:
            ctx.sample(dict(stream="api-query", metric=metric, sparse=sparse, n=n, k=k, epsilon=eps, tree_init=kw["tree_init"],
                            compressed=kw["compressed"], parallel=kw["parallel_batch_queries"], verdict=why or "ok"))
        if why:
            fails += 1
            if fails <= 3:
                ctx.violation("query-spec:%s" % metric, "query() on a %s%s index violates C02: %s" % (metric, " CSR" if sparse else "", why),
                              dict(X=X.tolist(), Q=Q.tolist(), kwargs=kw, sparse=sparse, k=k, epsilon=eps, why=why,
                                   indices=ind.tolist(), distances=[[float(x) for x in r] for r in dist]), True)
    ctx.count(done)
    ctx.stream("api-query-spec", queries_batches=done, failures=fails)


def run(ctx):
    ctx.trusted = ["Coq 8.16.1 kernel; vm_compute in witnesses / Examples", "extraction + ocaml/driver.ml",
                   "harness: the tree descent is executed by the compiled closure on a copy of the generator state and its result (leaf "
                   "candidates, state afterwards) handed to the model; distances d(v, query) computed with the index's compiled metric",
                   "Python's heapq is modelled as a sorted list (only push and pop-min are used)"]
    ctx.assumptions = [
        "non-NaN distances; distances are zero, +inf or normal float32 values (the (1+epsilon)*root product is modelled for those)",
        "the generator state inside a batch is only compared through its effects (it is a private copy inside the closure); exact "
        "correspondence uses single-query calls",
        "parallel-batch mode: soundness of each answer does not depend on which random numbers were drawn (theorem quantifies over "
        "all generator states); the shared internal generator makes the drawn numbers schedule-dependent (see C05)",
    ]
    ctx.notes["rule"] = ("search-exact: prepared indexes on integer-valued data (dense+CSR, tree_init on/off) x queries (data points, near, far) x "
                         "k (1..n+3) x epsilon (0..0.5); api: metric x data kind x dense/CSR x tree_init x compressed x parallel_batch; "
                         "non-trivial = distinct case")
    changed, unknown, cur = common.sentinel_status("C02", SENTINELS)
    ctx.sentinels_changed = changed
    ctx.notes["sentinels"] = cur
    ctx.build(COQ_FILES)
    corr_fmul(ctx, ctx.budget(400, 4000))
    exact_search(ctx, ctx.budget(6, 60), ctx.budget(16, 30))
    fabricated_slots(ctx)
    api_queries(ctx, ctx.budget(14, 200))
    if not changed and unknown:
        common.update_sentinels(cur)
