"""C17 — the caller's arrays are never modified.

Theorems: coq/props/C17.v (ownership model of the API: no history writes a caller
buffer; aliased float32 input is copied before normalising; the pinned in-place CSR
sort refuted).
Tie: histories of operations over every input configuration run on the implementation;
after EVERY operation (i) the byte-hash of every array the caller passed in is compared
with the hash taken before (a change is directly a failing input), (ii)
np.shares_memory(index._raw_data, X) is compared with the alias bit of the extracted
model (the model's alias rules are its assumptions, so they are what is checked)."""
import hashlib
import io
import pickle
import warnings

import numpy as np

from harness import common
from harness.common import fmt

COQ_FILES = ["model/Alias.v", "proofs/C17Proofs.v"]
SENTINELS = {"pynndescent/pynndescent_.py": ["NNDescent.__init__", "NNDescent._init_search_graph", "NNDescent.query", "NNDescent.update",
                                             "NNDescent.prepare", "NNDescent.compress_index", "NNDescent.__getstate__", "NNDescent.__setstate__",
                                             "NNDescent._init_search_function", "NNDescent._init_sparse_search_function",
                                             "PyNNDescentTransformer.fit", "PyNNDescentTransformer.transform"]}
DT = {"float32": 0, "float64": 1, "uint8": 2, "int64": 3}
PLAIN = ["euclidean", "cosine", "manhattan", "hellinger", "correlation"]


class SubArray(np.ndarray):
    pass


def digest(a):
    import scipy.sparse as sps
    h = hashlib.sha1()
    if sps.issparse(a):
        for part in (a.data, a.indices, a.indptr):
            h.update(np.ascontiguousarray(part).tobytes())
        h.update(str(a.shape).encode())
    else:
        a = np.asarray(a)
        h.update(np.ascontiguousarray(a).tobytes())
        h.update(str((a.shape, a.dtype.str)).encode())
    return h.hexdigest()


def make_array(rs, n, dim, cfg, bit=False):
    """-> (array handed to the library, description). cfg: dtype, layout, storage"""
    import scipy.sparse as sps
    dt = np.dtype(cfg["dtype"])
    if bit:
        base = rs.randint(0, 256, size=(n, dim))
    elif cfg["dtype"] in ("uint8", "int64"):
        base = rs.randint(0, 6, size=(n, dim))
    else:
        base = rs.uniform(0.05, 4.0, size=(n, dim))
    if cfg["storage"] == "dense":
        if cfg["layout"] == "C":
            a = np.ascontiguousarray(base.astype(dt))
        elif cfg["layout"] == "subclass":
            # an ndarray subclass (as np.memmap is): validation returns a base-class VIEW of the same memory
            a = np.ascontiguousarray(base.astype(dt)).view(SubArray)
        elif cfg["layout"] == "F":
            a = np.asfortranarray(base.astype(dt))
        else:
            big = np.zeros((n, 2 * dim), dtype=dt)
            big[:, ::2] = base
            a = big[:, ::2]
        return a
    mask = rs.uniform(size=base.shape) < 0.6
    mask[:, 0] = True
    mask[:, 1] = True
    dense = np.where(mask, base, 0)
    m = sps.csr_matrix(dense.astype(dt))
    m.sort_indices()
    if cfg["storage"] == "csr_unsorted":
        data, ind, ptr = m.data.copy(), m.indices.copy(), m.indptr.copy()
        for r in range(n):
            lo, hi = ptr[r], ptr[r + 1]
            if hi - lo >= 2:
                p = np.arange(lo, hi)[::-1]
                data[lo:hi] = data[p]
                ind[lo:hi] = ind[p]
        m = sps.csr_matrix((data, ind, ptr), shape=m.shape)
        assert not m.has_sorted_indices
    return m


def enc_cfg(cfg, arr):
    import scipy.sparse as sps
    sp = sps.issparse(arr)
    c = 1 if (sp or arr.flags["C_CONTIGUOUS"]) else 0
    so = 1 if (not sp or cfg["storage"] == "csr_sorted") else 0
    return [DT[cfg["dtype"]], c, 1 if sp else 0, so]


def gen_cfg(rng, sparse_ok=True, force_dense=False, force_sparse=False):
    storage = "dense"
    if force_sparse or (sparse_ok and not force_dense and rng.random() < 0.4):
        storage = rng.choice(["csr_sorted", "csr_unsorted", "csr_unsorted"])
    return dict(dtype=rng.choice(["float32", "float32", "float32", "float64", "uint8", "int64"]) if storage == "dense"
                else rng.choice(["float32", "float32", "float64", "int64"]),
                layout=rng.choice(["C", "C", "F", "strided", "subclass"]), storage=storage)


def shares(index, X):
    import scipy.sparse as sps
    r = index._raw_data
    if sps.issparse(X):
        return bool(sps.issparse(r) and np.shares_memory(r.data, X.data))
    return bool((not sps.issparse(r)) and np.shares_memory(r, X))


def histories(ctx, nhist):
    import scipy.sparse as sps
    from pynndescent import NNDescent
    rng = ctx.rng
    lines, metas = [], []
    stats = dict(histories=0, operations=0, aliased_after_construct=0, hash_changes=0, configs=set())
    for h in range(nhist):
        rs = np.random.RandomState(rng.randrange(10 ** 6))
        mclass = rng.choice([0, 0, 0, 1, 1, 2])
        metric = rng.choice(PLAIN) if mclass == 0 else ("dot" if mclass == 1 else rng.choice(["bit_hamming", "bit_jaccard"]))
        cfg = gen_cfg(rng, sparse_ok=(mclass == 0 and metric not in ("correlation",)))
        if mclass == 2:
            cfg["dtype"] = rng.choice(["uint8", "uint8", "float32", "int64"])
        n, dim = rng.choice([40, 70]), (4 if mclass == 2 else 8)
        X = make_array(rs, n, dim, cfg, bit=(mclass == 2))
        tree_init = rng.choice([True, False])
        sparse = sps.issparse(X)
        callers = {"X": X}
        kw = dict(metric=metric, n_neighbors=5, random_state=rng.randrange(1000), tree_init=tree_init, n_jobs=1)
        if not sparse and mclass != 2 and rng.random() < 0.3:
            ig = rs.randint(0, n, size=(n, 5)).astype(np.int64)
            callers["init_graph"] = ig
            kw["init_graph"] = ig
            if rng.random() < 0.5:
                idist = rs.uniform(0.1, 3, size=(n, 5)).astype(np.float32)
                callers["init_dist"] = idist
                kw["init_dist"] = idist
            tree_init = False          # __init__ turns tree_init off when init_graph is given
        ops = [[0] + enc_cfg(cfg, X) + [mclass, 1 if tree_init else 0]]
        trace = [dict(op="construct", cfg=cfg, metric=metric, tree_init=tree_init, extra=sorted(k for k in kw if k.startswith("init_")))]
        ctx.crumb(dict(stream="histories", history=trace))
        before = {k: digest(v) for k, v in callers.items()}
        results = []
        bad = None
        compressed = False
        try:
            with warnings.catch_warnings():
                warnings.simplefilter("ignore")
                index = NNDescent(X, **kw)
                results.append(shares(index, X))
                bad = changed(before, callers)
                nops = rng.choice([2, 3, 5])
                for _ in range(nops):
                    if bad:
                        break
                    kind = rng.choice(["prepare", "query", "query", "update", "compress", "pickle"])
                    if kind == "update" and (sparse or mclass == 2 or compressed):
                        kind = "query"
                    compressed = compressed or kind == "compress"
                    if kind == "query":
                        qc = gen_cfg(rng, force_sparse=sparse and rng.random() < 0.8, force_dense=not sparse)
                        if mclass == 2:
                            qc["dtype"] = rng.choice(["uint8", "float32"])
                        Q = make_array(rs, 7, dim, qc, bit=(mclass == 2))
                        callers = dict(callers, Q=Q)
                        before = {k: digest(v) for k, v in callers.items()}
                        trace.append(dict(op="query", cfg=qc))
                        ctx.crumb(dict(stream="histories", history=trace))
                        index.query(Q, k=4)
                        ops.append([2] + enc_cfg(qc, Q))
                    elif kind == "update":
                        uc = gen_cfg(rng, force_dense=True)
                        fc = gen_cfg(rng, force_dense=True)
                        U = make_array(rs, 3, dim, uc)
                        F = make_array(rs, 6, dim, fc)
                        callers = dict(callers, U=U, F=F)
                        before = {k: digest(v) for k, v in callers.items()}
                        trace.append(dict(op="update", updated=uc, fresh=fc))
                        ctx.crumb(dict(stream="histories", history=trace))
                        ui = rs.choice(index._raw_data.shape[0], size=3, replace=False).tolist()
                        mode = rng.choice(["both", "updated", "fresh"])
                        if mode == "both":
                            index.update(xs_fresh=F, xs_updated=U, updated_indices=ui)
                        elif mode == "updated":
                            index.update(xs_updated=U, updated_indices=ui)
                        else:
                            index.update(xs_fresh=F)
                        trace[-1]["mode"] = mode
                        ops.append([3] + enc_cfg(uc, U) + enc_cfg(fc, F))
                    else:
                        before = {k: digest(v) for k, v in callers.items()}
                        trace.append(dict(op=kind))
                        ctx.crumb(dict(stream="histories", history=trace))
                        if kind == "prepare":
                            index.prepare()
                            ops.append([1])
                        elif kind == "compress":
                            index.compress_index()
                            ops.append([4])
                        else:
                            pickle.dump(index, io.BytesIO())
                            ops.append([5])
                    results.append(shares(index, X))
                    bad = changed(before, callers)
        except Exception as e:
            ctx.notes.setdefault("skipped_histories", []).append("%s %s: %s" % (metric, cfg, str(e)[:120]))
            continue
        stats["histories"] += 1
        stats["operations"] += len(ops)
        stats["configs"].add((cfg["dtype"], cfg["layout"] if cfg["storage"] == "dense" else "-", cfg["storage"], mclass))
        if results and results[0]:
            stats["aliased_after_construct"] += 1
        if bad:
            stats["hash_changes"] += 1
            if stats["hash_changes"] <= 12:
                ctx.violation("caller-array-modified-by-" + trace[-1]["op"], "%s of the caller was modified by %s (%s, %s/%s/%s)" %
                              (bad, trace[-1]["op"], metric, cfg["dtype"], cfg["layout"], cfg["storage"]),
                              dict(history=trace, modified=bad, seed_note="arrays are generated by harness/props/C17.py make_array from the recorded configs"),
                              True)
            continue
        lines.append("aliasrun 0 %d %s" % (len(ops), " ".join(fmt(o) for o in ops)))
        metas.append(dict(history=trace, impl_shares=[1 if x else 0 for x in results]))
    out = common.run_driver(lines) if lines else []
    dis = 0
    for ln, o, me in zip(lines, out, metas):
        ctx.nontrivial.add(hash(ln))
        per = [x.split() for x in o.split("|") if x.strip()]
        model_sh = [int(p[0]) for p in per]
        model_w = [sum(int(x) for x in p[1:5]) for p in per]
        if any(model_w):
            ctx.violation("model-write", "the ownership model predicts a write to a caller buffer", dict(history=me["history"], model=o), False)
        if model_sh != me["impl_shares"]:
            dis += 1
            if dis <= 3:
                ctx.violation("alias-corr", "np.shares_memory(index._raw_data, X) after each operation %s differs from the ownership model %s" %
                              (me["impl_shares"], model_sh), dict(history=me["history"], implementation=me["impl_shares"], model=model_sh,
                                                                 case_line=ln), False)
    ctx.count(stats["operations"])
    if metas:
        ctx.sample(dict(stream="histories", history=metas[0]["history"], shares=metas[0]["impl_shares"], model=out[0]))
    stats["configs"] = len(stats["configs"])
    ctx.stream("api-histories", alias_disagreements=dis, **stats)


def changed(before, callers):
    for k, v in callers.items():
        if digest(v) != before[k]:
            return k
    return None


def transformer(ctx, ncases):
    from pynndescent import PyNNDescentTransformer
    rng = ctx.rng
    bad = 0
    for c in range(ncases):
        rs = np.random.RandomState(rng.randrange(10 ** 6))
        cfg = gen_cfg(rng, force_dense=True)
        metric = rng.choice(["euclidean", "cosine", "dot"])
        X = make_array(rs, 50, 6, cfg)
        Q = make_array(rs, 9, 6, gen_cfg(rng, force_dense=True))
        b = (digest(X), digest(Q))
        ctx.crumb(dict(stream="transformer", cfg=cfg, metric=metric))
        with warnings.catch_warnings():
            warnings.simplefilter("ignore")
            t = PyNNDescentTransformer(n_neighbors=5, metric=metric, random_state=3).fit(X)
            t.transform(Q)
            t.fit_transform(X)
        if (digest(X), digest(Q)) != b:
            bad += 1
            if bad <= 2:
                ctx.violation("transformer-modified", "PyNNDescentTransformer modified a caller array (%s, %s)" % (metric, cfg), dict(cfg=cfg, metric=metric), True)
        ctx.nontrivial.add(("tr", c))
    ctx.count(ncases)
    ctx.stream("transformer", cases=ncases, modified=bad)


def run(ctx):
    ctx.trusted = ["Coq 8.16.1 kernel", "extraction + ocaml/driver.ml (extracted Alias.run)",
                   "harness: sha1 of the bytes of every caller array before/after each operation; np.shares_memory as the alias observation",
                   "the model's alias rules for sklearn check_array / normalize, numpy astype / fancy indexing / vstack are ASSUMPTIONS of the model; "
                   "the correspondence stream is what checks them"]
    ctx.assumptions = ["writes are observed as changes of the array's bytes (a write of identical bytes is not a change)",
                       "sparse update is unsupported by the library (NotImplementedError) and is not part of the histories",
                       "bit-packed indexes are not updated here (C04 covers that history)"]
    ctx.notes["rule"] = ("histories: construct(dtype float32/float64/uint8/int64 x layout C/F/strided x dense/CSR sorted/CSR unsorted x metric class "
                         "plain/dot/bit x tree_init x init_graph/init_dist) followed by 2-5 of prepare/query/update/compress/pickle with fresh "
                         "caller arrays of random configuration; non-trivial = distinct history")
    changed_s, unknown, cur = common.sentinel_status("C17", SENTINELS)
    ctx.sentinels_changed = changed_s
    ctx.notes["sentinels"] = cur
    ctx.build(COQ_FILES)
    histories(ctx, ctx.budget(70, 700))
    transformer(ctx, ctx.budget(6, 60))
    if not changed_s and unknown:
        common.update_sentinels(cur)
