"""C07 — every built-in metric computes its documented mathematical definition.

Theorems: coq/props/C07.v (count-based family: symmetry, identity, no division by
zero, ranges, for all count vectors).
Tie: the compiled binary metrics are compared with the extracted model's exact
fractions on ALL pairs of 0/1 vectors of dimension 1..6 (thorough; 1..5 in quick);
every named dense metric is compared with an independent float64 reference on
structured float32 vectors in its domain; symmetry, NaN-freedom and identity are
checked on the implementation's own outputs."""
import itertools
import math

import numpy as np

from harness import common, refmetrics, lattice, latticegen

COQ_FILES = ["model/Metrics.v", "proofs/C07Proofs.v", "model/SparseOps.v", "model/Lattice.v", "proofs/C08Proofs.v", "proofs/LatticeProofs.v"]
SENTINELS = {"pynndescent/distances.py": ["euclidean", "squared_euclidean", "standardised_euclidean", "manhattan", "chebyshev", "minkowski",
                                          "weighted_minkowski", "mahalanobis", "hamming", "canberra", "bray_curtis", "jaccard", "matching",
                                          "dice", "kulsinski", "rogers_tanimoto", "russellrao", "sokal_michener", "sokal_sneath",
                                          "haversine", "yule", "cosine", "dot", "tsss", "true_angular", "correlation", "hellinger",
                                          "spearmanr", "jensen_shannon_divergence", "wasserstein_1d", "circular_kantorovich",
                                          "symmetric_kl_divergence", "bit_hamming", "bit_jaccard", "rankdata"]}

BIN_ORDER = ["hamming", "matching", "jaccard", "dice", "kulsinski", "rogerstanimoto", "sokalmichener", "russellrao", "sokalsneath", "yule"]


def binary_exhaustive(ctx, maxdim):
    from pynndescent import distances as pd
    lines, vecs = [], []
    for dim in range(1, maxdim + 1):
        allv = list(itertools.product([0, 1], repeat=dim))
        for x in allv:
            for y in allv:
                lines.append("binmetrics %d %s %s" % (dim, " ".join(map(str, x)), " ".join(map(str, y))))
                vecs.append((np.array(x, dtype=np.float32), np.array(y, dtype=np.float32)))
    model = common.run_driver(lines)
    fails = {}
    total = 0
    for (x, y), mo in zip(vecs, model):
        fr = [p.split() for p in mo.split(";") if p.strip()]
        for name, (num, den) in zip(BIN_ORDER, fr):
            want = int(num) / int(den)
            got = float(pd.named_distances[name](x, y))
            total += 1
            if not (abs(got - want) <= 1e-6):
                fails.setdefault(name, []).append((x.tolist(), y.tolist(), got, want))
    for name, lst in fails.items():
        x, y, got, want = lst[0]
        ctx.violation("binary-definition:%s" % name,
                      "%s(%s, %s) = %r but its definition gives %r (%d of the enumerated pairs differ)" % (name, x, y, got, want, len(lst)),
                      dict(metric=name, x=x, y=y, got=got, definition=want, failing_pairs=len(lst)), True)
    ctx.count(total)
    for k in range(total // 500):
        ctx.nontrivial.add(("bin", k))
    ctx.sample(dict(stream="binary-exhaustive", case=lines[len(lines) // 2], model=model[len(lines) // 2]))
    ctx.stream("binary-exhaustive", dims="1..%d" % maxdim, pairs=len(lines), metric_evaluations=total, metrics_failing=sorted(fails), exhaustive=True)


def struct_vectors(rng, domain, dim):
    rs = np.random.RandomState(rng.randrange(10 ** 6))
    vs = []
    if domain == "real":
        base = rs.normal(size=dim)
        vs = [base, base.copy(), -base, 2 * base, np.zeros(dim), rs.normal(size=dim) * 1e-20, rs.normal(size=dim) * 1e15,
              base + 1e-4 * rs.normal(size=dim), np.where(rs.rand(dim) < 0.5, base, 0), rs.randint(-3, 4, size=dim).astype(float),
              np.ones(dim), np.full(dim, 1e5) + rs.rand(dim)]
    elif domain == "positive":
        base = rs.rand(dim) + 0.01
        vs = [base, base.copy(), 3 * base, np.where(rs.rand(dim) < 0.5, base, 0), np.where(rs.rand(dim) < 0.5, 0, base),
              rs.rand(dim) * 1e-10 + 1e-12, rs.rand(dim) * 1e5 + 1e5, np.ones(dim), rs.randint(0, 4, size=dim).astype(float) + (np.arange(dim) == 0),
              np.eye(dim)[0], np.eye(dim)[dim - 1]]
    elif domain == "binary":
        vs = [(rs.rand(dim) < p).astype(float) for p in (0.0, 0.2, 0.5, 0.5, 0.8, 1.0)]
        vs.append(vs[2].copy())
    elif domain == "latlong":
        vs = [np.array([rs.uniform(-1.5, 1.5), rs.uniform(-3.1, 3.1)]) for _ in range(8)]
        vs.append(vs[0].copy())
        vs.append(np.zeros(2))
    while len(vs) < 14:
        if domain == "real":
            vs.append(rs.normal(size=dim) * rs.choice([1e-3, 1, 100]))
        elif domain == "positive":
            vs.append(rs.rand(dim) * rs.choice([1e-3, 1, 100]) + 1e-6)
        elif domain == "binary":
            vs.append((rs.rand(dim) < rs.rand()).astype(float))
        else:
            vs.append(np.array([rs.uniform(-1.5, 1.5), rs.uniform(-3.1, 3.1)]))
    return [np.ascontiguousarray(v, dtype=np.float32) for v in vs]


# name -> (domain, kwargs builder, reference)
def metric_table(dim, rs):
    sigma = (rs.rand(dim) + 0.5).astype(np.float32)
    w = (rs.rand(dim) + 0.1).astype(np.float32)
    A = rs.normal(size=(dim, dim))
    vinv = (A @ A.T + np.eye(dim)).astype(np.float32)
    T = {
        "euclidean": ("real", (), refmetrics.euclidean), "l2": ("real", (), refmetrics.euclidean),
        "sqeuclidean": ("real", (), refmetrics.sqeuclidean), "manhattan": ("real", (), refmetrics.manhattan),
        "taxicab": ("real", (), refmetrics.manhattan), "l1": ("real", (), refmetrics.manhattan),
        "chebyshev": ("real", (), refmetrics.chebyshev), "linf": ("real", (), refmetrics.chebyshev),
        "linfty": ("real", (), refmetrics.chebyshev), "linfinity": ("real", (), refmetrics.chebyshev),
        "minkowski": ("real", (3.0,), lambda x, y: refmetrics.minkowski(x, y, 3.0)),
        "seuclidean": ("real", (sigma,), lambda x, y: refmetrics.seuclidean(x, y, sigma)),
        "standardised_euclidean": ("real", (sigma,), lambda x, y: refmetrics.seuclidean(x, y, sigma)),
        "wminkowski": ("real", (w, 3.0), lambda x, y: refmetrics.wminkowski(x, y, w, 3.0)),
        "weighted_minkowski": ("real", (w, 3.0), lambda x, y: refmetrics.wminkowski(x, y, w, 3.0)),
        "mahalanobis": ("real", (vinv,), lambda x, y: refmetrics.mahalanobis(x, y, vinv)),
        "canberra": ("real", (), refmetrics.canberra), "braycurtis": ("positive", (), refmetrics.braycurtis),
        "cosine": ("real", (), refmetrics.cosine), "correlation": ("real", (), refmetrics.correlation),
        "haversine": ("latlong", (), refmetrics.haversine), "hellinger": ("positive", (), refmetrics.hellinger),
        "hamming": ("binary", (), refmetrics.hamming), "jaccard": ("binary", (), refmetrics.jaccard), "dice": ("binary", (), refmetrics.dice),
        "matching": ("binary", (), refmetrics.matching), "kulsinski": ("binary", (), refmetrics.kulsinski),
        "rogerstanimoto": ("binary", (), refmetrics.rogerstanimoto), "russellrao": ("binary", (), refmetrics.russellrao),
        "sokalsneath": ("binary", (), refmetrics.sokalsneath), "sokalmichener": ("binary", (), refmetrics.sokalmichener),
        "yule": ("binary", (), refmetrics.yule),
        "jensen-shannon": ("positive", (), refmetrics.jensen_shannon), "jensen_shannon": ("positive", (), refmetrics.jensen_shannon),
        "symmetric-kl": ("positive", (), refmetrics.symmetric_kl), "symmetric_kl": ("positive", (), refmetrics.symmetric_kl),
        "symmetric_kullback_liebler": ("positive", (), refmetrics.symmetric_kl),
        "wasserstein_1d": ("positive", (), refmetrics.wasserstein_1d), "wasserstein-1d": ("positive", (), refmetrics.wasserstein_1d),
        "kantorovich-1d": ("positive", (), refmetrics.wasserstein_1d), "kantorovich_1d": ("positive", (), refmetrics.wasserstein_1d),
        # law-only (no independent closed-form reference here): symmetry / NaN / identity
        "spearmanr": ("real", (), refmetrics.spearmanr), "circular_kantorovich": ("positive", (), None), "circular_wasserstein": ("positive", (), None),
        "tsss": ("real", (), None), "true_angular": ("real", (), refmetrics.true_angular_similarity),
    }
    return T


TOL = {"hellinger": (2e-3, 1e-3), "correlation": (2e-4, 1e-3), "cosine": (2e-4, 1e-3), "mahalanobis": (1e-3, 1e-3),
       "jensen-shannon": (1e-4, 1e-3), "jensen_shannon": (1e-4, 1e-3), "symmetric-kl": (1e-3, 2e-3), "symmetric_kl": (1e-3, 2e-3),
       "symmetric_kullback_liebler": (1e-3, 2e-3), "haversine": (1e-3, 1e-3), "true_angular": (1e-3, 1e-3)}


def general(ctx, rounds):
    from pynndescent import distances as pd
    rng = ctx.rng
    stats = {}
    for r in range(rounds):
        dim = rng.choice([2, 5, 16, 60])
        rs = np.random.RandomState(rng.randrange(10 ** 6))
        T = metric_table(dim, rs)
        for name, fn in pd.named_distances.items():
            if name not in T:
                continue  # dot (normalised by the index), kantorovich/sinkhorn (C10), bit metrics (below)
            domain, extra, ref = T[name]
            d = 2 if domain == "latlong" else dim
            vs = struct_vectors(rng, domain, d)
            st = stats.setdefault(name, dict(pairs=0, definition=0, symmetry=0, nan=0, identity=0, max_err=0.0))
            atol, rtol = TOL.get(name, (1e-5, 3e-4))
            for i, x in enumerate(vs):
                for j, y in enumerate(vs):
                    if name in ("wasserstein_1d", "wasserstein-1d", "kantorovich-1d", "kantorovich_1d", "circular_kantorovich",
                                "circular_wasserstein", "jensen-shannon", "jensen_shannon", "symmetric-kl", "symmetric_kl",
                                "symmetric_kullback_liebler") and (x.sum() == 0 or y.sum() == 0):
                        continue  # zero mass: outside the documented domain
                    if name == "tsss" and (not x.any() or not y.any()):
                        continue
                    try:
                        got = float(fn(x, y, *extra))
                        back = float(fn(y, x, *extra))
                    except Exception as e:
                        if st.get("raised", 0) < 1:
                            ctx.violation("metric-raises:%s" % name, "%s raises %s on in-domain vectors" % (name, type(e).__name__),
                                          dict(metric=name, x=x.tolist(), y=y.tolist(), error=str(e)[:200]), True)
                        st["raised"] = st.get("raised", 0) + 1
                        continue
                    st["pairs"] += 1
                    scale = max(1.0, abs(got)) if math.isfinite(got) else 1.0
                    prob = None
                    if math.isnan(got):
                        st["nan"] += 1
                        prob = ("nan", "%s returns NaN" % name)
                    elif ref is not None:
                        want = ref(x, y)
                        if want is not None and math.isfinite(want):
                            err = abs(got - want)
                            st["max_err"] = max(st["max_err"], err / max(1.0, abs(want)))
                            lim = atol + rtol * abs(want)
                            if name in ("euclidean", "l2", "manhattan", "taxicab", "l1", "sqeuclidean", "minkowski", "chebyshev", "linf", "linfty",
                                        "linfinity", "seuclidean", "standardised_euclidean", "wminkowski", "weighted_minkowski", "mahalanobis", "canberra"):
                                lim = atol * max(1.0, abs(want)) + rtol * abs(want)
                            if not (err <= lim) and math.isfinite(got):
                                st["definition"] += 1
                                prob = ("definition", "%s = %r, float64 reference of its definition = %r" % (name, got, want))
                            elif not math.isfinite(got) and math.isfinite(want) and abs(want) < 1e30:
                                st["definition"] += 1
                                prob = ("definition", "%s = %r, float64 reference = %r" % (name, got, want))
                    if prob is None and not (abs(got - back) <= 1e-5 * scale + rtol * abs(got)) and not (math.isinf(got) and got == back):
                        st["symmetry"] += 1
                        prob = ("symmetry", "%s(x,y) = %r but %s(y,x) = %r" % (name, got, name, back))
                    if prob is None and i == j and name != "true_angular":
                        idt = 2e-3 if name == "hellinger" else (5e-4 if name in ("cosine", "correlation", "spearmanr") else 1e-5)
                        if not (abs(got) <= idt * max(1.0, float(np.abs(x).max()))):
                            st["identity"] += 1
                            prob = ("identity", "%s(x,x) = %r, not 0" % (name, got))
                    if prob is not None and st.get("reported_" + prob[0], 0) < 1:
                        st["reported_" + prob[0]] = 1
                        ctx.violation("%s:%s" % (prob[0], name), prob[1], dict(metric=name, x=x.tolist(), y=y.tolist(), value=got,
                                                                               args=[np.asarray(a).tolist() for a in extra]), True)
            ctx.nontrivial.add(("metric", name, r))
    total = sum(s["pairs"] for s in stats.values())
    ctx.count(total)
    ctx.sample(dict(stream="dense-metrics", metric="canberra", stats=stats.get("canberra")))
    ctx.stream("dense-metrics-vs-float64-reference", metrics=len(stats), pairs=total,
               per_metric={k: {a: b for a, b in v.items() if not a.startswith("reported_")} for k, v in stats.items()})


def identity_search(ctx, n):
    """self-distances on many random vectors: the final subtraction / sqrt / arccos of these kernels is where a
    ratio rounded just past 1 turns into NaN"""
    from pynndescent import distances as pd
    rng = ctx.rng
    rs = np.random.RandomState(rng.randrange(10 ** 6))
    found = {}
    total = 0
    for name in ("hellinger", "cosine", "correlation", "true_angular", "tsss", "jensen_shannon", "braycurtis", "canberra"):
        fn = pd.named_distances[name]
        for t in range(n):
            dim = int(rs.choice([2, 3, 7, 20, 50]))
            scale = float(rs.choice([1e-3, 1.0, 1e3, 1e5]))
            x = (rs.rand(dim) * scale + (scale if rs.rand() < 0.5 else 0)).astype(np.float32)
            if name in ("cosine", "correlation", "true_angular", "tsss") and rs.rand() < 0.5:
                x = (x * rs.choice([-1, 1], size=dim)).astype(np.float32)
            v = float(fn(x, x.copy()))
            total += 1
            if math.isnan(v) and name not in found:
                found[name] = x
    for name, x in found.items():
        ctx.violation("self-distance-nan:%s" % name, "%s(x, x) is NaN" % name, dict(metric=name, x=x.tolist()), True)
    ctx.count(total)
    ctx.nontrivial.add("identity-search")
    ctx.stream("self-distance-search", vectors_per_metric=n, nan_metrics=sorted(found))


def bit_metrics(ctx):
    from pynndescent import distances as pd
    rng = ctx.rng
    rs = np.random.RandomState(rng.randrange(10 ** 6))
    probs = 0
    total = 0
    for dim in (1, 2, 5):
        vs = [rs.randint(0, 256, size=dim).astype(np.uint8) for _ in range(10)] + [np.zeros(dim, dtype=np.uint8), np.full(dim, 255, dtype=np.uint8)]
        vs.append(vs[0].copy())
        for x in vs:
            for y in vs:
                for name in ("bit_hamming", "bit_jaccard"):
                    try:
                        got = float(pd.named_distances[name](x, y))
                    except Exception as e:
                        if probs < 2:
                            probs += 1
                            ctx.violation("bit-raises:%s" % name, "%s raises %s on bit-packed rows %s / %s" % (name, type(e).__name__, x.tolist(), y.tolist()),
                                          dict(metric=name, x=x.tolist(), y=y.tolist(), error=str(e)[:200]), True)
                        continue
                    want = refmetrics.REFERENCE[name](x, y)
                    total += 1
                    bad = None
                    if math.isnan(got):
                        bad = "%s returns NaN" % name
                    elif want is not None and not (abs(got - want) <= 1e-5 + 1e-5 * abs(want)):
                        bad = "%s = %r, definition = %r" % (name, got, want)
                    if bad and probs < 2:
                        probs += 1
                        ctx.violation("bit:%s" % name, bad, dict(metric=name, x=x.tolist(), y=y.tolist(), value=got), True)
    ctx.count(total)
    ctx.nontrivial.add("bit")
    ctx.stream("bit-metrics", pairs=total, problems=probs)


def run(ctx):
    ctx.trusted = ["Coq 8.16.1 kernel", "extraction + ocaml/driver.ml", "harness/refmetrics.py: float64 definitions written from the documented formulas"]
    ctx.assumptions = [
        "float32 rounding of the kernels (fastmath: association unspecified) is not modelled; agreement with float64 references is checked "
        "with tolerances (default 1e-5 abs + 3e-4 rel; wider for cosine/correlation/hellinger whose final subtraction / sqrt amplifies rounding)",
        "identity d(x,x)=0 is required within the same accuracy (hellinger 2e-3, cosine/correlation 5e-4 x scale); true_angular reports a similarity "
        "(identical inputs get its closest value 1.0)",
        "distribution metrics are evaluated on non-negative vectors with positive mass; transport metrics are C10",
        "circular_kantorovich, tsss: symmetry / NaN / identity laws only (no independent closed form here); spearmanr is compared with the correlation distance of independently computed average ranks, true_angular with 1 - angle/pi where it is not saturated",
    ]
    ctx.notes["rule"] = ("binary: all pairs of 0/1 vectors of every dimension up to the bound x 10 metrics against the model's exact fractions; dense: "
                         "structured float32 vectors (identical, multiples, zero, tiny/huge magnitudes, near-identical, sparse supports, ~1e5 values) "
                         "x all named metrics x dimension x metric arguments; non-trivial = per 500 binary evaluations / per (metric, round)")
    changed, unknown, cur = common.sentinel_status("C07", SENTINELS)
    ctx.sentinels_changed = changed
    ctx.notes["sentinels"] = cur
    ctx.build(COQ_FILES)
    latticegen.regenerate(ctx, "C07")
    binary_exhaustive(ctx, ctx.budget(5, 6))
    lattice.stream(ctx, ctx.budget(600, 6000), "dense")
    lattice.angular_stream(ctx, ctx.budget(500, 5000), "metrics")
    general(ctx, ctx.budget(3, 20))
    identity_search(ctx, ctx.budget(3000, 40000))
    bit_metrics(ctx)
    if not changed and unknown:
        common.update_sentinels(cur)
