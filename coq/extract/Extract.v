(* Extract.v — extraction of the executable models to OCaml.
   Only ExtrOcamlBasic (bool, option, list, pairs, unit -> OCaml natives);
   Z, positive, N, nat stay extracted datatypes; no Extract Constant. *)
From Coq Require Import Extraction ExtrOcamlBasic.
From PV Require Import Base Heap.
Extraction Language OCaml.
Set Extraction KeepSingleton.
Extraction "../ocaml/model.ml"
  Base.upd Base.getZ
  Heap.heap_push Heap.simple_heap_push Heap.checked_heap_push Heap.checked_flagged_heap_push
  Heap.siftdown Heap.deheap_sort_row Heap.empty_row.
