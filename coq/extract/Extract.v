(* Extract.v — extraction of the executable models to OCaml.
   Only ExtrOcamlBasic (bool, option, list, pairs, unit -> OCaml natives);
   Z, positive, N, nat stay extracted datatypes; no Extract Constant. *)
From Coq Require Import Extraction ExtrOcamlBasic.
From PV Require Import Base Heap Rng NND Diversify SearchGraph RPTree Search SparseOps Lattice Metrics OT Connect Alias Lifecycle Pickle Transformer.
Extraction Language OCaml.
Set Extraction KeepSingleton.
Extraction "../ocaml/model.ml"
  Base.upd Base.getZ
  Heap.heap_push Heap.simple_heap_push Heap.checked_heap_push Heap.checked_flagged_heap_push
  Heap.siftdown Heap.deheap_sort_row Heap.empty_row
  Rng.tau_rand_int Rng.tau_rand Rng.tau_rand_key_of_int
  NND.make_heap NND.push_row NND.init_rp_tree NND.init_random NND.init_from_neighbor_graph
  NND.init_heap_from_indices NND.init_heap_from_indices_and_distances
  NND.new_build_candidates NND.generate_graph_updates NND.generate_leaf_updates
  NND.apply_graph_updates_low_memory NND.apply_graph_updates_high_memory
  NND.thresholds NND.deheap_graph NND.nn_descent
  Diversify.diversify Diversify.row_rng Diversify.diversify_row Diversify.diversify_csr_row
  SearchGraph.degree_prune_row SearchGraph.search_graph_chk
  RPTree.make_euclidean_tree RPTree.convert_tree_format RPTree.leaf_rows RPTree.flat_chk RPTree.linked_chk RPTree.descend
  Search.search_one Search.translate Search.fmul32
  SparseOps.sparse_sum SparseOps.sparse_diff SparseOps.sparse_mul SparseOps.sparse_dot_product SparseOps.fast_intersection_size
  Lattice.squared_euclidean Lattice.manhattan Lattice.chebyshev Lattice.hamming Lattice.bray_curtis Lattice.sparsify Lattice.cosine Lattice.alternative_cosine Lattice.dot Lattice.alternative_dot Lattice.sparse_cosine Lattice.sparse_alternative_cosine
  Lattice.sparse_squared_euclidean Lattice.sparse_manhattan Lattice.sparse_chebyshev Lattice.sparse_hamming
  Metrics.counts Metrics.m_hamming Metrics.m_matching Metrics.m_jaccard Metrics.m_dice Metrics.m_kulsinski
  Metrics.m_rogerstanimoto Metrics.m_sokalmichener Metrics.m_russellrao Metrics.m_sokalsneath Metrics.m_yule
  Alias.run Alias.init_state
  Transformer.transform_row Transformer.nodupb
  Pickle.init_binding Pickle.load_binding
  Lifecycle.lrun Lifecycle.linit Lifecycle.invalidate
  Connect.rejection_sample Connect.conn_cert_chk Connect.sym_chk
  OT.ot_cert_chk Z.add Z.mul Z.opp.
