(* SearchGraph.v — (1) executable model of pynndescent_.degree_prune_internal (one CSR
   row); (2) the boolean checker [search_graph_chk] that is run (extracted) on the
   search graph a real index produced, with the neighbour graph it was built from.
   NO proofs. *)
From Coq Require Import ZArith List Bool.
From PV Require Import Base.
Import ListNotations.
Open Scope Z_scope.

(* np.sort: the sorted multiset is unique, so any sorting function models it *)
Fixpoint insertZ (x : Z) (l : list Z) : list Z :=
  match l with
  | [] => [x]
  | y :: t => if x <=? y then x :: l else y :: insertZ x t
  end.
Definition sortZ (l : list Z) : list Z := fold_right insertZ [] l.

(*  row_data = data[indptr[i]:indptr[i+1]]
    if row_data.shape[0] > max_degree:
        cut_value = np.sort(row_data)[max_degree]
        for j in row: if data[j] > cut_value: data[j] = 0.0                  *)
Definition degree_prune_row (data : list Z) (max_degree : nat) : list Z :=
  if (max_degree <? length data)%nat then
    let cut := getZ (sortZ data) max_degree in
    map (fun x => if cut <? x then 0 else x) data
  else data.

(* ------------------------------------------------------------------ *)
(* Checker for an observed search graph.
   n points; knn_i / knn_d : the neighbour graph (caller numbering, n rows);
   sg : adjacency rows of the search graph in INTERNAL numbering (row a lists
   the internal positions b of its out-edges); vorder : internal position ->
   caller row; maxdeg : round(pruning_degree_multiplier * n_neighbors).        *)

Definition memz (x : Z) (l : list Z) : bool := existsb (Z.eqb x) l.

(* length of the edge u -> v read off the neighbour graph (the larger of the two
   listings when both exist); None when neither endpoint lists the other *)
Fixpoint lookup (v : Z) (ids ds : list Z) : option Z :=
  match ids, ds with
  | i :: ids', d :: ds' => if i =? v then Some d else lookup v ids' ds'
  | _, _ => None
  end.

Definition edge_len (knn_i knn_d : list (list Z)) (u v : Z) : option Z :=
  match lookup v (getRow knn_i (zidx u)) (getRow knn_d (zidx u)),
        lookup u (getRow knn_i (zidx v)) (getRow knn_d (zidx v)) with
  | Some a, Some b => Some (Z.max a b)
  | Some a, None => Some a
  | None, Some b => Some b
  | None, None => None
  end.

Definition in_range (n : nat) (z : Z) : bool := (0 <=? z) && (z <? Z.of_nat n).

(* first real neighbour of u other than u itself, with its distance *)
Fixpoint first_other (u : Z) (ids ds : list Z) : option (Z * Z) :=
  match ids, ds with
  | i :: ids', d :: ds' => if (0 <=? i) && negb (i =? u) then Some (i, d) else first_other u ids' ds'
  | _, _ => None
  end.

Definition row_ok (n : nat) (knn_i knn_d : list (list Z)) (vorder : list Z) (maxdeg : nat)
           (a : nat) (row : list Z) : bool :=
  let u := getZ vorder a in
  let lens := map (fun b => edge_len knn_i knn_d u (getZ vorder (zidx b))) row in
  (* endpoints valid, no self-loop, subgraph of the symmetrised neighbour graph *)
  forallb (fun b => in_range n b && negb (Z.of_nat a =? b)) row &&
  forallb (fun o => match o with Some _ => true | None => false end) lens &&
  (* degree bound: at most maxdeg edges strictly shorter than the longest kept one *)
  (let ls := flat_map (fun o => match o with Some d => [d] | None => [] end) lens in
   let mx := fold_right Z.max (hd 0 ls) ls in
   (length (filter (fun d => (d <? mx)%Z) ls) <=? maxdeg)%nat) &&
  (* a point that lists a neighbour keeps an edge at least as short as its nearest listed one *)
  (match first_other u (getRow knn_i (zidx u)) (getRow knn_d (zidx u)) with
   | None => true
   | Some (_, d1) =>
     existsb (fun o => match o with Some d => d <=? d1 | None => false end) lens
   end).

Definition is_perm_of_range (n : nat) (vorder : list Z) : bool :=
  (length vorder =? n)%nat &&
  forallb (fun i => memz (Z.of_nat i) vorder) (seq 0 n).

Definition search_graph_chk (n : nat) (knn_i knn_d : list (list Z)) (sg : list (list Z))
           (vorder : list Z) (maxdeg : nat) : bool :=
  (length sg =? n)%nat && is_perm_of_range n vorder &&
  forallb (fun ar => row_ok n knn_i knn_d vorder maxdeg (fst ar) (snd ar)) (combine (seq 0 n) sg).
