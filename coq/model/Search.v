(* Search.v — executable model of the query path of pynndescent_.py:
     search_closure (one query of NNDescent._init_search_function /
     _init_sparse_search_function: result heap, seeding from the tree leaf and
     from random points, best-first expansion with the (1+epsilon) bound),
     the final deheap_sort, and the translation indices = vertex_order[indices]
     of NNDescent.query (with numpy's negative indexing made explicit).
   [dq v] = dist(data[v], current_query) as a float32 order key.
   NO proofs. *)
From Coq Require Import ZArith List Bool.
From PV Require Import Base Heap Rng.
Import ListNotations.
Open Scope Z_scope.

(* ---------- float32 multiplication on order keys (finite non-negative operands,
   normal range or zero, +inf) : distance_bound = distance_scale * root ---------- *)
Definition INF32 : Z := 2139095040.
(* key (= bit pattern, value >= 0) -> (mantissa, exponent): value = m * 2^e ; normal numbers *)
Definition f32_decode (k : Z) : Z * Z :=
  let ex := k / 8388608 in
  let fr := k mod 8388608 in
  if ex =? 0 then (fr, -149) else (fr + 8388608, ex - 150).
(* round a positive rational num/den (den a power of two or 1) to float32; returns key *)
Definition f32_of_rational (num den : Z) : Z :=
  if num =? 0 then 0
  else
    let '(m, e) := rne num den 24 in
    let biased := e + 23 + 127 in
    if 255 <=? biased then INF32
    else if biased <=? 0 then 0      (* underflow: not reached on the inputs used *)
    else biased * 8388608 + (m - 8388608).
Definition fmul32 (a b : Z) : Z :=
  if (a =? INF32) || (b =? INF32) then INF32
  else
    let '(ma, ea) := f32_decode a in
    let '(mb, eb) := f32_decode b in
    let e := ea + eb in
    if 0 <=? e then f32_of_rational (ma * mb * 2 ^ e) 1 else f32_of_rational (ma * mb) (2 ^ (- e)).

(* ---------- the seed set: Python's heapq of (d, vertex) tuples; only
   push and pop-min are used, so a list kept sorted lexicographically is an exact
   model ---------- *)
Definition seed := (Z * Z)%type.
Definition seed_lt (a b : seed) : bool := (fst a <? fst b) || ((fst a =? fst b) && (snd a <? snd b)).
Fixpoint seed_push (x : seed) (l : list seed) : list seed :=
  match l with
  | [] => [x]
  | y :: t => if seed_lt x y then x :: l else y :: seed_push x t
  end.

Definition abs32s (r : Z) : Z := if r =? -2147483648 then -2147483648 else Z.abs r.

Record sstate := { s_ps : list Z; s_ids : list Z; s_visited : list Z; s_seeds : list seed; s_rng : list Z }.

Definition visited (st : sstate) (v : Z) : bool := existsb (Z.eqb v) (s_visited st).

Section Search.
  Variable dq : nat -> Z.
  Variable n : nat.                      (* number of indexed points *)
  Variable indptr indices : list Z.      (* search graph, CSR *)

  (* simple_heap_push(heap_priorities, heap_indices, d, candidate); heappush(seed_set, (d, candidate));
     mark_visited(candidate) *)
  Definition push_seed (st : sstate) (v : Z) : sstate :=
    let d := dq (zidx v) in
    let '(_, (ps, ids)) := simple_heap_push (s_ps st) (s_ids st) d v in
    {| s_ps := ps; s_ids := ids; s_visited := v :: s_visited st; s_seeds := seed_push (d, v) (s_seeds st); s_rng := s_rng st |}.

  (* leaf candidates: pushed unconditionally ("indices are guaranteed different") *)
  Definition init_leaf (st : sstate) (cands : list Z) : sstate := fold_left push_seed cands st.

  (* n_random_samples draws, each guarded by the visited table *)
  Fixpoint init_random (cnt : nat) (st : sstate) : sstate :=
    match cnt with
    | O => st
    | S c =>
      let '(r, rng') := tau_rand_int (s_rng st) in
      let cand := (abs32s r) mod (Z.of_nat n) in
      let st1 := {| s_ps := s_ps st; s_ids := s_ids st; s_visited := s_visited st; s_seeds := s_seeds st; s_rng := rng' |} in
      init_random c (if visited st1 cand then st1 else push_seed st1 cand)
    end.

  (* inner loop over the out-neighbours of [vertex] *)
  Definition expand_one (scale : Z) (st_bound : sstate * Z) (cand : Z) : sstate * Z :=
    let '(st, bound) := st_bound in
    if visited st cand then (st, bound)
    else
      let d := dq (zidx cand) in
      if d <? bound then
        let st' := push_seed st cand in
        (st', fmul32 scale (getZ (s_ps st') 0))
      else
        ({| s_ps := s_ps st; s_ids := s_ids st; s_visited := cand :: s_visited st; s_seeds := s_seeds st; s_rng := s_rng st |}, bound).

  Definition neighbours (vertex : Z) : list Z :=
    let a := zidx (getZ indptr (zidx vertex)) in
    let b := zidx (getZ indptr (zidx vertex + 1)) in
    firstn (b - a) (skipn a indices).

  (* while d_vertex < distance_bound: expand; pop next (break if empty) *)
  Fixpoint search_loop (fuel : nat) (scale : Z) (st : sstate) (bound : Z) (dv v : Z) : option sstate :=
    match fuel with
    | O => None
    | S fuel' =>
      if dv <? bound then
        let '(st1, bound1) := fold_left (expand_one scale) (neighbours v) (st, bound) in
        match s_seeds st1 with
        | [] => Some st1
        | (d', v') :: rest =>
          search_loop fuel' scale
                      {| s_ps := s_ps st1; s_ids := s_ids st1; s_visited := s_visited st1; s_seeds := rest; s_rng := s_rng st1 |}
                      bound1 d' v'
        end
      else Some st
    end.

  (* one query: k result slots, [cands] = tree_indices[bounds], n_neighbors of the index,
     [scale] = key of float32(1.0 + epsilon), generator state after the tree descent *)
  Definition search_one (inf : Z) (k n_neighbors : nat) (scale : Z) (cands : list Z) (rng : list Z)
    : option (list Z * list Z * list Z) :=
    let st0 := {| s_ps := repeat inf k; s_ids := repeat (-1) k; s_visited := []; s_seeds := []; s_rng := rng |} in
    let st1 := init_leaf st0 cands in
    let st2 := init_random (Nat.min k n_neighbors - length cands) st1 in
    let bound := fmul32 scale (getZ (s_ps st2) 0) in
    match s_seeds st2 with
    | [] => None                                  (* heappop on an empty list *)
    | (dv, v) :: rest =>
      match search_loop (S (S n)) scale
                        {| s_ps := s_ps st2; s_ids := s_ids st2; s_visited := s_visited st2; s_seeds := rest; s_rng := s_rng st2 |}
                        bound dv v with
      | None => None
      | Some st => Some (s_ps st, s_ids st, s_rng st)
      end
    end.
End Search.

(* NNDescent.query: indices = self._vertex_order[indices].
   [keep_unfilled] = false: numpy fancy indexing as written (a -1 slot selects the LAST
   element of vertex_order); true: unfilled slots stay -1 (repaired code). *)
Definition translate (keep_unfilled : bool) (vorder : list Z) (idx : Z) : Z :=
  if idx <? 0 then
    if keep_unfilled then -1 else getZ vorder (zidx (Z.of_nat (length vorder) + idx))
  else getZ vorder (zidx idx).
