(* Alias.v — executable ownership model of the NNDescent API (C17): which operations
   may write through an array that shares memory with one the caller passed in.
   Hand-written from pynndescent_.py (NNDescent.__init__, _init_search_graph, query,
   update, compress_index, __getstate__); tied to the code by harness/props/C17.py,
   which compares, after EVERY operation of generated histories over every input
   configuration, np.shares_memory(index._raw_data, X) with the model's bit and the
   byte-hash of every caller array with the model's write list.  NO proofs. *)
From Coq Require Import List Bool.
Import ListNotations.

Inductive dtype := F32 | F64 | U8 | I64.
Inductive mclass := Plain | Dot | Bit.       (* Dot: metric == "dot" (normalising); Bit: bit_hamming / bit_jaccard *)
Inductive buf := BufX | BufQ | BufU | BufF.  (* training data, query array, xs_updated, xs_fresh *)

Record acfg := { a_dt : dtype; a_c : bool (* C-contiguous *); a_sparse : bool (* scipy CSR *); a_sorted : bool (* CSR has_sorted_indices *) }.

Definition is_f32 d := match d with F32 => true | _ => false end.
Definition is_u8 d := match d with U8 => true | _ => false end.

(* sklearn check_array(x, dtype=T, order="C", accept_sparse="csr") returns an object sharing
   x's buffers iff no conversion is needed *)
Definition check_array_aliases (target : dtype) (c : acfg) : bool :=
  match target with
  | F32 => is_f32 (a_dt c) && (a_sparse c || a_c c)
  | U8 => is_u8 (a_dt c) && negb (a_sparse c) && a_c c
  | _ => false
  end.

(* NNDescent.__init__: copy_on_normalize *)
Definition copy_on_normalize (c : acfg) : bool := is_f32 (a_dt c) && (a_sparse c || a_c c).

Record istate := { raw_shares_x : bool; idx_sparse : bool; idx_tree : bool; idx_class : mclass }.

Inductive op :=
| Construct (c : acfg) (m : mclass) (tree_init : bool)
| Prepare
| Query (q : acfg)
| Update (u f : acfg)
| Compress
| Pickle.

(* [sort_in_place] = true models the pinned tree (sort_indices() on the possibly aliased
   CSR object), false the current tree (a sorted copy is taken) *)
Definition construct (sort_in_place : bool) (c : acfg) (m : mclass) (t : bool) : istate * list buf :=
  let target := match m with Bit => U8 | _ => F32 end in
  let al0 := check_array_aliases target c in
  (* metric == "dot": data = normalize(data, norm="l2", copy=copy_on_normalize) *)
  let '(al1, w1) := match m with
                    | Dot => if copy_on_normalize c then (false, []) else (al0, if al0 then [BufX] else [])
                    | _ => (al0, [])
                    end in
  (* CSR with unsorted indices *)
  let '(al2, w2) := if a_sparse c && negb (a_sorted c)
                    then (if sort_in_place then (al1, if al1 then [BufX] else []) else (false, []))
                    else (al1, []) in
  ({| raw_shares_x := al2; idx_sparse := a_sparse c; idx_tree := t; idx_class := m |}, w1 ++ w2).

Definition step (sort_in_place : bool) (s : istate) (o : op) : istate * list buf :=
  match o with
  | Construct c m t => construct sort_in_place c m t
  | Prepare | Compress | Pickle =>   (* __getstate__ prepares the index first *)
    (* tree order: self._raw_data = self._raw_data[self._vertex_order, :]  (a copy) *)
    ({| raw_shares_x := if idx_tree s then false else raw_shares_x s; idx_sparse := idx_sparse s; idx_tree := idx_tree s; idx_class := idx_class s |}, [])
  | Query q =>
    (* query implies prepare *)
    let s' := {| raw_shares_x := if idx_tree s then false else raw_shares_x s; idx_sparse := idx_sparse s; idx_tree := idx_tree s; idx_class := idx_class s |} in
    if idx_sparse s
    then (s', if a_sparse q && negb (a_sorted q) && check_array_aliases F32 q && sort_in_place then [BufQ] else [])
    else (s', [])      (* np.asarray(q).astype(..., order="C"): always a copy *)
  | Update u f =>
    (* self._raw_data = self._raw_data[original_order, :] (copy) before rows are replaced; ends with prepare *)
    ({| raw_shares_x := false; idx_sparse := idx_sparse s; idx_tree := idx_tree s; idx_class := idx_class s |}, [])
  end.

Definition init_state : istate := {| raw_shares_x := false; idx_sparse := false; idx_tree := false; idx_class := Plain |}.

Fixpoint run (sip : bool) (s : istate) (ops : list op) : list (bool * list buf) :=
  match ops with
  | [] => []
  | o :: r => let '(s', w) := step sip s o in (raw_shares_x s', w) :: run sip s' r
  end.

Definition all_writes (sip : bool) (s : istate) (ops : list op) : list buf := concat (map snd (run sip s ops)).
