(* Connect.v — executable model of utils.rejection_sample (used by
   graph_utils.find_component_connection_edge to pick distinct seed points of a
   component).  The inner `while reject_sample` loop has no bound in the code; here it
   runs on explicit fuel and returns None when the fuel is exhausted.  NO proofs. *)
From Coq Require Import ZArith List Bool.
From PV Require Import Base Rng.
Import ListNotations.
Open Scope Z_scope.

(*  j = tau_rand_int(rng_state) % pool_size ; accepted iff j differs from all earlier samples *)
Fixpoint draw_distinct (fuel : nat) (pool : Z) (taken : list Z) (rng : list Z) : option (Z * list Z) :=
  match fuel with
  | O => None
  | S fuel' =>
    let '(r, rng') := tau_rand_int rng in
    let j := r mod pool in
    if existsb (Z.eqb j) taken then draw_distinct fuel' pool taken rng' else Some (j, rng')
  end.

(* result[i] for i = 0 .. n_samples-1; [fuel] bounds EACH inner loop *)
Fixpoint rejection_sample (fuel : nat) (n_samples : nat) (pool : Z) (taken : list Z) (rng : list Z)
  : option (list Z * list Z) :=
  match n_samples with
  | O => Some (taken, rng)
  | S k =>
    match draw_distinct fuel pool taken rng with
    | None => None
    | Some (j, rng') => rejection_sample fuel k pool (taken ++ [j]) rng'
    end
  end.

(* ---- connectivity certificate, evaluated (extracted) on connect_graph's result ----
   vertices 0..n-1, [edges] the stored (row, column) pairs of the result, [parent]/[depth]
   a claimed spanning tree rooted at vertex 0 (computed outside, untrusted). *)
Definition has_edge (edges : list (nat * nat)) (u v : nat) : bool :=
  existsb (fun p => Nat.eqb (fst p) u && Nat.eqb (snd p) v) edges.

Definition conn_cert_chk (n : nat) (edges : list (nat * nat)) (parent depth : list nat) : bool :=
  forallb (fun v =>
    let p := nth v parent 0%nat in
    let dv := nth v depth 0%nat in
    let dp := nth p depth 0%nat in
    (Nat.eqb v 0) || (Nat.ltb dp dv && Nat.ltb p n && has_edge edges v p)) (seq 0 n).

(* symmetric storage: every stored (u,v) has (v,u) stored *)
Definition sym_chk (edges : list (nat * nat)) : bool :=
  forallb (fun p => has_edge edges (snd p) (fst p)) edges.

(* ---- the alternating loop of graph_utils.find_component_connection_edge (after the repair) ----
       stalled = 0
       while (changed[0] or changed[1]) and stalled < 2:
           previous_best = best_dist
           ... one restricted search; every distance found that is < best_dist replaces it ...
           stalled = 0 if best_dist < previous_best else stalled + 1
           ... changed[.] updated from the candidate sets ...
   The searches and the candidate-set bookkeeping are an ORACLE: step i finds the distances
   [fst (oracle i)] and leaves the loop condition (changed[0] or changed[1]) at [snd (oracle i)].
   Result: Some (best distance, number of searches) or None when the fuel runs out. *)
Fixpoint alt_loop (oracle : nat -> list Z * bool) (fuel : nat) (i : nat) (best : Z) (stalled : nat) (changed : bool)
  : option (Z * nat) :=
  if negb changed || Nat.leb 2 stalled then Some (best, i)
  else match fuel with
       | O => None
       | S f =>
         let '(ds, ch') := oracle i in
         let best' := fold_left Z.min ds best in
         alt_loop oracle f (S i) best' (if best' <? best then O else S stalled) ch'
       end.
