(* NND.v — executable model of the NN-descent kernels:
     utils.new_build_candidates, apply_graph_updates_low_memory / _high_memory,
     initalize_heap_from_graph_indices[_and_distances],
     pynndescent_.generate_leaf_updates, init_rp_tree, init_random,
     init_from_neighbor_graph, generate_graph_updates, process_candidates,
     nn_descent_internal_{low,high}_memory_parallel, nn_descent
   (and their sparse_nndescent twins, which differ only in how the distance of a
   pair of row numbers is computed).
   The distance function is the parameter [dm : nat -> nat -> Z]
   (dist(data[a], data[b]) as an order key; argument order as in the code).
   Parallel loops are executed in iteration order; C05 proves that order is
   irrelevant.  NO proofs. *)
From Coq Require Import ZArith List Bool.
From PV Require Import Base Heap Rng.
Import ListNotations.
Open Scope Z_scope.

Definition mat := list (list Z).
Record graph := { g_ind : mat; g_dist : mat; g_flag : mat }.

Definition make_heap (inf : Z) (n k : nat) : graph :=
  {| g_ind := repeat (repeat (-1) k) n;
     g_dist := repeat (repeat inf k) n;
     g_flag := repeat (repeat 0 k) n |}.

(* checked_flagged_heap_push(heap[1][r], heap[0][r], heap[2][r], d, j, f) -> (added, heap) *)
Definition push_row (g : graph) (r : nat) (d j f : Z) : Z * graph :=
  let '(a, (ps, ids, fs)) :=
      checked_flagged_heap_push (getRow (g_dist g) r) (getRow (g_ind g) r) (getRow (g_flag g) r) d j f in
  (a, {| g_ind := upd r ids (g_ind g); g_dist := upd r ps (g_dist g); g_flag := upd r fs (g_flag g) |}).

Definition update := (Z * Z * Z)%type.     (* p, q, d *)

Section Kernels.
  Variable inf : Z.
  Variable dm : nat -> nat -> Z.

  Definition thresholds (g : graph) : list Z := map (fun row => getZ row 0) (g_dist g).

  (* ---------------- generate_leaf_updates + init_rp_tree ---------------- *)
  (* inner loop over j > i of one leaf: stops at the first negative entry *)
  Fixpoint leaf_inner (thr : list Z) (p : Z) (rest : list Z) : list update :=
    match rest with
    | [] => []
    | q :: rest' =>
      if q <? 0 then []
      else
        let d := dm (zidx p) (zidx q) in
        let tl := leaf_inner thr p rest' in
        if (d <? getZ thr (zidx p)) || (d <? getZ thr (zidx q)) then (p, q, d) :: tl else tl
    end.

  Fixpoint leaf_updates_row (thr : list Z) (leaf : list Z) : list update :=
    match leaf with
    | [] => []
    | p :: rest => if p <? 0 then [] else leaf_inner thr p rest ++ leaf_updates_row thr rest
    end.

  Definition generate_leaf_updates (thr : list Z) (leaves : mat) : list (list update) :=
    map (fun leaf => (-1, -1, inf) :: leaf_updates_row thr leaf) leaves.

  Definition apply_both (g : graph) (u : update) : graph :=
    let '(p, q, d) := u in
    if (p =? -1) || (q =? -1) then g
    else
      let g1 := snd (push_row g (zidx p) d q 1) in
      snd (push_row g1 (zidx q) d p 1).

  (* leaf_array has fewer than 65536 rows: a single block *)
  Definition init_rp_tree (g : graph) (leaves : mat) : graph :=
    let ups := generate_leaf_updates (thresholds g) leaves in
    fold_left (fun g ul => fold_left apply_both ul g) ups g.

  (* ---------------- init_random ---------------- *)
  (* np.abs on an int32 wraps at INT32_MIN; % follows Python's sign convention *)
  Definition abs32 (r : Z) : Z := if r =? -2147483648 then -2147483648 else Z.abs r.

  Fixpoint init_random_row (cnt : nat) (n : nat) (i : nat) (g : graph) (rng : list Z) : graph * list Z :=
    match cnt with
    | O => (g, rng)
    | S cnt' =>
      let '(r, rng') := tau_rand_int rng in
      let idx := (abs32 r) mod (Z.of_nat n) in
      let d := dm (zidx idx) i in
      init_random_row cnt' n i (snd (push_row g i d idx 1)) rng'
    end.

  Definition count_nonneg (row : list Z) : nat := length (filter (fun x => 0 <=? x) row).

  Definition init_random (k : nat) (n : nat) (g : graph) (rng : list Z) : graph * list Z :=
    fold_left (fun (st : graph * list Z) i =>
                 let '(g, rng) := st in
                 if getZ (getRow (g_ind g) i) 0 <? 0
                 then init_random_row (k - count_nonneg (getRow (g_ind g) i)) n i g rng
                 else st)
              (seq 0 n) (g, rng).

  (* ---------------- init_from_neighbor_graph / initalize_heap_from_graph_* ---------------- *)
  (* update(): pushes every (q, d) of the old graph, flag 0, no guard on q *)
  Definition init_from_neighbor_graph (g : graph) (inds dists : mat) : graph :=
    fold_left (fun g p =>
                 fold_left (fun g (qd : Z * Z) => snd (push_row g p (snd qd) (fst qd) 0))
                           (combine (getRow inds p) (getRow dists p)) g)
              (seq 0 (length inds)) g.

  Definition init_heap_from_indices (g : graph) (inds : mat) : graph :=
    fold_left (fun g i =>
                 fold_left (fun g j => if 0 <=? j then snd (push_row g i (dm i (zidx j)) j 1) else g)
                           (getRow inds i) g)
              (seq 0 (length inds)) g.

  Definition init_heap_from_indices_and_distances (g : graph) (inds dists : mat) : graph :=
    fold_left (fun g i =>
                 fold_left (fun g (jd : Z * Z) => if 0 <=? fst jd then snd (push_row g i (snd jd) (fst jd) 1) else g)
                           (combine (getRow inds i) (getRow dists i)) g)
              (seq 0 (length inds)) g.

  (* ---------------- new_build_candidates ---------------- *)
  Record cands := { c_new_p : mat; c_new_i : mat; c_old_p : mat; c_old_i : mat }.

  Definition cpush (pm im : mat) (r : nat) (d idx : Z) : mat * mat :=
    let '(_, (ps, ids)) := checked_heap_push (getRow pm r) (getRow im r) d idx in
    (upd r ps pm, upd r ids im).

  (* body of the j-loop for thread n at vertex i *)
  Definition nbc_cell (T n : Z) (i : nat) (idx isn : Z) (c : cands) (rng : list Z) : cands * list Z :=
    if idx <? 0 then (c, rng)
    else
      let '(d, rng') := tau_rand rng in
      let zi := Z.of_nat i in
      if negb (isn =? 0) then
        let '(np, ni) := if zi mod T =? n then cpush (c_new_p c) (c_new_i c) i d idx else (c_new_p c, c_new_i c) in
        let '(np, ni) := if idx mod T =? n then cpush np ni (zidx idx) d zi else (np, ni) in
        ({| c_new_p := np; c_new_i := ni; c_old_p := c_old_p c; c_old_i := c_old_i c |}, rng')
      else
        let '(op, oi) := if zi mod T =? n then cpush (c_old_p c) (c_old_i c) i d idx else (c_old_p c, c_old_i c) in
        let '(op, oi) := if idx mod T =? n then cpush op oi (zidx idx) d zi else (op, oi) in
        ({| c_new_p := c_new_p c; c_new_i := c_new_i c; c_old_p := op; c_old_i := oi |}, rng').

  Definition nbc_thread (T : Z) (g : graph) (rng0 : list Z) (c : cands) (n : Z) : cands :=
    let local := map (fun w => w + n) rng0 in
    fst (fold_left (fun (st : cands * list Z) i =>
                      fold_left (fun (st : cands * list Z) (ij : Z * Z) =>
                                   nbc_cell T n i (fst ij) (snd ij) (fst st) (snd st))
                                (combine (getRow (g_ind g) i) (getRow (g_flag g) i)) st)
                   (seq 0 (length (g_ind g))) (c, local)).

  (* second loop: clear the flag of every neighbour that made it into the new-candidate row *)
  Definition clear_flags_row (inds flags newc : list Z) : list Z :=
    map (fun (xf : Z * Z) => if existsb (Z.eqb (fst xf)) newc then 0 else snd xf) (combine inds flags).

  Definition new_build_candidates (g : graph) (maxc : nat) (rng : list Z) (T : nat) : graph * mat * mat :=
    let n := length (g_ind g) in
    let c0 := {| c_new_p := repeat (repeat inf maxc) n; c_new_i := repeat (repeat (-1) maxc) n;
                 c_old_p := repeat (repeat inf maxc) n; c_old_i := repeat (repeat (-1) maxc) n |} in
    let c := fold_left (nbc_thread (Z.of_nat T) g rng) (map Z.of_nat (seq 0 T)) c0 in
    let flags' := map (fun i => clear_flags_row (getRow (g_ind g) i) (getRow (g_flag g) i) (getRow (c_new_i c) i))
                      (seq 0 n) in
    ({| g_ind := g_ind g; g_dist := g_dist g; g_flag := flags' |}, c_new_i c, c_old_i c).

  (* ---------------- generate_graph_updates ---------------- *)
  Definition cand_pairs (thr : list Z) (p : Z) (qs : list Z) : list update :=
    flat_map (fun q =>
                if q <? 0 then []
                else let d := dm (zidx p) (zidx q) in
                     if (d <=? getZ thr (zidx p)) || (d <=? getZ thr (zidx q)) then [(p, q, d)] else [])
             qs.

  (* row i: for j: p = new[j]; for k in j..: q = new[k]; then all of old *)
  Fixpoint graph_updates_row (thr : list Z) (newrow oldrow : list Z) : list update :=
    match newrow with
    | [] => []
    | p :: rest =>
      (if p <? 0 then [] else cand_pairs thr p newrow ++ cand_pairs thr p oldrow)
        ++ graph_updates_row thr rest oldrow
    end.

  Definition generate_graph_updates (thr : list Z) (newc oldc : mat) : list (list update) :=
    map (fun no => (-1, -1, inf) :: graph_updates_row thr (fst no) (snd no)) (combine newc oldc).

  (* ---------------- apply_graph_updates_low_memory ---------------- *)
  Definition apply_low_one (T n : Z) (st : graph * Z) (u : update) : graph * Z :=
    let '(g, c) := st in
    let '(p, q, d) := u in
    if (p =? -1) || (q =? -1) then st
    else
      let '(g, c) := if p mod T =? n then let '(a, g') := push_row g (zidx p) d q 1 in (g', c + a) else (g, c) in
      if q mod T =? n then let '(a, g') := push_row g (zidx q) d p 1 in (g', c + a) else (g, c).

  Definition apply_graph_updates_low_memory (g : graph) (ups : list (list update)) (T : nat) : graph * Z :=
    fold_left (fun st n => fold_left (fun st ul => fold_left (apply_low_one (Z.of_nat T) n) ul st) ups st)
              (map Z.of_nat (seq 0 T)) (g, 0).

  (* ---------------- apply_graph_updates_high_memory ---------------- *)
  Definition memZ (x : Z) (s : list Z) : bool := existsb (Z.eqb x) s.

  (* [second_row_is_q]: true = the second branch pushes (d, p) into row q (the
     repaired code); false = the pinned code's second branch, which pushed
     (d, q) into row p again.  The correspondence check decides which one the
     working tree implements. *)
  Variable second_row_is_q : bool.

  Definition apply_high_one (st : graph * list (list Z) * Z) (u : update) : graph * list (list Z) * Z :=
    let '(g, ing, c) := st in
    let '(p, q, d) := u in
    if (p =? -1) || (q =? -1) then st
    else
      let inp := nth (zidx p) ing [] in
      let inq := nth (zidx q) ing [] in
      if memZ q inp && memZ p inq then st
      else
        let '(g, ing, c) :=
            if memZ q inp then (g, ing, c)
            else let '(a, g') := push_row g (zidx p) d q 1 in
                 if 0 <? a then (g', upd (zidx p) (q :: inp) ing, c + a) else (g', ing, c) in
        let inq := nth (zidx q) ing [] in
        if (p =? q) || memZ p inq then (g, ing, c)
        else
          let '(a, g') := if second_row_is_q then push_row g (zidx q) d p 1 else push_row g (zidx p) d q 1 in
          if 0 <? a then (g', upd (zidx q) (p :: inq) ing, c + a) else (g', ing, c).

  Definition apply_graph_updates_high_memory (g : graph) (ups : list (list update)) (ing : list (list Z))
    : graph * list (list Z) * Z :=
    fold_left (fun st ul => fold_left apply_high_one ul st) ups (g, ing, 0).

  (* ---------------- the NN-descent loop ---------------- *)
  (* [thr_c]: floor(delta * n_neighbors * n) computed by the harness with the
     code's float64 expression; the loop stops when c <= thr_c. *)
  Fixpoint nnd_low (iters : nat) (g : graph) (maxc : nat) (rng : list Z) (T : nat) (thr_c : Z) : graph :=
    match iters with
    | O => g
    | S it =>
      let '(g1, newc, oldc) := new_build_candidates g maxc rng T in
      let ups := generate_graph_updates (thresholds g1) newc oldc in
      let '(g2, c) := apply_graph_updates_low_memory g1 ups T in
      if c <=? thr_c then g2 else nnd_low it g2 maxc rng T thr_c
    end.

  Fixpoint nnd_high (iters : nat) (g : graph) (ing : list (list Z)) (maxc : nat) (rng : list Z) (T : nat) (thr_c : Z) : graph :=
    match iters with
    | O => g
    | S it =>
      let '(g1, newc, oldc) := new_build_candidates g maxc rng T in
      let ups := generate_graph_updates (thresholds g1) newc oldc in
      let '(g2, ing2, c) := apply_graph_updates_high_memory g1 ups ing in
      if c <=? thr_c then g2 else nnd_high it g2 ing2 maxc rng T thr_c
    end.

  Definition deheap_graph (g : graph) : option (mat * mat) :=
    fold_right (fun (row : list Z * list Z) acc =>
                  match acc, deheap_sort_row (fst row) (snd row) with
                  | Some (is, ds), Some (i, d) => Some (i :: is, d :: ds)
                  | _, _ => None
                  end)
               (Some ([], [])) (combine (g_ind g) (g_dist g)).

  (* nn_descent with init_graph = EMPTY_GRAPH (init_rp_tree when rp_tree_init,
     then init_random) or with a prepared heap *)
  Definition nn_descent (n k : nat) (rng : list Z) (maxc iters : nat) (thr_c : Z)
             (init : option graph) (leaves : option mat) (low_memory : bool) (T : nat)
    : option (mat * mat) * list Z :=
    let '(g0, rng1) :=
        match init with
        | Some g => (g, rng)
        | None =>
          let g := make_heap inf n k in
          let g := match leaves with Some lv => init_rp_tree g lv | None => g end in
          init_random k n g rng
        end in
    let g := if low_memory then nnd_low iters g0 maxc rng1 T thr_c
             else nnd_high iters g0 (g_ind g0) maxc rng1 T thr_c in
    (deheap_graph g, rng1).
End Kernels.
