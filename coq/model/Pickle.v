(* Pickle.v — executable model of NNDescent.__getstate__ / __setstate__ and of the metric
   binding they re-derive (C06).  A metric is described by its membership in the four
   tables of the source (distances.named_distances, fast_distance_alternatives,
   sparse.sparse_named_distances, sparse_fast_distance_alternatives) and by whether it is
   a callable; the harness reads the memberships off the real tables.  NO proofs. *)
From Coq Require Import ZArith List Bool.
Import ListNotations.
Open Scope Z_scope.

Inductive binding := BDenseNamed | BDenseFast | BSparseNamed | BSparseFast | BCallable | BError.

Record metric_info := { in_named : bool; in_fast : bool; in_sparse_named : bool; in_sparse_fast : bool; is_callable : bool }.

(* NNDescent._set_distance_func *)
Definition dense_binding (m : metric_info) : binding :=
  if is_callable m then BCallable
  else if in_named m then (if in_fast m then BDenseFast else BDenseNamed)
  else BError.

(* the CSR branch of NNDescent.__init__ (and _set_sparse_distance_func on load) *)
Definition sparse_binding (m : metric_info) : binding :=
  if in_sparse_named m then (if in_sparse_fast m then BSparseFast else BSparseNamed)
  else if is_callable m then BCallable
  else BError.

Definition init_binding (sparse : bool) (m : metric_info) : binding :=
  if sparse then sparse_binding m else dense_binding m.

(* [pinned] = true: the pinned tree, whose __setstate__ always re-derived the dense binding *)
Definition load_binding (pinned : bool) (sparse : bool) (m : metric_info) : binding :=
  if pinned then dense_binding m else init_binding sparse m.

(* flat search tree: numba record <-> plain tuple *)
Record flat_tree := { ft_hyper : list Z; ft_off : list Z; ft_children : list Z; ft_indices : list Z; ft_leaf : Z }.
Definition denumbaify (t : flat_tree) : list Z * list Z * list Z * list Z * Z :=
  (ft_hyper t, ft_off t, ft_children t, ft_indices t, ft_leaf t).
Definition renumbaify (t : list Z * list Z * list Z * list Z * Z) : flat_tree :=
  let '(h, o, c, i, l) := t in {| ft_hyper := h; ft_off := o; ft_children := c; ft_indices := i; ft_leaf := l |}.

Record pstate := {
  p_sparse : bool; p_metric : metric_info; p_nargs : nat;       (* len(self._dist_args) *)
  p_binding : binding; p_partial : bool;                         (* bound through an njit closure over dist_args *)
  p_has_rp_forest : bool; p_prepared : bool;
  p_forest : list flat_tree;                                     (* self._search_forest (meaningful when prepared) *)
  p_payload : list Z                                             (* every other attribute: copied with the dict *)
}.

(* forced prepare: the search forest is produced by an oracle [mk] from the payload *)
Definition pprepare (mk : list Z -> list flat_tree) (s : pstate) : pstate :=
  if p_prepared s then s
  else {| p_sparse := p_sparse s; p_metric := p_metric s; p_nargs := p_nargs s; p_binding := p_binding s; p_partial := p_partial s;
          p_has_rp_forest := p_has_rp_forest s; p_prepared := true; p_forest := mk (p_payload s); p_payload := p_payload s |}.

Record pickled := {
  k_sparse : bool; k_metric : metric_info; k_nargs : nat; k_forest : list (list Z * list Z * list Z * list Z * Z); k_payload : list Z
}.

(* __getstate__: (state of the original afterwards, pickled dict) *)
Definition getstate (mk : list Z -> list flat_tree) (s : pstate) : pstate * pickled :=
  let s1 := pprepare mk s in
  (s1, {| k_sparse := p_sparse s1; k_metric := p_metric s1; k_nargs := p_nargs s1; k_forest := map denumbaify (p_forest s1);
          k_payload := p_payload s1 |}).

Definition setstate (pinned : bool) (k : pickled) : pstate :=
  {| p_sparse := k_sparse k; p_metric := k_metric k; p_nargs := k_nargs k;
     p_binding := load_binding pinned (k_sparse k) (k_metric k); p_partial := negb (Nat.eqb (k_nargs k) 0);
     p_has_rp_forest := false; p_prepared := true; p_forest := map renumbaify (k_forest k); p_payload := k_payload k |}.

(* a freshly constructed index *)
Definition constructed (sparse : bool) (m : metric_info) (nargs : nat) (payload : list Z) : pstate :=
  {| p_sparse := sparse; p_metric := m; p_nargs := nargs; p_binding := init_binding sparse m; p_partial := negb (Nat.eqb nargs 0);
     p_has_rp_forest := true; p_prepared := false; p_forest := []; p_payload := payload |}.
