(* SparseOps.v — executable model of the two-pointer merge primitives of
   pynndescent/sparse.py: sparse_sum, sparse_diff, sparse_mul, sparse_dot_product,
   fast_intersection_size.  A sparse vector is a list of (index, value) pairs;
   values are integers here (exact arithmetic).  The while-loops over two cursors
   are written as the standard nested structural recursion on the two remaining
   suffixes.  NO proofs. *)
From Coq Require Import ZArith List Bool.
Import ListNotations.
Open Scope Z_scope.

Definition svec := list (Z * Z).

(* result[nnz] = ... only when val != 0 *)
Definition emit (j v : Z) (rest : svec) : svec := if v =? 0 then rest else (j, v) :: rest.

(* sparse_sum: merge, adding values at equal indices, dropping zero results, then the tails *)
Fixpoint sparse_sum (a : svec) : svec -> svec :=
  fix inner (b : svec) : svec :=
    match a, b with
    | [], _ => fold_right (fun p acc => emit (fst p) (snd p) acc) [] b
    | _, [] => fold_right (fun p acc => emit (fst p) (snd p) acc) [] a
    | (j1, x1) :: a', (j2, x2) :: b' =>
      if j1 =? j2 then emit j1 (x1 + x2) (sparse_sum a' b')
      else if j1 <? j2 then emit j1 x1 (sparse_sum a' b)
      else emit j2 x2 (inner b')
    end.

Definition sparse_neg (b : svec) : svec := map (fun p => (fst p, - snd p)) b.
Definition sparse_diff (a b : svec) : svec := sparse_sum a (sparse_neg b).

(* sparse_mul: only matching indices, dropping zero products *)
Fixpoint sparse_mul (a : svec) : svec -> svec :=
  fix inner (b : svec) : svec :=
    match a, b with
    | [], _ => []
    | _, [] => []
    | (j1, x1) :: a', (j2, x2) :: b' =>
      if j1 =? j2 then emit j1 (x1 * x2) (sparse_mul a' b')
      else if j1 <? j2 then sparse_mul a' b
      else inner b'
    end.

(* sparse_dot_product (with the empty-array guard of the repaired code: an empty
   operand gives 0 without reading element 0) *)
Fixpoint sparse_dot_product (a : svec) : svec -> Z :=
  fix inner (b : svec) : Z :=
    match a, b with
    | [], _ => 0
    | _, [] => 0
    | (j1, x1) :: a', (j2, x2) :: b' =>
      if j1 =? j2 then x1 * x2 + sparse_dot_product a' b'
      else if j1 <? j2 then sparse_dot_product a' b
      else inner b'
    end.

(* fast_intersection_size(ar1, ar2): the cursor/limit loop.  State: current elements
   j1, j2 and the elements after them.
     if j1 == j2: result += 1; advance BOTH (stop as soon as one cannot advance)
     elif j1 < j2 and i1 < limit1: advance 1
     elif j2 < j1 and i2 < limit2: advance 2
     else: break                                                             *)
Fixpoint fis_loop (j1 : Z) (r1 : list Z) : Z -> list Z -> Z :=
  fix inner (j2 : Z) (r2 : list Z) : Z :=
    if j1 =? j2 then
      1 + match r1, r2 with
          | j1' :: r1', j2' :: r2' => fis_loop j1' r1' j2' r2'
          | _, _ => 0
          end
    else if j1 <? j2 then
      match r1 with
      | j1' :: r1' => fis_loop j1' r1' j2 r2
      | [] => 0
      end
    else
      match r2 with
      | j2' :: r2' => inner j2' r2'
      | [] => 0
      end.

Definition fast_intersection_size (ar1 ar2 : list Z) : Z :=
  match ar1, ar2 with
  | j1 :: r1, j2 :: r2 => fis_loop j1 r1 j2 r2
  | _, _ => 0
  end.

(* reading a sparse vector at an index *)
Fixpoint sget (v : svec) (i : Z) : Z :=
  match v with
  | [] => 0
  | (j, x) :: t => if j =? i then x else sget t i
  end.
