(* OT.v — the optimality-certificate checker for the transport problem solved by
   optimal_transport.network_simplex_core (run, extracted, on the plan and the node
   potentials the implementation produced; all numbers scaled to integers by the
   harness: float64 values are dyadic rationals, so this is exact).  NO proofs. *)
From Coq Require Import ZArith List Bool.
Import ListNotations.
Open Scope Z_scope.

Definition mat := list (list Z).
Definition get2 (M : mat) (i j : nat) : Z := nth j (nth i M []) 0.
Definition get1 (v : list Z) (i : nat) : Z := nth i v 0.

(* reduced cost of arc (i, j): c_ij + u_i - v_j, where u / v are the potentials of the
   supply node i / demand node j *)
Definition rc (C : mat) (u v : list Z) (i j : nat) : Z := get2 C i j + get1 u i - get1 v j.

Definition forall2b (n m : nat) (p : nat -> nat -> bool) : bool :=
  forallb (fun i => forallb (fun j => p i j) (seq 0 m)) (seq 0 n).

(* e >= 0: tolerance (in the scaled units).  Accepts iff the plan is non-negative, every
   reduced cost is >= -e (dual feasibility), and every arc carrying flow has reduced
   cost <= e (complementary slackness). *)
Definition ot_cert_chk (n m : nat) (e : Z) (C F : mat) (u v : list Z) : bool :=
  (0 <=? e) &&
  forall2b n m (fun i j => 0 <=? get2 F i j) &&
  forall2b n m (fun i j => - e <=? rc C u v i j) &&
  forall2b n m (fun i j => (get2 F i j <=? 0) || (rc C u v i j <=? e)).
