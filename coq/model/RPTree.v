(* RPTree.v — executable model of rp_trees.py:
   - make_*_tree recursion (depth bounded, split abstracted as a function) producing
     the linked post-order representation (children, point_indices);
   - euclidean_random_projection_split, concretely, for integer-valued data
     (all float32 intermediate values are then exact);
   - convert_tree_format / recursive_convert (pre-order flattening);
   - get_leaves_from_tree (leaf array);
   - the flat-tree descent of search_flat_tree / tree_search_closure;
   - boolean checkers run on observed trees.
   NO proofs. *)
From Coq Require Import ZArith List Bool.
From PV Require Import Base Rng.
Import ListNotations.
Open Scope Z_scope.

Record ltree := { lt_children : list (Z * Z); lt_indices : list (list Z) }.
Definition lt_empty : ltree := {| lt_children := []; lt_indices := [] |}.

Section Build.
  (* split indices rng = ((left, right), rng') *)
  Variable split : list Z -> list Z -> (list Z * list Z) * list Z.

  (*  if indices.shape[0] > leaf_size and max_depth > 0: split, recurse left, recurse
      right, append internal node;  else: append leaf                              *)
  Fixpoint make_tree (max_depth : nat) (leaf_size : nat) (idxs : list Z) (rng : list Z) (t : ltree)
    : ltree * list Z :=
    let leaf := ({| lt_children := lt_children t ++ [(-1, -1)]; lt_indices := lt_indices t ++ [idxs] |}, rng) in
    match max_depth with
    | O => leaf
    | S d =>
      if (leaf_size <? length idxs)%nat then
        let '((l, r), rng1) := split idxs rng in
        let '(t1, rng2) := make_tree d leaf_size l rng1 t in
        let left_num := Z.of_nat (length (lt_indices t1)) - 1 in
        let '(t2, rng3) := make_tree d leaf_size r rng2 t1 in
        let right_num := Z.of_nat (length (lt_indices t2)) - 1 in
        ({| lt_children := lt_children t2 ++ [(left_num, right_num)];
            lt_indices := lt_indices t2 ++ [[-1]] |}, rng3)
      else leaf
    end.
End Build.

(* ---------------- euclidean split on integer-valued data ---------------- *)
Definition abs32 (r : Z) : Z := if r =? -2147483648 then -2147483648 else Z.abs r.

Section Euclid.
  Variable data : list (list Z).        (* integer coordinates *)
  Definition coord (p : Z) (d : nat) : Z := getZ (getRow data (zidx p)) d.
  Variable dim : nat.

  (* twice the margin of point x w.r.t. the hyperplane between l and r *)
  Definition margin2 (l r x : Z) : Z :=
    fold_left (fun acc d => acc + (coord l d - coord r d) * (2 * coord x d - coord l d - coord r d)) (seq 0 dim) 0.

  (* first pass: sides with coin flips on the hyperplane *)
  Fixpoint sides (l r : Z) (idxs : list Z) (rng : list Z) : list Z * list Z :=
    match idxs with
    | [] => ([], rng)
    | x :: rest =>
      let m := margin2 l r x in
      if m =? 0 then
        let '(v, rng1) := tau_rand_int rng in
        let '(ss, rng2) := sides l r rest rng1 in ((abs32 v) mod 2 :: ss, rng2)
      else
        let '(ss, rng2) := sides l r rest rng in ((if 0 <? m then 0 else 1) :: ss, rng2)
    end.

  Fixpoint random_sides (idxs : list Z) (rng : list Z) : list Z * list Z :=
    match idxs with
    | [] => ([], rng)
    | _ :: rest =>
      let '(v, rng1) := tau_rand_int rng in
      let '(ss, rng2) := random_sides rest rng1 in (v mod 2 :: ss, rng2)
    end.

  Fixpoint select_side_list (want0 : bool) (ss idxs : list Z) : list Z :=
    match ss, idxs with
    | s :: ss', x :: idxs' =>
      if Bool.eqb (s =? 0) want0 then x :: select_side_list want0 ss' idxs' else select_side_list want0 ss' idxs'
    | _, _ => []
    end.

  Definition euclidean_split (idxs : list Z) (rng : list Z) : (list Z * list Z) * list Z :=
    let n := Z.of_nat (length idxs) in
    let '(a, rng1) := tau_rand_int rng in
    let li := a mod n in
    let '(b, rng2) := tau_rand_int rng1 in
    let ri0 := b mod n in
    let ri := (ri0 + (if li =? ri0 then 1 else 0)) mod n in
    let l := getZ idxs (zidx li) in
    let r := getZ idxs (zidx ri) in
    let '(ss, rng3) := sides l r idxs rng2 in
    let nl := length (filter (fun s => s =? 0) ss) in
    let '(ss', rng4) := if ((nl =? 0)%nat || (nl =? length ss)%nat)%bool then random_sides idxs rng3 else (ss, rng3) in
    ((select_side_list true ss' idxs, select_side_list false ss' idxs), rng4).

  Definition make_euclidean_tree (n : nat) (leaf_size max_depth : nat) (rng : list Z) : ltree * list Z :=
    make_tree euclidean_split max_depth leaf_size (map Z.of_nat (seq 0 n)) rng lt_empty.
End Euclid.

(* ---------------- convert_tree_format / recursive_convert ---------------- *)
Record ftree := { ft_children : list (Z * Z); ft_indices : list Z }.

Definition write_slice (start : nat) (vals : list Z) (arr : list Z) : list Z :=
  fst (fold_left (fun (st : list Z * nat) v => (upd (snd st) v (fst st), S (snd st))) vals (arr, start)).

(* returns (node_num, leaf_start, flat) ; fuel = number of nodes + 1 *)
Fixpoint recursive_convert (fuel : nat) (t : ltree) (f : ftree) (node_num : nat) (leaf_start : nat) (tree_node : Z)
  : option (nat * nat * ftree) :=
  match fuel with
  | O => None
  | S fuel' =>
    let ch := nth (zidx tree_node) (lt_children t) (-1, -1) in
    if fst ch <? 0 then
      let pts := nth (zidx tree_node) (lt_indices t) [] in
      let leaf_end := (leaf_start + length pts)%nat in
      Some (node_num, leaf_end,
            {| ft_children := upd node_num (- Z.of_nat leaf_start, - Z.of_nat leaf_end) (ft_children f);
               ft_indices := write_slice leaf_start pts (ft_indices f) |})
    else
      let f1 := {| ft_children := upd node_num (Z.of_nat node_num + 1, snd (nth node_num (ft_children f) (-1, -1))) (ft_children f);
                   ft_indices := ft_indices f |} in
      match recursive_convert fuel' t f1 (node_num + 1) leaf_start (fst ch) with
      | None => None
      | Some (nn, ls, f2) =>
        let f3 := {| ft_children := upd node_num (fst (nth node_num (ft_children f2) (-1, -1)), Z.of_nat nn + 1) (ft_children f2);
                     ft_indices := ft_indices f2 |} in
        recursive_convert fuel' t f3 (nn + 1) ls (snd ch)
      end
  end.

Definition convert_tree_format (t : ltree) (data_size : nat) : option ftree :=
  let n_nodes := length (lt_children t) in
  let f0 := {| ft_children := repeat (-1, -1) n_nodes; ft_indices := repeat (-1) data_size |} in
  match recursive_convert (S n_nodes) t f0 0 0 (Z.of_nat n_nodes - 1) with
  | Some (_, _, f) => Some f
  | None => None
  end.

(* get_leaves_from_tree: rows padded with -1 to max_leaf_size *)
Definition leaf_rows (t : ltree) (max_leaf_size : nat) : list (list Z) :=
  flat_map (fun (ci : (Z * Z) * list Z) =>
              let '(c, pts) := ci in
              if (fst c =? -1) || (snd c =? -1)
              then [firstn max_leaf_size pts ++ repeat (-1) (max_leaf_size - length pts)] else [])
           (combine (lt_children t) (lt_indices t)).

(* ---------------- descent of the flat tree ---------------- *)
(* [side node] = select_side(...) at that node for the query at hand (0 = left) *)
Fixpoint descend (fuel : nat) (children : list (Z * Z)) (side : nat -> Z) (node : nat) : option (Z * Z) :=
  match fuel with
  | O => None
  | S fuel' =>
    let ch := nth node children (0, 0) in
    if 0 <? fst ch then
      descend fuel' children side (zidx (if side node =? 0 then fst ch else snd ch))
    else Some (- fst ch, - snd ch)       (* indices[-children[node,0] : -children[node,1]] *)
  end.

(* ---------------- checkers on observed trees ---------------- *)
Definition memz (x : Z) (l : list Z) : bool := existsb (Z.eqb x) l.

(* flat tree: node 0 is the root; internal node c = (c0, c1) with node < c0 < c1 < n_nodes;
   leaves (-s, -e) in pre-order tile [0, n): the first starts at 0, each starts where
   the previous ended, the last ends at n; indices is a permutation of 0..n-1 *)
Fixpoint flat_scan (n_nodes : nat) (node : nat) (children : list (Z * Z)) (expect_start : Z) : option Z :=
  match children with
  | [] => Some expect_start
  | (c0, c1) :: rest =>
    if 0 <? c0 then
      if (Z.of_nat node <? c0) && (c0 <? c1) && (c1 <? Z.of_nat n_nodes)
      then flat_scan n_nodes (S node) rest expect_start else None
    else
      if (- c0 =? expect_start) && (- c0 <=? - c1)
      then flat_scan n_nodes (S node) rest (- c1) else None
  end.

Definition flat_chk (n : nat) (f : ftree) : bool :=
  let nn := length (ft_children f) in
  (0 <? nn)%nat &&
  match flat_scan nn 0 (ft_children f) 0 with
  | Some e => e =? Z.of_nat n
  | None => false
  end &&
  (length (ft_indices f) =? n)%nat &&
  forallb (fun i => memz (Z.of_nat i) (ft_indices f)) (seq 0 n).

(* linked tree: depth of every node from the root (last node), by descending;
   every point in exactly one leaf; leaves within leaf_size unless at max depth *)
Fixpoint node_depths (fuel : nat) (t : ltree) (node : Z) (depth : nat) : list (Z * nat) :=
  match fuel with
  | O => []
  | S fuel' =>
    let ch := nth (zidx node) (lt_children t) (-1, -1) in
    if (fst ch <? 0) || (snd ch <? 0) then [(node, depth)]
    else node_depths fuel' t (fst ch) (S depth) ++ node_depths fuel' t (snd ch) (S depth)
  end.

Definition linked_chk (n : nat) (leaf_size max_depth : nat) (t : ltree) : bool :=
  let nn := length (lt_children t) in
  let leaves := node_depths (S nn) t (Z.of_nat nn - 1) 0 in
  let pts := flat_map (fun ld => nth (zidx (fst ld)) (lt_indices t) []) leaves in
  (length (lt_indices t) =? nn)%nat && (0 <? nn)%nat &&
  (* every node is reached exactly once: a tree, not a DAG; children point backwards *)
  (length leaves + (length leaves - 1) =? nn)%nat &&
  (length pts =? n)%nat &&
  forallb (fun i => memz (Z.of_nat i) pts) (seq 0 n) &&
  forallb (fun ld => (length (nth (zidx (fst ld)) (lt_indices t) []) <=? leaf_size)%nat || (max_depth <=? snd ld)%nat) leaves.
