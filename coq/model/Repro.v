(* Repro.v — the per-call discipline of NNDescent.query on the search generator state
   and the visited table (C05): search_closure copies the state once per call
   (internal_rng_state = np.copy(rng_state)) and clears the visited table before every
   query row.  [answer] is one query row run from a cleared visited table with a given
   generator state (model/Search.v's search_one is such a function); it is a section
   variable: nothing is assumed about it.  NO proofs. *)
From Coq Require Import ZArith List.
Import ListNotations.

Section QueryCalls.
  Variable Q A : Type.
  Variable answer : list Z -> Q -> A * list Z.     (* generator state in, answer and advanced state out *)

  Record qstate := { q_rng : list Z; q_visited : list Z }.

  (* rows of one call share the call's private copy of the state *)
  Fixpoint batch (rng : list Z) (qs : list Q) : list A * list Z :=
    match qs with
    | [] => ([], rng)
    | q :: r => let '(a, rng1) := answer rng q in let '(as_, rng2) := batch rng1 r in (a :: as_, rng2)
    end.

  (* one query() call: the index's own state is only read; the visited table is left in
     whatever state the last row left it ([dirty]) *)
  Definition query_call (dirty : list Z) (st : qstate) (qs : list Q) : qstate * list A :=
    ({| q_rng := q_rng st; q_visited := dirty |}, fst (batch (q_rng st) qs)).

  (* a history of calls, each with its own leftover visited table *)
  Fixpoint history (st : qstate) (calls : list (list Z * list Q)) : qstate :=
    match calls with
    | [] => st
    | (dirty, qs) :: r => history (fst (query_call dirty st qs)) r
    end.
End QueryCalls.
