(* Heap.v — executable model of the bounded max-heap kernels of
   pynndescent/utils.py: simple_heap_push, checked_heap_push,
   checked_flagged_heap_push, siftdown, deheap_sort (one row).
   Priorities are float32 values mapped to Z by the order isomorphism described
   in DESIGN.md section 3 (NaN excluded); indices and flags are Z.
   NO proofs in this file. *)
From Coq Require Import ZArith List Bool.
From PV Require Import Base.
Import ListNotations.
Open Scope Z_scope.

(* The sift-down loop shared (textually triplicated in the code) by the three
   push variants:

       i = 0
       while True:
           ic1 = 2*i+1; ic2 = ic1+1
           if ic1 >= size: break
           elif ic2 >= size:
               if priorities[ic1] > p: i_swap = ic1 else: break
           elif priorities[ic1] >= priorities[ic2]:
               if p < priorities[ic1]: i_swap = ic1 else: break
           else:
               if p < priorities[ic2]: i_swap = ic2 else: break
           priorities[i] = priorities[i_swap]; indices[i] = indices[i_swap]
           [flags[i] = flags[i_swap]]
           i = i_swap
       priorities[i] = p; indices[i] = n; [flags[i] = f]

   Fuel: the position strictly increases, so [S size] iterations suffice
   (lemma sift3_fuel_ok in proofs/HeapProofs.v); None = out of fuel. *)
Fixpoint sift3 (fuel : nat) (ps ids fs : list Z) (p n f : Z) (i : nat)
  : option (list Z * list Z * list Z) :=
  match fuel with
  | O => None
  | S fuel' =>
    let size := length ps in
    let ic1 := (2 * i + 1)%nat in
    let ic2 := (ic1 + 1)%nat in
    let stop := Some (upd i p ps, upd i n ids, upd i f fs) in
    let move c :=
        sift3 fuel' (upd i (getZ ps c) ps) (upd i (getZ ids c) ids)
              (upd i (getZ fs c) fs) p n f c in
    if (size <=? ic1)%nat then stop
    else if (size <=? ic2)%nat then
      if p <? getZ ps ic1 then move ic1 else stop
    else if getZ ps ic2 <=? getZ ps ic1 then
      if p <? getZ ps ic1 then move ic1 else stop
    else
      if p <? getZ ps ic2 then move ic2 else stop
  end.

(* [checked] = duplicate scan present (checked_heap_push,
   checked_flagged_heap_push); the 2-array variants are run with a ghost flag
   array of zeros whose result is discarded.
   Return code: 1 accepted, 0 rejected, -1 out of fuel (never: see proofs). *)
Definition heap_push (checked : bool) (ps ids fs : list Z) (p n f : Z)
  : Z * (list Z * list Z * list Z) :=
  if getZ ps 0 <=? p then (0, (ps, ids, fs))                 (* p >= priorities[0] *)
  else if checked && existsb (Z.eqb n) ids then (0, (ps, ids, fs))
  else
    match sift3 (S (length ps)) (upd 0 p ps) (upd 0 n ids) (upd 0 f fs) p n f 0 with
    | Some r => (1, r)
    | None => (-1, (ps, ids, fs))
    end.

Definition simple_heap_push ps ids p n :=
  let '(r, (ps', ids', _)) := heap_push false ps ids (repeat 0 (length ps)) p n 0 in (r, (ps', ids')).
Definition checked_heap_push ps ids p n :=
  let '(r, (ps', ids', _)) := heap_push true ps ids (repeat 0 (length ps)) p n 0 in (r, (ps', ids')).
Definition checked_flagged_heap_push ps ids fs p n f := heap_push true ps ids fs p n f.

(* utils.siftdown(heap1, heap2, elt): swap-based sift-down on a pair of arrays.
       while elt*2+1 < len:
           left = 2*elt+1; right = left+1; swap = elt
           if heap1[swap] < heap1[left]: swap = left
           if right < len and heap1[swap] < heap1[right]: swap = right
           if swap == elt: break
           else: swap entries elt<->swap in both arrays; elt = swap          *)
Fixpoint siftdown (fuel : nat) (h1 h2 : list Z) (elt : nat) : option (list Z * list Z) :=
  match fuel with
  | O => None
  | S fuel' =>
    let len := length h1 in
    let left := (2 * elt + 1)%nat in
    let right := (left + 1)%nat in
    if (len <=? left)%nat then Some (h1, h2)
    else
      let swap := if getZ h1 elt <? getZ h1 left then left else elt in
      let swap := if ((right <? len)%nat && (getZ h1 swap <? getZ h1 right))%bool
                  then right else swap in
      if (swap =? elt)%nat then Some (h1, h2)
      else
        let h1' := upd swap (getZ h1 elt) (upd elt (getZ h1 swap) h1) in
        let h2' := upd swap (getZ h2 elt) (upd elt (getZ h2 swap) h2) in
        siftdown fuel' h1' h2' swap
  end.

(* one row of deheap_sort:
       for j in range(size-1, 0, -1):
           swap position 0 and j in both arrays
           siftdown(distances[:j], indices[:j], 0)                           *)
Fixpoint deheap_row (j : nat) (ids ds : list Z) : option (list Z * list Z) :=
  match j with
  | O => Some (ids, ds)
  | S j' =>
    (* here j = S j' is the loop variable; positions 0 and j are swapped *)
    let ids1 := upd j (getZ ids 0) (upd 0 (getZ ids j) ids) in
    let ds1 := upd j (getZ ds 0) (upd 0 (getZ ds j) ds) in
    match siftdown (S j) (firstn j ds1) (firstn j ids1) 0 with
    | None => None
    | Some (dpre, ipre) =>
      deheap_row j' (ipre ++ skipn j ids1) (dpre ++ skipn j ds1)
    end
  end.

Definition deheap_sort_row (ids ds : list Z) : option (list Z * list Z) :=
  deheap_row (length ids - 1) ids ds.

(* make_heap row *)
Definition empty_row (inf : Z) (size : nat) : list Z * list Z * list Z :=
  (repeat inf size, repeat (-1) size, repeat 0 size).
