(* Rng.v — bit-exact model of utils.tau_rand_int / tau_rand (Tausworthe
   generator on three int64 words).  NO proofs. *)
From Coq Require Import ZArith List Bool.
From PV Require Import Base.
Import ListNotations.
Open Scope Z_scope.

Definition M32 : Z := 4294967295.          (* 0xFFFFFFFF *)

(* int64 -> int32 reinterpretation of the low 32 bits (the "i4" return type) *)
Definition to_int32 (x : Z) : Z := ((x + 2147483648) mod 4294967296) - 2147483648.

(* Z.land / Z.lxor / Z.shiftl / Z.shiftr act on the infinite two's-complement
   representation, which coincides with int64 arithmetic as long as no
   intermediate exceeds 63 bits: the words stay below 2^45 in magnitude. *)
Definition tau_step (s : list Z) : list Z :=
  let s0 := getZ s 0 in let s1 := getZ s 1 in let s2 := getZ s 2 in
  let s0' := Z.lxor (Z.land (Z.shiftl (Z.land s0 4294967294) 12) M32)
                    (Z.shiftr (Z.lxor (Z.land (Z.shiftl s0 13) M32) s0) 19) in
  let s1' := Z.lxor (Z.land (Z.shiftl (Z.land s1 4294967288) 4) M32)
                    (Z.shiftr (Z.lxor (Z.land (Z.shiftl s1 2) M32) s1) 25) in
  let s2' := Z.lxor (Z.land (Z.shiftl (Z.land s2 4294967280) 17) M32)
                    (Z.shiftr (Z.lxor (Z.land (Z.shiftl s2 3) M32) s2) 11) in
  [s0'; s1'; s2'].

(* returns (value, new state) *)
Definition tau_rand_int (s : list Z) : Z * list Z :=
  let s' := tau_step s in
  (to_int32 (Z.lxor (Z.lxor (getZ s' 0) (getZ s' 1)) (getZ s' 2)), s').

(* round-to-nearest-even of a positive rational a/m to [prec] significant bits:
   returns (mantissa, exponent) with 2^(prec-1) <= mantissa < 2^prec and
   value = mantissa * 2^exponent.  a > 0, m > 0. *)
Definition rne (a m prec : Z) : Z * Z :=
  let e0 := Z.log2 a - Z.log2 m in
  (* e = floor(log2(a/m)) is e0 or e0-1 *)
  let e := if (if 0 <=? e0 then m * 2 ^ e0 <=? a else m <=? a * 2 ^ (- e0)) then e0 else e0 - 1 in
  let s := prec - 1 - e in                       (* scale so that quotient has prec bits *)
  let num := if 0 <=? s then a * 2 ^ s else a in
  let den := if 0 <=? s then m else m * 2 ^ (- s) in
  let q := num / den in
  let r := num mod den in
  let q' := if (den <? 2 * r) || ((den =? 2 * r) && Z.odd q) then q + 1 else q in
  if q' =? 2 ^ prec then (2 ^ (prec - 1), - s + 1) else (q', - s).

(* float32(abs(float64(i) / 0x7FFFFFFF)) as a float32 order key (= bit pattern,
   the value being non-negative).  Double rounding through float64 included. *)
Definition tau_rand_key_of_int (i : Z) : Z :=
  let a := Z.abs i in
  if a =? 0 then 0
  else
    let '(m64, e64) := rne a 2147483647 53 in        (* float64 quotient *)
    let '(m32, e32) := rne m64 1 24 in                (* m64 * 2^e64 rounded to 24 bits *)
    let ex := e32 + e64 in                            (* value = m32 * 2^ex *)
    let biased := ex + 23 + 127 in
    biased * 8388608 + (m32 - 8388608).

Definition tau_rand (s : list Z) : Z * list Z :=
  let '(i, s') := tau_rand_int s in (tau_rand_key_of_int i, s').
