(* Skel.v — control skeletons of the Python methods that touch the process-wide
   numba thread setting (C19).  The skeleton TERMS are regenerated from /repo's
   source on every run by harness/skel/translate.py; this file defines their
   syntax, a concrete semantics quantifying over all fault sequences, and the
   boolean checker.  NO proofs. *)
From Coq Require Import ZArith List Bool.
Import ListNotations.
Open Scope Z_scope.

Inductive stmt : Type :=
| Skip
| Seq (a b : stmt)
| Choice (a b : stmt)                 (* if / else, branch unknown *)
| Capture                             (* self._original_num_threads = numba.get_num_threads() *)
| SetThreads                          (* numba.set_num_threads(<n_jobs>) *)
| Restore                             (* numba.set_num_threads(self._original_num_threads) *)
| Call                                (* any call that may raise (or return normally) *)
| Raise
| Return
| TryFinally (body fin : stmt)
| TryExcept (body handler : stmt)     (* handler runs iff body raised *)
| Unknown.                            (* construct the translator does not understand: fail closed *)

Inductive outcome := Normal | Raised | Returned.

(* concrete state: current thread count, saved attribute value *)
Definition cstate := (Z * Z)%type.

(* [njobs]: the value installed by SetThreads; the oracle (list of booleans)
   resolves every branch and every may-raise call: all fault sequences *)
Fixpoint exec (njobs : Z) (s : stmt) (oracle : list bool) (st : cstate) : outcome * cstate * list bool :=
  match s with
  | Skip => (Normal, st, oracle)
  | Seq a b =>
    let '(o, st1, or1) := exec njobs a oracle st in
    match o with Normal => exec njobs b or1 st1 | _ => (o, st1, or1) end
  | Choice a b =>
    match oracle with
    | true :: r => exec njobs a r st
    | false :: r => exec njobs b r st
    | [] => exec njobs b [] st
    end
  | Capture => (Normal, (fst st, fst st), oracle)
  | SetThreads => (Normal, (njobs, snd st), oracle)
  | Restore => (Normal, (snd st, snd st), oracle)
  | Call =>
    match oracle with
    | true :: r => (Raised, st, r)
    | _ :: r => (Normal, st, r)
    | [] => (Normal, st, [])
    end
  | Raise => (Raised, st, oracle)
  | Return => (Returned, st, oracle)
  | TryFinally body fin =>
    let '(o, st1, or1) := exec njobs body oracle st in
    let '(o2, st2, or2) := exec njobs fin or1 st1 in
    match o2 with Normal => (o, st2, or2) | _ => (o2, st2, or2) end
  | TryExcept body handler =>
    let '(o, st1, or1) := exec njobs body oracle st in
    match o with Raised => exec njobs handler or1 st1 | _ => (o, st1, or1) end
  | Unknown => (Normal, (fst st + 1, snd st), oracle)      (* arbitrary damage: never accepted *)
  end.

(* ---------------- abstract interpretation over three symbolic values ---------------- *)
Inductive sym := T0 (* thread count at method entry *) | S0 (* stale attribute value *) | NJ (* n_jobs *).
Definition sym_eqb (a b : sym) : bool :=
  match a, b with T0, T0 | S0, S0 | NJ, NJ => true | _, _ => false end.
Definition astate := (sym * sym)%type.

Definition res := (outcome * astate)%type.
Definition res_eq_dec : forall a b : res, {a = b} + {a <> b}.
Proof. repeat decide equality. Defined.
(* result SETS: duplicates removed after every composite step, so that the number of
   abstract results stays <= 27 however long the method is *)
Definition dd (l : list res) : list res := nodup res_eq_dec l.

(* sequencing helpers over result lists (None = Unknown reached) *)
Fixpoint seq_all (k : astate -> option (list (outcome * astate))) (ra : list (outcome * astate))
  : option (list (outcome * astate)) :=
  match ra with
  | [] => Some []
  | r :: rest =>
    match seq_all k rest with
    | None => None
    | Some l =>
      match fst r with
      | Normal => match k (snd r) with Some lb => Some (lb ++ l) | None => None end
      | _ => Some (r :: l)
      end
    end
  end.

Fixpoint fin_all (k : astate -> option (list (outcome * astate))) (rb : list (outcome * astate))
  : option (list (outcome * astate)) :=
  match rb with
  | [] => Some []
  | r :: rest =>
    match fin_all k rest with
    | None => None
    | Some l =>
      match k (snd r) with
      | None => None
      | Some lf => Some (map (fun f => match fst f with Normal => (fst r, snd f) | _ => f end) lf ++ l)
      end
    end
  end.

Fixpoint exc_all (k : astate -> option (list (outcome * astate))) (rb : list (outcome * astate))
  : option (list (outcome * astate)) :=
  match rb with
  | [] => Some []
  | r :: rest =>
    match exc_all k rest with
    | None => None
    | Some l =>
      match fst r with
      | Raised => match k (snd r) with Some lh => Some (lh ++ l) | None => None end
      | _ => Some (r :: l)
      end
    end
  end.

Fixpoint aexec (s : stmt) (st : astate) : option (list (outcome * astate)) :=
  match s with
  | Skip => Some [(Normal, st)]
  | Seq a b => match aexec a st with None => None | Some ra => option_map dd (seq_all (aexec b) ra) end
  | Choice a b =>
    match aexec a st, aexec b st with
    | Some la, Some lb => Some (dd (la ++ lb))
    | _, _ => None
    end
  | Capture => Some [(Normal, (fst st, fst st))]
  | SetThreads => Some [(Normal, (NJ, snd st))]
  | Restore => Some [(Normal, (snd st, snd st))]
  | Call => Some [(Normal, st); (Raised, st)]
  | Raise => Some [(Raised, st)]
  | Return => Some [(Returned, st)]
  | TryFinally body fin => match aexec body st with None => None | Some rb => option_map dd (fin_all (aexec fin) rb) end
  | TryExcept body handler => match aexec body st with None => None | Some rb => option_map dd (exc_all (aexec handler) rb) end
  | Unknown => None
  end.

(* the method restores the entry thread count on EVERY exit path *)
Definition restores_chk (s : stmt) : bool :=
  match aexec s (T0, S0) with
  | None => false
  | Some rs => forallb (fun r => sym_eqb (fst (snd r)) T0) rs
  end.
