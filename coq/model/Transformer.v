(* Transformer.v — executable model of PyNNDescentTransformer.transform's matrix assembly
   (C18): COO triples built from the (indices, distances) arrays, converted to CSR (scipy
   sums duplicate (row, column) entries on conversion).  NO proofs. *)
From Coq Require Import ZArith List Bool Arith.
Import ListNotations.
Open Scope Z_scope.

(* result.row = repeat(arange(nq), k); result.col = indices.ravel(); result.data = distances.ravel() *)
Fixpoint assemble_from (i : nat) (ind dist : list (list Z)) : list (nat * Z * Z) :=
  match ind, dist with
  | ri :: ind', rd :: dist' => map (fun cd => (i, fst cd, snd cd)) (combine ri rd) ++ assemble_from (S i) ind' dist'
  | _, _ => []
  end.
Definition assemble (ind dist : list (list Z)) := assemble_from O ind dist.

(* tocsr: stored entries of row i, duplicates (same column) summed, first-occurrence order *)
Fixpoint add_entry (c v : Z) (row : list (Z * Z)) : list (Z * Z) :=
  match row with
  | [] => [(c, v)]
  | (c', v') :: r => if c' =? c then (c', v' + v) :: r else (c', v') :: add_entry c v r
  end.
Definition csr_row (coo : list (nat * Z * Z)) (i : nat) : list (Z * Z) :=
  fold_left (fun row t => let '(r, c, v) := t in if Nat.eqb r i then add_entry c v row else row) coo [].

Definition transform_row (ind dist : list (list Z)) (i : nat) : list (Z * Z) := csr_row (assemble ind dist) i.

Fixpoint nodupb (l : list Z) : bool :=
  match l with [] => true | x :: r => negb (existsb (Z.eqb x) r) && nodupb r end.
