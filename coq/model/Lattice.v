(* Lattice.v — executable models of the polynomial ("lattice") metrics of
   pynndescent/distances.py and of their sparse twins in pynndescent/sparse.py,
   over integer-valued vectors (exact arithmetic: on float32 vectors holding small
   integers every intermediate value of the kernels is exactly representable, so the
   compiled kernels must return these integers bit for bit).

   Each dense kernel is the accumulator loop of the source

       result = 0.0
       for i in range(x.shape[0]): result += ... x[i] ... y[i] ...

   written as structural recursion over the two lists with the accumulator as an
   argument.  Each sparse kernel runs the same accumulator over the data array that
   sparse_diff returns (model/SparseOps.v).  [sparsify] is the CSR encoding of a
   dense vector (index, value) for the non-zero entries, in index order.  NO proofs. *)
From Coq Require Import ZArith List Bool.
From PV Require Import SparseOps.
Import ListNotations.
Open Scope Z_scope.

(* ---- dense kernels ---- *)
(* squared_euclidean: diff = x[i] - y[i]; result += diff * diff *)
Fixpoint sq_loop (acc : Z) (x y : list Z) : Z :=
  match x, y with
  | a :: x', b :: y' => sq_loop (acc + (a - b) * (a - b)) x' y'
  | _, _ => acc
  end.
Definition squared_euclidean (x y : list Z) : Z := sq_loop 0 x y.

(* manhattan: result += np.abs(x[i] - y[i]) *)
Fixpoint man_loop (acc : Z) (x y : list Z) : Z :=
  match x, y with
  | a :: x', b :: y' => man_loop (acc + Z.abs (a - b)) x' y'
  | _, _ => acc
  end.
Definition manhattan (x y : list Z) : Z := man_loop 0 x y.

(* chebyshev: result = max(result, np.abs(x[i] - y[i])) *)
Fixpoint cheb_loop (acc : Z) (x y : list Z) : Z :=
  match x, y with
  | a :: x', b :: y' => cheb_loop (Z.max acc (Z.abs (a - b))) x' y'
  | _, _ => acc
  end.
Definition chebyshev (x y : list Z) : Z := cheb_loop 0 x y.

(* hamming: if x[i] != y[i]: result += 1.0 ; return result / x.shape[0]   (numerator, denominator) *)
Fixpoint ham_loop (acc : Z) (x y : list Z) : Z :=
  match x, y with
  | a :: x', b :: y' => ham_loop (if a =? b then acc else acc + 1) x' y'
  | _, _ => acc
  end.
Definition hamming (x y : list Z) : Z * Z := (ham_loop 0 x y, Z.of_nat (length x)).

(* bray_curtis: numerator += |x-y|; denominator += |x+y|; if denominator > 0: num/den else 0 *)
Fixpoint bc_loop (num den : Z) (x y : list Z) : Z * Z :=
  match x, y with
  | a :: x', b :: y' => bc_loop (num + Z.abs (a - b)) (den + Z.abs (a + b)) x' y'
  | _, _ => (num, den)
  end.
Definition bray_curtis (x y : list Z) : Z * Z :=
  let '(n, d) := bc_loop 0 0 x y in if 0 <? d then (n, d) else (0, 1).

(* ---- CSR encoding of a dense vector, first index s ---- *)
Fixpoint sparsify (s : Z) (x : list Z) : svec :=
  match x with
  | [] => []
  | a :: x' => emit s a (sparsify (s + 1) x')
  end.

(* ---- sparse kernels: the same accumulators over sparse_diff's data array ---- *)
Definition sparse_squared_euclidean (a b : svec) : Z :=
  fold_left (fun acc p => acc + snd p * snd p) (sparse_diff a b) 0.
Definition sparse_manhattan (a b : svec) : Z :=
  fold_left (fun acc p => acc + Z.abs (snd p)) (sparse_diff a b) 0.
Definition sparse_chebyshev (a b : svec) : Z :=
  fold_left (fun acc p => Z.max acc (Z.abs (snd p))) (sparse_diff a b) 0.
(* sparse_hamming: num_not_equal = sparse_diff(...)[0].shape[0]; return num_not_equal / n_features *)
Definition sparse_hamming (a b : svec) (n_features : Z) : Z * Z :=
  (Z.of_nat (length (sparse_diff a b)), n_features).

(* ---- the angular family: cosine, alternative_cosine (surrogate), true_angular, dot, alternative_dot ----
   one loop accumulates  result += x[i]*y[i]; norm_x += x[i]*x[i]; norm_y += y[i]*y[i];
   the value is then a branch on exact zero tests followed by a transcendental wrapper of
   the ratio  result / sqrt(norm_x * norm_y), which the model keeps symbolic:
     AZero            0.0
     AOne             1.0
     AMax             FLOAT32_MAX (the "infinitely far" sentinel of the surrogates)
     ARatio r q       the wrapper applied to r / sqrt q       (q = norm_x * norm_y)        *)
Fixpoint cos_loop (r nx ny : Z) (x y : list Z) : Z * Z * Z :=
  match x, y with
  | a :: x', b :: y' => cos_loop (r + a * b) (nx + a * a) (ny + b * b) x' y'
  | _, _ => (r, nx, ny)
  end.

Inductive angval : Type := AZero | AOne | AMax | ARatio (r q : Z).

(* cosine: 1 - r / sqrt q *)
Definition cosine (x y : list Z) : angval :=
  let '(r, nx, ny) := cos_loop 0 0 0 x y in
  if (nx =? 0) && (ny =? 0) then AZero
  else if (nx =? 0) || (ny =? 0) then AOne
  else ARatio r (nx * ny).

(* alternative_cosine: log2 (sqrt q / r); true_angular: 1 - arccos (min 1 (r / sqrt q)) / pi — same branches *)
Definition alternative_cosine (x y : list Z) : angval :=
  let '(r, nx, ny) := cos_loop 0 0 0 x y in
  if (nx =? 0) && (ny =? 0) then AZero
  else if (nx =? 0) || (ny =? 0) then AMax
  else if r <=? 0 then AMax
  else ARatio r (nx * ny).

(* dot (on rows the index has normalised): result <= 0 -> 1.0 else 1 - result;  alternative_dot: FLOAT32_MAX / -log2 result.
   ARatio r 1: the wrapper applied to r itself *)
Fixpoint dot_loop (r : Z) (x y : list Z) : Z :=
  match x, y with
  | a :: x', b :: y' => dot_loop (r + a * b) x' y'
  | _, _ => r
  end.
Definition dot (x y : list Z) : angval := let r := dot_loop 0 x y in if r <=? 0 then AOne else ARatio r 1.
Definition alternative_dot (x y : list Z) : angval := let r := dot_loop 0 x y in if r <=? 0 then AMax else ARatio r 1.

(* ---- sparse twins of the angular kernels ----
   sparse_cosine / sparse_alternative_cosine:  _, aux_data = sparse_mul(...); result = sum(aux_data);
   norm1 = norm(data1), norm2 = norm(data2) (sqrt of the sum of squares: zero iff the sum of squares is zero);
   same branches as the dense kernels, ratio result / (norm1 * norm2) = result / sqrt (nx * ny) *)
Definition sum_vals (v : svec) : Z := fold_left (fun acc p => acc + snd p) v 0.
Definition norm_sq (v : svec) : Z := fold_left (fun acc p => acc + snd p * snd p) v 0.
Definition sparse_cosine (a b : svec) : angval :=
  let r := sum_vals (sparse_mul a b) in let nx := norm_sq a in let ny := norm_sq b in
  if (nx =? 0) && (ny =? 0) then AZero
  else if (nx =? 0) || (ny =? 0) then AOne
  else ARatio r (nx * ny).
Definition sparse_alternative_cosine (a b : svec) : angval :=
  let r := sum_vals (sparse_mul a b) in let nx := norm_sq a in let ny := norm_sq b in
  if (nx =? 0) && (ny =? 0) then AZero
  else if (nx =? 0) || (ny =? 0) then AMax
  else if r <=? 0 then AMax
  else ARatio r (nx * ny).
