(* Metrics.v — executable model of the count-based (binary) metrics of
   pynndescent/distances.py.  Each kernel first counts, over the coordinates,
   ntt = #(x!=0 & y!=0), ntf = #(x!=0 & y==0), nft = #(x==0 & y!=0) and then
   evaluates a formula with explicit special-case branches.  A value is the exact
   fraction (numerator, denominator).  NO proofs. *)
From Coq Require Import ZArith List Bool.
Import ListNotations.
Open Scope Z_scope.

Definition frac := (Z * Z)%type.
Definition zero_frac : frac := (0, 1).

(* the counting loop *)
Fixpoint counts (x y : list bool) : Z * Z * Z :=
  match x, y with
  | a :: x', b :: y' =>
    let '(ntt, ntf, nft) := counts x' y' in
    (if a && b then ntt + 1 else ntt,
     if a && negb b then ntf + 1 else ntf,
     if negb a && b then nft + 1 else nft)
  | _, _ => (0, 0, 0)
  end.

Section Formulas.
  Variables n ntt ntf nft : Z.              (* n = dimension *)
  Definition neq := ntf + nft.
  Definition ff := n - ntt - ntf - nft.

  Definition m_hamming : frac := (neq, n).
  Definition m_matching : frac := (neq, n).
  Definition m_jaccard : frac :=
    let nnz := ntt + ntf + nft in if nnz =? 0 then zero_frac else (nnz - ntt, nnz).
  Definition m_dice : frac := if neq =? 0 then zero_frac else (neq, 2 * ntt + neq).
  Definition m_kulsinski : frac := if neq =? 0 then zero_frac else (neq - ntt + n, neq + n).
  Definition m_rogerstanimoto : frac := (2 * neq, n + neq).
  Definition m_sokalmichener : frac := (2 * neq, n + neq).
  (* num_true_true == sum(x != 0) and == sum(y != 0)  <=>  ntf = 0 and nft = 0 *)
  Definition m_russellrao : frac := if (ntf =? 0) && (nft =? 0) then zero_frac else (n - ntt, n).
  (* neq / (0.5 * ntt + neq), scaled by 2 *)
  Definition m_sokalsneath : frac := if neq =? 0 then zero_frac else (2 * neq, ntt + 2 * neq).
  Definition m_yule : frac :=
    if (ntf =? 0) || (nft =? 0) then zero_frac else (2 * ntf * nft, ntt * ff + ntf * nft).
End Formulas.
