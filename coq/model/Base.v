(* Base.v — array helpers shared by all executable models.  NO proofs here. *)
From Coq Require Export ZArith List Bool.
Export ListNotations.
Open Scope Z_scope.

(* In-place array assignment a[i] = v, as a function returning the new array.
   Out-of-range writes leave the list unchanged (the code never does them on
   the inputs the theorems admit; the correspondence check would see them). *)
Fixpoint upd {A} (i : nat) (v : A) (l : list A) : list A :=
  match l, i with
  | [], _ => []
  | _ :: t, O => v :: t
  | h :: t, S i' => h :: upd i' v t
  end.

Definition getZ (l : list Z) (i : nat) : Z := nth i l 0.

(* rows of a 2-D array *)
Definition getRow (m : list (list Z)) (i : nat) : list Z := nth i m [].

Definition zidx (z : Z) : nat := Z.to_nat z.

(* Python-style range [0, n) as nats *)
Definition range (n : nat) : list nat := seq 0 n.
