(* Diversify.v — executable model of the four diversification kernels:
     pynndescent_.diversify      / sparse.diversify       (forward, row-wise)
     pynndescent_.diversify_csr  / sparse.diversify_csr   (reverse, CSR rows)
   one row at a time (the prange over rows is executed in row order; the
   generator state is threaded through, which is what one thread does).
   [dm a b] = dist(data[a], data[b]) as an order key; [draw] is the generator
   (tau_rand in the extracted code); [eps] the key of FLOAT32_EPS; [prob] the
   key of prune_probability (a float32-representable value).  NO proofs. *)
From Coq Require Import ZArith List Bool.
From PV Require Import Base.
Import ListNotations.
Open Scope Z_scope.

Section Diversify.
  Variable dm : nat -> nat -> Z.
  Variable npts : nat.                       (* number of data rows, for numpy's negative-index wrap *)
  Variable draw : list Z -> Z * list Z.
  Variable eps prob inf : Z.

  Definition didx (z : Z) : nat := zidx (if z <? 0 then Z.of_nat npts + z else z).

  (* inner loop of the forward version: scan the kept list [new] in order *)
  Fixpoint fwd_scan (new : list (Z * Z)) (cj dj : Z) (rng : list Z) : bool * list Z :=
    match new with
    | [] => (true, rng)
    | (c, dc) :: rest =>
      let d := dm (didx cj) (didx c) in
      if (eps <? dc) && (d <? dj) then
        let '(r, rng') := draw rng in
        if r <? prob then (false, rng') else fwd_scan rest cj dj rng'
      else fwd_scan rest cj dj rng
    end.

  (* for j in 1..: stop at the first negative index *)
  Fixpoint fwd_loop (rest : list (Z * Z)) (new : list (Z * Z)) (rng : list Z) : list (Z * Z) * list Z :=
    match rest with
    | [] => (new, rng)
    | (cj, dj) :: rest' =>
      if cj <? 0 then (new, rng)
      else
        let '(flag, rng') := fwd_scan new cj dj rng in
        fwd_loop rest' (if flag then new ++ [(cj, dj)] else new) rng'
    end.

  (* one row of diversify: returns the rewritten (indices, distances) row *)
  Definition diversify_row (inds ds : list Z) (rng : list Z) : list Z * list Z * list Z :=
    match combine inds ds with
    | [] => (inds, ds, rng)
    | first :: rest =>
      let '(new, rng') := fwd_loop rest [first] rng in
      let pad := (length inds - length new)%nat in
      (map fst new ++ repeat (-1) pad, map snd new ++ repeat inf pad, rng')
    end.

  (* the prange body of row i works on a PRIVATE generator state local_rng_state = rng_state + i;
     the index's state is not advanced *)
  Definition row_rng (rng : list Z) (i : nat) : list Z := map (fun w => w + Z.of_nat i) rng.

  Definition diversify (inds ds : list (list Z)) (rng : list Z) : list (list Z) * list (list Z) * list Z :=
    let rows := map (fun (ir : nat * (list Z * list Z)) =>
                       let '(ri, rd, _) := diversify_row (fst (snd ir)) (snd (snd ir)) (row_rng rng (fst ir)) in (ri, rd))
                    (combine (seq 0 (length inds)) (combine inds ds)) in
    (map fst rows, map snd rows, rng).

  (* ---------- CSR version.  [order] = np.argsort(current_data) as computed by the
     compiled code (any permutation sorting the row: the theorems quantify over
     it).  [use_l]: true = compare with current_indices[order[k]] (sparse.py and
     the repaired dense code); false = current_indices[k] (pinned dense code). *)
  Variable use_l : bool.

  (* inner loop: k ranges over positions 0..idx-1 of [order] *)
  Fixpoint csr_scan (cur_i cur_d : list Z) (retained : list Z) (ks : list (nat * Z)) (j : nat) (rng : list Z)
    : bool * list Z :=
    match ks with
    | [] => (true, rng)
    | (k, l) :: rest =>
      let l := zidx l in
      if getZ retained l =? 1 then
        let other := if use_l then getZ cur_i l else getZ cur_i k in
        let d := dm (didx (getZ cur_i j)) (didx other) in
        if (eps <? getZ cur_d l) && (d <? getZ cur_d j) then
          let '(r, rng') := draw rng in
          if r <? prob then (false, rng') else csr_scan cur_i cur_d retained rest j rng'
        else csr_scan cur_i cur_d retained rest j rng
      else csr_scan cur_i cur_d retained rest j rng
    end.

  (* outer loop over idx = 1..: [done] = order[0..idx-1] with their positions *)
  Fixpoint csr_loop (cur_i cur_d : list Z) (todo : list Z) (done : list (nat * Z)) (retained : list Z) (rng : list Z)
    : list Z * list Z :=
    match todo with
    | [] => (retained, rng)
    | j :: todo' =>
      let jn := zidx j in
      let '(keep, rng') := csr_scan cur_i cur_d retained done jn rng in
      let retained' := if keep then retained else upd jn 0 retained in
      csr_loop cur_i cur_d todo' (done ++ [(length done, j)]) retained' rng'
    end.

  Definition diversify_csr_row (cur_i cur_d order : list Z) (rng : list Z) : list Z * list Z :=
    match order with
    | [] => (cur_d, rng)
    | o0 :: rest =>
      let '(retained, rng') := csr_loop cur_i cur_d rest [(0%nat, o0)] (repeat 1 (length cur_d)) rng in
      (map (fun (dr : Z * Z) => if snd dr =? 0 then 0 else fst dr) (combine cur_d retained), rng')
    end.
End Diversify.
