(* Lifecycle.v — executable model of the data bookkeeping of NNDescent over a history of
   prepare / query / update / compress / pickle (C04).  Rows are opaque tokens (Z); the
   harness maps tokens to actual vectors.  The tree order produced by each (re)build of the
   search forest is an ORACLE supplied with the operation (the harness passes the
   implementation's _vertex_order); everything else follows NNDescent.update /
   _init_search_graph line by line.  NO proofs. *)
From Coq Require Import ZArith List Bool Arith.
From PV Require Import Base.
Import ListNotations.
Open Scope Z_scope.

Record lstate := {
  raw : list Z;                    (* self._raw_data, row tokens in storage order *)
  vorder : option (list nat);      (* self._vertex_order *)
  has_graph : bool;                (* self._neighbor_graph present *)
  graph_rows : nat;                (* rows of self._neighbor_graph *)
  searchable : bool                (* _search_graph/_search_forest/_search_function present *)
}.

Definition gather (l : list Z) (idx : list nat) : list Z := map (fun i => nth i l (-1)) idx.

Fixpoint index_of (i : nat) (p : list nat) : nat :=
  match p with [] => O | x :: r => if Nat.eqb x i then O else S (index_of i r) end.
(* np.argsort of a permutation = its inverse *)
Definition argsort_perm (p : list nat) : list nat := map (fun i => index_of i p) (seq 0 (length p)).

(* for x_updated, i_fresh in zip(xs_updated, updated_indices): raw[i_fresh] = x_updated *)
Fixpoint replace_rows (l : list Z) (ids : list nat) (xs : list Z) : list Z :=
  match ids, xs with
  | i :: ids', x :: xs' => replace_rows (upd i x l) ids' xs'
  | _, _ => l
  end.

Inductive lop :=
| LPrepare (perm : list nat)       (* prepare / query / compress / pickle: build the search structures if absent *)
| LCompress (perm : list nat)
| LUpdate (fresh : list Z) (ids : list nat) (xs : list Z) (perm : list nat).

Definition do_prepare (s : lstate) (perm : list nat) : lstate :=
  if searchable s then s
  else {| raw := gather (raw s) perm; vorder := Some perm; has_graph := has_graph s; graph_rows := graph_rows s; searchable := true |}.

(* result: new state, and whether the operation raised *)
Definition lstep (s : lstate) (o : lop) : lstate * bool :=
  match o with
  | LPrepare perm => (do_prepare s perm, false)
  | LCompress perm =>
    let s1 := do_prepare s perm in
    ({| raw := raw s1; vorder := vorder s1; has_graph := false; graph_rows := O; searchable := true |}, false)
  | LUpdate fresh ids xs perm =>
    if negb (has_graph s) then (s, true)          (* compressed index: refuses before touching anything *)
    else
      let original := match vorder s with Some p => gather (raw s) (argsort_perm p) | None => raw s end in
      let data := replace_rows original ids xs ++ fresh in
      let s1 := {| raw := data; vorder := vorder s; has_graph := true; graph_rows := length data; searchable := false |} in
      if searchable s then (do_prepare s1 perm, false) else (s1, false)
  end.

Fixpoint lrun (s : lstate) (ops : list lop) : list (lstate * bool) :=
  match ops with
  | [] => []
  | o :: r => let '(s', e) := lstep s o in (s', e) :: lrun s' r
  end.

Definition linit (data : list Z) : lstate :=
  {| raw := data; vorder := None; has_graph := true; graph_rows := length data; searchable := false |}.

(* the logical dataset: replacements applied, fresh rows appended (an update that raised changes nothing) *)
Definition logical_step (l : list Z) (o : lop) (raised : bool) : list Z :=
  match o with
  | LUpdate fresh ids xs _ => if raised then l else replace_rows l ids xs ++ fresh
  | _ => l
  end.

(* ---- invalidation of the neighbour graph rows of replaced points and of references to them ---- *)
Definition memb (i : nat) (U : list nat) : bool := existsb (Nat.eqb i) U.
Definition memz (z : Z) (U : list nat) : bool := (0 <=? z) && memb (Z.to_nat z) U.
Definition dead (inf : Z) : Z * Z := (-1, inf).

Definition invalidate_row (inf : Z) (U : list nat) (i : nat) (row : list (Z * Z)) : list (Z * Z) :=
  if memb i U then map (fun _ => dead inf) row
  else map (fun e => if memz (fst e) U then dead inf else e) row.

Fixpoint invalidate_from (inf : Z) (U : list nat) (i : nat) (g : list (list (Z * Z))) : list (list (Z * Z)) :=
  match g with
  | [] => []
  | row :: r => invalidate_row inf U i row :: invalidate_from inf U (S i) r
  end.
Definition invalidate (inf : Z) (U : list nat) (g : list (list (Z * Z))) := invalidate_from inf U O g.
