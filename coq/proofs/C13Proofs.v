(* C13Proofs.v — neighbour lists only ever improve: every kernel that writes the
   graph is a sequence of heap pushes, and a push never decreases, for any
   threshold t, the number of entries of a row with priority <= t. *)
From Coq Require Import ZArith List Bool Lia Permutation.
From PV Require Import Base Heap Rng NND ListAux HeapProofs HeapTopK HeapArrays HeapSort NNDProofs.
Import ListNotations.
Open Scope Z_scope.

Section Improve.
  Variable dm : nat -> nat -> Z.
  Variable inf : Z.
  Variables n k : nat.
  Hypothesis Hk : (0 < k)%nat.

  (* structural invariant only: rows are max-heaps (no assumption on the distances,
     so user-supplied init_dist values are covered) *)
  Definition HWF (g : graph) : Prop := wf_graph n k g /\ forall r, (r < n)%nat -> heapP (grow g r).

  (* g' is at least as good as g: rank-wise, in count form *)
  Definition gle (g g' : graph) : Prop :=
    forall r t, (count_le t (grow g r) <= count_le t (grow g' r))%nat.

  Lemma gle_refl g : gle g g.
  Proof. intros r t; lia. Qed.
  Lemma gle_trans g1 g2 g3 : gle g1 g2 -> gle g2 g3 -> gle g1 g3.
  Proof. intros H1 H2 r t. specialize (H1 r t). specialize (H2 r t). lia. Qed.

  Definition Good (g0 g : graph) : Prop := HWF g /\ gle g0 g.

  Lemma push_good g0 g r d j f :
    Good g0 g -> (r < n)%nat -> Good g0 (snd (push_row g r d j f)).
  Proof.
    intros [[Hwf Hh] Hle] Hr.
    destruct (push_row_spec n k g r d j f Hk Hwf Hr (Hh r Hr)) as [_ [Hwf' [Hrow' Hoth]]].
    assert (L0 : (0 < length (grow g r))%nat).
    { destruct Hwf as [_ [_ [_ Hl]]]. unfold grow. rewrite zip3_length. destruct (Hl r Hr) as [_ [-> _]]. auto. }
    split; [split; auto|].
    - intros r' Hr'. destruct (Nat.eq_dec r' r) as [->|Hne].
      + rewrite Hrow'. apply pushz_heap; auto.
      + rewrite Hoth by auto. auto.
    - apply gle_trans with g; auto. intros r' t.
      destruct (Nat.eq_dec r' r) as [->|Hne].
      + rewrite Hrow'. apply push_count_le_mono; auto.
      + rewrite Hoth by auto. lia.
  Qed.

  Definition upd_inrange (u : update) : Prop :=
    let '(p, q, d) := u in p = -1 \/ q = -1 \/ (0 <= p < Z.of_nat n /\ 0 <= q < Z.of_nat n).

  Lemma zlt z : 0 <= z < Z.of_nat n -> (zidx z < n)%nat.
  Proof. unfold zidx; lia. Qed.

  Lemma apply_both_good g0 g u : Good g0 g -> upd_inrange u -> Good g0 (apply_both g u).
  Proof.
    intros HG Hu. destruct u as [[p q] d]. unfold apply_both, upd_inrange in *.
    destruct (Z.eqb_spec p (-1)); [auto|]. destruct (Z.eqb_spec q (-1)); [auto|]. cbn [orb].
    destruct Hu as [?|[?|[Hp Hq]]]; try contradiction.
    apply push_good; auto using zlt. apply push_good; auto using zlt.
  Qed.

  Lemma apply_low_one_good T t g0 g c u :
    Good g0 g -> upd_inrange u -> Good g0 (fst (apply_low_one T t (g, c) u)).
  Proof.
    intros HG Hu. destruct u as [[p q] d]. unfold apply_low_one, upd_inrange in *.
    destruct (Z.eqb_spec p (-1)); [auto|]. destruct (Z.eqb_spec q (-1)); [auto|]. cbn [orb].
    destruct Hu as [?|[?|[Hp Hq]]]; try contradiction.
    assert (G1 : Good g0 (snd (push_row g (zidx p) d q 1))) by (apply push_good; auto using zlt).
    destruct (p mod T =? t).
    - destruct (push_row g (zidx p) d q 1) as [a g1]. cbn [snd] in G1.
      destruct (q mod T =? t); [|auto].
      assert (G2 : Good g0 (snd (push_row g1 (zidx q) d p 1))) by (apply push_good; auto using zlt).
      destruct (push_row g1 (zidx q) d p 1). auto.
    - destruct (q mod T =? t); [|auto].
      assert (G2 : Good g0 (snd (push_row g (zidx q) d p 1))) by (apply push_good; auto using zlt).
      destruct (push_row g (zidx q) d p 1). auto.
  Qed.

  Lemma apply_high_one_good b g0 g ing c u :
    Good g0 g -> upd_inrange u -> Good g0 (fst (fst (apply_high_one b (g, ing, c) u))).
  Proof.
    intros HG Hu. destruct u as [[p q] d]. unfold apply_high_one, upd_inrange in *.
    destruct (Z.eqb_spec p (-1)); [auto|]. destruct (Z.eqb_spec q (-1)); [auto|]. cbn [orb].
    destruct Hu as [?|[?|[Hp Hq]]]; try contradiction.
    destruct (memZ q (nth (zidx p) ing []) && memZ p (nth (zidx q) ing [])); [auto|].
    assert (G1 : Good g0 (snd (push_row g (zidx p) d q 1))) by (apply push_good; auto using zlt).
    destruct (memZ q (nth (zidx p) ing [])).
    - destruct (p =? q); cbn [orb]; [auto|]. destruct (memZ p (nth (zidx q) ing [])); [auto|].
      destruct b.
      + assert (G2 : Good g0 (snd (push_row g (zidx q) d p 1))) by (apply push_good; auto using zlt).
        destruct (push_row g (zidx q) d p 1) as [a g2]. destruct (0 <? a); auto.
      + destruct (push_row g (zidx p) d q 1) as [a g2]. destruct (0 <? a); auto.
    - destruct (push_row g (zidx p) d q 1) as [a g1]. cbn [snd] in G1.
      set (st1 := if 0 <? a then (g1, upd (zidx p) (q :: nth (zidx p) ing []) ing, c + a) else (g1, ing, c)).
      assert (E1 : fst (fst st1) = g1) by (unfold st1; destruct (0 <? a); auto).
      destruct st1 as [[g1' ing1] c1]. cbn [fst] in E1. subst g1'.
      destruct (p =? q); cbn [orb]; [auto|]. destruct (memZ p (nth (zidx q) ing1 [])); [auto|].
      destruct b.
      + assert (G2 : Good g0 (snd (push_row g1 (zidx q) d p 1))) by (apply push_good; auto using zlt).
        destruct (push_row g1 (zidx q) d p 1) as [a2 g2]. destruct (0 <? a2); auto.
      + assert (G2 : Good g0 (snd (push_row g1 (zidx p) d q 1))) by (apply push_good; auto using zlt).
        destruct (push_row g1 (zidx p) d q 1) as [a2 g2]. destruct (0 <? a2); auto.
  Qed.

  Lemma fold_pres {S U : Type} (P : S -> Prop) (f : S -> U -> S) (ok : U -> Prop) :
    (forall s u, P s -> ok u -> P (f s u)) ->
    forall us s, P s -> Forall ok us -> P (fold_left f us s).
  Proof.
    intros Hstep us. induction us as [|u us IH]; intros s Hs Hok; cbn; auto.
    inversion Hok; subst. apply IH; auto.
  Qed.

  Theorem apply_low_improves g0 g ups T :
    Good g0 g -> Forall (Forall upd_inrange) ups -> Good g0 (fst (apply_graph_updates_low_memory g ups T)).
  Proof.
    intros HG Hok. unfold apply_graph_updates_low_memory.
    apply (fold_pres (S := graph * Z) (fun s => Good g0 (fst s)) _ (fun _ : Z => True)); auto; [|apply Forall_forall; auto].
    intros s t Hs _.
    apply (fold_pres (S := graph * Z) (fun s => Good g0 (fst s)) _ (Forall upd_inrange)); auto.
    intros s' ul Hs' Hul.
    apply (fold_pres (S := graph * Z) (fun s => Good g0 (fst s)) _ upd_inrange); auto.
    intros [g1 c1] u Hg Hu. apply apply_low_one_good; auto.
  Qed.

  Theorem apply_high_improves b g0 g ups ing :
    Good g0 g -> Forall (Forall upd_inrange) ups ->
    Good g0 (fst (fst (apply_graph_updates_high_memory b g ups ing))).
  Proof.
    intros HG Hok. unfold apply_graph_updates_high_memory.
    apply (fold_pres (S := graph * list (list Z) * Z) (fun s => Good g0 (fst (fst s))) _ (Forall upd_inrange)); auto.
    intros s ul Hs Hul.
    apply (fold_pres (S := graph * list (list Z) * Z) (fun s => Good g0 (fst (fst s))) _ upd_inrange); auto.
    intros [[g1 i1] c1] u Hg Hu. apply apply_high_one_good; auto.
  Qed.

  Lemma init_random_row_good : forall cnt i g0 g rng,
    (0 < n)%nat -> (i < n)%nat -> Good g0 g -> Good g0 (fst (init_random_row dm cnt n i g rng)).
  Proof.
    induction cnt as [|cnt IH]; intros i g0 g rng Hn Hi HG; cbn [init_random_row]; [auto|].
    destruct (tau_rand_int rng) as [r rng']. apply IH; auto. apply push_good; auto.
  Qed.

  Theorem init_random_improves g0 g rng : Good g0 g -> Good g0 (fst (init_random dm k n g rng)).
  Proof.
    intros HG. unfold init_random.
    assert (H : forall l st, Forall (fun i => (i < n)%nat) l -> Good g0 (fst st) ->
                Good g0 (fst (fold_left (fun (st : graph * list Z) i =>
                     let '(g, rng) := st in
                     if getZ (getRow (g_ind g) i) 0 <? 0
                     then init_random_row dm (k - count_nonneg (getRow (g_ind g) i)) n i g rng
                     else st) l st))).
    { induction l as [|i l IH]; intros st Hl Hst; cbn [fold_left]; auto.
      inversion Hl; subst. apply IH; auto. destruct st as [g1 r1].
      destruct (_ <? 0); auto. apply init_random_row_good; auto; lia. }
    apply H; auto. apply Forall_forall. intros i Hi. apply in_seq in Hi. lia.
  Qed.

  Theorem init_rp_tree_improves g0 g ups :
    Good g0 g -> Forall (Forall upd_inrange) ups ->
    Good g0 (fold_left (fun g ul => fold_left apply_both ul g) ups g).
  Proof.
    intros HG Hok.
    apply (fold_pres (S := graph) (Good g0) _ (Forall upd_inrange)); auto.
    intros s ul Hs Hul. apply (fold_pres (S := graph) (Good g0) _ upd_inrange); auto.
    intros; apply apply_both_good; auto.
  Qed.

  (* sorting a row does not change its rank profile *)
  Lemma count_le_perm' t l l' : Permutation l l' -> count_le t l = count_le t l'.
  Proof. apply count_le_perm. Qed.
End Improve.
