(* C01Proofs.v — the neighbour-graph invariant and its preservation by the
   NN-descent kernels of model/NND.v. *)
From Coq Require Import ZArith List Bool Lia Permutation.
From PV Require Import Base Heap Rng NND ListAux HeapProofs HeapTopK HeapArrays HeapSort NNDProofs.
Import ListNotations.
Open Scope Z_scope.

Section GraphInv.
  Variable dm : nat -> nat -> Z.      (* dist(data[a], data[b]) as an order key *)
  Variable inf : Z.
  Variables n k : nat.
  Hypothesis Hk : (0 < k)%nat.
  Hypothesis dm_sym : forall a b, dm a b = dm b a.
  Hypothesis dm_le_inf : forall a b, dm a b <= inf.

  (* one row: a max-heap whose real entries are distinct in-range row numbers
     carrying the true distance, and whose sentinels carry +inf *)
  Definition RowWF (r : nat) (l : list entry) : Prop :=
    heapP l /\ NoDup (map eid (real l)) /\
    forall e, In e l ->
      (eid e = -1 /\ key e = inf) \/
      (0 <= eid e < Z.of_nat n /\ key e = dm r (zidx (eid e)) /\ key e < inf).

  Definition GWF (g : graph) : Prop :=
    wf_graph n k g /\ forall r, (r < n)%nat -> RowWF r (grow g r).

  Lemma real_perm' l l' : Permutation l l' -> Permutation (map eid (real l)) (map eid (real l')).
  Proof. intros P. apply Permutation_map. unfold real.
    induction P; simpl; auto.
    - destruct (is_real x); auto.
    - destruct (is_real x), (is_real y); auto. apply perm_swap.
    - eapply perm_trans; eauto.
  Qed.

  (* ONE push of a true distance keeps the row invariant *)
  Lemma RowWF_push r l d j f :
    (0 < length l)%nat -> RowWF r l -> 0 <= j < Z.of_nat n -> d = dm r (zidx j) ->
    RowWF r (snd (pushz true l (d, j, f))).
  Proof.
    intros L0 [Hh [Hnd Hent]] Hj Hd.
    pose proof (pushz_outcome true l (d, j, f) L0 Hh) as PO.
    inversion PO as [Hw E | Hlt Hc Hdup E | l' Hlt Hc P Hh' Ll' E]; cbn [snd]; [split; auto|split; auto|].
    cbn [key eid fst snd] in *.
    assert (Hroot_in : In (getE l 0) l) by (apply getE_In; auto).
    assert (Hsub : forall e, In e l' -> e = (d, j, f) \/ In e l).
    { intros e He. assert (H : In e ((d, j, f) :: l)) by (eapply Permutation_in; [exact P|right; auto]).
      destruct H as [<-|]; auto. }
    split; [auto|]. split.
    - assert (Q : Permutation (map eid (real (getE l 0 :: l'))) (map eid (real ((d, j, f) :: l))))
        by (apply real_perm'; auto).
      assert (Hreal : is_real (d, j, f) = true).
      { unfold is_real. cbn [eid fst snd]. destruct (Z.eqb_spec j (-1)); auto. lia. }
      assert (ND : NoDup (map eid (real ((d, j, f) :: l)))).
      { unfold real at 1. cbn [filter]. rewrite Hreal. cbn [map eid fst snd].
        constructor; auto. intros Hin. apply (Hc eq_refl).
        apply in_map_iff in Hin. destruct Hin as [e [He Hin]].
        apply filter_In in Hin. apply in_map_iff. exists e. tauto. }
      apply Permutation_sym in Q. eapply Permutation_NoDup in ND; [|exact Q].
      unfold real at 1 in ND. cbn [filter] in ND. destruct (is_real (getE l 0)); auto.
      cbn [map] in ND. inversion ND; auto.
    - intros e He. destruct (Hsub e He) as [->|Hin]; [|auto].
      right. cbn [key eid fst snd]. repeat split; try lia.
      pose proof (heapP_In_le_root _ _ Hh Hroot_in).
      destruct (Hent _ Hroot_in) as [[_ E']|[_ [_ E']]]; lia.
  Qed.

  Lemma GWF_push g r d j f :
    GWF g -> (r < n)%nat -> 0 <= j < Z.of_nat n -> d = dm r (zidx j) ->
    GWF (snd (push_row g r d j f)).
  Proof.
    intros [Hwf Hrows] Hr Hj Hd.
    destruct (Hrows r Hr) as [Hh Hrest].
    destruct (push_row_spec n k g r d j f Hk Hwf Hr Hh) as [_ [Hwf' [Hrow' Hoth]]].
    split; [auto|]. intros r' Hr'. destruct (Nat.eq_dec r' r) as [->|Hne].
    - rewrite Hrow'.
      assert (L0 : (0 < length (grow g r))%nat).
      { destruct Hwf as [_ [_ [_ Hl]]]. unfold grow. rewrite zip3_length. destruct (Hl r Hr) as [_ [-> _]]. auto. }
      assert (RW : RowWF r (grow g r)) by (split; auto).
      apply RowWF_push; auto.
    - rewrite Hoth by auto. apply Hrows; auto.
  Qed.

  (* updates whose endpoints are in range and whose distance is the true one *)
  Definition upd_true (u : update) : Prop :=
    let '(p, q, d) := u in
    p = -1 \/ q = -1 \/ (0 <= p < Z.of_nat n /\ 0 <= q < Z.of_nat n /\ d = dm (zidx p) (zidx q)).

  Lemma zidx_lt z : 0 <= z < Z.of_nat n -> (zidx z < n)%nat.
  Proof. unfold zidx; lia. Qed.

  Lemma apply_both_GWF g u : GWF g -> upd_true u -> GWF (apply_both g u).
  Proof.
    intros HG Hu. destruct u as [[p q] d]. unfold apply_both, upd_true in *.
    destruct (Z.eqb_spec p (-1)); [auto|]. destruct (Z.eqb_spec q (-1)); [auto|]. cbn [orb].
    destruct Hu as [?|[?|[Hp [Hq Hd]]]]; try contradiction.
    apply GWF_push; auto using zidx_lt. 2:{ rewrite Hd. apply dm_sym. }
    apply GWF_push; auto using zidx_lt.
  Qed.

  Lemma apply_low_one_GWF T t g c u : GWF g -> upd_true u -> GWF (fst (apply_low_one T t (g, c) u)).
  Proof.
    intros HG Hu. destruct u as [[p q] d]. unfold apply_low_one, upd_true in *.
    destruct (Z.eqb_spec p (-1)); [auto|]. destruct (Z.eqb_spec q (-1)); [auto|]. cbn [orb].
    destruct Hu as [?|[?|[Hp [Hq Hd]]]]; try contradiction.
    assert (G1 : GWF (snd (push_row g (zidx p) d q 1))) by (apply GWF_push; auto using zidx_lt).
    destruct (p mod T =? t).
    - destruct (push_row g (zidx p) d q 1) as [a g1]. cbn [snd] in G1.
      destruct (q mod T =? t); [|auto].
      assert (G2 : GWF (snd (push_row g1 (zidx q) d p 1))).
      { apply GWF_push; auto using zidx_lt. rewrite Hd. apply dm_sym. }
      destruct (push_row g1 (zidx q) d p 1). auto.
    - destruct (q mod T =? t); [|auto].
      assert (G2 : GWF (snd (push_row g (zidx q) d p 1))).
      { apply GWF_push; auto using zidx_lt. rewrite Hd. apply dm_sym. }
      destruct (push_row g (zidx q) d p 1). auto.
  Qed.

  Lemma apply_high_one_GWF b g ing c u :
    GWF g -> upd_true u -> GWF (fst (fst (apply_high_one b (g, ing, c) u))).
  Proof.
    intros HG Hu. destruct u as [[p q] d]. unfold apply_high_one, upd_true in *.
    destruct (Z.eqb_spec p (-1)); [auto|]. destruct (Z.eqb_spec q (-1)); [auto|]. cbn [orb].
    destruct Hu as [?|[?|[Hp [Hq Hd]]]]; try contradiction.
    destruct (memZ q (nth (zidx p) ing []) && memZ p (nth (zidx q) ing [])); [auto|].
    assert (G1 : GWF (snd (push_row g (zidx p) d q 1))) by (apply GWF_push; auto using zidx_lt).
    destruct (memZ q (nth (zidx p) ing [])).
    - destruct (p =? q); cbn [orb]; [auto|]. destruct (memZ p (nth (zidx q) ing [])); [auto|].
      destruct b.
      + assert (G2 : GWF (snd (push_row g (zidx q) d p 1))).
        { apply GWF_push; auto using zidx_lt. rewrite Hd. apply dm_sym. }
        destruct (push_row g (zidx q) d p 1) as [a g2]. destruct (0 <? a); auto.
      + destruct (push_row g (zidx p) d q 1) as [a g2]. destruct (0 <? a); auto.
    - destruct (push_row g (zidx p) d q 1) as [a g1]. cbn [snd] in G1.
      set (st1 := if 0 <? a then (g1, upd (zidx p) (q :: nth (zidx p) ing []) ing, c + a) else (g1, ing, c)).
      assert (E1 : fst (fst st1) = g1) by (unfold st1; destruct (0 <? a); auto).
      destruct st1 as [[g1' ing1] c1]. cbn [fst] in E1. subst g1'.
      destruct (p =? q); cbn [orb]; [auto|]. destruct (memZ p (nth (zidx q) ing1 [])); [auto|].
      destruct b.
      + assert (G2 : GWF (snd (push_row g1 (zidx q) d p 1))).
        { apply GWF_push; auto using zidx_lt. rewrite Hd. apply dm_sym. }
        destruct (push_row g1 (zidx q) d p 1) as [a2 g2]. destruct (0 <? a2); auto.
      + assert (G2 : GWF (snd (push_row g1 (zidx p) d q 1))) by (apply GWF_push; auto using zidx_lt).
        destruct (push_row g1 (zidx p) d q 1) as [a2 g2]. destruct (0 <? a2); auto.
  Qed.

  (* generic folds *)
  Lemma fold_GWF {S U : Type} (proj : S -> graph) (f : S -> U -> S) (ok : U -> Prop) :
    (forall s u, GWF (proj s) -> ok u -> GWF (proj (f s u))) ->
    forall us s, GWF (proj s) -> Forall ok us -> GWF (proj (fold_left f us s)).
  Proof.
    intros Hstep us. induction us as [|u us IH]; intros s Hs Hok; cbn; auto.
    inversion Hok; subst. apply IH; auto.
  Qed.

  Theorem apply_low_GWF g ups T :
    GWF g -> Forall (Forall upd_true) ups -> GWF (fst (apply_graph_updates_low_memory g ups T)).
  Proof.
    intros HG Hok. unfold apply_graph_updates_low_memory.
    apply (fold_GWF (S := graph * Z) fst _ (fun _ : Z => True)); auto; [|apply Forall_forall; auto].
    intros s t Hs _.
    apply (fold_GWF (S := graph * Z) fst _ (Forall upd_true)); auto.
    intros s' ul Hs' Hul.
    apply (fold_GWF (S := graph * Z) fst _ upd_true); auto.
    intros [g0 c0] u Hg Hu. apply apply_low_one_GWF; auto.
  Qed.

  Theorem apply_high_GWF b g ups ing :
    GWF g -> Forall (Forall upd_true) ups -> GWF (fst (fst (apply_graph_updates_high_memory b g ups ing))).
  Proof.
    intros HG Hok. unfold apply_graph_updates_high_memory.
    apply (fold_GWF (S := graph * list (list Z) * Z) (fun s => fst (fst s)) _ (Forall upd_true)); auto.
    intros s ul Hs Hul.
    apply (fold_GWF (S := graph * list (list Z) * Z) (fun s => fst (fst s)) _ upd_true); auto.
    intros [[g0 i0] c0] u Hg Hu. apply apply_high_one_GWF; auto.
  Qed.

  Theorem init_rp_tree_step_GWF g ups :
    GWF g -> Forall (Forall upd_true) ups -> GWF (fold_left (fun g ul => fold_left apply_both ul g) ups g).
  Proof.
    intros HG Hok.
    apply (fold_GWF (S := graph) (fun g => g) _ (Forall upd_true)); auto.
    intros s ul Hs Hul. apply (fold_GWF (S := graph) (fun g => g) _ upd_true); auto.
    intros; apply apply_both_GWF; auto.
  Qed.

  (* the empty heap is well formed *)
  Lemma GWF_make_heap : GWF (make_heap inf n k).
  Proof.
    split.
    - unfold wf_graph, make_heap. cbn. rewrite !repeat_length. repeat split; auto;
        unfold getRow; rewrite nth_repeat_lt by auto; apply repeat_length.
    - intros r Hr. unfold grow, make_heap. cbn [g_ind g_dist g_flag]. unfold getRow.
      rewrite !nth_repeat_lt by auto.
      change (zip3 (repeat inf k) (repeat (-1) k) (repeat 0 k)) with (zipa (empty_row inf k)).
      rewrite zipa_empty_row.
      pose proof (Inv_empty (fun _ => 0) inf k) as I. destruct I as [_ Hh _ Hnd _].
      split; [auto|]. split; [auto|].
      intros e He. apply repeat_spec in He. subst. left. auto.
  Qed.

  (* ---------------- update generation yields true updates ---------------- *)
  Definition id_ok (q : Z) : Prop := q < 0 \/ 0 <= q < Z.of_nat n.

  Lemma cand_pairs_true thr p qs :
    0 <= p < Z.of_nat n -> Forall id_ok qs -> Forall upd_true (cand_pairs dm thr p qs).
  Proof.
    intros Hp Hq. unfold cand_pairs. apply Forall_forall. intros u Hu.
    apply in_flat_map in Hu. destruct Hu as [q [Hqin Hu]].
    rewrite Forall_forall in Hq. specialize (Hq q Hqin).
    destruct (Z.ltb_spec q 0); [destruct Hu|].
    destruct (_ || _); [|destruct Hu]. destruct Hu as [<-|[]].
    unfold upd_true. right; right. destruct Hq; [lia|]. repeat split; auto; lia.
  Qed.

  Lemma graph_updates_row_true thr oldrow : forall newrow,
    Forall id_ok newrow -> Forall id_ok oldrow ->
    Forall upd_true (graph_updates_row dm thr newrow oldrow).
  Proof.
    induction newrow as [|p rest IH]; intros Hn Ho; cbn [graph_updates_row]; [constructor|].
    inversion Hn as [|? ? Hp Hrest]; subst.
    apply Forall_app. split; [|apply IH; auto].
    destruct (Z.ltb_spec p 0); [constructor|].
    destruct Hp as [|Hp]; [lia|].
    apply Forall_app. split; apply cand_pairs_true; auto.
  Qed.

  Theorem generate_graph_updates_true thr newc oldc :
    Forall (Forall id_ok) newc -> Forall (Forall id_ok) oldc ->
    Forall (Forall upd_true) (generate_graph_updates inf dm thr newc oldc).
  Proof.
    intros Hn Ho. unfold generate_graph_updates. apply Forall_forall. intros ul Hul.
    apply in_map_iff in Hul. destruct Hul as [[nr or] [<- Hin]].
    constructor; [left; reflexivity|].
    apply graph_updates_row_true.
    - rewrite Forall_forall in Hn. apply Hn. eapply in_combine_l; eauto.
    - rewrite Forall_forall in Ho. apply Ho. eapply in_combine_r; eauto.
  Qed.

  Lemma leaf_inner_true thr p : forall rest,
    0 <= p < Z.of_nat n -> Forall id_ok rest -> Forall upd_true (leaf_inner dm thr p rest).
  Proof.
    induction rest as [|q rest IH]; intros Hp Hr; cbn [leaf_inner]; [constructor|].
    inversion Hr as [|? ? Hq Hrest]; subst.
    destruct (Z.ltb_spec q 0); [constructor|]. destruct Hq as [|Hq]; [lia|].
    destruct (_ || _); [constructor|]; auto.
    unfold upd_true. right; right. repeat split; auto; lia.
  Qed.

  Lemma leaf_updates_row_true thr : forall leaf,
    Forall id_ok leaf -> Forall upd_true (leaf_updates_row dm thr leaf).
  Proof.
    induction leaf as [|p rest IH]; intros Hl; cbn [leaf_updates_row]; [constructor|].
    inversion Hl as [|? ? Hp Hrest]; subst.
    destruct (Z.ltb_spec p 0); [constructor|]. destruct Hp as [|Hp]; [lia|].
    apply Forall_app. split; [apply leaf_inner_true; auto|apply IH; auto].
  Qed.

  Theorem init_rp_tree_GWF g leaves :
    GWF g -> Forall (Forall id_ok) leaves -> GWF (init_rp_tree inf dm g leaves).
  Proof.
    intros HG Hl. unfold init_rp_tree. apply init_rp_tree_step_GWF; auto.
    unfold generate_leaf_updates. apply Forall_forall. intros ul Hul.
    apply in_map_iff in Hul. destruct Hul as [leaf [<- Hin]].
    constructor; [left; reflexivity|]. apply leaf_updates_row_true.
    rewrite Forall_forall in Hl. auto.
  Qed.

  (* ---------------- init_random ---------------- *)
  Lemma init_random_row_GWF : forall cnt i g rng,
    (0 < n)%nat -> (i < n)%nat -> GWF g -> GWF (fst (init_random_row dm cnt n i g rng)).
  Proof.
    induction cnt as [|cnt IH]; intros i g rng Hn Hi HG; cbn [init_random_row]; [auto|].
    destruct (tau_rand_int rng) as [r rng'].
    apply IH; auto. apply GWF_push; auto; try (apply Z.mod_pos_bound; lia); try apply dm_sym.
  Qed.

  Theorem init_random_GWF g rng : GWF g -> GWF (fst (init_random dm k n g rng)).
  Proof.
    intros HG. unfold init_random.
    assert (H : forall l st, Forall (fun i => (i < n)%nat) l -> GWF (fst st) ->
                GWF (fst (fold_left (fun (st : graph * list Z) i =>
                     let '(g, rng) := st in
                     if getZ (getRow (g_ind g) i) 0 <? 0
                     then init_random_row dm (k - count_nonneg (getRow (g_ind g) i)) n i g rng
                     else st) l st))).
    { induction l as [|i l IH]; intros st Hl Hst; cbn [fold_left]; auto.
      inversion Hl; subst. apply IH; auto. destruct st as [g0 r0].
      destruct (_ <? 0); auto. apply init_random_row_GWF; auto; lia. }
    apply H; auto. apply Forall_forall. intros i Hi. apply in_seq in Hi. lia.
  Qed.

  (* ---------------- flags do not matter ---------------- *)
  Lemma heapP_keys l l' : map key l = map key l' -> heapP l -> heapP l'.
  Proof.
    intros E H j c Hc Hl.
    assert (Ll : length l' = length l) by (rewrite <- (map_length key l'), <- E, map_length; auto).
    assert (G : forall i, key (getE l' i) = key (getE l i)).
    { intros i. rewrite <- !getZ_map_key, E. reflexivity. }
    rewrite !G. apply H; auto. lia.
  Qed.

  Lemma RowWF_flags r ds ids fs fs' :
    length ids = length ds -> length fs = length ds -> length fs' = length ds ->
    RowWF r (zip3 ds ids fs) -> RowWF r (zip3 ds ids fs').
  Proof.
    intros L1 L2 L3 [Hh [Hnd Hent]].
    assert (Ek : map key (zip3 ds ids fs') = map key (zip3 ds ids fs)) by (rewrite !map_key_zip3; auto).
    assert (Ei : map eid (zip3 ds ids fs') = map eid (zip3 ds ids fs)) by (rewrite !map_eid_zip3; auto).
    split; [eapply heapP_keys; [symmetry; exact Ek|exact Hh]|]. split.
    - (* real ids only depend on the index array *)
      assert (R : forall fl, length fl = length ds ->
                 map eid (real (zip3 ds ids fl)) = filter (fun z => negb (z =? -1)) ids).
      { intros fl Lfl. rewrite <- (map_eid_zip3 ds ids fl) at 2 by auto.
        unfold real. induction (zip3 ds ids fl) as [|e t IHt]; cbn; auto.
        unfold is_real at 1. destruct (negb (eid e =? -1)); cbn; rewrite IHt; auto. }
      rewrite R by auto. rewrite <- (R fs) by auto. exact Hnd.
    - intros e He. destruct (In_getE _ _ He) as [i [Hi <-]]. rewrite zip3_length in Hi.
      rewrite getE_zip3 by auto. cbn [key eid fst snd].
      specialize (Hent (getE (zip3 ds ids fs) i)).
      rewrite getE_zip3 in Hent by auto. cbn [key eid fst snd] in Hent.
      apply Hent. rewrite <- (getE_zip3 ds ids fs i) by auto. apply getE_In. rewrite zip3_length; auto.
  Qed.

  Lemma real_ids_zip3 ds ids fl :
    length ids = length ds -> length fl = length ds ->
    map eid (real (zip3 ds ids fl)) = filter (fun z => negb (z =? -1)) ids.
  Proof.
    intros L1 L2. rewrite <- (map_eid_zip3 ds ids fl) at 2 by auto.
    unfold real. induction (zip3 ds ids fl) as [|e t IHt]; cbn; auto.
    unfold is_real at 1. destruct (negb (eid e =? -1)); cbn; rewrite IHt; auto.
  Qed.

  (* what a finished row looks like (the property's own wording) *)
  Definition RowOut (r : nat) (ids ds : list Z) : Prop :=
    length ids = k /\ length ds = k /\
    (forall i j, (i <= j < k)%nat -> getZ ds i <= getZ ds j) /\
    (forall i, (i < k)%nat ->
        (getZ ids i = -1 /\ getZ ds i = inf) \/
        (0 <= getZ ids i < Z.of_nat n /\ getZ ds i = dm r (zidx (getZ ids i)) /\ getZ ds i < inf)) /\
    NoDup (filter (fun z => negb (z =? -1)) ids) /\
    (forall i j, (i <= j < k)%nat -> getZ ids i = -1 -> getZ ids j = -1).

  Theorem deheap_row_out r ds ids fs :
    length ds = k -> length ids = k -> length fs = k ->
    RowWF r (zip3 ds ids fs) ->
    exists ids' ds', deheap_sort_row ids ds = Some (ids', ds') /\ RowOut r ids' ds'.
  Proof.
    intros Ld Li Lf [Hh [Hnd Hent]].
    assert (Hh2 : heapP (zip2 ds ids)).
    { eapply heapP_keys; [|exact Hh]. unfold zip2. rewrite !map_key_zip3. reflexivity. }
    destruct (deheap_sort_row_correct ids ds ltac:(lia) ltac:(lia) Hh2)
      as [ids' [ds' [Hrun [P [Li' [Ld' Hsort]]]]]].
    exists ids', ds'. split; [exact Hrun|].
    assert (Hentry : forall i, (i < k)%nat ->
        (getZ ids' i = -1 /\ getZ ds' i = inf) \/
        (0 <= getZ ids' i < Z.of_nat n /\ getZ ds' i = dm r (zidx (getZ ids' i)) /\ getZ ds' i < inf)).
    { intros i Hi.
      assert (Hin : In (getE (zip2 ds' ids') i) (zip2 ds ids)).
      { eapply Permutation_in; [exact P|]. apply getE_In. unfold zip2. rewrite zip3_length. lia. }
      unfold zip2 in Hin at 1. rewrite getE_zip3 in Hin by lia.
      destruct (In_getE _ _ Hin) as [m [Hm Em]]. unfold zip2 in Hm, Em. rewrite zip3_length in Hm.
      rewrite getE_zip3 in Em by auto.
      assert (Hm3 : (m < length (zip3 ds ids fs))%nat) by (rewrite zip3_length; lia).
      specialize (Hent (getE (zip3 ds ids fs) m) (getE_In _ _ Hm3)).
      rewrite getE_zip3 in Hent by lia. cbn [key eid fst snd] in Hent.
      injection Em as E1 E2 E3. rewrite <- E1, <- E2. exact Hent. }
    unfold RowOut. repeat split; try lia.
    - intros i j Hij. apply Hsort. lia.
    - exact Hentry.
    - rewrite <- (real_ids_zip3 ds' ids' (repeat 0 (length ds'))) by (rewrite ?repeat_length; lia).
      fold (zip2 ds' ids').
      assert (Q : Permutation (map eid (real (zip2 ds' ids'))) (map eid (real (zip2 ds ids))))
        by (apply real_perm'; auto).
      eapply Permutation_NoDup; [symmetry; exact Q|].
      unfold zip2. rewrite real_ids_zip3 by (rewrite ?repeat_length; lia).
      rewrite <- (real_ids_zip3 ds ids fs) by lia. exact Hnd.
    - intros i j Hij Hi.
      destruct (Hentry i ltac:(lia)) as [[_ Ei]|[Hr _]]; [|lia].
      destruct (Hentry j ltac:(lia)) as [[Ej _]|[_ [_ Hlt]]]; [auto|].
      specialize (Hsort i j ltac:(lia)). lia.
  Qed.
End GraphInv.


