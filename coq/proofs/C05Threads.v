(* C05Threads.v — the number of threads does not matter for apply_graph_updates_low_memory:
   with T threads (each handling the rows r with r mod T = t) the kernel computes exactly what it
   computes with one thread.  Consequence for C12: the equality low = high, proved for the
   single-thread order, holds for every thread count. *)
From Coq Require Import ZArith List Bool Lia.
From PV Require Import Base ListAux Heap NND Par C05Proofs.
Import ListNotations.
Open Scope Z_scope.

Lemma frow_app (r : nat) (a b : list (op row3)) : frow row3 r (a ++ b) = frow row3 r a ++ frow row3 r b.
Proof. unfold frow. apply filter_app. Qed.

Lemma frow_flat_map {X} (r : nat) (f : X -> list (op row3)) : forall l,
  frow row3 r (flat_map f l) = flat_map (fun x => frow row3 r (f x)) l.
Proof. induction l as [|x l IH]; cbn [flat_map]; [reflexivity|]. rewrite frow_app, IH. reflexivity. Qed.

Lemma frow_concat (r : nat) : forall ts : list (list (op row3)), frow row3 r (concat ts) = flat_map (frow row3 r) ts.
Proof. induction ts as [|t ts IH]; cbn [concat flat_map]; [reflexivity|]. rewrite frow_app, IH. reflexivity. Qed.

(* for one update, the pushes that land in row r are the same whichever thread count is used,
   provided we look at the thread that owns r *)
Lemma ops_of_update_row T n r u : (0 < T)%nat -> upd_ok n u ->
  frow row3 r (ops_of_update (Z.of_nat T) (Z.of_nat (owner T r)) u) = frow row3 r (ops_of_update 1 0 u).
Proof.
  intros HT Hok. destruct u as [[p q] d]. unfold ops_of_update.
  destruct ((p =? -1) || (q =? -1)) eqn:Es; [reflexivity|].
  apply orb_false_iff in Es. destruct Es as [Ep Eq]. apply Z.eqb_neq in Ep. apply Z.eqb_neq in Eq.
  destruct Hok as [[?|Hp] [?|Hq]]; try congruence.
  rewrite !Z.mod_1_r. cbn [Z.eqb]. rewrite !frow_app.
  assert (Ho : Z.of_nat (owner T r) = Z.of_nat r mod Z.of_nat T).
  { unfold owner. rewrite Z2Nat.id; [reflexivity|]. apply Z.mod_pos_bound. lia. }
  f_equal.
  - destruct (p mod Z.of_nat T =? Z.of_nat (owner T r)) eqn:E; [reflexivity|].
    unfold frow. cbn [filter pushop fst]. destruct (Nat.eqb_spec (zidx p) r) as [Er|Er]; [|reflexivity].
    exfalso. apply Z.eqb_neq in E. apply E. rewrite Ho. subst r. unfold zidx. rewrite Z2Nat.id by lia. reflexivity.
  - destruct (q mod Z.of_nat T =? Z.of_nat (owner T r)) eqn:E; [reflexivity|].
    unfold frow. cbn [filter pushop fst]. destruct (Nat.eqb_spec (zidx q) r) as [Er|Er]; [|reflexivity].
    exfalso. apply Z.eqb_neq in E. apply E. rewrite Ho. subst r. unfold zidx. rewrite Z2Nat.id by lia. reflexivity.
Qed.

Lemma thread_ops_row T n r ups : (0 < T)%nat -> ups_ok n ups ->
  frow row3 r (thread_ops (Z.of_nat T) (Z.of_nat (owner T r)) ups) = frow row3 r (thread_ops 1 0 ups).
Proof.
  intros HT Hok. unfold thread_ops. rewrite !frow_flat_map.
  unfold ups_ok in Hok. induction ups as [|ul ups IH]; cbn [flat_map]; [reflexivity|].
  inversion Hok as [|? ? Hul Hups]; subst. rewrite IH by exact Hups. f_equal.
  rewrite !frow_flat_map. clear IH Hok Hups. induction ul as [|u ul IHu]; cbn [flat_map]; [reflexivity|].
  inversion Hul as [|? ? Hu Hrest]; subst. rewrite IHu by exact Hrest. f_equal. apply (ops_of_update_row T n r u HT Hu).
Qed.

Lemma threads_owned T n ups : (0 < T)%nat -> ups_ok n ups -> owned row3 (owner T) (threads T ups).
Proof.
  intros HT Hok t o Hin. destruct (Nat.lt_ge_cases t T) as [Ht|Ht].
  - rewrite nth_threads in Hin by exact Ht. destruct (thread_ops_owned T t n ups o HT Hok Hin) as [A _]. exact A.
  - rewrite nth_overflow in Hin by (unfold threads; rewrite map_length, seq_length; exact Ht). destruct Hin.
Qed.

Lemma threads_in_range T n ups : (0 < T)%nat -> ups_ok n ups -> in_range row3 n (concat (threads T ups)).
Proof.
  intros HT Hok. apply Forall_forall. intros o Ho. apply in_concat in Ho. destruct Ho as [t [Ht Ho]].
  unfold threads in Ht. apply in_map_iff in Ht. destruct Ht as [k [<- Hk]].
  destruct (thread_ops_owned T k n ups o HT Hok Ho) as [_ B]. exact B.
Qed.

Lemma owner_lt T r : (0 < T)%nat -> (owner T r < T)%nat.
Proof. intros HT. unfold owner. pose proof (Z.mod_pos_bound (Z.of_nat r) (Z.of_nat T) ltac:(lia)). lia. Qed.

Lemma frow_threads T n r ups : (0 < T)%nat -> ups_ok n ups ->
  frow row3 r (concat (threads T ups)) = frow row3 r (thread_ops 1 0 ups).
Proof.
  intros HT Hok.
  rewrite (merge_frow row3 (owner T) (threads T ups) (concat (threads T ups)) (merge_concat row3 (threads T ups)) (threads_owned T n ups HT Hok) r).
  rewrite nth_threads by (apply owner_lt; exact HT). apply (thread_ops_row T n r ups HT Hok).
Qed.

(* the result of apply_graph_updates_low_memory does not depend on the number of threads *)
Theorem apply_low_thread_count_irrelevant : forall ups n T g,
  (0 < T)%nat -> wf g n -> ups_ok n ups ->
  let a := apply_graph_updates_low_memory g ups T in
  let b := apply_graph_updates_low_memory g ups 1 in
  rows_of (fst a) = rows_of (fst b) /\ snd a = snd b.
Proof.
  intros ups n T g HT Hwf Hok a b.
  pose proof (apply_low_is_sequential_run ups n T g Hwf Hok) as Ea.
  pose proof (apply_low_is_sequential_run ups n 1%nat g Hwf Hok) as Eb. cbn zeta in Ea, Eb. fold a in Ea. fold b in Eb.
  assert (Hlen : length (rows_of g) = n).
  { destruct Hwf as [H1 [H2 H3]]. unfold rows_of, row3. rewrite !combine_length. lia. }
  assert (E : run row3 d3 (concat (threads T ups)) (rows_of g, 0) = run row3 d3 (concat (threads 1 ups)) (rows_of g, 0)).
  { apply run_determined_by_rows.
    - rewrite Hlen. apply threads_in_range; auto.
    - rewrite Hlen. apply threads_in_range; auto.
    - intros r. fold (frow row3 r (concat (threads T ups))) (frow row3 r (concat (threads 1 ups))).
      rewrite (frow_threads T n r ups HT Hok), (frow_threads 1 n r ups ltac:(lia) Hok). reflexivity. }
  rewrite <- Ea, <- Eb in E. inversion E. split; reflexivity.
Qed.

Lemma apply_low_wf : forall ups n T g, wf g n -> ups_ok n ups -> wf (fst (apply_graph_updates_low_memory g ups T)) n.
Proof.
  intros ups n T g Hwf Hok. unfold apply_graph_updates_low_memory.
  assert (G : forall ks g0 c, wf g0 n ->
    wf (fst (fold_left (fun st k => fold_left (fun st ul => fold_left (apply_low_one (Z.of_nat T) k) ul st) ups st) (map Z.of_nat ks) (g0, c))) n).
  { induction ks as [|k ks IH]; intros g0 c Hw; cbn [map fold_left]; [exact Hw|].
    destruct (apply_thread (Z.of_nat T) (Z.of_nat k) n ups g0 c Hw Hok) as [_ W].
    destruct (fold_left (fun st ul => fold_left (apply_low_one (Z.of_nat T) (Z.of_nat k)) ul st) ups (g0, c)) as [g1 c1].
    cbn [fst] in W. apply IH. exact W. }
  apply G. exact Hwf.
Qed.

Lemma combine_inj {A B} : forall (a a' : list A) (b b' : list B),
  length a = length b -> length a' = length b' -> combine a b = combine a' b' -> a = a' /\ b = b'.
Proof.
  induction a as [|x a IH]; intros a' b b' L L' E.
  - destruct b; [|discriminate]. destruct a' as [|x' a']; destruct b' as [|y' b']; try discriminate; auto.
  - destruct b as [|y b]; [discriminate|]. destruct a' as [|x' a']; destruct b' as [|y' b']; try discriminate.
    cbn [combine] in E. inversion E; subst. cbn [length] in L, L'.
    assert (La : length a = length b) by lia. assert (La' : length a' = length b') by lia.
    destruct (IH a' b b' La La' H2) as [-> ->]. auto.
Qed.

Lemma rows_of_inj g1 g2 n : wf g1 n -> wf g2 n -> rows_of g1 = rows_of g2 -> g1 = g2.
Proof.
  intros [A1 [B1 C1]] [A2 [B2 C2]] E. unfold rows_of in E.
  assert (L1 : length (g_ind g1) = length (combine (g_dist g1) (g_flag g1))) by (rewrite combine_length, A1, B1, C1, Nat.min_id; reflexivity).
  assert (L2 : length (g_ind g2) = length (combine (g_dist g2) (g_flag g2))) by (rewrite combine_length, A2, B2, C2, Nat.min_id; reflexivity).
  destruct (combine_inj _ _ _ _ L1 L2 E) as [Ei E2].
  assert (L3 : length (g_dist g1) = length (g_flag g1)) by lia. assert (L4 : length (g_dist g2) = length (g_flag g2)) by lia.
  destruct (combine_inj _ _ _ _ L3 L4 E2) as [Ed Ef].
  destruct g1, g2. cbn in *. subst. reflexivity.
Qed.

Theorem apply_low_any_thread_count : forall ups n T g,
  (0 < T)%nat -> wf g n -> ups_ok n ups ->
  apply_graph_updates_low_memory g ups T = apply_graph_updates_low_memory g ups 1.
Proof.
  intros ups n T g HT Hwf Hok.
  destruct (apply_low_thread_count_irrelevant ups n T g HT Hwf Hok) as [Er Ec].
  pose proof (apply_low_wf ups n T g Hwf Hok) as W1. pose proof (apply_low_wf ups n 1%nat g Hwf Hok) as W2.
  pose proof (rows_of_inj _ _ n W1 W2 Er) as Eg.
  destruct (apply_graph_updates_low_memory g ups T) as [g1 c1]. destruct (apply_graph_updates_low_memory g ups 1) as [g2 c2].
  cbn [fst snd] in *. subst. reflexivity.
Qed.
