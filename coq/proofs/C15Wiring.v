(* C15Wiring.v — index-level model of how NNDescent._init_search_graph wires the
   diversification passes together, and the refutation of the reverse pass as coded.

   The forward pass rewrites every neighbour row to its kept candidates.  The reverse
   pass is MEANT to run the same greedy rule over the rows of the transposed graph
   (for a point i: the points j that kept an edge j -> i, ascending by distance).
   The code hands diversify_csr the arrays of  self._search_graph.transpose(),  a CSC
   view that shares (indptr, indices, data) with the forward CSR graph - so the kernel
   walks the FORWARD rows again (idempotent) and removes nothing from the transposed
   rows: [reverse_as_coded].  The search graph is the union of both. *)
From Coq Require Import ZArith List Bool Lia.
From PV Require Import Base ListAux Diversify C15Proofs.
Import ListNotations.
Open Scope Z_scope.

Section Wiring.
  Variable dm : nat -> nat -> Z.
  Variable npts : nat.
  Variable eps : Z.

  Definition keep (cs : list cand) : list cand := select (spec_flags dm npts eps cs) cs.

  (* forward graph: row i = kept candidates (id, distance) of the i-th neighbour row *)
  Definition forward (knn : list (list cand)) : list (list cand) := map keep knn.

  (* row i of the transposed graph: (source j, weight) for every j <> i that kept an edge to i *)
  Definition incoming (g : list (list cand)) (i : Z) : list cand :=
    flat_map (fun jr : Z * list cand =>
                map (fun c : cand => (fst jr, snd c))
                    (filter (fun c : cand => (fst c =? i) && negb (fst jr =? i)) (snd jr)))
             (combine (map Z.of_nat (seq 0 (length g))) g).

  (* ascending by weight (np.argsort of the row's data) *)
  Fixpoint insert_w (c : cand) (l : list cand) : list cand :=
    match l with
    | [] => [c]
    | h :: t => if snd c <=? snd h then c :: h :: t else h :: insert_w c t
    end.
  Definition sort_w (l : list cand) : list cand := fold_right insert_w [] l.

  Definition reverse_intended (g : list (list cand)) (i : Z) : list Z := map fst (keep (sort_w (incoming g i))).
  Definition reverse_as_coded (g : list (list cand)) (i : Z) : list Z := map fst (incoming g i).
  Definition out_edges (g : list (list cand)) (i : Z) : list Z :=
    filter (fun j => negb (j =? i)) (map fst (nth (Z.to_nat i) g [])).

  Definition memZ (j : Z) (l : list Z) : bool := existsb (Z.eqb j) l.
  (* is (i, j) an edge of the search graph? *)
  Definition edge_intended (knn : list (list cand)) (i j : Z) : bool :=
    let g := forward knn in memZ j (out_edges g i) || memZ j (reverse_intended g i).
  Definition edge_as_coded (knn : list (list cand)) (i j : Z) : bool :=
    let g := forward knn in memZ j (out_edges g i) || memZ j (reverse_as_coded g i).

  (* what the intended reverse pass keeps obeys the property's rule, by construction *)
  Lemma reverse_intended_is_greedy g i :
    greedy_spec dm npts eps (sort_w (incoming g i)) (spec_flags dm npts eps (sort_w (incoming g i))).
  Proof. apply spec_flags_greedy. Qed.

  (* the coded reverse pass never removes an edge: every edge of the intended graph is an edge of the coded one *)
  Lemma select_subset {A} (fl : list bool) (xs : list A) x : In x (select fl xs) -> In x xs.
  Proof.
    revert xs; induction fl as [|f fl IH]; intros [|y ys] H; cbn in *; try contradiction.
    destruct f; cbn in H; [destruct H as [->|H]; auto|]; right; apply IH; exact H.
  Qed.
End Wiring.

(* witness: four points of the plane, (4,2) (0,7) (4,7) (6,4), squared euclidean distances, every row
   lists all four points in ascending distance (what an exact 4-neighbour graph holds) *)
Definition wit_table : list (list Z) := [[0; 41; 25; 8]; [41; 0; 16; 45]; [25; 16; 0; 13]; [8; 45; 13; 0]].
Definition wit_dm (a b : nat) : Z := nth b (nth a wit_table []) 0.
Definition wit_knn : list (list cand) :=
  [[(0, 0); (3, 8); (2, 25); (1, 41)]; [(1, 0); (2, 16); (0, 41); (3, 45)];
   [(2, 0); (3, 13); (1, 16); (0, 25)]; [(3, 0); (0, 8); (2, 13); (1, 45)]].

(* point 0 keeps its edge to point 1 in the forward pass; among the points that kept an edge to 1
   (2 at distance 16, 0 at distance 41) point 2 is nearer to 0 (25) than 1 is (41), so the rule removes the
   reverse edge 1 -> 0; point 1's own row does not keep 0 either.  As coded the edge stays. *)
Theorem index_reverse_pass_refuted :
  edge_intended wit_dm 4 0 wit_knn 1 0 = false /\ edge_as_coded wit_dm 4 0 wit_knn 1 0 = true /\
  edge_intended wit_dm 4 0 wit_knn 0 1 = true.
Proof. vm_compute. repeat split; reflexivity. Qed.

(* everywhere else on the witness the two graphs agree *)
Example witness_only_difference :
  forallb (fun i => forallb (fun j => Bool.eqb (edge_intended wit_dm 4 0 wit_knn i j) (edge_as_coded wit_dm 4 0 wit_knn i j)
                                      || ((i =? 1) && (j =? 0))) [0; 1; 2; 3]) [0; 1; 2; 3] = true.
Proof. vm_compute. reflexivity. Qed.

(* the whole edge list of the witness, as coded and as intended (the harness replays the witness on the real index
   and compares with these two lists) *)
Definition wit_edges (f : list (list cand) -> Z -> Z -> bool) : list (Z * Z) :=
  filter (fun e : Z * Z => f wit_knn (fst e) (snd e)) (list_prod [0; 1; 2; 3] [0; 1; 2; 3]).
Example witness_edges :
  wit_edges (edge_as_coded wit_dm 4 0) = [(0, 1); (0, 3); (1, 0); (1, 2); (2, 1); (2, 3); (3, 0); (3, 2)] /\
  wit_edges (edge_intended wit_dm 4 0) = [(0, 1); (0, 3); (1, 2); (2, 1); (2, 3); (3, 0); (3, 2)].
Proof. vm_compute. split; reflexivity. Qed.
