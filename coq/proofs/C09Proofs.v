(* C09Proofs.v — the internal surrogates preserve neighbour order and their
   published corrections invert them, over the reals (float rounding is NOT
   modelled; see DESIGN.md).  s denotes the similarity core of the metric:
   cosine similarity / normalised dot product / Bhattacharyya coefficient /
   Jaccard index, in (0, 1] on the non-saturated domain. *)
From Coq Require Import Reals Lra Rpower R_sqrt Ratan.
Open Scope R_scope.

Definition log2 (x : R) : R := ln x / ln 2.
Definition pow2 (x : R) : R := Rpower 2 x.

(* the surrogate and the corrections, as the code writes them *)
Definition alt (s : R) : R := - log2 s.                       (* alternative_cosine/dot/jaccard/hellinger: log2(1/s) *)
Definition correct_cosine (d : R) : R := 1 - pow2 (- d).      (* correct_alternative_cosine / _jaccard *)
Definition correct_hellinger (d : R) : R := sqrt (1 - pow2 (- d)).
Definition true_angular_from_alt (d : R) : R := 1 - acos (pow2 (- d)) / PI.

Lemma ln2_pos : 0 < ln 2.
Proof. rewrite <- ln_1. apply ln_increasing; lra. Qed.

Lemma pow2_log2 s : 0 < s -> pow2 (log2 s) = s.
Proof.
  intros H. unfold pow2, log2, Rpower.
  replace (ln s / ln 2 * ln 2) with (ln s) by (field; pose proof ln2_pos; lra).
  apply exp_ln; auto.
Qed.

Lemma pow2_neg_alt s : 0 < s -> pow2 (- alt s) = s.
Proof. intros H. unfold alt. rewrite Ropp_involutive. apply pow2_log2; auto. Qed.

(* ---- the corrections invert the surrogate exactly ---- *)
Theorem cosine_correction_inverts s : 0 < s -> correct_cosine (alt s) = 1 - s.
Proof. intros H. unfold correct_cosine. rewrite pow2_neg_alt; auto. Qed.

Theorem hellinger_correction_inverts s : 0 < s -> correct_hellinger (alt s) = sqrt (1 - s).
Proof. intros H. unfold correct_hellinger. rewrite pow2_neg_alt; auto. Qed.

Theorem true_angular_correction_inverts s :
  0 < s -> true_angular_from_alt (alt s) = 1 - acos s / PI.
Proof. intros H. unfold true_angular_from_alt. rewrite pow2_neg_alt; auto. Qed.

(* ---- the surrogate orders candidates exactly as the documented metric does ---- *)
Lemma log2_increasing a b : 0 < a -> a < b -> log2 a < log2 b.
Proof.
  intros Ha Hab. unfold log2. apply Rmult_lt_compat_r; [apply Rinv_0_lt_compat, ln2_pos|].
  apply ln_increasing; auto.
Qed.

(* metric 1 - s (cosine, dot, jaccard distance) *)
Theorem alt_order_cosine s1 s2 :
  0 < s1 -> 0 < s2 -> (alt s1 < alt s2 <-> 1 - s1 < 1 - s2).
Proof.
  intros H1 H2. unfold alt. split; intros H.
  - destruct (Rlt_le_dec s2 s1) as [L|L]; [lra|]. exfalso.
    destruct (Rle_lt_or_eq_dec _ _ L) as [L'|E]; [|subst; lra].
    pose proof (log2_increasing s1 s2 H1 L'). lra.
  - assert (s2 < s1) by lra. pose proof (log2_increasing s2 s1 H2 H0). lra.
Qed.

(* metric sqrt(1 - s) (hellinger), 0 < s <= 1 *)
Theorem alt_order_hellinger s1 s2 :
  0 < s1 <= 1 -> 0 < s2 <= 1 -> (alt s1 < alt s2 <-> sqrt (1 - s1) < sqrt (1 - s2)).
Proof.
  intros H1 H2. rewrite (alt_order_cosine s1 s2) by lra. split; intros H.
  - apply sqrt_lt_1_alt. lra.
  - apply sqrt_lt_0_alt in H. lra.
Qed.

(* squared euclidean vs euclidean *)
Theorem sq_order q1 q2 : 0 <= q1 -> 0 <= q2 -> (q1 < q2 <-> sqrt q1 < sqrt q2).
Proof.
  intros H1 H2. split; intros H.
  - apply sqrt_lt_1_alt. lra.
  - apply sqrt_lt_0_alt in H. exact H.
Qed.

Theorem sqrt_inverts_square d : 0 <= d -> sqrt (d * d) = d.
Proof. intros H. apply sqrt_square; auto. Qed.

(* true_angular: the reported value 1 - acos(s)/pi is a SIMILARITY (larger = closer);
   the surrogate still orders candidates as the angle does *)
Theorem alt_order_angle s1 s2 :
  0 < s1 <= 1 -> 0 < s2 <= 1 -> (alt s1 < alt s2 <-> acos s1 < acos s2).
Proof.
  intros H1 H2. rewrite (alt_order_cosine s1 s2) by lra. split; intros H.
  - (* s2 < s1 -> acos s1 < acos s2 : acos strictly decreasing on [-1,1] *)
    assert (Hs : s2 < s1) by lra.
    pose proof (acos_bound s1) as B1. pose proof (acos_bound s2) as B2.
    destruct (Rlt_le_dec (acos s1) (acos s2)) as [L|L]; [exact L|]. exfalso.
    assert (Hc : cos (acos s1) <= cos (acos s2)).
    { destruct (Rle_lt_or_eq_dec _ _ L) as [L'|E]; [|rewrite E; lra].
      apply Rlt_le. apply cos_decreasing_1; lra. }
    rewrite !cos_acos in Hc by lra. lra.
  - pose proof (acos_bound s1) as B1. pose proof (acos_bound s2) as B2.
    assert (Hc : cos (acos s2) < cos (acos s1)) by (apply cos_decreasing_1; lra).
    rewrite !cos_acos in Hc by lra. lra.
Qed.

(* saturation: the corrected value never leaves the documented range [0,1] for a
   non-negative surrogate value, and tends to the clamp 1 as the surrogate grows *)
Theorem correct_cosine_range d : 0 <= d -> 0 <= correct_cosine d < 1.
Proof.
  intros H. unfold correct_cosine, pow2, Rpower.
  assert (E : 0 < exp (- d * ln 2)) by apply exp_pos.
  assert (L : exp (- d * ln 2) <= 1).
  { rewrite <- exp_0. destruct (Req_dec d 0) as [->|Hd].
    - replace (- 0 * ln 2) with 0 by ring. lra.
    - apply Rlt_le. apply exp_increasing. pose proof ln2_pos. nra. }
  lra.
Qed.
