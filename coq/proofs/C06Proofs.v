(* C06Proofs.v — a pickle round trip yields the prepared original, field for field. *)
From Coq Require Import ZArith List Bool.
From PV Require Import Pickle.
Import ListNotations.

Lemma ren_den : forall t, renumbaify (denumbaify t) = t.
Proof. intros [h o c i l]. reflexivity. Qed.

Lemma map_ren_den : forall l, map renumbaify (map denumbaify l) = l.
Proof. induction l as [|t l IH]; cbn [map]; [reflexivity|]. rewrite ren_den, IH. reflexivity. Qed.

(* states whose binding is the one __init__ derives (every state reachable from [constructed]) *)
Definition consistent (s : pstate) : Prop :=
  p_binding s = init_binding (p_sparse s) (p_metric s) /\ p_partial s = negb (Nat.eqb (p_nargs s) 0).

Lemma pprepare_consistent : forall mk s, consistent s -> consistent (pprepare mk s).
Proof. intros mk s H. unfold pprepare. destruct (p_prepared s); [exact H|exact H]. Qed.

(* everything a query reads: all fields except the presence of the build forest *)
Definition query_view (s : pstate) := (p_sparse s, p_metric s, p_nargs s, p_binding s, p_partial s, p_prepared s, p_forest s, p_payload s).

Theorem roundtrip_equals_prepared_original : forall mk s, consistent s ->
  query_view (setstate false (snd (getstate mk s))) = query_view (pprepare mk s) /\
  fst (getstate mk s) = pprepare mk s.
Proof.
  intros mk s H. split; [|reflexivity].
  pose proof (pprepare_consistent mk s H) as [Hb Hp].
  unfold getstate, setstate, query_view. cbn [snd k_sparse k_metric k_nargs k_forest k_payload p_sparse p_metric p_nargs p_binding p_partial p_prepared p_forest p_payload].
  rewrite map_ren_den. unfold load_binding. rewrite <- Hb, <- Hp.
  assert (E : p_prepared (pprepare mk s) = true) by (unfold pprepare; destruct (p_prepared s) eqn:E; [exact E|reflexivity]).
  rewrite E. reflexivity.
Qed.

(* saving is idempotent on the original: a second save sees the same state *)
Theorem getstate_idempotent : forall mk s, getstate mk (fst (getstate mk s)) = getstate mk s.
Proof.
  intros mk s. unfold getstate. cbn [fst].
  assert (E : pprepare mk (pprepare mk s) = pprepare mk s).
  { unfold pprepare at 1. assert (P : p_prepared (pprepare mk s) = true) by (unfold pprepare; destruct (p_prepared s) eqn:E; [exact E|reflexivity]).
    rewrite P. reflexivity. }
  rewrite E. reflexivity.
Qed.

Lemma constructed_consistent : forall sp m n pl, consistent (constructed sp m n pl).
Proof. intros. split; reflexivity. Qed.

(* the loaded copy is itself consistent: it can be saved and loaded again, any number of times *)
Theorem loaded_consistent : forall k, consistent (setstate false k).
Proof. intros k. split; reflexivity. Qed.

(* the pinned __setstate__ re-derived the DENSE binding for a CSR index *)
Theorem pinned_sparse_rebinding_refuted :
  exists m, sparse_binding m = BSparseFast /\ load_binding true true m = BDenseFast.
Proof. exists {| in_named := true; in_fast := true; in_sparse_named := true; in_sparse_fast := true; is_callable := false |}. split; reflexivity. Qed.
