(* C15Proofs.v — diversification removes exactly the long edges of triangles. *)
From Coq Require Import ZArith List Bool Lia.
From PV Require Import Base ListAux Diversify.
Import ListNotations.
Open Scope Z_scope.

Section Spec.
  Variable dm : nat -> nat -> Z.
  Variable npts : nat.
  Variable eps : Z.

  Definition cand := (Z * Z)%type.        (* neighbour id, distance from the point *)

  (* l occludes j: l is at non-zero distance (> eps) and j is nearer to l than
     to the point itself *)
  Definition occb (j l : cand) : bool :=
    (eps <? snd l) && (dm (didx npts (fst j)) (didx npts (fst l)) <? snd j).

  (* greedy pass in processing (ascending-distance) order *)
  Fixpoint spec_keep (kept : list cand) (cs : list cand) : list bool :=
    match cs with
    | [] => []
    | c :: cs' =>
      let k := negb (existsb (occb c) kept) in
      k :: spec_keep (if k then kept ++ [c] else kept) cs'
    end.

  Definition spec_flags (cs : list cand) : list bool :=
    match cs with [] => [] | c0 :: rest => true :: spec_keep [c0] rest end.

  (* the kept candidates selected by a flag list *)
  Fixpoint select {A} (fl : list bool) (xs : list A) : list A :=
    match fl, xs with
    | f :: fl', x :: xs' => if f then x :: select fl' xs' else select fl' xs'
    | _, _ => []
    end.

  Lemma select_app {A} (f1 f2 : list bool) (x1 x2 : list A) :
    length f1 = length x1 -> select (f1 ++ f2) (x1 ++ x2) = select f1 x1 ++ select f2 x2.
  Proof.
    revert x1; induction f1 as [|f f1 IH]; intros [|x x1] H; cbn in *; try lia; auto.
    destruct f; cbn; rewrite IH by lia; auto.
  Qed.

  Lemma spec_keep_length kept cs : length (spec_keep kept cs) = length cs.
  Proof. revert kept; induction cs as [|c cs IH]; intros kept; cbn; auto. Qed.

  (* The property, in its own words, about the flags: a candidate is dropped iff
     some EARLIER candidate that is KEPT occludes it. *)
  Definition greedy_spec (cs : list cand) (fl : list bool) : Prop :=
    length fl = length cs /\
    forall t, (t < length cs)%nat ->
      (nth t fl true = false <->
       exists s, (s < t)%nat /\ nth s fl true = true /\
                 occb (nth t cs (0, 0)) (nth s cs (0, 0)) = true).

  Lemma existsb_select_iff (c : cand) (fl : list bool) (xs : list cand) :
    length fl = length xs ->
    (existsb (occb c) (select fl xs) = true <->
     exists s, (s < length xs)%nat /\ nth s fl true = true /\ occb c (nth s xs (0, 0)) = true).
  Proof.
    revert xs; induction fl as [|f fl IH]; intros [|x xs] H; cbn in *; try lia.
    - split; [discriminate|]. intros [s [Hs _]]; lia.
    - destruct f; cbn.
      + rewrite orb_true_iff, IH by lia. split.
        * intros [Hx|[s [Hs [Hf Ho]]]]; [exists 0%nat|exists (S s)]; cbn; repeat split; auto; lia.
        * intros [[|s] [Hs [Hf Ho]]]; cbn in *; [left; auto|right; exists s; repeat split; auto; lia].
      + rewrite IH by lia. split.
        * intros [s [Hs [Hf Ho]]]. exists (S s). cbn. repeat split; auto; lia.
        * intros [[|s] [Hs [Hf Ho]]]; cbn in *; [discriminate|exists s; repeat split; auto; lia].
  Qed.

  (* generalised: flags of a processed prefix [pre] with its kept list *)
  Lemma spec_keep_greedy : forall cs pre pfl,
    length pfl = length pre ->
    let fl := pfl ++ spec_keep (select pfl pre) cs in
    forall t, (length pre <= t < length pre + length cs)%nat ->
      (nth t fl true = false <->
       exists s, (s < t)%nat /\ nth s fl true = true /\
                 occb (nth t (pre ++ cs) (0, 0)) (nth s (pre ++ cs) (0, 0)) = true).
  Proof.
    induction cs as [|c cs IH]; intros pre pfl Hl fl t Ht; [cbn in Ht; lia|].
    cbn [spec_keep] in fl.
    set (k := negb (existsb (occb c) (select pfl pre))) in *.
    destruct (Nat.eq_dec t (length pre)) as [->|Hne].
    - (* the candidate c itself *)
      unfold fl. rewrite app_nth2 by lia. rewrite Hl, Nat.sub_diag. cbn [nth].
      rewrite app_nth2 by lia. rewrite Nat.sub_diag. cbn [nth].
      unfold k. rewrite negb_false_iff, existsb_select_iff by auto.
      split.
      + intros [s [Hs [Hf Ho]]]. exists s. repeat split; auto.
        * rewrite app_nth1 by lia. auto.
        * rewrite app_nth1 by lia. auto.
      + intros [s [Hs [Hf Ho]]]. exists s.
        rewrite app_nth1 in Hf by lia. rewrite app_nth1 in Ho by lia. repeat split; auto.
    - (* later candidates: extend the prefix by c *)
      specialize (IH (pre ++ [c]) (pfl ++ [k])).
      assert (Hl' : length (pfl ++ [k]) = length (pre ++ [c])) by (rewrite !app_length; cbn; lia).
      specialize (IH Hl'). cbv zeta in IH.
      assert (Hsel : select (pfl ++ [k]) (pre ++ [c]) = if k then select pfl pre ++ [c] else select pfl pre).
      { rewrite select_app by auto. cbn. destruct k; auto using app_nil_r. }
      rewrite Hsel in IH.
      assert (Efl : fl = (pfl ++ [k]) ++ spec_keep (if k then select pfl pre ++ [c] else select pfl pre) cs).
      { unfold fl. rewrite <- app_assoc. reflexivity. }
      rewrite Efl. rewrite <- (app_assoc pre [c] cs) in IH. cbn [app] in IH.
      apply IH. rewrite app_length. cbn [length] in *. lia.
  Qed.

  Theorem spec_flags_greedy cs : greedy_spec cs (spec_flags cs).
  Proof.
    destruct cs as [|c0 rest]; [split; [reflexivity|intros t Ht; cbn in Ht; lia]|].
    split; [cbn; rewrite spec_keep_length; reflexivity|].
    intros t Ht. destruct t as [|t].
    - cbn. split; [discriminate|]. intros [s [Hs _]]; lia.
    - pose proof (spec_keep_greedy rest [c0] [true] eq_refl (S t)) as H. cbv zeta in H.
      cbn [select app length] in H. apply H. cbn [length] in Ht. lia.
  Qed.

  (* the nearest neighbour (first in order) is always kept *)
  Lemma spec_first_kept c0 rest : nth 0 (spec_flags (c0 :: rest)) false = true.
  Proof. reflexivity. Qed.
End Spec.

(* ------------------------------------------------------------------ *)
(* the models compute the specification (prune_probability = 1 and a generator
   that never returns a value >= the probability)                        *)
Section Models.
  Variable dm : nat -> nat -> Z.
  Variable npts : nat.
  Variable draw : list Z -> Z * list Z.
  Variables eps prob inf : Z.
  Hypothesis Hdraw : forall s, (fst (draw s) <? prob) = true.

  Notation occb := (occb dm npts eps).
  Notation spec_keep := (spec_keep dm npts eps).
  Notation spec_flags := (spec_flags dm npts eps).

  Lemma fwd_scan_spec : forall new cj dj rng,
    fst (fwd_scan dm npts draw eps prob new cj dj rng) = negb (existsb (occb (cj, dj)) new).
  Proof.
    induction new as [|[c dc] new IH]; intros cj dj rng; cbn [fwd_scan existsb]; [reflexivity|].
    unfold C15Proofs.occb at 1. cbn [fst snd].
    destruct ((eps <? dc) && (dm (didx npts cj) (didx npts c) <? dj)); cbn [orb negb].
    - pose proof (Hdraw rng) as H. destruct (draw rng) as [r rng']. cbn [fst] in H. rewrite H. reflexivity.
    - apply IH.
  Qed.

  (* candidates up to the first negative index *)
  Fixpoint good_prefix (cs : list cand) : list cand :=
    match cs with
    | [] => []
    | c :: cs' => if fst c <? 0 then [] else c :: good_prefix cs'
    end.

  Lemma fwd_loop_spec : forall rest new rng,
    fst (fwd_loop dm npts draw eps prob rest new rng) =
    new ++ select (spec_keep new (good_prefix rest)) (good_prefix rest).
  Proof.
    induction rest as [|[cj dj] rest IH]; intros new rng; cbn [fwd_loop good_prefix fst].
    - cbn. rewrite app_nil_r. reflexivity.
    - destruct (cj <? 0); [cbn; rewrite app_nil_r; reflexivity|].
      pose proof (fwd_scan_spec new cj dj rng) as Hs.
      destruct (fwd_scan dm npts draw eps prob new cj dj rng) as [flag rng']. cbn [fst] in Hs.
      rewrite IH. cbn [C15Proofs.spec_keep select]. rewrite <- Hs.
      destruct flag; [rewrite <- app_assoc; reflexivity|reflexivity].
  Qed.

  (* forward diversification of one row = the kept candidates of the greedy
     specification followed by (-1, inf) padding *)
  Theorem diversify_row_spec inds ds rng :
    length inds = length ds -> (0 < length inds)%nat ->
    let cs := combine inds ds in
    let first := nth 0 cs (0, 0) in
    let good := first :: good_prefix (tl cs) in
    let kept := select (spec_flags good) good in
    let '(ri, rd, _) := diversify_row dm npts draw eps prob inf inds ds rng in
    ri = map fst kept ++ repeat (-1) (length inds - length kept) /\
    rd = map snd kept ++ repeat inf (length inds - length kept).
  Proof.
    intros Hl H0. cbv zeta. unfold diversify_row.
    destruct (combine inds ds) as [|first rest] eqn:E.
    { destruct inds, ds; cbn in *; try lia; discriminate. }
    cbn [nth tl].
    pose proof (fwd_loop_spec rest [first] rng) as Hs.
    destruct (fwd_loop dm npts draw eps prob rest [first] rng) as [new rng']. cbn [fst] in Hs.
    cbn [C15Proofs.spec_flags select]. rewrite Hs. cbn [app]. auto.
  Qed.

  (* with probability 0 nothing is removed (the generator is >= 0) *)
  Lemma fwd_scan_prob0 (draw0 : list Z -> Z * list Z) :
    (forall s, 0 <= fst (draw0 s)) ->
    forall new cj dj rng, fst (fwd_scan dm npts draw0 eps 0 new cj dj rng) = true.
  Proof.
    intros Hd. induction new as [|[c dc] new IH]; intros cj dj rng; cbn [fwd_scan]; [reflexivity|].
    destruct ((eps <? dc) && _); [|apply IH].
    pose proof (Hd rng) as H. destruct (draw0 rng) as [r rng']. cbn [fst] in H.
    destruct (Z.ltb_spec r 0); [lia|apply IH].
  Qed.

  (* ---------------- CSR version (use_l = true) ---------------- *)
  Variables cur_i cur_d : list Z.
  Definition candof (o : Z) : cand := (getZ cur_i (zidx o), getZ cur_d (zidx o)).
  Definition b2z (b : bool) : Z := if b then 1 else 0.

  Lemma csr_scan_spec retained jn : forall (ks : list (nat * Z)) (fl : list bool) rng,
    length fl = length ks ->
    (forall s, (s < length ks)%nat -> getZ retained (zidx (snd (nth s ks (0%nat, 0)))) = b2z (nth s fl true)) ->
    fst (csr_scan dm npts draw eps prob true cur_i cur_d retained ks jn rng) =
    negb (existsb (occb (getZ cur_i jn, getZ cur_d jn)) (select fl (map (fun kl => candof (snd kl)) ks))).
  Proof.
    induction ks as [|[k l] ks IH]; intros fl rng Hl Hret; cbn [csr_scan].
    - destruct fl; reflexivity.
    - destruct fl as [|f fl]; [cbn in Hl; lia|]. cbn [map select snd].
      pose proof (Hret 0%nat ltac:(cbn; lia)) as H0. cbn [nth snd] in H0. rewrite H0.
      assert (Hrest : forall s, (s < length ks)%nat ->
                 getZ retained (zidx (snd (nth s ks (0%nat, 0)))) = b2z (nth s fl true)).
      { intros s Hs. apply (Hret (S s)). cbn; lia. }
      destruct f; cbn [b2z Z.eqb Pos.eqb].
      + cbn [existsb]. unfold C15Proofs.occb at 1. unfold candof at 1 2. cbn [fst snd].
        destruct ((eps <? getZ cur_d (zidx l)) && (dm (didx npts (getZ cur_i jn)) (didx npts (getZ cur_i (zidx l))) <? getZ cur_d jn));
          cbn [orb negb].
        * pose proof (Hdraw rng) as H. destruct (draw rng) as [r rng']. cbn [fst] in H. rewrite H. reflexivity.
        * apply IH; auto; cbn in Hl; lia.
      + apply IH; auto; cbn in Hl; lia.
  Qed.

  Lemma map_snd_combine {A B} (a : list A) (b : list B) : length a = length b -> map snd (combine a b) = b.
  Proof. revert b; induction a as [|x a IH]; intros [|y b] H; cbn in *; try lia; auto. f_equal; apply IH; lia. Qed.

  Lemma combine_app_eq {A B} (a1 a2 : list A) (b1 b2 : list B) :
    length a1 = length b1 -> combine (a1 ++ a2) (b1 ++ b2) = combine a1 b1 ++ combine a2 b2.
  Proof. revert b1; induction a1 as [|x a1 IH]; intros [|y b1] H; cbn in *; try lia; auto. f_equal; apply IH; lia. Qed.

  Definition done_of (pre : list Z) : list (nat * Z) := combine (seq 0 (length pre)) pre.

  Lemma done_of_snoc pre j : done_of (pre ++ [j]) = done_of pre ++ [(length (done_of pre), j)].
  Proof.
    unfold done_of. rewrite app_length. cbn [length]. rewrite Nat.add_1_r, seq_S. cbn [plus].
    rewrite combine_app_eq by (rewrite seq_length; auto). cbn [combine].
    rewrite combine_length, seq_length, Nat.min_id. reflexivity.
  Qed.

  Lemma select_snoc (pfl : list bool) (pre : list cand) k c :
    length pfl = length pre ->
    select (pfl ++ [k]) (pre ++ [c]) = if k then select pfl pre ++ [c] else select pfl pre.
  Proof. intros H. rewrite select_app by auto. cbn. destruct k; auto using app_nil_r. Qed.

  Theorem csr_loop_spec : forall todo pre pfl retained rng,
    length pfl = length pre ->
    NoDup (map zidx (pre ++ todo)) ->
    (forall o, In o (pre ++ todo) -> (zidx o < length retained)%nat) ->
    (forall s, (s < length pre)%nat -> getZ retained (zidx (nth s pre 0)) = b2z (nth s pfl true)) ->
    (forall o, In o todo -> getZ retained (zidx o) = 1) ->
    let fl := pfl ++ spec_keep (select pfl (map candof pre)) (map candof todo) in
    let ret' := fst (csr_loop dm npts draw eps prob true cur_i cur_d todo (done_of pre) retained rng) in
    (forall s, (s < length (pre ++ todo))%nat -> getZ ret' (zidx (nth s (pre ++ todo) 0)) = b2z (nth s fl true)) /\
    length ret' = length retained /\
    (forall x, ~ In x (map zidx (pre ++ todo)) -> getZ ret' x = getZ retained x).
  Proof.
    induction todo as [|j todo IH]; intros pre pfl retained rng Hl Hnd Hrange Hpre Htodo.
    - cbn [csr_loop fst map C15Proofs.spec_keep]. rewrite !app_nil_r. repeat split; auto.
    - cbn [csr_loop map C15Proofs.spec_keep].
      set (k := negb (existsb (occb (candof j)) (select pfl (map candof pre)))).
      pose proof (csr_scan_spec retained (zidx j) (done_of pre) pfl rng) as Hscan.
      assert (Ld : length (done_of pre) = length pre).
      { unfold done_of. rewrite combine_length, seq_length, Nat.min_id. auto. }
      rewrite Ld in Hscan. specialize (Hscan Hl).
      assert (Hs1 : forall s, (s < length pre)%nat ->
                getZ retained (zidx (snd (nth s (done_of pre) (0%nat, 0)))) = b2z (nth s pfl true)).
      { intros s Hs. unfold done_of. rewrite combine_nth by (rewrite seq_length; auto). cbn [snd]. auto. }
      specialize (Hscan Hs1).
      assert (Em : map (fun kl : nat * Z => candof (snd kl)) (done_of pre) = map candof pre).
      { rewrite <- (map_map snd candof). unfold done_of. rewrite map_snd_combine by (rewrite seq_length; auto). auto. }
      rewrite Em in Hscan. fold (candof j) in Hscan. fold k in Hscan.
      destruct (csr_scan dm npts draw eps prob true cur_i cur_d retained (done_of pre) (zidx j) rng) as [keep rng'].
      cbn [fst] in Hscan. subst keep.
      set (retained' := if k then retained else upd (zidx j) 0 retained).
      assert (Hj_in : In j (pre ++ j :: todo)) by (apply in_or_app; right; left; auto).
      assert (Hjr : (zidx j < length retained)%nat) by (apply Hrange; auto).
      assert (Lr' : length retained' = length retained) by (unfold retained'; destruct k; auto using upd_length).
      assert (Hj' : getZ retained' (zidx j) = b2z k).
      { unfold retained'. destruct k; cbn [b2z].
        - apply Htodo. left; auto.
        - rewrite getZ_upd, Nat.eqb_refl. destruct (Nat.ltb_spec (zidx j) (length retained)); auto; lia. }
      assert (Hoth : forall x, x <> zidx j -> getZ retained' x = getZ retained x).
      { intros x Hx. unfold retained'. destruct k; auto. rewrite getZ_upd.
        destruct (Nat.eqb_spec (zidx j) x); [congruence|auto]. }
      (* NoDup facts *)
      pose proof Hnd as Hnd0.
      rewrite map_app in Hnd. cbn [map] in Hnd.
      assert (Hj_notpre : ~ In (zidx j) (map zidx pre)).
      { intros Hin. apply NoDup_remove_2 in Hnd. apply Hnd. apply in_or_app. left; auto. }
      assert (Hj_nottodo : ~ In (zidx j) (map zidx todo)).
      { intros Hin. apply NoDup_remove_2 in Hnd. apply Hnd. apply in_or_app. right; auto. }
      rewrite <- done_of_snoc.
      specialize (IH (pre ++ [j]) (pfl ++ [k]) retained' rng').
      assert (E1 : (pre ++ [j]) ++ todo = pre ++ j :: todo) by (rewrite <- app_assoc; reflexivity).
      rewrite E1 in IH.
      assert (IHpre : forall s, (s < length (pre ++ [j]))%nat ->
                 getZ retained' (zidx (nth s (pre ++ [j]) 0)) = b2z (nth s (pfl ++ [k]) true)).
      { intros s Hs. rewrite app_length in Hs. cbn [length] in Hs.
        destruct (Nat.eq_dec s (length pre)) as [->|Hne].
        - rewrite app_nth2 by lia. rewrite Nat.sub_diag. cbn [nth].
          rewrite app_nth2 by lia. rewrite Hl, Nat.sub_diag. cbn [nth]. exact Hj'.
        - rewrite app_nth1 by lia. rewrite app_nth1 by lia.
          rewrite Hoth; [apply Hpre; lia|].
          intros E. apply Hj_notpre. rewrite <- E. apply in_map. apply nth_In. lia. }
      assert (IHtodo : forall o, In o todo -> getZ retained' (zidx o) = 1).
      { intros o Ho. rewrite Hoth; [apply Htodo; right; auto|].
        intros E. apply Hj_nottodo. rewrite <- E. apply in_map; auto. }
      assert (Hl2 : length (pfl ++ [k]) = length (pre ++ [j])) by (rewrite !app_length; cbn; lia).
      assert (Hr2 : forall o : Z, In o (pre ++ j :: todo) -> (zidx o < length retained')%nat)
        by (intros o Ho; rewrite Lr'; apply Hrange; auto).
      specialize (IH Hl2 Hnd0 Hr2 IHpre IHtodo).
      cbv zeta in IH.
      rewrite map_app in IH. cbn [map] in IH.
      rewrite select_snoc in IH by (rewrite map_length; auto).
      rewrite <- app_assoc in IH. cbn [app] in IH.
      destruct IH as [IH1 [IH2 IH3]].
      fold k. split; [exact IH1|]. split; [lia|].
      intros x Hx. rewrite IH3.
      + apply Hoth. intros E. apply Hx. rewrite map_app. cbn [map]. apply in_or_app. right. left. auto.
      + intros Hin. apply Hx. rewrite map_app in *. cbn [map] in *. exact Hin.
  Qed.

  Lemma getZ_repeat1 m x : (x < m)%nat -> getZ (repeat 1 m) x = 1.
  Proof. intros; unfold getZ; apply nth_repeat_lt; auto. Qed.

  (* reverse (CSR) diversification of one row, sparse.py / repaired dense code:
     position order[t] is zeroed iff the greedy specification drops candidate t *)
  Theorem diversify_csr_row_spec order rng :
    length cur_i = length cur_d ->
    NoDup (map zidx order) ->
    (forall o, In o order -> (zidx o < length cur_d)%nat) ->
    let flags := spec_flags (map candof order) in
    let res := fst (diversify_csr_row dm npts draw eps prob true cur_i cur_d order rng) in
    length res = length cur_d /\
    (forall t, (t < length order)%nat ->
       getZ res (zidx (nth t order 0)) =
       if nth t flags true then getZ cur_d (zidx (nth t order 0)) else 0) /\
    (forall x, (x < length cur_d)%nat -> ~ In x (map zidx order) -> getZ res x = getZ cur_d x).
  Proof.
    intros Hlen Hnd Hrange. cbv zeta. unfold diversify_csr_row.
    destruct order as [|o0 rest].
    { cbn. repeat split; auto. intros t Ht; lia. }
    pose proof (csr_loop_spec rest [o0] [true] (repeat 1 (length cur_d)) rng eq_refl) as H.
    cbn [app] in H. specialize (H Hnd).
    assert (Hr : forall o, In o (o0 :: rest) -> (zidx o < length (repeat 1%Z (length cur_d)))%nat)
      by (intros o Ho; rewrite repeat_length; auto).
    specialize (H Hr).
    assert (Hp : forall s, (s < length [o0])%nat ->
               getZ (repeat 1 (length cur_d)) (zidx (nth s [o0] 0)) = b2z (nth s [true] true)).
    { intros s Hs. cbn in Hs. assert (s = 0%nat) by lia. subst. cbn [nth b2z].
      apply getZ_repeat1. apply Hrange. left; auto. }
    assert (Ht : forall o, In o rest -> getZ (repeat 1 (length cur_d)) (zidx o) = 1).
    { intros o Ho. apply getZ_repeat1. apply Hrange. right; auto. }
    specialize (H Hp Ht). cbv zeta in H.
    change (done_of [o0]) with [(0%nat, o0)] in H.
    destruct (csr_loop dm npts draw eps prob true cur_i cur_d rest [(0%nat, o0)] (repeat 1 (length cur_d)) rng)
      as [retained rng'].
    cbn [fst] in *. destruct H as [H1 [H2 H3]]. rewrite repeat_length in H2.
    assert (G : forall x, (x < length cur_d)%nat ->
               getZ (map (fun dr : Z * Z => if snd dr =? 0 then 0 else fst dr) (combine cur_d retained)) x =
               if getZ retained x =? 0 then 0 else getZ cur_d x).
    { intros x Hx. unfold getZ at 1.
      rewrite nth_map_lt with (d' := (0, 0)) by (rewrite combine_length; lia).
      rewrite combine_nth by lia. cbn [fst snd]. reflexivity. }
    split; [rewrite map_length, combine_length; lia|]. split.
    - intros t Ht'. rewrite G by (apply Hrange; apply nth_In; auto).
      rewrite (H1 t Ht'). cbn [map C15Proofs.spec_flags select] in *.
      destruct (nth t (true :: spec_keep [candof o0] (map candof rest)) true); reflexivity.
    - intros x Hx Hnin. rewrite G by auto. rewrite H3 by auto. rewrite getZ_repeat1 by auto. reflexivity.
  Qed.
End Models.


