(* C14Proofs.v — random-projection trees: partition, flattening checker, descent. *)
From Coq Require Import ZArith List Bool Lia Permutation.
From PV Require Import Base ListAux Rng RPTree.
Import ListNotations.
Open Scope Z_scope.

(* ================= descent of a well-formed flat tree ================= *)

(* what flat_scan establishes about the children array *)
Definition children_wf (nn : nat) (n : Z) (children : list (Z * Z)) : Prop :=
  forall i, (i < length children)%nat ->
    let c := nth i children (0, 0) in
    (0 < fst c -> Z.of_nat i < fst c /\ fst c < snd c /\ snd c < Z.of_nat nn) /\
    (~ 0 < fst c -> 0 <= - fst c /\ - fst c <= - snd c /\ - snd c <= n).

Lemma flat_scan_spec nn : forall children node es e,
  flat_scan nn node children es = Some e ->
  es <= e /\
  forall i, (i < length children)%nat ->
    let c := nth i children (0, 0) in
    (0 < fst c -> Z.of_nat (node + i) < fst c /\ fst c < snd c /\ snd c < Z.of_nat nn) /\
    (~ 0 < fst c -> es <= - fst c /\ - fst c <= - snd c /\ - snd c <= e).
Proof.
  induction children as [|[c0 c1] rest IH]; intros node es e H; cbn [flat_scan] in H.
  - inversion H; subst. split; [lia|]. intros i Hi; cbn in Hi; lia.
  - destruct (Z.ltb_spec 0 c0) as [Hpos|Hneg].
    + destruct ((Z.of_nat node <? c0) && (c0 <? c1) && (c1 <? Z.of_nat nn)) eqn:E; [|discriminate].
      rewrite !andb_true_iff in E. destruct E as [[E1 E2] E3].
      apply Z.ltb_lt in E1, E2, E3.
      destruct (IH _ _ _ H) as [Hle Hrest]. split; [auto|].
      intros [|i] Hi; cbn [nth fst snd].
      * split; [intros _; rewrite Nat.add_0_r; lia|lia].
      * cbn in Hi. specialize (Hrest i ltac:(lia)). cbv zeta in Hrest.
        replace (node + S i)%nat with (S node + i)%nat by lia. exact Hrest.
    + destruct ((- c0 =? es) && (- c0 <=? - c1)) eqn:E; [|discriminate].
      rewrite andb_true_iff in E. destruct E as [E1 E2]. apply Z.eqb_eq in E1. apply Z.leb_le in E2.
      destruct (IH _ _ _ H) as [Hle Hrest]. split; [lia|].
      intros [|i] Hi; cbn [nth fst snd].
      * split; [lia|]. intros _. lia.
      * cbn in Hi. specialize (Hrest i ltac:(lia)). cbv zeta in Hrest.
        replace (node + S i)%nat with (S node + i)%nat by lia.
        destruct Hrest as [R1 R2]. split; [exact R1|]. intros Hn. specialize (R2 Hn). lia.
Qed.

Lemma flat_scan_children_wf nn children n :
  flat_scan nn 0 children 0 = Some n -> children_wf nn n children.
Proof.
  intros H. destruct (flat_scan_spec nn children 0%nat 0 n H) as [_ Hs].
  intros i Hi. specialize (Hs i Hi). cbv zeta in *. cbn [plus] in Hs.
  destruct Hs as [A B]. split; [exact A|]. intros Hn. specialize (B Hn). lia.
Qed.

(* Routing ANY query (any side decisions) down a well-formed flat tree reaches a
   leaf in at most n_nodes steps and returns a valid range. *)
Theorem descend_terminates children n :
  children_wf (length children) n children ->
  forall (side : nat -> Z) node fuel,
    (node < length children)%nat -> (length children - node <= fuel)%nat ->
    exists s e, descend fuel children side node = Some (s, e) /\ 0 <= s /\ s <= e /\ e <= n.
Proof.
  intros Hwf side node fuel. revert node.
  induction fuel as [|fuel IH]; intros node Hn Hf; [lia|].
  cbn [descend]. specialize (Hwf node Hn). cbv zeta in Hwf.
  set (c := nth node children (0, 0)) in *. destruct Hwf as [Hint Hleaf].
  destruct (Z.ltb_spec 0 (fst c)) as [Hpos|Hneg].
  - destruct (Hint Hpos) as [H1 [H2 H3]].
    apply IH; unfold zidx; destruct (side node =? 0); lia.
  - exists (- fst c), (- snd c). specialize (Hleaf ltac:(lia)). repeat split; lia.
Qed.

(* ================= permutations of 0..n-1 ================= *)
Lemma covers_perm (n : nat) (pts : list Z) :
  length pts = n -> (forall i, (i < n)%nat -> In (Z.of_nat i) pts) ->
  Permutation (map Z.of_nat (seq 0 n)) pts.
Proof.
  intros Hl Hc. apply NoDup_Permutation_bis.
  - apply FinFun.Injective_map_NoDup; [intros a b; apply Nat2Z.inj|apply seq_NoDup].
  - rewrite map_length, seq_length. lia.
  - intros z Hz. apply in_map_iff in Hz. destruct Hz as [i [<- Hi]]. apply in_seq in Hi. apply Hc. lia.
Qed.

Lemma memz_In x l : memz x l = true <-> In x l.
Proof.
  unfold memz. rewrite existsb_exists. split.
  - intros [y [Hy E]]. apply Z.eqb_eq in E. subst; auto.
  - intros H. exists x. split; auto. apply Z.eqb_refl.
Qed.

(* ================= flat checker ================= *)
Definition flat_spec (n : nat) (f : ftree) : Prop :=
  (0 < length (ft_children f))%nat /\
  children_wf (length (ft_children f)) (Z.of_nat n) (ft_children f) /\
  Permutation (map Z.of_nat (seq 0 n)) (ft_indices f) /\
  (* leaves tile [0, n) in pre-order *)
  flat_scan (length (ft_children f)) 0 (ft_children f) 0 = Some (Z.of_nat n).

Theorem flat_chk_sound n f : flat_chk n f = true -> flat_spec n f.
Proof.
  unfold flat_chk. rewrite !andb_true_iff. intros [[[H0 Hs] Hl] Hc].
  apply Nat.ltb_lt in H0. apply Nat.eqb_eq in Hl.
  destruct (flat_scan (length (ft_children f)) 0 (ft_children f) 0) as [e|] eqn:E; [|discriminate].
  apply Z.eqb_eq in Hs. subst e.
  rewrite forallb_forall in Hc.
  split; [auto|]. split; [apply flat_scan_children_wf; auto|]. split; [|auto].
  apply covers_perm; auto. intros i Hi. apply memz_In. apply Hc. apply in_seq. lia.
Qed.

(* a checked flat tree routes every query to a valid leaf range *)
Corollary flat_chk_routing n f :
  flat_chk n f = true ->
  forall side, exists s e,
    descend (length (ft_children f)) (ft_children f) side 0 = Some (s, e) /\
    0 <= s /\ s <= e /\ e <= Z.of_nat n.
Proof.
  intros H side. destruct (flat_chk_sound n f H) as [H0 [Hwf _]].
  apply descend_terminates; auto. lia.
Qed.

(* ================= linked checker ================= *)
Definition linked_spec (n leaf_size max_depth : nat) (t : ltree) : Prop :=
  exists leaves : list (Z * nat),
    leaves = node_depths (S (length (lt_children t))) t (Z.of_nat (length (lt_children t)) - 1) 0 /\
    (* each data point in exactly one leaf *)
    Permutation (map Z.of_nat (seq 0 n))
                (flat_map (fun ld => nth (zidx (fst ld)) (lt_indices t) []) leaves) /\
    (* leaf-size limit unless the depth limit was reached *)
    (forall ld, In ld leaves ->
        (length (nth (zidx (fst ld)) (lt_indices t) []) <= leaf_size)%nat \/ (max_depth <= snd ld)%nat).

Theorem linked_chk_sound n leaf_size max_depth t :
  linked_chk n leaf_size max_depth t = true -> linked_spec n leaf_size max_depth t.
Proof.
  unfold linked_chk. rewrite !andb_true_iff. intros [[[[[H1 H2] H3] H4] H5] H6].
  eexists. split; [reflexivity|]. split.
  - apply Nat.eqb_eq in H4. rewrite forallb_forall in H5.
    apply covers_perm; auto. intros i Hi. apply memz_In. apply H5. apply in_seq. lia.
  - rewrite forallb_forall in H6. intros ld Hld. specialize (H6 ld Hld).
    apply orb_true_iff in H6. destruct H6 as [H|H]; [left; apply Nat.leb_le; auto|right; apply Nat.leb_le; auto].
Qed.

(* ================= the builder partitions its input ================= *)
Section BuildPartition.
  Variable split : list Z -> list Z -> (list Z * list Z) * list Z.
  Hypothesis split_partition : forall idxs rng,
    Permutation (fst (fst (split idxs rng)) ++ snd (fst (split idxs rng))) idxs.

  (* points held by the leaves among a block of appended nodes *)
  Definition leaf_points (cs : list (Z * Z)) (ps : list (list Z)) : list Z :=
    flat_map (fun cp : (Z * Z) * list Z => if fst (fst cp) =? -1 then snd cp else []) (combine cs ps).

  Lemma leaf_points_app c1 c2 p1 p2 :
    length c1 = length p1 -> leaf_points (c1 ++ c2) (p1 ++ p2) = leaf_points c1 p1 ++ leaf_points c2 p2.
  Proof.
    intros H. unfold leaf_points.
    assert (E : combine (c1 ++ c2) (p1 ++ p2) = combine c1 p1 ++ combine c2 p2).
    { revert p1 H; induction c1 as [|x c1 IH]; intros [|y p1] H; cbn in *; try lia; auto. f_equal; apply IH; lia. }
    rewrite E, flat_map_app. reflexivity.
  Qed.

  (* Construction terminates by structural recursion on the depth bound (so also on
     all-identical / all-zero / collinear data), only appends nodes, and the
     leaves it appends hold exactly the input points: each point in exactly one
     leaf. *)
  Theorem make_tree_partitions : forall depth leaf_size idxs rng t,
    length (lt_children t) = length (lt_indices t) ->
    exists cs ps,
      lt_children (fst (make_tree split depth leaf_size idxs rng t)) = lt_children t ++ cs /\
      lt_indices (fst (make_tree split depth leaf_size idxs rng t)) = lt_indices t ++ ps /\
      length cs = length ps /\ (0 < length cs)%nat /\
      Permutation (leaf_points cs ps) idxs.
  Proof.
    induction depth as [|d IH]; intros leaf_size idxs rng t Hl.
    - cbn. exists [(-1, -1)], [idxs]. repeat split; auto. cbn. rewrite app_nil_r. auto.
    - cbn [make_tree]. destruct (Nat.ltb_spec leaf_size (length idxs)).
      + pose proof (split_partition idxs rng) as Hp.
        destruct (split idxs rng) as [[l r] rng1]. cbn [fst snd] in Hp.
        destruct (IH leaf_size l rng1 t Hl) as [c1 [p1 [E1 [E2 [L1 [N1 P1]]]]]].
        destruct (make_tree split d leaf_size l rng1 t) as [t1 rng2]. cbn [fst] in *.
        assert (Hl1 : length (lt_children t1) = length (lt_indices t1)) by (rewrite E1, E2, !app_length; lia).
        destruct (IH leaf_size r rng2 t1 Hl1) as [c2 [p2 [E3 [E4 [L2 [N2 P2]]]]]].
        destruct (make_tree split d leaf_size r rng2 t1) as [t2 rng3]. cbn [fst lt_children lt_indices] in *.
        set (a := Z.of_nat (length (lt_indices t1)) - 1).
        set (b := Z.of_nat (length (lt_indices t2)) - 1).
        assert (Ha : a <> -1).
        { unfold a. rewrite E2, app_length. lia. }
        exists (c1 ++ c2 ++ [(a, b)]), (p1 ++ p2 ++ [[-1]]).
        rewrite E3, E4, E1, E2, <- !app_assoc. repeat split; auto.
        * rewrite !app_length. cbn. lia.
        * rewrite !app_length. cbn. lia.
        * rewrite leaf_points_app by auto. rewrite leaf_points_app by auto.
          assert (Hroot : leaf_points [(a, b)] [[-1]] = []).
          { unfold leaf_points. cbn. destruct (Z.eqb_spec a (-1)); [contradiction|reflexivity]. }
          rewrite Hroot, app_nil_r.
          eapply perm_trans; [apply Permutation_app; eauto|exact Hp].
      + exists [(-1, -1)], [idxs]. cbn. repeat split; auto. rewrite app_nil_r. auto.
  Qed.
End BuildPartition.

(* ================= the euclidean split is a partition ================= *)
Lemma select_side_partition : forall ss idxs,
  length ss = length idxs ->
  Permutation (select_side_list true ss idxs ++ select_side_list false ss idxs) idxs.
Proof.
  induction ss as [|s ss IH]; intros [|x idxs] H; cbn in *; try lia; auto.
  destruct (s =? 0); cbn.
  - apply perm_skip. apply IH; lia.
  - eapply perm_trans; [apply Permutation_sym, Permutation_middle|]. apply perm_skip. apply IH; lia.
Qed.

Lemma sides_length data dim l r : forall idxs rng, length (fst (sides data dim l r idxs rng)) = length idxs.
Proof.
  induction idxs as [|x rest IH]; intros rng; cbn [sides]; auto.
  destruct (margin2 data dim l r x =? 0).
  - destruct (tau_rand_int rng) as [v rng1]. specialize (IH rng1).
    destruct (sides data dim l r rest rng1). cbn in *. lia.
  - specialize (IH rng). destruct (sides data dim l r rest rng). cbn in *. lia.
Qed.

Lemma random_sides_length : forall idxs rng, length (fst (random_sides idxs rng)) = length idxs.
Proof.
  induction idxs as [|x rest IH]; intros rng; cbn [random_sides]; auto.
  destruct (tau_rand_int rng) as [v rng1]. specialize (IH rng1).
  destruct (random_sides rest rng1). cbn in *. lia.
Qed.

Theorem euclidean_split_partition data dim idxs rng :
  Permutation (fst (fst (euclidean_split data dim idxs rng)) ++ snd (fst (euclidean_split data dim idxs rng))) idxs.
Proof.
  unfold euclidean_split.
  destruct (tau_rand_int rng) as [a rng1]. destruct (tau_rand_int rng1) as [b rng2].
  set (l := getZ idxs _). set (r := getZ idxs _).
  pose proof (sides_length data dim l r idxs rng2) as Ls.
  destruct (sides data dim l r idxs rng2) as [ss rng3]. cbn [fst] in Ls.
  destruct ((length (filter (fun s => (s =? 0)%Z) ss) =? 0)%nat || (length (filter (fun s => (s =? 0)%Z) ss) =? length ss)%nat)%bool.
  - pose proof (random_sides_length idxs rng3) as Lr.
    destruct (random_sides idxs rng3) as [ss' rng4]. cbn [fst snd] in *. apply select_side_partition; auto.
  - cbn [fst snd]. apply select_side_partition; auto.
Qed.
