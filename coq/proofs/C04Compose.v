(* C04Compose.v — update() restarts NN-descent from a graph that is TRUE for the new data:
   invalidation removes exactly the entries whose distance may have changed, so the heap
   seeded from the invalidated graph satisfies C01's invariant for the new distance table;
   C01_nn_descent_invariant (init = Some g) then carries it through the whole re-run. *)
From Coq Require Import ZArith List Bool Lia Permutation.
From PV Require Import Base Heap Rng NND ListAux HeapProofs HeapTopK HeapArrays HeapSort NNDProofs C01Proofs Lifecycle C04Proofs.
Import ListNotations.
Open Scope Z_scope.

Section Compose.
  Variables dm dm' : nat -> nat -> Z.     (* distance tables before / after the update *)
  Variable inf : Z.
  Variables n k : nat.                    (* n: points AFTER the update *)
  Hypothesis Hk : (0 < k)%nat.
  Hypothesis dm'_le_inf : forall a b, dm' a b <= inf.
  Variable U : list nat.                  (* replaced rows *)
  (* the new table agrees with the old one on pairs of untouched points *)
  Hypothesis agree : forall a b, ~ In a U -> ~ In b U -> dm' a b = dm a b.

  Definition entry_true (d : nat -> nat -> Z) (p : nat) (e : Z * Z) : Prop :=
    (fst e = -1 /\ snd e = inf) \/ (0 <= fst e < Z.of_nat n /\ snd e = d p (zidx (fst e))).

  Definition rows_true (d : nat -> nat -> Z) (g : list (list (Z * Z))) : Prop :=
    forall p e, In e (nth p g []) -> entry_true d p e.

  Lemma nth_invalidate_from' : forall g j p, (p < length g)%nat ->
    nth p (invalidate_from inf U j g) [] = invalidate_row inf U (j + p) (nth p g []).
  Proof. intros. apply nth_invalidate_from. auto. Qed.

  (* invalidation turns a graph that is true for the old table into one that is true for the new *)
  Theorem invalidate_true_for_new_table g : rows_true dm g -> rows_true dm' (invalidate inf U g).
  Proof.
    intros Hg p e He. destruct (Nat.lt_ge_cases p (length g)) as [Hp|Hp].
    - unfold invalidate in He. rewrite nth_invalidate_from' in He by exact Hp. cbn [Nat.add] in He.
      unfold invalidate_row in He. destruct (memb p U) eqn:Ep.
      + apply in_map_iff in He. destruct He as [_ [<- _]]. left. split; reflexivity.
      + apply in_map_iff in He. destruct He as [e0 [<- He0]].
        destruct (memz (fst e0) U) eqn:Em; [left; split; reflexivity|].
        destruct (Hg p e0 He0) as [Hs|[Hr Hd]]; [left; exact Hs|right]. split; [exact Hr|].
        rewrite Hd. symmetry. apply agree.
        * intros Hin. apply memb_In in Hin. congruence.
        * intros Hin. unfold memz in Em. apply memb_In in Hin.
          assert (E0 : (0 <=? fst e0) = true) by (apply Z.leb_le; lia). rewrite E0 in Em. cbn [andb] in Em. unfold zidx in Hin. congruence.
    - rewrite nth_overflow in He; [destruct He|]. unfold invalidate.
      assert (L : forall g0 j, length (invalidate_from inf U j g0) = length g0) by (induction g0; intros; cbn; auto).
      rewrite L. exact Hp.
  Qed.

  Local Notation GWF' := (GWF dm' inf n k).

  (* pushing a sentinel (-1, +inf) changes nothing; pushing a true entry keeps the invariant *)
  Lemma push_entry_GWF g p e : GWF' g -> (p < n)%nat -> entry_true dm' p e ->
    GWF' (snd (push_row g p (snd e) (fst e) 0)).
  Proof.
    intros HG Hp [[Hq Hd]|[Hq Hd]].
    - destruct HG as [Hwf Hrows]. destruct (Hrows p Hp) as [Hh [Hnd Hent]].
      destruct (push_row_spec n k g p (snd e) (fst e) 0 Hk Hwf Hp Hh) as [_ [Hwf' [Hrow' Hoth]]].
      assert (L0 : (0 < length (grow g p))%nat).
      { destruct Hwf as [_ [_ [_ Hl]]]. unfold grow. rewrite zip3_length. destruct (Hl p Hp) as [_ [-> _]]. auto. }
      assert (Hrej : snd (pushz true (grow g p) (snd e, fst e, 0)) = grow g p).
      { pose proof (pushz_outcome true (grow g p) (snd e, fst e, 0) L0 Hh) as PO.
        inversion PO as [Hw E | Hlt Hc Hdup E | l' Hlt Hc P Hh' Ll' E]; cbn [snd]; auto.
        exfalso. cbn [key fst snd] in Hlt. rewrite Hd in Hlt.
        assert (Hroot : In (getE (grow g p) 0) (grow g p)) by (apply getE_In; auto).
        destruct (Hent _ Hroot) as [[_ Ek]|[_ [_ Ek]]]; lia. }
      split; [exact Hwf'|]. intros r Hr. destruct (Nat.eq_dec r p) as [->|Hne].
      + rewrite Hrow', Hrej. apply Hrows; auto.
      + rewrite Hoth by auto. apply Hrows; auto.
    - apply (GWF_push dm' inf n k Hk); auto.
  Qed.

  Lemma fold_row_GWF p : forall (row : list (Z * Z)) g, GWF' g -> (p < n)%nat -> (forall e, In e row -> entry_true dm' p e) ->
    GWF' (fold_left (fun g (qd : Z * Z) => snd (push_row g p (snd qd) (fst qd) 0)) row g).
  Proof.
    induction row as [|e row IH]; intros g HG Hp Hrow; cbn [fold_left]; auto.
    apply IH; auto; [|intros; apply Hrow; right; auto]. apply push_entry_GWF; auto. apply Hrow. left; auto.
  Qed.

  (* init_from_neighbor_graph on a graph whose entries are true for the new table *)
  Theorem init_from_neighbor_graph_GWF inds dists g :
    GWF' g -> (length inds <= n)%nat ->
    (forall p e, In e (combine (getRow inds p) (getRow dists p)) -> entry_true dm' p e) ->
    GWF' (init_from_neighbor_graph g inds dists).
  Proof.
    intros HG Hlen Htrue. unfold init_from_neighbor_graph.
    assert (G : forall ps g0, Forall (fun p => (p < n)%nat) ps -> GWF' g0 ->
      GWF' (fold_left (fun g1 p => fold_left (fun g2 (qd : Z * Z) => snd (push_row g2 p (snd qd) (fst qd) 0))
                                           (combine (getRow inds p) (getRow dists p)) g1) ps g0)).
    { induction ps as [|p ps IH]; intros g0 Hps Hg0; cbn [fold_left]; auto.
      inversion Hps; subst. apply IH; auto. apply fold_row_GWF; auto. }
    apply G; auto. apply Forall_forall. intros p Hp. apply in_seq in Hp. lia.
  Qed.
End Compose.

Lemma combine_fst_snd {A B} : forall l : list (A * B), combine (map fst l) (map snd l) = l.
Proof. induction l as [|[a b] l IH]; cbn; auto. f_equal. exact IH. Qed.

(* the heap update() hands to nn_descent: make_heap, then init_from_neighbor_graph of the
   invalidated old graph, then the leaves of the fresh forest, then init_random *)
Theorem update_restart_GWF :
  forall (dm dm' : nat -> nat -> Z) (inf : Z) (n k : nat) (U : list nat),
    (0 < k)%nat -> (forall a b, dm' a b = dm' b a) ->
    (forall a b, ~ In a U -> ~ In b U -> dm' a b = dm a b) ->
    forall (g0 : list (list (Z * Z))) leaves rng,
      (length g0 <= n)%nat -> rows_true inf n dm g0 ->
      Forall (Forall (id_ok n)) leaves ->
      let gi := invalidate inf U g0 in
      let h0 := init_from_neighbor_graph (make_heap inf n k) (map (map fst) gi) (map (map snd) gi) in
      GWF dm' inf n k (fst (init_random dm' k n (init_rp_tree inf dm' h0 leaves) rng)).
Proof.
  intros dm dm' inf n k U Hk Hsym Hagree g0 leaves rng Hlen Htrue Hleaves gi h0.
  apply (init_random_GWF dm' inf n k Hk Hsym).
  apply (init_rp_tree_GWF dm' inf n k Hk Hsym); auto.
  unfold h0. apply (init_from_neighbor_graph_GWF dm' inf n k Hk).
  - apply GWF_make_heap.
  - rewrite map_length. unfold gi, invalidate.
    assert (L : forall g1 j, length (invalidate_from inf U j g1) = length g1) by (induction g1; intros; cbn; auto).
    rewrite L. exact Hlen.
  - intros p e He. unfold getRow in He.
    assert (E1 : nth p (map (map fst) gi) [] = map fst (nth p gi [])) by (change [] with (map (@fst Z Z) []) at 1; apply map_nth).
    assert (E2 : nth p (map (map snd) gi) [] = map snd (nth p gi [])) by (change [] with (map (@snd Z Z) []) at 1; apply map_nth).
    rewrite E1, E2, combine_fst_snd in He.
    eapply (invalidate_true_for_new_table dm dm'); eauto.
Qed.
