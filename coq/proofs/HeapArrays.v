(* HeapArrays.v — lifts the entry-level results to the three parallel arrays the
   code really keeps (priorities, indices, flags). *)
From Coq Require Import ZArith List Bool Lia Permutation.
From PV Require Import Base Heap ListAux HeapProofs HeapTopK.
Import ListNotations.
Open Scope Z_scope.

Definition arrays := (list Z * list Z * list Z)%type.

Definition wf_arrays (k : nat) (a : arrays) : Prop :=
  let '(ps, ids, fs) := a in length ps = k /\ length ids = k /\ length fs = k.

Definition zipa (a : arrays) : list entry := let '(ps, ids, fs) := a in zip3 ps ids fs.

Lemma unzip3_length l : wf_arrays (length l) (unzip3 l).
Proof. unfold unzip3, wf_arrays. rewrite !map_length. auto. Qed.

Lemma zip3_unzip3 l : zipa (unzip3 l) = l.
Proof.
  unfold zipa, unzip3. apply nth_ext_len with (d := dflt).
  - rewrite zip3_length, map_length; auto.
  - intros i Hi. rewrite zip3_length, map_length in Hi.
    fold (getE (zip3 (map key l) (map eid l) (map efl l)) i).
    rewrite getE_zip3 by (rewrite map_length; auto).
    unfold getZ. rewrite !nth_map_lt with (d' := dflt) by auto.
    destruct (nth i l dflt) as [[a b] c]. reflexivity.
Qed.

Lemma pushz_length checked l x : (0 < length l)%nat -> heapP l -> length (snd (pushz checked l x)) = length l.
Proof.
  intros L0 Hh. pose proof (pushz_outcome checked l x L0 Hh) as PO.
  inversion PO; cbn [snd]; auto.
Qed.

Lemma pushz_heap checked l x : (0 < length l)%nat -> heapP l -> heapP (snd (pushz checked l x)).
Proof.
  intros L0 Hh. pose proof (pushz_outcome checked l x L0 Hh) as PO.
  inversion PO; cbn [snd]; auto.
Qed.

(* one push on arrays = one push on entries *)
Lemma heap_push_zip checked k a p n f :
  (0 < k)%nat -> wf_arrays k a ->
  let '(ps, ids, fs) := a in
  let res := heap_push checked ps ids fs p n f in
  fst res = fst (pushz checked (zipa a) (p, n, f)) /\
  snd res = unzip3 (snd (pushz checked (zipa a) (p, n, f))).
Proof.
  intros Hk. destruct a as [[ps ids] fs]. intros [L1 [L2 L3]]. cbn zeta.
  rewrite heap_push_pushz by lia. cbn [fst snd zipa]. auto.
Qed.

Section Fold.
  Variable delta : Z -> Z.
  Variable checked : bool.

  Definition step3 (a : arrays) (o : Z * Z) : arrays :=
    let '(ps, ids, fs) := a in
    snd (heap_push checked ps ids fs (delta (fst o)) (fst o) (snd o)).

  Definition push_all3 (a : arrays) (xs : list (Z * Z)) : arrays := fold_left step3 xs a.

  Lemma step3_zip k a o :
    (0 < k)%nat -> wf_arrays k a ->
    step3 a o = unzip3 (snd (pushz checked (zipa a) (ent delta o))).
  Proof.
    intros Hk Hwf.
    pose proof (heap_push_zip checked k a (delta (fst o)) (fst o) (snd o) Hk Hwf) as Hz.
    destruct a as [[ps ids] fs]. cbn zeta in Hz. destruct Hz as [_ Hz].
    unfold step3. exact Hz.
  Qed.

  Lemma push_all3_zip k : forall xs a,
    (0 < k)%nat -> wf_arrays k a -> heapP (zipa a) ->
    push_all3 a xs = unzip3 (push_all delta checked (zipa a) xs).
  Proof.
    unfold push_all3, push_all.
    induction xs as [|o xs IH]; intros a Hk Hwf Hh.
    - cbn [fold_left].
      destruct a as [[ps ids] fs]. destruct Hwf as [L1 [L2 L3]].
      cbn [zipa]. rewrite unzip3_zip3 by lia. reflexivity.
    - cbn [fold_left]. rewrite (step3_zip k) by auto.
      assert (Lz : length (zipa a) = k).
      { destruct a as [[ps ids] fs]. cbn [zipa]. rewrite zip3_length. destruct Hwf; auto. }
      set (l' := snd (pushz checked (zipa a) (ent delta o))).
      assert (Ll' : length l' = k) by (unfold l'; rewrite pushz_length; auto; lia).
      rewrite (IH (unzip3 l')); auto.
      + rewrite zip3_unzip3. reflexivity.
      + rewrite <- Ll'. apply unzip3_length.
      + rewrite zip3_unzip3. unfold l'. apply pushz_heap; auto; lia.
  Qed.
End Fold.

Lemma zipa_empty_row inf k : zipa (empty_row inf k) = empty_entries inf k.
Proof.
  unfold empty_row, zipa, empty_entries. apply nth_ext_len with (d := dflt).
  - rewrite zip3_length, !repeat_length; auto.
  - intros i Hi. rewrite zip3_length, repeat_length in Hi.
    fold (getE (zip3 (repeat inf k) (repeat (-1) k) (repeat 0 k)) i).
    rewrite getE_zip3 by (rewrite repeat_length; auto).
    unfold getZ. rewrite !nth_repeat_lt by auto. reflexivity.
Qed.

Lemma wf_empty_row inf k : wf_arrays k (empty_row inf k).
Proof. unfold empty_row, wf_arrays. rewrite !repeat_length. auto. Qed.
