(* C17Proofs.v — no operation of any history writes a caller buffer (ownership model). *)
From Coq Require Import List Bool.
From PV Require Import Alias.
Import ListNotations.

(* the copy-on-normalise decision covers every aliased input of a float32 target *)
Lemma aliased_implies_copy : forall c, check_array_aliases F32 c = true -> copy_on_normalize c = true.
Proof. intros c H. exact H. Qed.

Lemma construct_no_write : forall c m t, snd (construct false c m t) = [].
Proof.
  intros c m t. unfold construct.
  destruct m; cbn [app].
  - destruct (a_sparse c && negb (a_sorted c)); reflexivity.
  - destruct (copy_on_normalize c) eqn:E.
    + destruct (a_sparse c && negb (a_sorted c)); reflexivity.
    + assert (A : check_array_aliases F32 c = false).
      { destruct (check_array_aliases F32 c) eqn:A; auto. apply aliased_implies_copy in A. congruence. }
      rewrite A. destruct (a_sparse c && negb (a_sorted c)); reflexivity.
  - destruct (a_sparse c && negb (a_sorted c)); reflexivity.
Qed.

Lemma step_no_write : forall s o, snd (step false s o) = [].
Proof.
  intros s o. destruct o; cbn [step]; try reflexivity.
  - apply construct_no_write.
  - destruct (idx_sparse s); cbn [snd]; auto. rewrite andb_false_r. reflexivity.
Qed.

Theorem no_caller_write : forall ops s, all_writes false s ops = [].
Proof.
  unfold all_writes. induction ops as [|o ops IH]; intros s; cbn [run map concat]; auto.
  destruct (step false s o) as [s' w] eqn:E. cbn [map concat snd].
  pose proof (step_no_write s o) as H. rewrite E in H. cbn in H. subst w. cbn. apply IH.
Qed.

(* when the index does share the caller's buffer the model says so: used by the tie *)
Lemma alias_only_when_no_conversion : forall c m t,
  raw_shares_x (fst (construct false c m t)) = true ->
  check_array_aliases (match m with Bit => U8 | _ => F32 end) c = true.
Proof.
  intros c m t. unfold construct. destruct m.
  - destruct (a_sparse c && negb (a_sorted c)); cbn; auto. discriminate.
  - destruct (copy_on_normalize c); destruct (a_sparse c && negb (a_sorted c)); cbn; auto; discriminate.
  - destruct (a_sparse c && negb (a_sorted c)); cbn; auto. discriminate.
Qed.

(* the pinned tree (sort_indices() in place) violates the property *)
Theorem pinned_sort_refuted :
  exists c m t, snd (construct true c m t) = [BufX].
Proof.
  exists {| a_dt := F32; a_c := true; a_sparse := true; a_sorted := false |}, Plain, true. reflexivity.
Qed.
Theorem pinned_query_sort_refuted :
  exists s q, idx_sparse s = true /\ snd (step true s (Query q)) = [BufQ].
Proof.
  exists {| raw_shares_x := false; idx_sparse := true; idx_tree := true; idx_class := Plain |},
         {| a_dt := F32; a_c := true; a_sparse := true; a_sorted := false |}. split; reflexivity.
Qed.
