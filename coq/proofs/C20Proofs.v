(* C20Proofs.v — rejection sampling and the connectivity argument of connect_graph. *)
From Coq Require Import ZArith List Bool Lia Relations.
From PV Require Import Base Rng Connect.
Import ListNotations.
Open Scope Z_scope.

Lemma existsb_eqb_In j l : existsb (Z.eqb j) l = true <-> In j l.
Proof.
  rewrite existsb_exists. split.
  - intros [y [Hy E]]. apply Z.eqb_eq in E. subst; auto.
  - intros H. exists j. split; auto. apply Z.eqb_refl.
Qed.

Lemma draw_distinct_spec : forall fuel pool taken rng j rng',
  0 < pool -> draw_distinct fuel pool taken rng = Some (j, rng') -> 0 <= j < pool /\ ~ In j taken.
Proof.
  induction fuel as [|fuel IH]; intros pool taken rng j rng' Hp H; [discriminate|].
  cbn [draw_distinct] in H. destruct (tau_rand_int rng) as [r rng1].
  destruct (existsb (Z.eqb (r mod pool)) taken) eqn:E.
  - eapply IH; eauto.
  - inversion H; subst. split; [apply Z.mod_pos_bound; auto|].
    intros Hin. apply existsb_eqb_In in Hin. congruence.
Qed.

Lemma NoDup_snoc : forall (l : list Z) j, NoDup l -> ~ In j l -> NoDup (l ++ [j]).
Proof.
  induction l as [|a l IH]; intros j Hnd Hj; cbn.
  - constructor; auto.
  - inversion Hnd; subst. constructor.
    + intros Hin. apply in_app_or in Hin. destruct Hin as [Hin|[->|[]]]; auto. apply Hj. left; auto.
    + apply IH; auto. intros Hin. apply Hj. right; auto.
Qed.

Definition in_pool (pool : Z) (l : list Z) : Prop := forall x, In x l -> 0 <= x < pool.

(* whenever rejection_sample returns, the samples are pairwise distinct and in range *)
Theorem rejection_sample_distinct : forall n fuel pool taken rng res rng',
  0 < pool -> NoDup taken -> in_pool pool taken ->
  rejection_sample fuel n pool taken rng = Some (res, rng') ->
  NoDup res /\ in_pool pool res /\ length res = (length taken + n)%nat.
Proof.
  induction n as [|n IH]; intros fuel pool taken rng res rng' Hp Hnd Hin H; cbn [rejection_sample] in H.
  - inversion H; subst. split; [auto|split; [auto|lia]].
  - destruct (draw_distinct fuel pool taken rng) as [[j rng1]|] eqn:E; [|discriminate].
    destruct (draw_distinct_spec _ _ _ _ _ _ Hp E) as [Hj Hnot].
    apply IH in H; auto.
    + destruct H as [A [B C]]. split; [auto|split; [auto|]]. rewrite app_length in C. cbn in C. lia.
    + apply NoDup_snoc; auto.
    + intros x Hx. apply in_app_or in Hx. destruct Hx as [Hx|[<-|[]]]; auto.
Qed.

(* pigeonhole: [pool] distinct values of [0,pool) are all of them *)
Lemma full_pool : forall pool taken, 0 <= pool -> NoDup taken -> in_pool pool taken ->
  Z.of_nat (length taken) = pool -> forall j, 0 <= j < pool -> In j taken.
Proof.
  intros pool taken Hp Hnd Hin Hlen j Hj.
  assert (Hincl : incl (map Z.of_nat (seq 0 (Z.to_nat pool))) taken).
  { apply NoDup_length_incl; auto.
    - rewrite map_length, seq_length. lia.
    - intros x Hx. apply Hin in Hx. apply in_map_iff. exists (Z.to_nat x). split; [lia|].
      apply in_seq. lia. }
  apply Hincl. apply in_map_iff. exists (Z.to_nat j). split; [lia|]. apply in_seq. lia.
Qed.

Lemma draw_distinct_full : forall fuel pool taken rng,
  (forall j, 0 <= j < pool -> In j taken) -> 0 < pool -> draw_distinct fuel pool taken rng = None.
Proof.
  induction fuel as [|fuel IH]; intros pool taken rng Hall Hp; cbn [draw_distinct]; auto.
  destruct (tau_rand_int rng) as [r rng1].
  assert (E : existsb (Z.eqb (r mod pool)) taken = true).
  { apply existsb_eqb_In. apply Hall. apply Z.mod_pos_bound; auto. }
  rewrite E. apply IH; auto.
Qed.

(* asking for more distinct samples than the pool holds never returns, whatever the fuel
   and the generator state: the unbounded loop of the code does not terminate *)
Theorem rejection_sample_diverges : forall n fuel pool taken rng,
  0 < pool -> NoDup taken -> in_pool pool taken ->
  pool < Z.of_nat (length taken + n) ->
  rejection_sample fuel n pool taken rng = None.
Proof.
  induction n as [|n IH]; intros fuel pool taken rng Hp Hnd Hin Hlt; cbn [rejection_sample].
  - exfalso.
    assert (Hincl : incl taken (map Z.of_nat (seq 0 (Z.to_nat pool)))).
    { intros x Hx. apply Hin in Hx. apply in_map_iff. exists (Z.to_nat x). split; [lia|]. apply in_seq. lia. }
    apply NoDup_incl_length in Hincl; auto. rewrite map_length, seq_length in Hincl. lia.
  - destruct (draw_distinct fuel pool taken rng) as [[j rng1]|] eqn:E; auto.
    destruct (draw_distinct_spec _ _ _ _ _ _ Hp E) as [Hj Hnot].
    apply IH; auto.
    + apply NoDup_snoc; auto.
    + intros x Hx. apply in_app_or in Hx. destruct Hx as [Hx|[<-|[]]]; auto.
    + rewrite app_length. cbn [length]. lia.
Qed.

(* ---- the connectivity argument of connect_graph ---- *)
Section Connectivity.
  Variable V : Type.
  Variables E E' : V -> V -> Prop.          (* edges before / after connect_graph *)
  Definition reach (R : V -> V -> Prop) := clos_refl_sym_trans V R.

  Hypothesis super : forall x y, E x y -> E' x y.
  (* for every pair of vertices in different components some added edge joins a vertex of
     x's component to a vertex of y's component (in either orientation) *)
  Hypothesis bridged : forall x y, reach E x y \/
     exists x' y', reach E x x' /\ reach E y y' /\ (E' x' y' \/ E' y' x').

  Lemma reach_mono : forall x y, reach E x y -> reach E' x y.
  Proof.
    intros x y H. induction H as [x y H|x|x y H IH|x y z H1 IH1 H2 IH2].
    - apply rst_step. auto.
    - apply rst_refl.
    - apply rst_sym. auto.
    - eapply rst_trans; eauto.
  Qed.

  Theorem connect_all_pairs : forall x y, reach E' x y.
  Proof.
    intros x y. destruct (bridged x y) as [H|[x' [y' [Hx [Hy He]]]]].
    - apply reach_mono; auto.
    - eapply rst_trans; [apply reach_mono; eauto|].
      eapply rst_trans; [|apply rst_sym; apply reach_mono; eauto].
      destruct He as [He|He]; [apply rst_step; auto|apply rst_sym; apply rst_step; auto].
  Qed.
End Connectivity.

(* ---- soundness of the connectivity certificate ---- *)
Section Cert.
  Variable edges : list (nat * nat).
  Definition Er (u v : nat) : Prop := In (u, v) edges.

  Lemma has_edge_In u v : has_edge edges u v = true -> Er u v.
  Proof.
    unfold has_edge, Er. rewrite existsb_exists. intros [[a b] [Hin H]]. cbn in H.
    apply andb_true_iff in H. destruct H as [H1 H2].
    apply Nat.eqb_eq in H1. apply Nat.eqb_eq in H2. subst. exact Hin.
  Qed.

  Theorem conn_cert_sound : forall n parent depth,
    conn_cert_chk n edges parent depth = true ->
    forall v, (v < n)%nat -> clos_refl_sym_trans nat Er v 0%nat.
  Proof.
    intros n parent depth H. unfold conn_cert_chk in H. rewrite forallb_forall in H.
    assert (G : forall d v, (v < n)%nat -> (nth v depth 0 <= d)%nat -> clos_refl_sym_trans nat Er v 0%nat).
    { induction d as [|d IH]; intros v Hv Hd.
      - assert (Hin : In v (seq 0 n)) by (apply in_seq; lia).
        specialize (H v Hin). cbn zeta in H.
        apply orb_true_iff in H. destruct H as [H|H].
        + apply Nat.eqb_eq in H. subst. apply rst_refl.
        + apply andb_true_iff in H. destruct H as [H _]. apply andb_true_iff in H. destruct H as [H _].
          apply Nat.ltb_lt in H. lia.
      - assert (Hin : In v (seq 0 n)) by (apply in_seq; lia).
        pose proof (H v Hin) as Hv'. cbn zeta in Hv'.
        apply orb_true_iff in Hv'. destruct Hv' as [Hv'|Hv'].
        + apply Nat.eqb_eq in Hv'. subst. apply rst_refl.
        + apply andb_true_iff in Hv'. destruct Hv' as [Hv' He]. apply andb_true_iff in Hv'. destruct Hv' as [Hlt Hp].
          apply Nat.ltb_lt in Hlt. apply Nat.ltb_lt in Hp. apply has_edge_In in He.
          eapply rst_trans; [apply rst_step; exact He|]. apply IH; auto. lia. }
    intros v Hv. apply (G (nth v depth 0%nat)); auto.
  Qed.

  Theorem sym_chk_sound : sym_chk edges = true -> forall u v, Er u v -> Er v u.
  Proof.
    unfold sym_chk. rewrite forallb_forall. intros H u v Huv. apply has_edge_In. apply (H (u, v)). exact Huv.
  Qed.
End Cert.

(* ---------------- termination of the alternating loop ---------------- *)
Definition count_ltL (l : list Z) (b : Z) : nat := length (filter (fun d => d <? b) l).

Lemma count_ltL_mono l b b' : b' <= b -> (count_ltL l b' <= count_ltL l b)%nat.
Proof.
  intros H. unfold count_ltL. induction l as [|y l IH]; cbn [filter]; [lia|].
  destruct (Z.ltb_spec y b'); destruct (Z.ltb_spec y b); cbn [length]; lia.
Qed.

Lemma count_ltL_drop : forall l b b', In b' l -> b' < b -> (count_ltL l b' < count_ltL l b)%nat.
Proof.
  induction l as [|x l IH]; intros b b' Hin Hlt; [destruct Hin|].
  unfold count_ltL in *. cbn [filter]. destruct Hin as [->|Hin].
  - assert (E1 : (b' <? b') = false) by (apply Z.ltb_ge; lia). assert (E2 : (b' <? b) = true) by (apply Z.ltb_lt; lia).
    rewrite E1, E2. cbn [length]. pose proof (count_ltL_mono l b b' ltac:(lia)) as M. unfold count_ltL in M. lia.
  - specialize (IH b b' Hin Hlt). destruct (Z.ltb_spec x b'); destruct (Z.ltb_spec x b); cbn [length]; lia.
Qed.

Lemma fold_min_le : forall ds b, fold_left Z.min ds b <= b.
Proof.
  induction ds as [|d ds IH]; intros b; cbn [fold_left]; [lia|]. specialize (IH (Z.min b d)). lia.
Qed.

Lemma fold_min_in : forall ds b, fold_left Z.min ds b < b -> In (fold_left Z.min ds b) ds.
Proof.
  induction ds as [|d ds IH]; intros b H; cbn [fold_left] in *; [lia|].
  destruct (Z.lt_ge_cases (fold_left Z.min ds (Z.min b d)) (Z.min b d)) as [Hlt|Hge].
  - right. apply IH. exact Hlt.
  - pose proof (fold_min_le ds (Z.min b d)) as Hle.
    assert (E : fold_left Z.min ds (Z.min b d) = Z.min b d) by lia.
    rewrite E in *. left. lia.
Qed.

Section AltLoop.
  Variable S : list Z.                          (* the finitely many distances between the two components *)
  Variable oracle : nat -> list Z * bool.
  Hypothesis oracle_in_S : forall i d, In d (fst (oracle i)) -> In d S.

  (* the loop ends within 2 * (number of candidate distances below the start) + 3 searches,
     whatever the searches return and however the candidate sets keep changing *)
  Theorem alt_loop_terminates : forall fuel i best stalled changed,
    (stalled <= 2)%nat -> (2 * count_ltL S best + (2 - stalled) < fuel)%nat ->
    alt_loop oracle fuel i best stalled changed <> None.
  Proof.
    induction fuel as [|f IH]; intros i best stalled changed Hs Hf; [lia|].
    cbn [alt_loop]. destruct (negb changed || Nat.leb 2 stalled) eqn:Ec; [discriminate|].
    apply orb_false_iff in Ec. destruct Ec as [_ Hst]. apply Nat.leb_gt in Hst.
    pose proof (oracle_in_S i) as HinS. destruct (oracle i) as [ds ch']. cbn [fst] in HinS.
    pose proof (fold_min_le ds best) as Hle.
    destruct (Z.ltb_spec (fold_left Z.min ds best) best) as [Hlt|Hge].
    - apply IH; [lia|].
      pose proof (count_ltL_drop S best (fold_left Z.min ds best) (HinS _ (fold_min_in ds best Hlt)) Hlt). lia.
    - assert (E : fold_left Z.min ds best = best) by lia. rewrite E. apply IH; lia.
  Qed.
End AltLoop.
