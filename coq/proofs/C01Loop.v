(* C01Loop.v — the whole NN-descent loop keeps the graph invariant: candidates produced by
   new_build_candidates are in range, clearing flags does not touch the invariant, every round
   (low and high memory) preserves it, hence so does nn_descent for every number of
   iterations, every thread count and every generator state. *)
From Coq Require Import ZArith List Bool Lia Permutation.
From PV Require Import Base Heap Rng NND ListAux HeapProofs HeapTopK HeapArrays HeapSort NNDProofs C01Proofs.
Import ListNotations.
Open Scope Z_scope.

Section Loop.
  Variable dm : nat -> nat -> Z.
  Variable inf : Z.
  Variables n k maxc : nat.
  Hypothesis Hk : (0 < k)%nat.
  Hypothesis Hmaxc : (0 < maxc)%nat.
  Hypothesis dm_sym : forall a b, dm a b = dm b a.

  Local Notation GWF := (GWF dm inf n k).
  Local Notation id_ok := (id_ok n).

  (* ---------- candidate matrices ---------- *)
  Definition crow (pm im : mat) (r : nat) : list entry :=
    zip3 (getRow pm r) (getRow im r) (repeat 0 (length (getRow pm r))).

  Definition CandWF (pm im : mat) : Prop :=
    length pm = n /\ length im = n /\
    forall r, (r < n)%nat ->
      length (getRow pm r) = maxc /\ length (getRow im r) = maxc /\ heapP (crow pm im r) /\ Forall id_ok (getRow im r).

  Lemma efl_zero_repeat : forall l : list entry, (forall e, In e l -> efl e = 0) -> map efl l = repeat 0 (length l).
  Proof.
    induction l as [|e l IH]; intros H; cbn; auto. rewrite (H e) by (left; auto). f_equal. apply IH. intros; apply H; right; auto.
  Qed.

  Lemma cpush_CandWF pm im r d idx :
    CandWF pm im -> (r < n)%nat -> id_ok idx -> CandWF (fst (cpush pm im r d idx)) (snd (cpush pm im r d idx)).
  Proof.
    intros [Lp [Li Hrows]] Hr Hid. destruct (Hrows r Hr) as [Kp [Ki [Hh Hok]]].
    unfold cpush, checked_heap_push.
    rewrite heap_push_pushz by (rewrite ?repeat_length; lia).
    set (l := zip3 (getRow pm r) (getRow im r) (repeat 0 (length (getRow pm r)))) in *.
    assert (L0 : (0 < length l)%nat) by (unfold l; rewrite zip3_length; lia).
    set (l' := snd (pushz true l (d, idx, 0))).
    assert (Ll' : length l' = maxc) by (unfold l'; rewrite pushz_length; auto; unfold l; rewrite zip3_length; auto).
    assert (Hh' : heapP l') by (apply pushz_heap; auto).
    assert (Hsub : forall e, In e l' -> e = (d, idx, 0) \/ In e l).
    { intros e He. unfold l' in He. pose proof (pushz_outcome true l (d, idx, 0) L0 Hh) as PO.
      inversion PO as [Hw E | Hlt Hc Hdup E | r' Hlt Hc P Hhr Lr E]; rewrite <- E in He; cbn [snd] in He; auto.
      assert (H : In e ((d, idx, 0) :: l)) by (eapply Permutation_in; [exact P|right; auto]). destruct H as [<-|]; auto. }
    assert (Hfl : forall e, In e l -> efl e = 0).
    { intros e He. destruct (In_getE _ _ He) as [i [Hi <-]]. unfold l in *. rewrite zip3_length in Hi.
      rewrite getE_zip3 by auto. cbn [efl snd]. unfold getZ. apply nth_repeat_lt. exact Hi. }
    assert (Hfl' : forall e, In e l' -> efl e = 0).
    { intros e He. destruct (Hsub e He) as [->|Hin]; [reflexivity|apply Hfl; auto]. }
    unfold unzip3. cbn [fst snd].
    split; [rewrite upd_length; auto|]. split; [rewrite upd_length; auto|].
    intros r' Hr'. destruct (Nat.eq_dec r r') as [<-|Hne].
    - rewrite !getRow_upd_eq by lia. rewrite !map_length. split; [auto|]. split; [auto|]. split.
      + unfold crow. rewrite !getRow_upd_eq by lia. rewrite map_length.
        rewrite <- (efl_zero_repeat l' Hfl').
        change (zip3 (map key l') (map eid l') (map efl l')) with (zipa (unzip3 l')). rewrite zip3_unzip3. exact Hh'.
      + apply Forall_forall. intros x Hx. apply in_map_iff in Hx. destruct Hx as [e [<- He]].
        destruct (Hsub e He) as [->|Hin]; [exact Hid|].
        rewrite Forall_forall in Hok. apply Hok.
        replace (getRow im r) with (map eid l) by (unfold l; apply map_eid_zip3; lia). apply in_map; auto.
    - unfold crow. rewrite !getRow_upd_neq by auto. apply Hrows; auto.
  Qed.

  Definition CWF (c : cands) : Prop := CandWF (c_new_p c) (c_new_i c) /\ CandWF (c_old_p c) (c_old_i c).

  Lemma nbc_cell_CWF T t i idx isn c rng :
    CWF c -> (i < n)%nat -> id_ok idx -> CWF (fst (nbc_cell T t i idx isn c rng)).
  Proof.
    intros [Hn Ho] Hi Hid. unfold nbc_cell.
    destruct (Z.ltb_spec idx 0); [split; auto|].
    destruct (tau_rand rng) as [d rng'].
    assert (Hidx : (zidx idx < n)%nat) by (destruct Hid; [lia|unfold zidx; lia]).
    assert (Hzi : id_ok (Z.of_nat i)) by (right; lia).
    destruct (negb (isn =? 0)).
    - pose proof (cpush_CandWF (c_new_p c) (c_new_i c) i d idx Hn Hi Hid) as H1.
      destruct (Z.of_nat i mod T =? t).
      + destruct (cpush (c_new_p c) (c_new_i c) i d idx) as [np ni]. cbn [fst snd] in H1.
        pose proof (cpush_CandWF np ni (zidx idx) d (Z.of_nat i) H1 Hidx Hzi) as H2.
        destruct (idx mod T =? t).
        * destruct (cpush np ni (zidx idx) d (Z.of_nat i)) as [np2 ni2]. cbn [fst snd] in *. split; auto.
        * cbn [fst]. split; auto.
      + pose proof (cpush_CandWF (c_new_p c) (c_new_i c) (zidx idx) d (Z.of_nat i) Hn Hidx Hzi) as H2.
        destruct (idx mod T =? t).
        * destruct (cpush (c_new_p c) (c_new_i c) (zidx idx) d (Z.of_nat i)) as [np2 ni2]. cbn [fst snd] in *. split; auto.
        * cbn [fst]. split; auto.
    - pose proof (cpush_CandWF (c_old_p c) (c_old_i c) i d idx Ho Hi Hid) as H1.
      destruct (Z.of_nat i mod T =? t).
      + destruct (cpush (c_old_p c) (c_old_i c) i d idx) as [op oi]. cbn [fst snd] in H1.
        pose proof (cpush_CandWF op oi (zidx idx) d (Z.of_nat i) H1 Hidx Hzi) as H2.
        destruct (idx mod T =? t).
        * destruct (cpush op oi (zidx idx) d (Z.of_nat i)) as [op2 oi2]. cbn [fst snd] in *. split; auto.
        * cbn [fst]. split; auto.
      + pose proof (cpush_CandWF (c_old_p c) (c_old_i c) (zidx idx) d (Z.of_nat i) Ho Hidx Hzi) as H2.
        destruct (idx mod T =? t).
        * destruct (cpush (c_old_p c) (c_old_i c) (zidx idx) d (Z.of_nat i)) as [op2 oi2]. cbn [fst snd] in *. split; auto.
        * cbn [fst]. split; auto.
  Qed.

  (* ids stored in a well-formed graph row are -1 or in range *)
  Lemma graph_row_ids_ok g i x : GWF g -> (i < n)%nat -> In x (getRow (g_ind g) i) -> id_ok x.
  Proof.
    intros [Hwf Hrows] Hi Hx. destruct (Hrows i Hi) as [_ [_ Hent]].
    destruct Hwf as [_ [_ [_ Hl]]]. destruct (Hl i Hi) as [Ki [Kd Kf]].
    assert (Hin : In x (map eid (grow g i))) by (unfold grow; rewrite map_eid_zip3 by lia; exact Hx).
    apply in_map_iff in Hin. destruct Hin as [e [<- He]].
    destruct (Hent e He) as [[E _]|[E _]]; [left; lia|right; exact E].
  Qed.

  Lemma nbc_row_CWF T t i g : GWF g -> (i < n)%nat ->
    forall (cells : list (Z * Z)) st, (forall ij, In ij cells -> In (fst ij) (getRow (g_ind g) i)) -> CWF (fst st) ->
      CWF (fst (fold_left (fun (st : cands * list Z) (ij : Z * Z) => nbc_cell T t i (fst ij) (snd ij) (fst st) (snd st)) cells st)).
  Proof.
    intros HG Hi. induction cells as [|ij cells IH]; intros st Hsub Hc; cbn [fold_left]; auto.
    apply IH; [intros; apply Hsub; right; auto|].
    apply nbc_cell_CWF; auto. eapply graph_row_ids_ok; eauto. apply Hsub. left; auto.
  Qed.

  Lemma nbc_thread_CWF T g rng0 c t : GWF g -> CWF c -> CWF (nbc_thread T g rng0 c t).
  Proof.
    intros HG Hc. unfold nbc_thread.
    assert (Hlen : length (g_ind g) = n) by (destruct HG as [[H _] _]; exact H).
    rewrite Hlen.
    assert (G : forall rows st, Forall (fun i => (i < n)%nat) rows -> CWF (fst st) ->
      CWF (fst (fold_left (fun (st : cands * list Z) i =>
                      fold_left (fun (st : cands * list Z) (ij : Z * Z) => nbc_cell T t i (fst ij) (snd ij) (fst st) (snd st))
                                (combine (getRow (g_ind g) i) (getRow (g_flag g) i)) st) rows st))).
    { induction rows as [|i rows IH]; intros st Hr Hs; cbn [fold_left]; auto.
      inversion Hr; subst. apply IH; auto. apply (nbc_row_CWF T t i g); auto.
      intros ij Hin. destruct ij as [a b]. apply in_combine_l in Hin. exact Hin. }
    apply G; auto. apply Forall_forall. intros i Hi. apply in_seq in Hi. lia.
  Qed.

  Lemma CandWF_empty : CandWF (repeat (repeat inf maxc) n) (repeat (repeat (-1) maxc) n).
  Proof.
    split; [apply repeat_length|]. split; [apply repeat_length|].
    intros r Hr. unfold crow, getRow. rewrite !nth_repeat_lt by auto. rewrite !repeat_length.
    split; [auto|]. split; [auto|]. split.
    - change (zip3 (repeat inf maxc) (repeat (-1) maxc) (repeat 0 maxc)) with (zipa (empty_row inf maxc)).
      rewrite zipa_empty_row. pose proof (Inv_empty (fun _ => 0) inf maxc) as I. destruct I as [_ Hh _ _ _]. exact Hh.
    - apply Forall_forall. intros x Hx. apply repeat_spec in Hx. left. lia.
  Qed.

  Lemma rows_Forall (P : list Z -> Prop) (m : mat) : length m = n -> (forall r, (r < n)%nat -> P (getRow m r)) -> Forall P m.
  Proof.
    intros Hl H. apply Forall_forall. intros row Hin. destruct (In_nth _ _ [] Hin) as [i [Hi <-]]. apply H. lia.
  Qed.

  Theorem new_build_candidates_in_range g rng T :
    GWF g ->
    let '(g1, newc, oldc) := new_build_candidates inf g maxc rng T in
    Forall (Forall id_ok) newc /\ Forall (Forall id_ok) oldc.
  Proof.
    intros HG. unfold new_build_candidates.
    assert (Hlen : length (g_ind g) = n) by (destruct HG as [[H _] _]; exact H). rewrite Hlen.
    set (c0 := {| c_new_p := repeat (repeat inf maxc) n; c_new_i := repeat (repeat (-1) maxc) n;
                  c_old_p := repeat (repeat inf maxc) n; c_old_i := repeat (repeat (-1) maxc) n |}).
    assert (H0 : CWF c0) by (split; apply CandWF_empty).
    assert (G : forall ts c, CWF c -> CWF (fold_left (nbc_thread (Z.of_nat T) g rng) ts c)).
    { induction ts as [|t ts IH]; intros c Hc; cbn [fold_left]; auto. apply IH. apply nbc_thread_CWF; auto. }
    destruct (G (map Z.of_nat (seq 0 T)) c0 H0) as [[Ln [Lni Hn]] [Lo [Loi Ho]]].
    split; apply rows_Forall; auto; intros r Hr; [apply Hn|apply Ho]; auto.
  Qed.

  (* ---------- clearing flags does not touch the invariant ---------- *)
  Lemma getE_same_key_id ds ids fs fs' c : (c < length ds)%nat ->
    key (getE (zip3 ds ids fs') c) = key (getE (zip3 ds ids fs) c) /\ eid (getE (zip3 ds ids fs') c) = eid (getE (zip3 ds ids fs) c).
  Proof. intros H. rewrite !getE_zip3 by auto. split; reflexivity. Qed.

  Lemma real_ids ds ids fs : length ids = length ds ->
    map eid (real (zip3 ds ids fs)) = filter (fun i => negb (i =? -1)) ids.
  Proof.
    intros L. unfold real.
    assert (E : forall l : list entry, map eid (filter is_real l) = filter (fun i => negb (i =? -1)) (map eid l)).
    { induction l as [|e l IH]; cbn; auto. unfold is_real at 1. destruct (negb (eid e =? -1)); cbn; rewrite IH; reflexivity. }
    rewrite E. rewrite map_eid_zip3 by exact L. reflexivity.
  Qed.

  Lemma RowWF_flags r ds ids fs fs' :
    length ids = length ds -> RowWF dm inf n r (zip3 ds ids fs) -> RowWF dm inf n r (zip3 ds ids fs').
  Proof.
    intros L [Hh [Hnd Hent]]. split; [|split].
    - intros j c Hc Hlt. rewrite zip3_length in Hlt.
      assert (Hj : (j < length ds)%nat) by (unfold child in Hc; lia).
      destruct (getE_same_key_id ds ids fs fs' c Hlt) as [-> _]. destruct (getE_same_key_id ds ids fs fs' j Hj) as [-> _].
      apply Hh; auto. rewrite zip3_length. exact Hlt.
    - rewrite real_ids by exact L. rewrite real_ids in Hnd by exact L. exact Hnd.
    - intros e He. destruct (In_getE _ _ He) as [c [Hc <-]]. rewrite zip3_length in Hc.
      destruct (getE_same_key_id ds ids fs fs' c Hc) as [-> ->].
      apply Hent. apply getE_In. rewrite zip3_length. exact Hc.
  Qed.

  Lemma GWF_new_flags g flags' :
    GWF g -> length flags' = n -> (forall r, (r < n)%nat -> length (getRow flags' r) = k) ->
    GWF {| g_ind := g_ind g; g_dist := g_dist g; g_flag := flags' |}.
  Proof.
    intros [[Li [Ld [Lf Hl]]] Hrows] Lf' Hk'. split.
    - unfold wf_graph. cbn [g_ind g_dist g_flag]. repeat split; auto; destruct (Hl r H) as [A [B C]]; auto.
    - intros r Hr. unfold grow. cbn [g_ind g_dist g_flag]. destruct (Hl r Hr) as [A [B C]].
      apply (RowWF_flags r _ _ (getRow (g_flag g) r)); [lia|]. apply Hrows; auto.
  Qed.

  Lemma nbc_graph_GWF g rng T : GWF g -> GWF (fst (fst (new_build_candidates inf g maxc rng T))).
  Proof.
    intros HG. unfold new_build_candidates. cbn [fst].
    assert (Hlen : length (g_ind g) = n) by (destruct HG as [[H _] _]; exact H). rewrite Hlen.
    apply GWF_new_flags; auto.
    - rewrite map_length, seq_length. reflexivity.
    - intros r Hr. unfold getRow at 1.
      rewrite (nth_map_lt _ (seq 0 n) r [] O) by (rewrite seq_length; exact Hr). rewrite seq_nth by exact Hr. cbn [Nat.add].
      unfold clear_flags_row. rewrite map_length, combine_length.
      destruct HG as [[_ [_ [_ Hl]]] _]. destruct (Hl r Hr) as [A [_ C]]. lia.
  Qed.

  (* ---------- one round, any number of rounds ---------- *)
  Lemma round_low_GWF g rng T :
    GWF g ->
    let '(g1, newc, oldc) := new_build_candidates inf g maxc rng T in
    GWF (fst (apply_graph_updates_low_memory g1 (generate_graph_updates inf dm (thresholds g1) newc oldc) T)).
  Proof.
    intros HG. pose proof (new_build_candidates_in_range g rng T HG) as Hr. pose proof (nbc_graph_GWF g rng T HG) as HG1.
    destruct (new_build_candidates inf g maxc rng T) as [[g1 newc] oldc]. cbn [fst] in HG1. destruct Hr as [Hn Ho].
    apply (apply_low_GWF dm inf n k Hk dm_sym); auto. apply (generate_graph_updates_true dm inf n k Hk); auto.
  Qed.

  Lemma round_high_GWF b g ing rng T :
    GWF g ->
    let '(g1, newc, oldc) := new_build_candidates inf g maxc rng T in
    GWF (fst (fst (apply_graph_updates_high_memory b g1 (generate_graph_updates inf dm (thresholds g1) newc oldc) ing))).
  Proof.
    intros HG. pose proof (new_build_candidates_in_range g rng T HG) as Hr. pose proof (nbc_graph_GWF g rng T HG) as HG1.
    destruct (new_build_candidates inf g maxc rng T) as [[g1 newc] oldc]. cbn [fst] in HG1. destruct Hr as [Hn Ho].
    apply (apply_high_GWF dm inf n k Hk dm_sym); auto. apply (generate_graph_updates_true dm inf n k Hk); auto.
  Qed.

  Theorem nnd_low_GWF : forall iters g rng T thr_c, GWF g -> GWF (nnd_low inf dm iters g maxc rng T thr_c).
  Proof.
    induction iters as [|it IH]; intros g rng T thr_c HG; cbn [nnd_low]; auto.
    pose proof (round_low_GWF g rng T HG) as HR.
    destruct (new_build_candidates inf g maxc rng T) as [[g1 newc] oldc].
    destruct (apply_graph_updates_low_memory g1 (generate_graph_updates inf dm (thresholds g1) newc oldc) T) as [g2 c].
    cbn [fst] in HR. destruct (c <=? thr_c); auto.
  Qed.

  Theorem nnd_high_GWF b : forall iters g ing rng T thr_c, GWF g -> GWF (nnd_high inf dm b iters g ing maxc rng T thr_c).
  Proof.
    induction iters as [|it IH]; intros g ing rng T thr_c HG; cbn [nnd_high]; auto.
    pose proof (round_high_GWF b g ing rng T HG) as HR.
    destruct (new_build_candidates inf g maxc rng T) as [[g1 newc] oldc].
    destruct (apply_graph_updates_high_memory b g1 (generate_graph_updates inf dm (thresholds g1) newc oldc) ing) as [[g2 ing2] c].
    cbn [fst] in HR. destruct (c <=? thr_c); auto.
  Qed.
End Loop.

(* ---------- nn_descent as a whole ---------- *)
Section Whole.
  Variable dm : nat -> nat -> Z.
  Variable inf : Z.
  Variables n k maxc : nat.
  Hypothesis Hk : (0 < k)%nat.
  Hypothesis Hmaxc : (0 < maxc)%nat.
  Hypothesis dm_sym : forall a b, dm a b = dm b a.

  (* the heap graph nn_descent sorts at the end *)
  Definition nn_descent_heap (b : bool) (rng : list Z) (iters : nat) (thr_c : Z) (init : option graph) (leaves : option mat)
             (low_memory : bool) (T : nat) : graph :=
    let '(g0, rng1) :=
        match init with
        | Some g => (g, rng)
        | None =>
          let g := make_heap inf n k in
          let g := match leaves with Some lv => init_rp_tree inf dm g lv | None => g end in
          init_random dm k n g rng
        end in
    if low_memory then nnd_low inf dm iters g0 maxc rng1 T thr_c
    else nnd_high inf dm b iters g0 (g_ind g0) maxc rng1 T thr_c.

  Lemma nn_descent_is_sorted_heap b rng iters thr_c init leaves low T :
    fst (nn_descent inf dm b n k rng maxc iters thr_c init leaves low T) =
    deheap_graph (nn_descent_heap b rng iters thr_c init leaves low T).
  Proof.
    unfold nn_descent, nn_descent_heap.
    destruct init as [g|]; [reflexivity|].
    destruct (init_random dm k n _ rng) as [g0 rng1]. reflexivity.
  Qed.

  (* for every generator state, iteration bound, stopping threshold, thread count, memory mode,
     with tree leaves (any in-range leaf array), without, or from a caller-supplied well-formed heap *)
  Theorem nn_descent_GWF b rng iters thr_c init leaves low T :
    (match init with Some g => GWF dm inf n k g | None => True end) ->
    (match leaves with Some lv => Forall (Forall (id_ok n)) lv | None => True end) ->
    GWF dm inf n k (nn_descent_heap b rng iters thr_c init leaves low T).
  Proof.
    intros Hinit Hleaves. unfold nn_descent_heap.
    assert (G0 : GWF dm inf n k (fst (match init with
                    | Some g => (g, rng)
                    | None => init_random dm k n (match leaves with Some lv => init_rp_tree inf dm (make_heap inf n k) lv | None => make_heap inf n k end) rng
                    end))).
    { destruct init as [g|]; [exact Hinit|].
      apply (init_random_GWF dm inf n k Hk dm_sym).
      destruct leaves as [lv|]; [apply (init_rp_tree_GWF dm inf n k Hk dm_sym); auto|]; apply GWF_make_heap. }
    destruct (match init with Some g => (g, rng) | None => _ end) as [g0 rng1]. cbn [fst] in G0.
    destruct low; [apply (nnd_low_GWF dm inf n k maxc Hk Hmaxc dm_sym)|apply (nnd_high_GWF dm inf n k maxc Hk Hmaxc dm_sym)]; exact G0.
  Qed.
End Whole.
