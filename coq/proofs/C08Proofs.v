(* C08Proofs.v — the two-pointer merges compute the dense operations. *)
From Coq Require Import ZArith List Bool Lia.
From PV Require Import SparseOps.
Import ListNotations.
Open Scope Z_scope.

(* strictly increasing indices, all above k: what sort_indices() establishes *)
Fixpoint sorted_gt (k : Z) (v : svec) : Prop :=
  match v with
  | [] => True
  | (j, _) :: t => k < j /\ sorted_gt j t
  end.

Lemma sorted_gt_weaken k k' v : k' <= k -> sorted_gt k v -> sorted_gt k' v.
Proof. destruct v as [|[j x] t]; cbn; auto. intros H [H1 H2]. split; auto; lia. Qed.

Lemma sget_below k v i : sorted_gt k v -> i <= k -> sget v i = 0.
Proof.
  revert k; induction v as [|[j x] t IH]; intros k Hs Hi; cbn in *; auto.
  destruct Hs as [H1 H2]. destruct (Z.eqb_spec j i); [lia|]. apply (IH j); auto; lia.
Qed.

Lemma sget_emit j v rest i : sget (emit j v rest) i = if j =? i then (if v =? 0 then sget rest i else v) else sget rest i.
Proof.
  unfold emit. destruct (Z.eqb_spec v 0); cbn [sget].
  - destruct (j =? i); auto.
  - destruct (j =? i); auto.
Qed.

Lemma sorted_emit k j v rest : k < j -> sorted_gt j rest -> sorted_gt k (emit j v rest).
Proof.
  intros H Hs. unfold emit. destruct (v =? 0); cbn; auto.
  apply sorted_gt_weaken with j; auto; lia.
Qed.

Definition tail_emit (b : svec) : svec := fold_right (fun p acc => emit (fst p) (snd p) acc) [] b.

Lemma tail_emit_spec : forall b k, sorted_gt k b ->
  sorted_gt k (tail_emit b) /\ forall i, sget (tail_emit b) i = sget b i.
Proof.
  induction b as [|[j x] t IH]; intros k Hs; cbn in *; [split; auto|].
  destruct Hs as [H1 H2]. destruct (IH j H2) as [I1 I2]. split.
  - apply sorted_emit; auto.
  - intros i. rewrite sget_emit. cbn [fst snd]. destruct (Z.eqb_spec j i).
    + subst. destruct (Z.eqb_spec x 0); auto. rewrite I2. subst. apply sget_below with i; auto; lia.
    + apply I2.
Qed.

(* ---------------- sparse_sum ---------------- *)
Theorem sparse_sum_spec : forall a b k, sorted_gt k a -> sorted_gt k b ->
  sorted_gt k (sparse_sum a b) /\ forall i, sget (sparse_sum a b) i = sget a i + sget b i.
Proof.
  induction a as [|[j1 x1] a' IHa]; intros b k Ha Hb.
  - destruct b as [|p b']; [cbn; split; auto|].
    change (sparse_sum [] (p :: b')) with (tail_emit (p :: b')).
    destruct (tail_emit_spec (p :: b') k Hb) as [S G]. split; [exact S|]. intros i. rewrite G. cbn [sget]. lia.
  - induction b as [|[j2 x2] b' IHb] in k, Ha, Hb |- *.
    + change (sparse_sum ((j1, x1) :: a') []) with (tail_emit ((j1, x1) :: a')).
      destruct (tail_emit_spec ((j1, x1) :: a') k Ha) as [S G]. split; [exact S|]. intros i. rewrite G. cbn [sget]. lia.
    + cbn in Ha, Hb. destruct Ha as [A1 A2]. destruct Hb as [B1 B2].
      change (sparse_sum ((j1, x1) :: a') ((j2, x2) :: b')) with
          (if j1 =? j2 then emit j1 (x1 + x2) (sparse_sum a' b')
           else if j1 <? j2 then emit j1 x1 (sparse_sum a' ((j2, x2) :: b'))
           else emit j2 x2 (sparse_sum ((j1, x1) :: a') b')).
      destruct (Z.eqb_spec j1 j2) as [E|NE].
      * subst j2. destruct (IHa b' j1 A2 B2) as [S G]. split; [apply sorted_emit; auto|].
        intros i. rewrite sget_emit. cbn [sget]. destruct (Z.eqb_spec j1 i) as [->|Hi]; [|apply G].
        destruct (Z.eqb_spec (x1 + x2) 0); auto.
        rewrite G, (sget_below i a' i), (sget_below i b' i); auto; lia.
      * destruct (Z.ltb_spec j1 j2) as [L|L].
        -- assert (Hb' : sorted_gt j1 ((j2, x2) :: b')) by (cbn; split; auto).
           destruct (IHa ((j2, x2) :: b') j1 A2 Hb') as [S G]. split; [apply sorted_emit; auto|].
           intros i. rewrite sget_emit. cbn [sget]. destruct (Z.eqb_spec j1 i) as [->|Hi].
           ++ destruct (Z.eqb_spec j2 i); [lia|].
              destruct (Z.eqb_spec x1 0).
              ** rewrite G. cbn [sget]. destruct (Z.eqb_spec j2 i); [lia|].
                 rewrite (sget_below i a' i), (sget_below j2 b' i); auto; lia.
              ** rewrite (sget_below j2 b' i); auto; lia.
           ++ rewrite G. cbn [sget]. reflexivity.
        -- assert (Ha' : sorted_gt j2 ((j1, x1) :: a')) by (cbn; split; auto; lia).
           destruct (IHb j2 Ha' B2) as [S G]. split; [apply sorted_emit; auto|].
           intros i. rewrite sget_emit. cbn [sget]. destruct (Z.eqb_spec j2 i) as [->|Hi].
           ++ destruct (Z.eqb_spec j1 i); [lia|].
              destruct (Z.eqb_spec x2 0).
              ** rewrite G. cbn [sget]. destruct (Z.eqb_spec j1 i); [lia|].
                 rewrite (sget_below j1 a' i), (sget_below i b' i); auto; lia.
              ** rewrite (sget_below j1 a' i); auto; lia.
           ++ rewrite G. cbn [sget]. reflexivity.
Qed.

Lemma sorted_neg k b : sorted_gt k b -> sorted_gt k (sparse_neg b).
Proof. revert k; induction b as [|[j x] t IH]; intros k H; cbn in *; auto. destruct H; split; auto. Qed.

Lemma sget_neg b i : sget (sparse_neg b) i = - sget b i.
Proof. induction b as [|[j x] t IH]; cbn; auto. destruct (j =? i); auto. Qed.

Theorem sparse_diff_spec a b k : sorted_gt k a -> sorted_gt k b ->
  sorted_gt k (sparse_diff a b) /\ forall i, sget (sparse_diff a b) i = sget a i - sget b i.
Proof.
  intros Ha Hb. unfold sparse_diff.
  destruct (sparse_sum_spec a (sparse_neg b) k Ha (sorted_neg k b Hb)) as [S G].
  split; auto. intros i. rewrite G, sget_neg. lia.
Qed.

(* ---------------- sparse_mul ---------------- *)
Theorem sparse_mul_spec : forall a b k, sorted_gt k a -> sorted_gt k b ->
  sorted_gt k (sparse_mul a b) /\ forall i, sget (sparse_mul a b) i = sget a i * sget b i.
Proof.
  induction a as [|[j1 x1] a' IHa]; intros b k Ha Hb.
  - destruct b; cbn; split; auto.
  - induction b as [|[j2 x2] b' IHb] in k, Ha, Hb |- *.
    + cbn. split; auto. intros i. destruct (j1 =? i); lia.
    + cbn in Ha, Hb. destruct Ha as [A1 A2]. destruct Hb as [B1 B2].
      change (sparse_mul ((j1, x1) :: a') ((j2, x2) :: b')) with
          (if j1 =? j2 then emit j1 (x1 * x2) (sparse_mul a' b')
           else if j1 <? j2 then sparse_mul a' ((j2, x2) :: b')
           else sparse_mul ((j1, x1) :: a') b').
      destruct (Z.eqb_spec j1 j2) as [E|NE].
      * subst j2. destruct (IHa b' j1 A2 B2) as [S G]. split; [apply sorted_emit; auto|].
        intros i. rewrite sget_emit. cbn [sget]. destruct (Z.eqb_spec j1 i) as [->|Hi]; [|apply G].
        destruct (Z.eqb_spec (x1 * x2) 0); auto.
        rewrite G, (sget_below i a' i); auto; lia.
      * destruct (Z.ltb_spec j1 j2) as [L|L].
        -- assert (Hb' : sorted_gt j1 ((j2, x2) :: b')) by (cbn; split; auto).
           destruct (IHa ((j2, x2) :: b') j1 A2 Hb') as [S G].
           split; [apply sorted_gt_weaken with j1; auto; lia|].
           intros i. rewrite G. cbn [sget]. destruct (Z.eqb_spec j1 i) as [->|Hi]; [|reflexivity].
           destruct (Z.eqb_spec j2 i); [lia|].
           rewrite (sget_below i a' i), (sget_below j2 b' i); auto; lia.
        -- assert (Ha' : sorted_gt j2 ((j1, x1) :: a')) by (cbn; split; auto; lia).
           destruct (IHb j2 Ha' B2) as [S G].
           split; [apply sorted_gt_weaken with j2; auto; lia|].
           intros i. rewrite G. cbn [sget]. destruct (Z.eqb_spec j2 i) as [->|Hi]; [|reflexivity].
           destruct (Z.eqb_spec j1 i); [lia|].
           rewrite (sget_below j1 a' i), (sget_below i b' i); auto; lia.
Qed.

(* ---------------- sparse_dot_product ---------------- *)
Definition sumvals (v : svec) : Z := fold_right (fun p acc => snd p + acc) 0 v.

Lemma sumvals_emit j v rest : sumvals (emit j v rest) = v + sumvals rest.
Proof. unfold emit, sumvals. destruct (Z.eqb_spec v 0); cbn [fold_right snd]; lia. Qed.

(* the dot product is the sum of the entries of the pointwise product (any inputs) *)
Theorem sparse_dot_is_sum_of_mul : forall a b, sparse_dot_product a b = sumvals (sparse_mul a b).
Proof.
  induction a as [|[j1 x1] a' IHa]; intros b.
  - destruct b; reflexivity.
  - induction b as [|[j2 x2] b' IHb].
    + reflexivity.
    + change (sparse_dot_product ((j1, x1) :: a') ((j2, x2) :: b')) with
          (if j1 =? j2 then x1 * x2 + sparse_dot_product a' b'
           else if j1 <? j2 then sparse_dot_product a' ((j2, x2) :: b')
           else sparse_dot_product ((j1, x1) :: a') b').
      change (sparse_mul ((j1, x1) :: a') ((j2, x2) :: b')) with
          (if j1 =? j2 then emit j1 (x1 * x2) (sparse_mul a' b')
           else if j1 <? j2 then sparse_mul a' ((j2, x2) :: b')
           else sparse_mul ((j1, x1) :: a') b').
      destruct (j1 =? j2); [rewrite sumvals_emit, IHa; reflexivity|].
      destruct (j1 <? j2); [apply IHa|apply IHb].
Qed.

(* ---------------- fast_intersection_size ---------------- *)
(* the cursor/limit loop is the plain merge count ... *)
Fixpoint icount (l1 : list Z) : list Z -> Z :=
  fix inner (l2 : list Z) : Z :=
    match l1, l2 with
    | [], _ => 0
    | _, [] => 0
    | j1 :: r1, j2 :: r2 =>
      if j1 =? j2 then 1 + icount r1 r2 else if j1 <? j2 then icount r1 l2 else inner r2
    end.

Lemma icount_nil_r l : icount l [] = 0.
Proof. destruct l; reflexivity. Qed.

Lemma fis_loop_icount : forall r1 j1 r2 j2, fis_loop j1 r1 j2 r2 = icount (j1 :: r1) (j2 :: r2).
Proof.
  induction r1 as [|j1' r1' IH1]; intros j1 r2 j2.
  - induction r2 as [|j2' r2' IH2] in j2 |- *.
    + cbn. destruct (j1 =? j2); [reflexivity|]. destruct (j1 <? j2); reflexivity.
    + change (fis_loop j1 [] j2 (j2' :: r2')) with
          (if j1 =? j2 then 1 + 0 else if j1 <? j2 then 0 else fis_loop j1 [] j2' r2').
      change (icount [j1] (j2 :: j2' :: r2')) with
          (if j1 =? j2 then 1 + icount [] (j2' :: r2') else if j1 <? j2 then icount [] (j2 :: j2' :: r2') else icount [j1] (j2' :: r2')).
      destruct (j1 =? j2); [reflexivity|]. destruct (j1 <? j2); [reflexivity|apply IH2].
  - induction r2 as [|j2' r2' IH2] in j2 |- *.
    + change (fis_loop j1 (j1' :: r1') j2 []) with
          (if j1 =? j2 then 1 + 0 else if j1 <? j2 then fis_loop j1' r1' j2 [] else 0).
      change (icount (j1 :: j1' :: r1') [j2]) with
          (if j1 =? j2 then 1 + icount (j1' :: r1') [] else if j1 <? j2 then icount (j1' :: r1') [j2] else icount (j1 :: j1' :: r1') []).
      destruct (j1 =? j2); [reflexivity|]. destruct (j1 <? j2); [apply IH1|reflexivity].
    + change (fis_loop j1 (j1' :: r1') j2 (j2' :: r2')) with
          (if j1 =? j2 then 1 + fis_loop j1' r1' j2' r2'
           else if j1 <? j2 then fis_loop j1' r1' j2 (j2' :: r2') else fis_loop j1 (j1' :: r1') j2' r2').
      change (icount (j1 :: j1' :: r1') (j2 :: j2' :: r2')) with
          (if j1 =? j2 then 1 + icount (j1' :: r1') (j2' :: r2')
           else if j1 <? j2 then icount (j1' :: r1') (j2 :: j2' :: r2') else icount (j1 :: j1' :: r1') (j2' :: r2')).
      destruct (j1 =? j2); [rewrite IH1; reflexivity|]. destruct (j1 <? j2); [apply IH1|apply IH2].
Qed.

(* ... and on strictly increasing index lists the merge count is the size of the
   intersection of the supports *)
Fixpoint isorted_gt (k : Z) (l : list Z) : Prop :=
  match l with [] => True | j :: t => k < j /\ isorted_gt j t end.

Definition memb (j : Z) (l : list Z) : bool := existsb (Z.eqb j) l.
Definition inter_size (l1 l2 : list Z) : Z := Z.of_nat (length (filter (fun j => memb j l2) l1)).

Lemma isorted_all_gt k l : isorted_gt k l -> forall j, In j l -> k < j.
Proof.
  revert k; induction l as [|x t IH]; intros k Hs j Hj; cbn in *; [contradiction|].
  destruct Hs as [H1 H2]. destruct Hj as [<-|Hj]; auto. specialize (IH x H2 j Hj). lia.
Qed.

Lemma inter_size_drop_head l1 j2 r2 :
  (forall j, In j l1 -> j <> j2) -> inter_size l1 (j2 :: r2) = inter_size l1 r2.
Proof.
  intros H. unfold inter_size. f_equal. f_equal.
  apply filter_ext_in. intros j Hj. unfold memb. cbn [existsb].
  destruct (Z.eqb_spec j j2) as [E|NE]; [exfalso; apply (H j); auto|reflexivity].
Qed.

Lemma inter_size_cons j1 r1 l2 :
  inter_size (j1 :: r1) l2 = (if memb j1 l2 then 1 else 0) + inter_size r1 l2.
Proof. unfold inter_size. cbn [filter]. destruct (memb j1 l2); cbn [length]; lia. Qed.

Lemma memb_above k l j : isorted_gt k l -> j <= k -> memb j l = false.
Proof.
  revert k; induction l as [|x t IH]; intros k Hs Hj; cbn in *; auto.
  destruct Hs as [H1 H2]. destruct (Z.eqb_spec j x); [lia|]. cbn. apply (IH x); auto; lia.
Qed.

Theorem icount_spec : forall l1 l2 k, isorted_gt k l1 -> isorted_gt k l2 -> icount l1 l2 = inter_size l1 l2.
Proof.
  induction l1 as [|j1 r1 IH1]; intros l2 k H1 H2.
  - destruct l2; reflexivity.
  - induction l2 as [|j2 r2 IH2] in k, H1, H2 |- *.
    + rewrite icount_nil_r. unfold inter_size. cbn.
      assert (E : filter (fun _ : Z => false) r1 = []) by (clear; induction r1; cbn; auto). rewrite E. reflexivity.
    + cbn in H1, H2. destruct H1 as [A1 A2]. destruct H2 as [B1 B2].
      change (icount (j1 :: r1) (j2 :: r2)) with
          (if j1 =? j2 then 1 + icount r1 r2 else if j1 <? j2 then icount r1 (j2 :: r2) else icount (j1 :: r1) r2).
      destruct (Z.eqb_spec j1 j2) as [E|NE].
      * subst j2. rewrite (IH1 r2 j1 A2 B2). rewrite inter_size_cons.
        cbn [memb existsb]. rewrite Z.eqb_refl. cbn [orb].
        rewrite inter_size_drop_head; [reflexivity|].
        intros j Hj. pose proof (isorted_all_gt j1 r1 A2 j Hj). lia.
      * destruct (Z.ltb_spec j1 j2) as [L|L].
        -- rewrite (IH1 (j2 :: r2) j1 A2) by (cbn; split; auto).
           rewrite inter_size_cons. rewrite (memb_above j1 (j2 :: r2) j1) by (cbn; auto; lia). lia.
        -- assert (Ha' : isorted_gt j2 (j1 :: r1)) by (cbn; split; auto; lia).
           rewrite (IH2 j2 Ha' B2).
           rewrite inter_size_drop_head; [reflexivity|].
           intros j Hj. pose proof (isorted_all_gt j2 (j1 :: r1) Ha' j Hj). lia.
Qed.

Theorem fast_intersection_size_spec l1 l2 k :
  isorted_gt k l1 -> isorted_gt k l2 -> fast_intersection_size l1 l2 = inter_size l1 l2.
Proof.
  intros H1 H2. destruct l1 as [|j1 r1]; [destruct l2; reflexivity|].
  destruct l2 as [|j2 r2].
  - unfold fast_intersection_size, inter_size. cbn.
    assert (E : filter (fun _ : Z => false) r1 = []) by (clear; induction r1; cbn; auto). rewrite E. reflexivity.
  - unfold fast_intersection_size. rewrite fis_loop_icount. apply (icount_spec _ _ k); auto.
Qed.
