(* C02Term.v — the query search always returns: every vertex enters the seed set at most once
   (visited table), every round of the main loop removes one seed, so the loop ends within n + 1
   rounds; the fuel S (S n) of model/Search.v is never exhausted. *)
From Coq Require Import ZArith List Bool Lia.
From PV Require Import Base Heap Rng Search ListAux.
Import ListNotations.
Open Scope Z_scope.

Section SearchTerm.
  Variable dq : nat -> Z.
  Variable n : nat.
  Variable indptr indices : list Z.
  Hypothesis Hn : (0 < n)%nat.
  Hypothesis indices_in_range : forall c, In c indices -> 0 <= c < Z.of_nat n.

  Definition isvis (vis : list Z) (i : nat) : bool := existsb (Z.eqb (Z.of_nat i)) vis.
  Definition unvis (vis : list Z) : nat := length (filter (fun i => negb (isvis vis i)) (seq 0 n)).
  Definition M (st : sstate) : nat := (unvis (s_visited st) + length (s_seeds st))%nat.

  Lemma existsb_eqb_In v (l : list Z) : existsb (Z.eqb v) l = true <-> In v l.
  Proof.
    rewrite existsb_exists. split.
    - intros [y [Hy E]]. apply Z.eqb_eq in E. subst; auto.
    - intros H. exists v. split; auto. apply Z.eqb_refl.
  Qed.

  (* marking a fresh in-range vertex removes exactly one element from the unvisited count *)
  Lemma filter_remove_one (P : nat -> bool) (j : nat) : forall l, NoDup l -> In j l -> P j = true ->
    (length (filter (fun i => P i && negb (Nat.eqb i j)) l) + 1 = length (filter P l))%nat.
  Proof.
    induction l as [|x l IH]; intros Hnd Hin Hp; [destruct Hin|].
    inversion Hnd as [|? ? Hnotin Hnd']; subst. cbn [filter]. destruct Hin as [->|Hin].
    - rewrite Hp, Nat.eqb_refl. cbn [andb negb length].
      assert (E : filter (fun i => P i && negb (Nat.eqb i j)) l = filter P l).
      { apply filter_ext_in. intros a Ha. destruct (Nat.eqb_spec a j); [subst; contradiction|]. cbn. apply andb_true_r. }
      rewrite E. lia.
    - specialize (IH Hnd' Hin Hp). destruct (Nat.eqb_spec x j) as [->|Hne]; [contradiction|].
      cbn [negb]. rewrite andb_true_r. destruct (P x); cbn [length]; lia.
  Qed.

  Lemma unvis_cons_fresh v vis : 0 <= v < Z.of_nat n -> ~ In v vis -> (unvis (v :: vis) + 1 = unvis vis)%nat.
  Proof.
    intros Hr Hf. unfold unvis.
    rewrite <- (filter_remove_one (fun i => negb (isvis vis i)) (Z.to_nat v) (seq 0 n)).
    - f_equal. f_equal. apply filter_ext. intros i. unfold isvis. cbn [existsb].
      destruct (Z.eqb_spec (Z.of_nat i) v) as [E|E]; destruct (Nat.eqb_spec i (Z.to_nat v)) as [E'|E']; try lia;
        cbn [orb negb]; destruct (existsb (Z.eqb (Z.of_nat i)) vis); reflexivity.
    - apply seq_NoDup.
    - apply in_seq. lia.
    - unfold isvis. rewrite Z2Nat.id by lia. apply negb_true_iff. destruct (existsb (Z.eqb v) vis) eqn:E; auto.
      apply existsb_eqb_In in E. contradiction.
  Qed.

  Lemma filter_length_imp (f g : nat -> bool) : (forall i, f i = true -> g i = true) ->
    forall l, (length (filter f l) <= length (filter g l))%nat.
  Proof.
    intros H. induction l as [|x l IH]; cbn [filter]; [lia|].
    destruct (f x) eqn:Ef; [rewrite (H x Ef); cbn [length]; lia|]. destruct (g x); cbn [length]; lia.
  Qed.

  Lemma unvis_cons_le v vis : (unvis (v :: vis) <= unvis vis)%nat.
  Proof.
    unfold unvis. apply filter_length_imp. intros i Hi. unfold isvis in *. cbn [existsb] in Hi.
    apply negb_true_iff in Hi. apply orb_false_iff in Hi. destruct Hi as [_ Hi]. rewrite Hi. reflexivity.
  Qed.

  Lemma seed_push_length x : forall l, length (seed_push x l) = Datatypes.S (length l).
  Proof. induction l as [|y t IH]; cbn [seed_push]; [reflexivity|]. destruct (seed_lt x y); cbn [length]; lia. Qed.

  Lemma push_seed_fields st v :
    s_visited (push_seed dq st v) = v :: s_visited st /\ length (s_seeds (push_seed dq st v)) = Datatypes.S (length (s_seeds st))
    /\ s_rng (push_seed dq st v) = s_rng st.
  Proof.
    unfold push_seed. destruct (simple_heap_push (s_ps st) (s_ids st) (dq (zidx v)) v) as [a [ps ids]].
    cbn [s_visited s_seeds s_rng]. rewrite seed_push_length. auto.
  Qed.

  Lemma push_seed_M st v : 0 <= v < Z.of_nat n -> ~ In v (s_visited st) -> M (push_seed dq st v) = M st.
  Proof.
    intros Hr Hf. unfold M. destruct (push_seed_fields st v) as [E1 [E2 _]]. rewrite E1, E2.
    pose proof (unvis_cons_fresh v (s_visited st) Hr Hf). lia.
  Qed.

  Lemma expand_one_M scale st bound cand : 0 <= cand < Z.of_nat n -> (M (fst (expand_one dq scale (st, bound) cand)) <= M st)%nat.
  Proof.
    intros Hr. unfold expand_one. unfold visited. destruct (existsb (Z.eqb cand) (s_visited st)) eqn:E; [cbn; lia|].
    assert (Hf : ~ In cand (s_visited st)) by (intros H; apply existsb_eqb_In in H; congruence).
    destruct (dq (zidx cand) <? bound).
    - cbn [fst]. rewrite push_seed_M; auto.
    - cbn [fst]. unfold M. cbn [s_visited s_seeds]. pose proof (unvis_cons_le cand (s_visited st)). lia.
  Qed.

  Lemma expand_all_M scale : forall cs st bound, (forall c, In c cs -> 0 <= c < Z.of_nat n) ->
    (M (fst (fold_left (expand_one dq scale) cs (st, bound))) <= M st)%nat.
  Proof.
    induction cs as [|c cs IH]; intros st bound Hc; cbn [fold_left]; [cbn; lia|].
    pose proof (expand_one_M scale st bound c (Hc c (or_introl eq_refl))) as H1.
    destruct (expand_one dq scale (st, bound) c) as [st1 b1]. cbn [fst] in H1.
    specialize (IH st1 b1 (fun c' H => Hc c' (or_intror H))). lia.
  Qed.

  Lemma neighbours_range vertex c : In c (neighbours indptr indices vertex) -> 0 <= c < Z.of_nat n.
  Proof. unfold neighbours. intros H. apply indices_in_range. apply firstn_In' in H. eapply skipn_In'; eauto. Qed.

  Theorem search_loop_terminates scale : forall fuel st bound dv v,
    (M st < fuel)%nat -> search_loop dq indptr indices fuel scale st bound dv v <> None.
  Proof.
    induction fuel as [|f IH]; intros st bound dv v Hm; [lia|].
    cbn [search_loop]. destruct (dv <? bound); [|discriminate].
    pose proof (expand_all_M scale (neighbours indptr indices v) st bound (neighbours_range v)) as H1.
    destruct (fold_left (expand_one dq scale) (neighbours indptr indices v) (st, bound)) as [st1 b1]. cbn [fst] in H1.
    destruct (s_seeds st1) as [|[d' v'] rest] eqn:Es; [discriminate|].
    apply IH. unfold M in *. cbn [s_visited s_seeds]. rewrite Es in H1. cbn [length] in H1. lia.
  Qed.

  Lemma unvis_nil : unvis [] = n.
  Proof.
    unfold unvis. rewrite (filter_ext _ (fun _ => true)) by reflexivity.
    assert (E : forall l : list nat, filter (fun _ => true) l = l) by (induction l; cbn; congruence).
    rewrite E. apply seq_length.
  Qed.

  Lemma init_leaf_M : forall cands st, NoDup cands ->
    (forall c, In c cands -> 0 <= c < Z.of_nat n /\ ~ In c (s_visited st)) ->
    M (init_leaf dq st cands) = M st /\ (length (s_seeds st) + length cands <= length (s_seeds (init_leaf dq st cands)))%nat.
  Proof.
    unfold init_leaf. induction cands as [|c cands IH]; intros st Hnd Hc; cbn [fold_left length]; [split; lia|].
    inversion Hnd as [|? ? Hnotin Hnd']; subst.
    destruct (Hc c (or_introl eq_refl)) as [Hr Hv].
    destruct (push_seed_fields st c) as [E1 [E2 _]].
    destruct (IH (push_seed dq st c) Hnd') as [A B].
    - intros c' Hc'. destruct (Hc c' (or_intror Hc')) as [Hr' Hv']. split; auto.
      rewrite E1. intros [E|H]; [subst; contradiction|contradiction].
    - split; [rewrite A; apply push_seed_M; auto|rewrite E2 in B; lia].
  Qed.

  Lemma init_random_M : forall cnt st, (M (init_random dq n cnt st) <= M st)%nat /\
    (length (s_seeds st) <= length (s_seeds (init_random dq n cnt st)))%nat /\
    ((0 < cnt)%nat -> s_visited st = [] -> (0 < length (s_seeds (init_random dq n cnt st)))%nat).
  Proof.
    induction cnt as [|c IH]; intros st; cbn [init_random]; [split; [lia|split; [lia|lia]]|].
    destruct (tau_rand_int (s_rng st)) as [r rng'].
    set (cand := abs32s r mod Z.of_nat n).
    set (st1 := {| s_ps := s_ps st; s_ids := s_ids st; s_visited := s_visited st; s_seeds := s_seeds st; s_rng := rng' |}).
    assert (Hc : 0 <= cand < Z.of_nat n) by (apply Z.mod_pos_bound; lia).
    unfold visited. destruct (existsb (Z.eqb cand) (s_visited st1)) eqn:E.
    - destruct (IH st1) as [A [B _]]. split; [exact A|split; [exact B|]].
      intros _ Hv. cbn [st1 s_visited] in E. rewrite Hv in E. discriminate.
    - assert (Hf : ~ In cand (s_visited st1)) by (intros H; apply existsb_eqb_In in H; congruence).
      destruct (IH (push_seed dq st1 cand)) as [A [B _]].
      pose proof (push_seed_M st1 cand Hc Hf) as PM. destruct (push_seed_fields st1 cand) as [_ [E2 _]].
      split; [unfold M in *; cbn [st1 s_visited s_seeds] in *; lia|]. split; [cbn [st1 s_seeds] in *; lia|].
      intros _ _. cbn [st1 s_seeds] in *. lia.
  Qed.

  (* one query always returns an answer *)
  Theorem search_one_returns inf k n_neighbors scale cands rng :
    (0 < k)%nat -> (0 < n_neighbors)%nat ->
    NoDup cands -> (forall c, In c cands -> 0 <= c < Z.of_nat n) ->
    search_one dq n indptr indices inf k n_neighbors scale cands rng <> None.
  Proof.
    intros Hk Hnn Hnd Hr. unfold search_one.
    set (st0 := {| s_ps := repeat inf k; s_ids := repeat (-1) k; s_visited := []; s_seeds := []; s_rng := rng |}).
    destruct (init_leaf_M cands st0 Hnd) as [A B]; [intros c Hc; split; [apply Hr; exact Hc|intros []]|].
    set (st1 := init_leaf dq st0 cands) in *.
    destruct (init_random_M (Nat.min k n_neighbors - length cands) st1) as [C [D E]].
    set (st2 := init_random dq n (Nat.min k n_neighbors - length cands) st1) in *.
    assert (M0 : M st0 = n) by (unfold M; cbn [st0 s_visited s_seeds length]; rewrite unvis_nil; lia).
    assert (Hpos : (0 < length (s_seeds st2))%nat).
    { destruct cands as [|c cands'].
      - apply E; [cbn [length]; lia|reflexivity].
      - cbn [length] in B. cbn [st0 s_seeds length] in B. lia. }
    destruct (s_seeds st2) as [|[dv v] rest] eqn:Es; [cbn in Hpos; lia|].
    assert (Hm : (M {| s_ps := s_ps st2; s_ids := s_ids st2; s_visited := s_visited st2; s_seeds := rest; s_rng := s_rng st2 |} < Datatypes.S (Datatypes.S n))%nat).
    { unfold M in *. cbn [s_visited s_seeds]. rewrite Es in C. cbn [length] in C. lia. }
    pose proof (search_loop_terminates scale _ _ (fmul32 scale (getZ (s_ps st2) 0)) dv v Hm) as T.
    destruct (search_loop dq indptr indices (Datatypes.S (Datatypes.S n)) scale _ (fmul32 scale (getZ (s_ps st2) 0)) dv v); [discriminate|contradiction].
  Qed.
End SearchTerm.
