(* C19Proofs.v — soundness of restores_chk: if the checker accepts a skeleton, then
   for EVERY fault sequence / branch resolution, every entry thread count, every
   stale saved value and every n_jobs, the thread count on exit equals the thread
   count on entry, whether the method returns or raises. *)
From Coq Require Import ZArith List Bool Lia.
From PV Require Import Skel.
Import ListNotations.
Open Scope Z_scope.

Section Sound.
  Variables t0 s0 nj : Z.
  Definition gam (a : sym) : Z := match a with T0 => t0 | S0 => s0 | NJ => nj end.
  Definition gst (a : astate) : cstate := (gam (fst a), gam (snd a)).

  (* every concrete execution is covered by some abstract result *)
  Definition covers (s : stmt) : Prop :=
    forall ast rs, aexec s ast = Some rs ->
      forall oracle, exists ast',
        In (fst (fst (exec nj s oracle (gst ast))), ast') rs /\
        gst ast' = snd (fst (exec nj s oracle (gst ast))).

  Lemma seq_all_spec k : forall ra l, seq_all k ra = Some l ->
    forall r, In r ra ->
      (fst r = Normal -> exists lb, k (snd r) = Some lb /\ incl lb l) /\ (fst r <> Normal -> In r l).
  Proof.
    induction ra as [|r0 rest IH]; intros l H r Hr; [destruct Hr|].
    cbn [seq_all] in H. destruct (seq_all k rest) as [l0|] eqn:E; [|discriminate].
    destruct Hr as [<-|Hr].
    - destruct (fst r0) eqn:Eo.
      + destruct (k (snd r0)) as [lb|] eqn:Ek; [|discriminate]. inversion H; subst.
        split; [intros _; exists lb; split; auto; apply incl_appl, incl_refl|congruence].
      + inversion H; subst. split; [congruence|intros _; left; auto].
      + inversion H; subst. split; [congruence|intros _; left; auto].
    - specialize (IH l0 eq_refl r Hr). destruct IH as [I1 I2].
      destruct (fst r0) eqn:Eo.
      + destruct (k (snd r0)) as [lb|] eqn:Ek; [|discriminate]. inversion H; subst. split.
        * intros Hn. destruct (I1 Hn) as [lb' [E1 E2]]. exists lb'. split; auto. apply incl_appr; auto.
        * intros Hn. apply in_or_app. right; auto.
      + inversion H; subst. split.
        * intros Hn. destruct (I1 Hn) as [lb' [E1 E2]]. exists lb'. split; auto. apply incl_tl; auto.
        * intros Hn. right; auto.
      + inversion H; subst. split.
        * intros Hn. destruct (I1 Hn) as [lb' [E1 E2]]. exists lb'. split; auto. apply incl_tl; auto.
        * intros Hn. right; auto.
  Qed.

  Lemma fin_all_spec k : forall rb l, fin_all k rb = Some l ->
    forall r, In r rb ->
      exists lf, k (snd r) = Some lf /\
        forall f, In f lf -> In (match fst f with Normal => (fst r, snd f) | _ => f end) l.
  Proof.
    induction rb as [|r0 rest IH]; intros l H r Hr; [destruct Hr|].
    cbn [fin_all] in H. destruct (fin_all k rest) as [l0|] eqn:E; [|discriminate].
    destruct (k (snd r0)) as [lf|] eqn:Ek; [|discriminate]. inversion H; subst.
    destruct Hr as [<-|Hr].
    - exists lf. split; auto. intros f Hf. apply in_or_app. left.
      apply (in_map (fun f => match fst f with Normal => (fst r0, snd f) | _ => f end)) in Hf. exact Hf.
    - destruct (IH l0 eq_refl r Hr) as [lf' [E1 E2]]. exists lf'. split; auto.
      intros f Hf. apply in_or_app. right. auto.
  Qed.

  Lemma exc_all_spec k : forall rb l, exc_all k rb = Some l ->
    forall r, In r rb ->
      (fst r = Raised -> exists lh, k (snd r) = Some lh /\ incl lh l) /\ (fst r <> Raised -> In r l).
  Proof.
    induction rb as [|r0 rest IH]; intros l H r Hr; [destruct Hr|].
    cbn [exc_all] in H. destruct (exc_all k rest) as [l0|] eqn:E; [|discriminate].
    destruct Hr as [<-|Hr].
    - destruct (fst r0) eqn:Eo.
      + inversion H; subst. split; [congruence|intros _; left; auto].
      + destruct (k (snd r0)) as [lh|] eqn:Ek; [|discriminate]. inversion H; subst.
        split; [intros _; exists lh; split; auto; apply incl_appl, incl_refl|congruence].
      + inversion H; subst. split; [congruence|intros _; left; auto].
    - specialize (IH l0 eq_refl r Hr). destruct IH as [I1 I2].
      destruct (fst r0) eqn:Eo.
      + inversion H; subst. split.
        * intros Hn. destruct (I1 Hn) as [lb' [E1 E2]]. exists lb'. split; auto. apply incl_tl; auto.
        * intros Hn. right; auto.
      + destruct (k (snd r0)) as [lh|] eqn:Ek; [|discriminate]. inversion H; subst. split.
        * intros Hn. destruct (I1 Hn) as [lb' [E1 E2]]. exists lb'. split; auto. apply incl_appr; auto.
        * intros Hn. apply in_or_app. right; auto.
      + inversion H; subst. split.
        * intros Hn. destruct (I1 Hn) as [lb' [E1 E2]]. exists lb'. split; auto. apply incl_tl; auto.
        * intros Hn. right; auto.
  Qed.

  Lemma covers_all : forall s, covers s.
  Proof.
    induction s as [ | a IHa b IHb | a IHa b IHb | | | | | | | body IHb fin IHf | body IHb handler IHh | ];
      intros ast rs H oracle; cbn [aexec] in H.
    - (* Skip *) inversion H; subst. exists ast. cbn. auto.
    - (* Seq *)
      destruct (aexec a ast) as [ra|] eqn:Ea; [|discriminate].
      destruct (seq_all (aexec b) ra) as [rs0|] eqn:Es; [|discriminate]. cbn [option_map] in H. inversion H; subst rs.
      destruct (IHa ast ra Ea oracle) as [ast1 [Hin Hg]].
      cbn [exec]. destruct (exec nj a oracle (gst ast)) as [[o st1] or1] eqn:Ex. cbn [fst snd] in *.
      destruct (seq_all_spec (aexec b) ra rs0 Es (o, ast1) Hin) as [S1 S2]. cbn [fst snd] in *.
      destruct o.
      + destruct (S1 eq_refl) as [lb [Eb Hincl]].
        destruct (IHb ast1 lb Eb or1) as [ast2 [Hin2 Hg2]].
        rewrite Hg in Hin2, Hg2. exists ast2. split; auto. apply nodup_In. auto.
      + exists ast1. split; [apply nodup_In; apply S2; discriminate|auto].
      + exists ast1. split; [apply nodup_In; apply S2; discriminate|auto].
    - (* Choice *)
      destruct (aexec a ast) as [la|] eqn:Ea; [|discriminate].
      destruct (aexec b ast) as [lb|] eqn:Eb; [|discriminate]. inversion H; subst.
      cbn [exec]. destruct oracle as [|[|] r].
      + destruct (IHb ast lb Eb []) as [ast' [Hin Hg]]. exists ast'. split; auto. apply nodup_In. apply in_or_app; right; auto.
      + destruct (IHa ast la Ea r) as [ast' [Hin Hg]]. exists ast'. split; auto. apply nodup_In. apply in_or_app; left; auto.
      + destruct (IHb ast lb Eb r) as [ast' [Hin Hg]]. exists ast'. split; auto. apply nodup_In. apply in_or_app; right; auto.
    - (* Capture *) inversion H; subst. exists (fst ast, fst ast). cbn. auto.
    - (* SetThreads *) inversion H; subst. exists (NJ, snd ast). cbn. auto.
    - (* Restore *) inversion H; subst. exists (snd ast, snd ast). cbn. auto.
    - (* Call *) inversion H; subst. exists ast. cbn [exec]. destruct oracle as [|[|] r]; cbn; auto.
    - (* Raise *) inversion H; subst. exists ast. cbn. auto.
    - (* Return *) inversion H; subst. exists ast. cbn. auto.
    - (* TryFinally *)
      destruct (aexec body ast) as [rb|] eqn:Eb; [|discriminate].
      destruct (fin_all (aexec fin) rb) as [rs0|] eqn:Es; [|discriminate]. cbn [option_map] in H. inversion H; subst rs.
      destruct (IHb ast rb Eb oracle) as [ast1 [Hin Hg]].
      cbn [exec]. destruct (exec nj body oracle (gst ast)) as [[o st1] or1] eqn:Ex. cbn [fst snd] in *.
      destruct (fin_all_spec (aexec fin) rb rs0 Es (o, ast1) Hin) as [lf [Ef Hall]]. cbn [fst snd] in *.
      destruct (IHf ast1 lf Ef or1) as [ast2 [Hin2 Hg2]]. rewrite Hg in Hin2, Hg2.
      destruct (exec nj fin or1 st1) as [[o2 st2] or2] eqn:Ex2. cbn [fst snd] in *.
      specialize (Hall (o2, ast2) Hin2). cbn [fst snd] in Hall.
      exists ast2. destruct o2; cbn [fst snd]; split; auto; apply nodup_In; auto.
    - (* TryExcept *)
      destruct (aexec body ast) as [rb|] eqn:Eb; [|discriminate].
      destruct (exc_all (aexec handler) rb) as [rs0|] eqn:Es; [|discriminate]. cbn [option_map] in H. inversion H; subst rs.
      destruct (IHb ast rb Eb oracle) as [ast1 [Hin Hg]].
      cbn [exec]. destruct (exec nj body oracle (gst ast)) as [[o st1] or1] eqn:Ex. cbn [fst snd] in *.
      destruct (exc_all_spec (aexec handler) rb rs0 Es (o, ast1) Hin) as [S1 S2]. cbn [fst snd] in *.
      destruct o.
      + exists ast1. split; [apply nodup_In; apply S2; discriminate|auto].
      + destruct (S1 eq_refl) as [lh [Eh Hincl]].
        destruct (IHh ast1 lh Eh or1) as [ast2 [Hin2 Hg2]].
        rewrite Hg in Hin2, Hg2. exists ast2. split; auto. apply nodup_In. auto.
      + exists ast1. split; [apply nodup_In; apply S2; discriminate|auto].
    - (* Unknown *) discriminate.
  Qed.

  Theorem restores_chk_sound s :
    restores_chk s = true ->
    forall oracle, fst (snd (fst (exec nj s oracle (t0, s0)))) = t0.
  Proof.
    unfold restores_chk. destruct (aexec s (T0, S0)) as [rs|] eqn:E; [|discriminate].
    intros Hall oracle. rewrite forallb_forall in Hall.
    destruct (covers_all s (T0, S0) rs E oracle) as [ast' [Hin Hg]].
    specialize (Hall _ Hin). cbn [fst snd] in Hall.
    change (t0, s0) with (gst (T0, S0)). rewrite <- Hg. unfold gst. cbn [fst].
    destruct (fst ast'); cbn in *; congruence.
  Qed.
End Sound.
