(* C05Proofs.v — instantiation of the row-ownership theorem (Par.v) to
   utils.apply_graph_updates_low_memory: every interleaving of the prange threads yields the
   graph and the change count the sequential model (NND.apply_graph_updates_low_memory)
   computes. *)
From Coq Require Import ZArith List Bool Lia.
From PV Require Import Base ListAux Heap NND Par.
Import ListNotations.
Open Scope Z_scope.

Definition row3 := (list Z * (list Z * list Z))%type.       (* indices, (distances, flags) of one heap row *)
Definition d3 : row3 := ([], ([], [])).

Definition rows_of (g : graph) : list row3 := combine (g_ind g) (combine (g_dist g) (g_flag g)).
Definition wf (g : graph) (n : nat) : Prop := length (g_ind g) = n /\ length (g_dist g) = n /\ length (g_flag g) = n.

Definition pushfun (d j f : Z) (r : row3) : row3 * Z :=
  let '(ids, (ps, fs)) := r in
  let '(a, (ps', ids', fs')) := checked_flagged_heap_push ps ids fs d j f in ((ids', (ps', fs')), a).
Definition pushop (r : nat) (d j f : Z) : op row3 := (r, pushfun d j f).

Lemma upd_nil {A} (i : nat) (a : A) : upd i a [] = [].
Proof. destruct i; reflexivity. Qed.

Lemma combine_upd {A B} (a : A) (b : B) : forall l1 i l2,
  combine (upd i a l1) (upd i b l2) = upd i (a, b) (combine l1 l2).
Proof.
  induction l1 as [|x l1 IH]; intros i l2.
  - rewrite upd_nil. cbn. rewrite upd_nil. reflexivity.
  - destruct l2 as [|y l2].
    + rewrite upd_nil. cbn [combine]. rewrite upd_nil. destruct i; reflexivity.
    + destruct i as [|i]; cbn [upd combine]; [reflexivity|]. f_equal. apply IH.
Qed.

Lemma nth_rows_of g n r : wf g n -> (r < n)%nat ->
  nth r (rows_of g) d3 = (getRow (g_ind g) r, (getRow (g_dist g) r, getRow (g_flag g) r)).
Proof.
  intros [H1 [H2 H3]] Hr. unfold rows_of, d3, getRow, row3.
  rewrite (combine_nth (g_ind g) (combine (g_dist g) (g_flag g)) r [] ([], [])) by (rewrite combine_length; lia).
  rewrite (combine_nth (g_dist g) (g_flag g) r [] []) by lia. reflexivity.
Qed.

Lemma push_row_step g n r d j f c : wf g n -> (r < n)%nat ->
  step row3 d3 (rows_of g, c) (pushop r d j f) = (rows_of (snd (push_row g r d j f)), c + fst (push_row g r d j f))
  /\ wf (snd (push_row g r d j f)) n.
Proof.
  intros Hwf Hr. rewrite step_eq. cbn [pushop fst snd]. rewrite (nth_rows_of g n r Hwf Hr).
  unfold push_row, pushfun.
  destruct (checked_flagged_heap_push (getRow (g_dist g) r) (getRow (g_ind g) r) (getRow (g_flag g) r) d j f) as [a [[ps ids] fs]].
  cbn [fst snd]. destruct Hwf as [H1 [H2 H3]]. split.
  - unfold rows_of. cbn [g_ind g_dist g_flag]. rewrite !combine_upd. reflexivity.
  - unfold wf. cbn [g_ind g_dist g_flag]. rewrite !upd_length. auto.
Qed.

(* the operations thread [n] performs for one update *)
Definition ops_of_update (T n : Z) (u : update) : list (op row3) :=
  let '(p, q, d) := u in
  if (p =? -1) || (q =? -1) then []
  else (if p mod T =? n then [pushop (zidx p) d q 1] else []) ++ (if q mod T =? n then [pushop (zidx q) d p 1] else []).
Definition thread_ops (T n : Z) (ups : list (list update)) : list (op row3) :=
  flat_map (fun ul => flat_map (ops_of_update T n) ul) ups.

Definition upd_ok (n : nat) (u : update) : Prop :=
  let '(p, q, d) := u in (p = -1 \/ (0 <= p < Z.of_nat n)) /\ (q = -1 \/ (0 <= q < Z.of_nat n)).
Definition ups_ok (n : nat) (ups : list (list update)) : Prop := Forall (Forall (upd_ok n)) ups.

Lemma apply_low_one_run T k g c u n : wf g n -> upd_ok n u ->
  (rows_of (fst (apply_low_one T k (g, c) u)), snd (apply_low_one T k (g, c) u))
    = run row3 d3 (ops_of_update T k u) (rows_of g, c)
  /\ wf (fst (apply_low_one T k (g, c) u)) n.
Proof.
  intros Hwf Hok. destruct u as [[p q] d]. unfold apply_low_one, ops_of_update.
  destruct ((p =? -1) || (q =? -1)) eqn:Es.
  - cbn. auto.
  - apply orb_false_iff in Es. destruct Es as [Ep Eq]. apply Z.eqb_neq in Ep. apply Z.eqb_neq in Eq.
    destruct Hok as [[?|Hp] [?|Hq]]; try congruence.
    assert (Rp : (zidx p < n)%nat) by (unfold zidx; lia).
    assert (Rq : (zidx q < n)%nat) by (unfold zidx; lia).
    destruct (p mod T =? k) eqn:E1.
    + destruct (push_row g (zidx p) d q 1) as [a g1] eqn:P1.
      pose proof (push_row_step g n (zidx p) d q 1 c Hwf Rp) as [S1 W1]. rewrite P1 in S1, W1. cbn [fst snd] in S1, W1.
      destruct (q mod T =? k) eqn:E2.
      * destruct (push_row g1 (zidx q) d p 1) as [b g2] eqn:P2.
        pose proof (push_row_step g1 n (zidx q) d p 1 (c + a) W1 Rq) as [S2 W2]. rewrite P2 in S2, W2. cbn [fst snd] in S2, W2.
        cbn [fst snd app]. unfold run. cbn [fold_left]. rewrite S1, S2. auto.
      * cbn [fst snd app]. unfold run. cbn [fold_left]. rewrite S1. auto.
    + destruct (q mod T =? k) eqn:E2.
      * destruct (push_row g (zidx q) d p 1) as [b g2] eqn:P2.
        pose proof (push_row_step g n (zidx q) d p 1 c Hwf Rq) as [S2 W2]. rewrite P2 in S2, W2. cbn [fst snd] in S2, W2.
        cbn [fst snd app]. unfold run. cbn [fold_left]. rewrite S2. auto.
      * cbn. auto.
Qed.

Lemma run_app (L1 L2 : list (op row3)) st : run row3 d3 (L1 ++ L2) st = run row3 d3 L2 (run row3 d3 L1 st).
Proof. unfold run. apply fold_left_app. Qed.

Lemma apply_thread_list T k n : forall ul g c, wf g n -> Forall (upd_ok n) ul ->
  (rows_of (fst (fold_left (apply_low_one T k) ul (g, c))), snd (fold_left (apply_low_one T k) ul (g, c)))
    = run row3 d3 (flat_map (ops_of_update T k) ul) (rows_of g, c)
  /\ wf (fst (fold_left (apply_low_one T k) ul (g, c))) n.
Proof.
  induction ul as [|u ul IH]; intros g c Hwf Hok; cbn [fold_left flat_map]; [cbn; auto|].
  inversion Hok as [|? ? Hu Hul]; subst.
  destruct (apply_low_one_run T k g c u n Hwf Hu) as [E W].
  destruct (apply_low_one T k (g, c) u) as [g1 c1] eqn:A. cbn [fst snd] in E, W.
  rewrite run_app. rewrite <- E. apply IH; auto.
Qed.

Lemma apply_thread T k n : forall ups g c, wf g n -> ups_ok n ups ->
  let r := fold_left (fun st ul => fold_left (apply_low_one T k) ul st) ups (g, c) in
  (rows_of (fst r), snd r) = run row3 d3 (thread_ops T k ups) (rows_of g, c) /\ wf (fst r) n.
Proof.
  induction ups as [|ul ups IH]; intros g c Hwf Hok; cbn [fold_left thread_ops flat_map]; [cbn; auto|].
  inversion Hok as [|? ? Hul Hups]; subst.
  destruct (apply_thread_list T k n ul g c Hwf Hul) as [E W].
  destruct (fold_left (apply_low_one T k) ul (g, c)) as [g1 c1] eqn:A. cbn [fst snd] in E, W.
  unfold thread_ops in *. rewrite run_app. rewrite <- E. apply IH; auto.
Qed.

Definition threads (T : nat) (ups : list (list update)) : list (list (op row3)) :=
  map (fun k => thread_ops (Z.of_nat T) (Z.of_nat k) ups) (seq 0 T).

Lemma apply_low_is_sequential_run : forall ups n T g, wf g n -> ups_ok n ups ->
  let r := apply_graph_updates_low_memory g ups T in
  (rows_of (fst r), snd r) = run row3 d3 (concat (threads T ups)) (rows_of g, 0).
Proof.
  intros ups n T g Hwf Hok. unfold apply_graph_updates_low_memory, threads.
  assert (G : forall ks g c, wf g n ->
    let r := fold_left (fun st k => fold_left (fun st ul => fold_left (apply_low_one (Z.of_nat T) k) ul st) ups st) (map Z.of_nat ks) (g, c) in
    (rows_of (fst r), snd r) = run row3 d3 (concat (map (fun k => thread_ops (Z.of_nat T) (Z.of_nat k) ups) ks)) (rows_of g, c)).
  { induction ks as [|k ks IH]; intros g0 c0 Hw; cbn [map fold_left concat]; [reflexivity|].
    destruct (apply_thread (Z.of_nat T) (Z.of_nat k) n ups g0 c0 Hw Hok) as [E W].
    destruct (fold_left (fun st ul => fold_left (apply_low_one (Z.of_nat T) (Z.of_nat k)) ul st) ups (g0, c0)) as [g1 c1] eqn:A.
    cbn [fst snd] in E, W. rewrite run_app, <- E. apply IH. exact W. }
  apply G. exact Hwf.
Qed.

(* row ownership: thread k only touches rows r with r mod T = k *)
Definition owner (T : nat) (r : nat) : nat := Z.to_nat (Z.of_nat r mod Z.of_nat T).

Lemma ops_of_update_owned T k n u o : (0 < T)%nat -> upd_ok n u ->
  In o (ops_of_update (Z.of_nat T) (Z.of_nat k) u) -> owner T (fst o) = k /\ (fst o < n)%nat.
Proof.
  intros HT Hok Hin. destruct u as [[p q] d]. unfold ops_of_update in Hin.
  destruct ((p =? -1) || (q =? -1)) eqn:Es; [destruct Hin|].
  apply orb_false_iff in Es. destruct Es as [Ep Eq]. apply Z.eqb_neq in Ep. apply Z.eqb_neq in Eq.
  destruct Hok as [[?|Hp] [?|Hq]]; try congruence.
  apply in_app_or in Hin. destruct Hin as [Hin|Hin].
  - destruct (p mod Z.of_nat T =? Z.of_nat k) eqn:E; [|destruct Hin]. destruct Hin as [<-|[]]. cbn [pushop fst].
    apply Z.eqb_eq in E. unfold owner, zidx. rewrite Z2Nat.id by lia. rewrite E. split; lia.
  - destruct (q mod Z.of_nat T =? Z.of_nat k) eqn:E; [|destruct Hin]. destruct Hin as [<-|[]]. cbn [pushop fst].
    apply Z.eqb_eq in E. unfold owner, zidx. rewrite Z2Nat.id by lia. rewrite E. split; lia.
Qed.

Lemma thread_ops_owned T k n ups o : (0 < T)%nat -> ups_ok n ups ->
  In o (thread_ops (Z.of_nat T) (Z.of_nat k) ups) -> owner T (fst o) = k /\ (fst o < n)%nat.
Proof.
  intros HT Hok Hin. unfold thread_ops in Hin. apply in_flat_map in Hin. destruct Hin as [ul [Hul Hin]].
  apply in_flat_map in Hin. destruct Hin as [u [Hu Hin]].
  eapply ops_of_update_owned; eauto.
  unfold ups_ok in Hok. rewrite Forall_forall in Hok. specialize (Hok ul Hul). rewrite Forall_forall in Hok. apply Hok. exact Hu.
Qed.

Lemma nth_threads T ups k : (k < T)%nat -> nth k (threads T ups) [] = thread_ops (Z.of_nat T) (Z.of_nat k) ups.
Proof.
  intros Hk. unfold threads.
  rewrite (nth_indep _ [] (thread_ops (Z.of_nat T) (Z.of_nat O) ups)) by (rewrite map_length, seq_length; exact Hk).
  rewrite (map_nth (fun k0 => thread_ops (Z.of_nat T) (Z.of_nat k0) ups) (seq 0 T) O k).
  rewrite seq_nth by exact Hk. reflexivity.
Qed.

(* EVERY interleaving of the T prange threads produces the graph and the change count of the
   sequential model *)
Theorem apply_low_schedule_independent : forall ups n T g L,
  (0 < T)%nat -> wf g n -> ups_ok n ups ->
  merge row3 (threads T ups) L ->
  run row3 d3 L (rows_of g, 0)
  = (rows_of (fst (apply_graph_updates_low_memory g ups T)), snd (apply_graph_updates_low_memory g ups T)).
Proof.
  intros ups n T g L HT Hwf Hok Hm.
  pose proof (apply_low_is_sequential_run ups n T g Hwf Hok) as E. cbn zeta in E. rewrite E.
  assert (Hlen : length (rows_of g) = n).
  { destruct Hwf as [H1 [H2 H3]]. unfold rows_of, row3. rewrite !combine_length. lia. }
  apply (schedule_independent row3 d3 (owner T)); auto.
  - intros k o Hin. destruct (Nat.lt_ge_cases k T) as [Hk|Hk].
    + rewrite nth_threads in Hin by exact Hk. eapply thread_ops_owned; eauto.
    + rewrite nth_overflow in Hin by (unfold threads; rewrite map_length, seq_length; exact Hk). destruct Hin.
  - intros k o Hin. rewrite Hlen. destruct (Nat.lt_ge_cases k T) as [Hk|Hk].
    + rewrite nth_threads in Hin by exact Hk. eapply thread_ops_owned; eauto.
    + rewrite nth_overflow in Hin by (unfold threads; rewrite map_length, seq_length; exact Hk). destruct Hin.
Qed.

(* ---------------- queries: no call influences a later call ---------------- *)
From PV Require Import Repro Diversify.

Section QueryPurity.
  Variable Q A : Type.
  Variable answer : list Z -> Q -> A * list Z.

  Lemma history_rng : forall calls st, q_rng (history Q A answer st calls) = q_rng st.
  Proof.
    induction calls as [|[dirty qs] r IH]; intros st; cbn [history]; auto.
    rewrite IH. reflexivity.
  Qed.

  (* whatever calls were made before, with whatever leftovers in the visited table, a call
     returns what it returns on the freshly prepared index, and leaves the generator state alone *)
  Theorem query_independent_of_history : forall calls st dirty qs,
    snd (query_call Q A answer dirty (history Q A answer st calls) qs) = snd (query_call Q A answer [] st qs) /\
    q_rng (fst (query_call Q A answer dirty (history Q A answer st calls) qs)) = q_rng st.
  Proof.
    intros calls st dirty qs. unfold query_call. cbn [fst snd q_rng]. rewrite history_rng. split; reflexivity.
  Qed.
End QueryPurity.

(* ---------------- diversification: rows are independent ---------------- *)
Section DiversifyRows.
  Variable dm : nat -> nat -> Z.
  Variable npts : nat.
  Variable draw : list Z -> Z * list Z.
  Variables eps prob inf : Z.

  (* row i of the result depends only on row i of the input and on the private state rng + i;
     the shared state is returned untouched: no schedule can change the outcome *)
  Theorem diversify_rowwise : forall inds ds rng i,
    length inds = length ds -> (i < length inds)%nat ->
    let '(oi, od, rng') := diversify dm npts draw eps prob inf inds ds rng in
    rng' = rng /\
    (nth i oi [], nth i od []) =
      (let '(ri, rd, _) := diversify_row dm npts draw eps prob inf (nth i inds []) (nth i ds []) (row_rng rng i) in (ri, rd)).
  Proof.
    intros inds ds rng i Hlen Hi. unfold diversify. split; [reflexivity|].
    set (f := fun ir : nat * (list Z * list Z) =>
                let '(ri, rd, _) := diversify_row dm npts draw eps prob inf (fst (snd ir)) (snd (snd ir)) (row_rng rng (fst ir)) in (ri, rd)).
    set (L := combine (seq 0 (length inds)) (combine inds ds)).
    assert (HL : (i < length L)%nat) by (unfold L; rewrite !combine_length, seq_length; lia).
    assert (E : nth i (map f L) ([], []) = f (nth i L (O, ([], [])))).
    { rewrite (nth_indep _ ([], []) (f (O, ([], [])))) by (rewrite map_length; exact HL). apply map_nth. }
    assert (EL : nth i L (O, ([], [])) = (i, (nth i inds [], nth i ds []))).
    { unfold L. rewrite combine_nth by (rewrite combine_length, seq_length; lia).
      rewrite combine_nth by exact Hlen. rewrite seq_nth by exact Hi. reflexivity. }
    rewrite EL in E. unfold f in E at 2. cbn [fst snd] in E.
    replace (nth i (map fst (map f L)) []) with (fst (nth i (map f L) ([], []))).
    2:{ rewrite <- (map_nth fst). reflexivity. }
    replace (nth i (map snd (map f L)) []) with (snd (nth i (map f L) ([], []))).
    2:{ rewrite <- (map_nth snd). reflexivity. }
    rewrite E. destruct (diversify_row dm npts draw eps prob inf (nth i inds []) (nth i ds []) (row_rng rng i)) as [[ri rd] r']. reflexivity.
  Qed.
End DiversifyRows.
