(* Par.v — schedule independence of row-owned parallel loops (C05, used by C12).

   A parallel kernel is abstracted as a machine over an array of rows.  An
   atomic operation names ONE row and transforms it (returning a contribution
   to a reduction counter, like numba's `n_changes += added`).  A prange loop
   is a list of threads, each a sequence of operations; an execution is any
   interleaving (merge) of the threads.  If every row is written by at most one
   thread (ownership), every interleaving yields the same rows and the same
   reduction value as running the threads one after another. *)
From Coq Require Import ZArith List Bool Lia.
From PV Require Import Base ListAux.
Import ListNotations.
Open Scope Z_scope.

Section RowMachine.
  Variable A : Type.
  Variable dA : A.

  Definition op := (nat * (A -> A * Z))%type.
  Definition state := (list A * Z)%type.

  Definition step (st : state) (o : op) : state :=
    let '(rows, c) := st in
    let '(a', k) := snd o (nth (fst o) rows dA) in
    (upd (fst o) a' rows, c + k).

  Definition run (L : list op) (st : state) : state := fold_left step L st.

  (* what happens to row r alone *)
  Definition rstep (r : nat) (ac : A * Z) (o : op) : A * Z :=
    if (fst o =? r)%nat then let '(a', k) := snd o (fst ac) in (a', snd ac + k) else ac.
  Definition rowrun (r : nat) (L : list op) (ac : A * Z) : A * Z := fold_left (rstep r) L ac.

  Definition in_range (n : nat) (L : list op) : Prop := Forall (fun o => (fst o < n)%nat) L.

  Lemma step_length st o : length (fst (step st o)) = length (fst st).
  Proof. destruct st as [rows c]. unfold step. destruct (snd o (nth (fst o) rows dA)). cbn. apply upd_length. Qed.

  Lemma run_length L : forall st, length (fst (run L st)) = length (fst st).
  Proof. induction L as [|o L IH]; intros st; cbn; auto. unfold run in IH. rewrite IH. apply step_length. Qed.

  Lemma rowrun_count_shift r L : forall a c, rowrun r L (a, c) = (fst (rowrun r L (a, 0)), c + snd (rowrun r L (a, 0))).
  Proof.
    unfold rowrun.
    induction L as [|o L IH]; intros a c; cbn [fold_left]; [cbn; f_equal; lia|].
    assert (E : forall c0, rstep r (a, c0) o =
                           if (fst o =? r)%nat then (fst (snd o a), c0 + snd (snd o a)) else (a, c0)).
    { intros c0. unfold rstep. cbn [fst snd]. destruct (fst o =? r)%nat; auto. destruct (snd o a); auto. }
    rewrite !E. destruct (fst o =? r)%nat.
    - rewrite (IH (fst (snd o a)) (c + snd (snd o a))), (IH (fst (snd o a)) (0 + snd (snd o a))).
      cbn [fst snd]. f_equal. lia.
    - apply IH.
  Qed.

  Lemma step_eq rows c o :
    step (rows, c) o = (upd (fst o) (fst (snd o (nth (fst o) rows dA))) rows,
                        c + snd (snd o (nth (fst o) rows dA))).
  Proof. unfold step. destruct (snd o (nth (fst o) rows dA)); reflexivity. Qed.

  Lemma rstep_eq r a c0 o :
    rstep r (a, c0) o = if (fst o =? r)%nat then (fst (snd o a), c0 + snd (snd o a)) else (a, c0).
  Proof. unfold rstep. cbn [fst snd]. destruct (fst o =? r)%nat; auto. destruct (snd o a); auto. Qed.

  Lemma run_row L : forall rows c r,
    (r < length rows)%nat ->
    nth r (fst (run L (rows, c))) dA = fst (rowrun r L (nth r rows dA, 0)).
  Proof.
    unfold run, rowrun.
    induction L as [|o L IH]; intros rows c r Hr; cbn [fold_left]; [reflexivity|].
    rewrite step_eq, rstep_eq. rewrite IH by (rewrite upd_length; auto).
    destruct (Nat.eqb_spec (fst o) r) as [Eo|No].
    - subst r. rewrite nth_upd_eq by auto.
      pose proof (rowrun_count_shift (fst o) L (fst (snd o (nth (fst o) rows dA)))
                                     (0 + snd (snd o (nth (fst o) rows dA)))) as Hs.
      unfold rowrun in Hs. rewrite Hs. reflexivity.
    - rewrite nth_upd_neq by auto. reflexivity.
  Qed.

  (* sum over rows 0..n-1 *)
  Fixpoint sumf (f : nat -> Z) (n : nat) : Z :=
    match n with O => 0 | S m => sumf f m + f m end.

  Lemma sumf_ext f g n : (forall i, (i < n)%nat -> f i = g i) -> sumf f n = sumf g n.
  Proof. induction n; intros H; cbn; auto. rewrite IHn, H; auto. Qed.

  Lemma sumf_point f g n r0 d :
    (r0 < n)%nat -> g r0 = f r0 + d -> (forall i, i <> r0 -> g i = f i) -> sumf g n = sumf f n + d.
  Proof.
    induction n; intros Hr Hg Ho; [lia|]. cbn.
    destruct (Nat.eq_dec r0 n) as [->|Hne].
    - rewrite Hg. rewrite (sumf_ext g f n); [lia|]. intros i Hi. apply Ho. lia.
    - rewrite IHn by (auto; lia). rewrite Ho by auto. lia.
  Qed.

  Lemma run_count L : forall rows c,
    in_range (length rows) L ->
    snd (run L (rows, c)) = c + sumf (fun r => snd (rowrun r L (nth r rows dA, 0))) (length rows).
  Proof.
    unfold run, rowrun.
    induction L as [|o L IH]; intros rows c Hin; cbn [fold_left].
    - assert (Z0 : forall n, sumf (fun r => snd (nth r rows dA, 0)) n = 0)
        by (induction n; cbn in *; lia).
      rewrite Z0. cbn [snd]. lia.
    - inversion Hin as [|? ? Ho Hin']; subst.
      rewrite step_eq. rewrite IH by (rewrite upd_length; auto). rewrite upd_length.
      set (a' := fst (snd o (nth (fst o) rows dA))).
      set (k := snd (snd o (nth (fst o) rows dA))).
      rewrite (sumf_point
                 (fun r => snd (fold_left (rstep r) L (nth r (upd (fst o) a' rows) dA, 0)))
                 (fun r => snd (fold_left (rstep r) L (rstep r (nth r rows dA, 0) o)))
                 (length rows) (fst o) k); auto; try lia.
      + rewrite rstep_eq, Nat.eqb_refl. fold a' k.
        rewrite nth_upd_eq by auto.
        pose proof (rowrun_count_shift (fst o) L a' (0 + k)) as Hs. unfold rowrun in Hs.
        rewrite Hs. cbn [snd]. lia.
      + intros i Hi. rewrite rstep_eq.
        destruct (Nat.eqb_spec (fst o) i); [congruence|]. rewrite nth_upd_neq by auto. reflexivity.
  Qed.

  Lemma rowrun_filter r L : forall ac, rowrun r L ac = rowrun r (filter (fun o => (fst o =? r)%nat) L) ac.
  Proof.
    unfold rowrun.
    induction L as [|o L IH]; intros ac; cbn [fold_left filter]; auto.
    destruct (fst o =? r)%nat eqn:E.
    - cbn [fold_left]. apply IH.
    - rewrite <- IH. unfold rstep at 2. rewrite E. reflexivity.
  Qed.

  (* The result is determined by the per-row subsequences of operations. *)
  Theorem run_determined_by_rows L1 L2 rows c :
    in_range (length rows) L1 -> in_range (length rows) L2 ->
    (forall r, filter (fun o => (fst o =? r)%nat) L1 = filter (fun o => (fst o =? r)%nat) L2) ->
    run L1 (rows, c) = run L2 (rows, c).
  Proof.
    intros H1 H2 Hf.
    assert (Hrow : forall r ac, rowrun r L1 ac = rowrun r L2 ac).
    { intros r ac. rewrite (rowrun_filter r L1), (rowrun_filter r L2), Hf. reflexivity. }
    rewrite (surjective_pairing (run L1 (rows, c))), (surjective_pairing (run L2 (rows, c))).
    f_equal.
    - apply nth_ext_len with (d := dA).
      + rewrite !run_length. reflexivity.
      + intros i Hi. rewrite run_length in Hi. cbn [fst] in Hi.
        rewrite !run_row by auto. rewrite Hrow. reflexivity.
    - rewrite !run_count by auto. f_equal. apply sumf_ext. intros i _. rewrite Hrow. reflexivity.
  Qed.

  (* ---------------- interleavings ---------------- *)
  Inductive merge : list (list op) -> list op -> Prop :=
  | merge_done : forall ts, Forall (fun t => t = []) ts -> merge ts []
  | merge_pick : forall ts n o rest L,
      (n < length ts)%nat -> nth n ts [] = o :: rest ->
      merge (upd n rest ts) L -> merge ts (o :: L).

  (* ownership: thread n only touches rows whose owner is n *)
  Definition owned (owner : nat -> nat) (ts : list (list op)) : Prop :=
    forall n o, In o (nth n ts []) -> owner (fst o) = n.

  Definition frow (r : nat) (L : list op) := filter (fun o => (fst o =? r)%nat) L.

  Lemma nth_all_nil (ts : list (list op)) n : Forall (fun t => t = []) ts -> nth n ts [] = [].
  Proof.
    revert n; induction ts as [|t ts IH]; intros [|n] H; cbn; auto; inversion H; subst; auto.
  Qed.

  Lemma owned_upd owner ts n o rest :
    nth n ts [] = o :: rest -> owned owner ts -> owned owner (upd n rest ts).
  Proof.
    intros Hn Ho m x Hin.
    destruct (Nat.eq_dec n m) as [->|Hne].
    - destruct (Nat.lt_ge_cases m (length ts)).
      + rewrite nth_upd_eq in Hin by auto. apply (Ho m). rewrite Hn. right; auto.
      + rewrite nth_overflow in Hin by (rewrite upd_length; auto). destruct Hin.
    - rewrite nth_upd_neq in Hin by auto. apply (Ho m); auto.
  Qed.

  Lemma merge_frow owner ts L :
    merge ts L -> owned owner ts -> forall r, frow r L = frow r (nth (owner r) ts []).
  Proof.
    induction 1 as [ts Hall | ts n o rest L Hn Hnth Hm IH]; intros Hown r.
    - rewrite nth_all_nil by auto. reflexivity.
    - specialize (IH (owned_upd owner ts n o rest Hnth Hown) r).
      assert (Ho : owner (fst o) = n) by (apply Hown; rewrite Hnth; left; auto).
      unfold frow at 1. cbn [filter]. fold (frow r L).
      destruct (Nat.eqb_spec (fst o) r) as [E|NE].
      + subst r. rewrite Ho in *. rewrite IH, nth_upd_eq by auto. rewrite Hnth.
        unfold frow. cbn [filter]. rewrite Nat.eqb_refl. reflexivity.
      + rewrite IH. destruct (Nat.eq_dec (owner r) n) as [E|NE'].
        * rewrite E, nth_upd_eq by auto. rewrite Hnth. unfold frow. cbn [filter].
          destruct (Nat.eqb_spec (fst o) r); [contradiction|reflexivity].
        * rewrite nth_upd_neq by auto. reflexivity.
  Qed.

  Lemma merge_cons_nil ts L : merge ts L -> merge ([] :: ts) L.
  Proof.
    induction 1 as [ts Hall | ts n o rest L Hn Hnth Hm IH].
    - apply merge_done. constructor; auto.
    - apply (merge_pick ([] :: ts) (S n) o rest L); cbn; auto. lia.
  Qed.

  Lemma merge_concat : forall ts, merge ts (concat ts).
  Proof.
    induction ts as [|t ts IH]; [apply merge_done; constructor|].
    induction t as [|o t IHt]; cbn [concat app].
    - apply merge_cons_nil. exact IH.
    - apply (merge_pick ((o :: t) :: ts) 0%nat o t); cbn; auto. lia.
  Qed.

  Lemma merge_in ts L : merge ts L -> forall o, In o L -> exists n, In o (nth n ts []).
  Proof.
    induction 1 as [ts Hall | ts n o rest L Hn Hnth Hm IH]; intros x Hin; [destruct Hin|].
    destruct Hin as [<-|Hin].
    - exists n. rewrite Hnth. left; auto.
    - destruct (IH x Hin) as [m Hm'].
      destruct (Nat.eq_dec n m) as [->|Hne].
      + exists m. rewrite nth_upd_eq in Hm' by auto. rewrite Hnth. right; auto.
      + exists m. rewrite nth_upd_neq in Hm' by auto. auto.
  Qed.

  (* Every interleaving of row-owning threads equals the sequential execution. *)
  Theorem schedule_independent owner ts L rows c :
    merge ts L -> owned owner ts ->
    (forall n o, In o (nth n ts []) -> (fst o < length rows)%nat) ->
    run L (rows, c) = run (concat ts) (rows, c).
  Proof.
    intros Hm Hown Hrange.
    assert (Hr : forall L', merge ts L' -> in_range (length rows) L').
    { intros L' Hm'. apply Forall_forall. intros o Ho.
      destruct (merge_in ts L' Hm' o Ho) as [n Hn]. eapply Hrange; eauto. }
    apply run_determined_by_rows; auto using merge_concat.
    intros r. fold (frow r L) (frow r (concat ts)).
    rewrite (merge_frow owner ts L Hm Hown r).
    rewrite (merge_frow owner ts (concat ts) (merge_concat ts) Hown r). reflexivity.
  Qed.
End RowMachine.
