(* C03Loop.v — the single-leaf exactness survives the whole of nn_descent (low-memory mode):
   init_random, flag clearing and every round keep an exact graph exact. *)
From Coq Require Import ZArith List Bool Lia Permutation.
From PV Require Import Base Heap Rng NND ListAux HeapProofs HeapTopK HeapArrays HeapSort NNDProofs C01Proofs C01Loop C03Proofs.
Import ListNotations.
Open Scope Z_scope.

Section Loop03.
  Variable dm : nat -> nat -> Z.
  Variable inf : Z.
  Variables n k maxc : nat.
  Hypothesis Hk : (0 < k)%nat.
  Hypothesis Hmaxc : (0 < maxc)%nat.
  Hypothesis Hn : (0 < n)%nat.
  Hypothesis dm_sym : forall a b, dm a b = dm b a.

  Local Notation GWF := (GWF dm inf n k).
  Local Notation Inv2 := (Inv2 dm inf n k).
  Local Notation ExactG := (ExactG dm n).

  (* ---- init_random pushes true distances ---- *)
  Lemma init_random_row_Inv2 : forall cnt i g rng, (i < n)%nat -> Inv2 g -> Inv2 (fst (init_random_row dm cnt n i g rng)).
  Proof.
    induction cnt as [|cnt IH]; intros i g rng Hi HI; cbn [init_random_row]; [exact HI|].
    destruct (tau_rand_int rng) as [r rng'].
    apply IH; auto. apply (push_Inv2 dm inf n k Hk); auto; try (apply Z.mod_pos_bound; lia); try apply dm_sym.
  Qed.

  Lemma init_random_Inv2 g rng : Inv2 g -> Inv2 (fst (init_random dm k n g rng)).
  Proof.
    intros HI. unfold init_random.
    assert (H : forall l st, Forall (fun i => (i < n)%nat) l -> Inv2 (fst st) ->
                Inv2 (fst (fold_left (fun (st : graph * list Z) i =>
                                        let '(g, rng) := st in
                                        if getZ (getRow (g_ind g) i) 0 <? 0
                                        then init_random_row dm (k - count_nonneg (getRow (g_ind g) i)) n i g rng
                                        else st) l st))).
    { induction l as [|i l IHl]; intros st Hl Hs; cbn [fold_left]; auto.
      inversion Hl; subst. apply IHl; auto. destruct st as [g0 rng0]. cbn [fst] in *.
      destruct (getZ (getRow (g_ind g0) i) 0 <? 0); [apply init_random_row_Inv2; auto|exact Hs]. }
    apply H; auto. apply Forall_forall. intros i Hi. apply in_seq in Hi. lia.
  Qed.

  (* ---- clearing flags ---- *)
  Lemma ExactRow_flags p ds ids fs fs' : length ids = length ds ->
    ExactRow dm n p (zip3 ds ids fs) -> ExactRow dm n p (zip3 ds ids fs').
  Proof.
    intros L HE q Hq Hne. destruct (HE q Hq Hne) as [Hin|Hall].
    - left. rewrite real_ids by exact L. rewrite real_ids in Hin by exact L. exact Hin.
    - right. intros e He. destruct (In_getE _ _ He) as [c [Hc <-]]. rewrite zip3_length in Hc.
      destruct (getE_same_key_id ds ids fs fs' c Hc) as [-> _]. apply Hall. apply getE_In. rewrite zip3_length. exact Hc.
  Qed.

  Lemma nbc_graph_Exact g rng T : GWF g -> ExactG g -> ExactG (fst (fst (new_build_candidates inf g maxc rng T))).
  Proof.
    intros HG HE p Hp. unfold new_build_candidates. cbn [fst]. unfold grow. cbn [g_ind g_dist g_flag].
    destruct HG as [[_ [_ [_ Hl]]] _]. destruct (Hl p Hp) as [A [B C]].
    apply (ExactRow_flags p _ _ (getRow (g_flag g) p)); [lia|]. apply HE. exact Hp.
  Qed.

  (* ---- the loop ---- *)
  Theorem nnd_low_Inv2 : forall iters g rng T thr_c, Inv2 g -> Inv2 (nnd_low inf dm iters g maxc rng T thr_c).
  Proof.
    induction iters as [|it IH]; intros g rng T thr_c [HG HE]; cbn [nnd_low]; [split; auto|].
    pose proof (new_build_candidates_in_range dm inf n k maxc Hk Hmaxc g rng T HG) as Hr.
    pose proof (nbc_graph_GWF dm inf n k maxc Hk Hmaxc g rng T HG) as HG1.
    pose proof (nbc_graph_Exact g rng T HG HE) as HE1.
    destruct (new_build_candidates inf g maxc rng T) as [[g1 newc] oldc]. cbn [fst] in HG1, HE1. destruct Hr as [Hnw Ho].
    assert (Hups : Forall (Forall (upd_true dm n)) (generate_graph_updates inf dm (thresholds g1) newc oldc))
      by (apply (generate_graph_updates_true dm inf n k Hk); auto).
    destruct (apply_low_keeps_exact dm inf n k Hk dm_sym g1 _ T HG1 HE1 Hups) as [HE2 HG2].
    destruct (apply_graph_updates_low_memory g1 (generate_graph_updates inf dm (thresholds g1) newc oldc) T) as [g2 c].
    cbn [fst] in HG2, HE2. destruct (c <=? thr_c); [split; auto|apply IH; split; auto].
  Qed.
End Loop03.

(* nn_descent (default low-memory mode) on a dataset whose tree leaf lists every point: the heap graph
   it sorts at the end is exact up to distance ties, for every generator state, iteration bound,
   threshold and thread count *)
Theorem single_leaf_nn_descent_exact :
  forall (dm : nat -> nat -> Z) (inf : Z) (n k maxc : nat),
    (0 < k)%nat -> (0 < maxc)%nat -> (0 < n)%nat -> (forall a b, dm a b = dm b a) -> (forall a b, dm a b < inf) ->
    forall leaf b rng iters thr_c T,
      NoDup leaf -> (forall x, In x leaf -> 0 <= x < Z.of_nat n) -> (forall i, (i < n)%nat -> In (Z.of_nat i) leaf) ->
      ExactG dm n (nn_descent_heap dm inf n k maxc b rng iters thr_c None (Some [leaf]) true T).
Proof.
  intros dm inf n k maxc Hk Hm Hn Hs Hf leaf b rng iters thr_c T Hnd Hr Hall.
  unfold nn_descent_heap.
  assert (I0 : Inv2 dm inf n k (fst (init_random dm k n (init_rp_tree inf dm (make_heap inf n k) [leaf]) rng))).
  { apply (init_random_Inv2 dm inf n k maxc); auto. split.
    - apply (init_rp_tree_GWF dm inf n k Hk Hs); [apply GWF_make_heap|].
      constructor; [|constructor]. apply Forall_forall. intros x Hx. right. apply Hr. exact Hx.
    - apply (single_leaf_ExactG dm inf n k Hk Hs Hf leaf Hnd Hr Hall). }
  destruct (init_random dm k n (init_rp_tree inf dm (make_heap inf n k) [leaf]) rng) as [g0 rng1]. cbn [fst] in I0.
  assert (I1 : Inv2 dm inf n k (nnd_low inf dm iters g0 maxc rng1 T thr_c)) by (apply (nnd_low_Inv2 dm inf n k maxc); auto).
  destruct I1 as [_ HE]. exact HE.
Qed.
