(* C18Proofs.v — the assembled CSR matrix stores exactly the (index, distance) pairs. *)
From Coq Require Import ZArith List Bool Arith Lia.
From PV Require Import Transformer.
Import ListNotations.
Open Scope Z_scope.

Definition add_all (row : list (Z * Z)) (l : list (Z * Z)) : list (Z * Z) :=
  fold_left (fun row cd => add_entry (fst cd) (snd cd) row) l row.

Lemma add_entry_fresh : forall c v row, ~ In c (map fst row) -> add_entry c v row = row ++ [(c, v)].
Proof.
  induction row as [|[c' v'] r IH]; intros H; cbn [add_entry app]; auto.
  destruct (Z.eqb_spec c' c) as [->|Hne].
  - exfalso. apply H. left. reflexivity.
  - rewrite IH; auto. intros Hin. apply H. right. exact Hin.
Qed.

Lemma nodupb_NoDup : forall l, nodupb l = true -> NoDup l.
Proof.
  induction l as [|x r IH]; intros H; [constructor|].
  cbn [nodupb] in H. apply andb_true_iff in H. destruct H as [H1 H2]. constructor; auto.
  intros Hin. apply negb_true_iff in H1. assert (E : existsb (Z.eqb x) r = true).
  { apply existsb_exists. exists x. split; auto. apply Z.eqb_refl. }
  congruence.
Qed.

Lemma add_all_fresh : forall l row, NoDup (map fst row ++ map fst l) -> add_all row l = row ++ l.
Proof.
  induction l as [|[c v] l IH]; intros row H; cbn [add_all fold_left].
  - rewrite app_nil_r. reflexivity.
  - cbn [fst snd map] in *. rewrite add_entry_fresh.
    + change (fold_left _ l (row ++ [(c, v)])) with (add_all (row ++ [(c, v)]) l).
      rewrite IH.
      * rewrite <- app_assoc. reflexivity.
      * rewrite map_app. cbn [map fst]. rewrite <- app_assoc. exact H.
    + apply NoDup_remove_2 in H. intros Hin. apply H. apply in_or_app. left. exact Hin.
Qed.

Lemma map_fst_combine_eq : forall (a b : list Z), length a = length b -> map fst (combine a b) = a.
Proof.
  induction a as [|x a IH]; intros [|y b] H; cbn in *; try discriminate; auto. f_equal. apply IH. lia.
Qed.

(* entries of other rows do not touch row i *)
Lemma csr_fold_other : forall (l : list (Z * Z)) j i row, j <> i ->
  fold_left (fun row t => let '(r, c, v) := t in if Nat.eqb r i then add_entry c v row else row)
            (map (fun cd => (j, fst cd, snd cd)) l) row = row.
Proof.
  induction l as [|cd l IH]; intros j i row H; cbn [map fold_left]; auto.
  destruct (Nat.eqb_spec j i); [contradiction|]. apply IH. exact H.
Qed.

Lemma csr_fold_same : forall (l : list (Z * Z)) i row,
  fold_left (fun row t => let '(r, c, v) := t in if Nat.eqb r i then add_entry c v row else row)
            (map (fun cd => (i, fst cd, snd cd)) l) row = add_all row l.
Proof.
  induction l as [|cd l IH]; intros i row; cbn [map fold_left add_all]; auto.
  rewrite Nat.eqb_refl. apply IH.
Qed.

Lemma csr_row_from : forall ind dist k i row, (k <= i)%nat -> length ind = length dist ->
  fold_left (fun row t => let '(r, c, v) := t in if Nat.eqb r i then add_entry c v row else row) (assemble_from k ind dist) row
  = add_all row (combine (nth (i - k) ind []) (nth (i - k) dist [])) \/ (length ind <= i - k)%nat.
Proof.
  induction ind as [|ri ind IH]; intros dist k i row Hk Hlen.
  - right. cbn. lia.
  - destruct dist as [|rd dist]; [discriminate|]. cbn [assemble_from]. rewrite fold_left_app.
    destruct (Nat.eq_dec k i) as [->|Hne].
    + left. rewrite csr_fold_same. rewrite Nat.sub_diag. cbn [nth].
      (* the remaining rows have numbers > i *)
      assert (R : forall ind' dist' k' row', (i < k')%nat ->
        fold_left (fun row t => let '(r, c, v) := t in if Nat.eqb r i then add_entry c v row else row) (assemble_from k' ind' dist') row' = row').
      { induction ind' as [|a ind' IH']; intros dist' k' row' Hlt; cbn [assemble_from]; auto.
        destruct dist' as [|b dist']; cbn [fold_left]; auto. rewrite fold_left_app. rewrite csr_fold_other by lia. apply IH'. lia. }
      apply R. lia.
    + rewrite csr_fold_other by exact Hne.
      destruct (IH dist (S k) i row ltac:(lia) ltac:(cbn in Hlen; lia)) as [E|E].
      * left. rewrite E. replace (i - k)%nat with (S (i - S k)) by lia. reflexivity.
      * right. cbn [length]. lia.
Qed.

(* row i of the transformed matrix is exactly the list of (indices[i][c], distances[i][c]) pairs *)
Theorem transform_row_exact : forall ind dist i,
  length ind = length dist -> (i < length ind)%nat ->
  nodupb (nth i ind []) = true -> length (nth i ind []) = length (nth i dist []) ->
  transform_row ind dist i = combine (nth i ind []) (nth i dist []).
Proof.
  intros ind dist i Hlen Hi Hnd Hl. unfold transform_row, csr_row, assemble.
  destruct (csr_row_from ind dist O i [] ltac:(lia) Hlen) as [E|E]; [|lia].
  rewrite E. rewrite Nat.sub_0_r. rewrite add_all_fresh; [reflexivity|].
  cbn [map app]. rewrite map_fst_combine_eq by exact Hl. apply nodupb_NoDup. exact Hnd.
Qed.

(* rows beyond the query count are empty *)
Theorem transform_row_outside : forall ind dist i,
  length ind = length dist -> (length ind <= i)%nat -> transform_row ind dist i = [].
Proof.
  intros ind dist i Hlen Hi. unfold transform_row, csr_row, assemble.
  assert (R : forall ind dist k row, length ind = length dist -> (k + length ind <= i)%nat ->
    fold_left (fun row t => let '(r, c, v) := t in if Nat.eqb r i then add_entry c v row else row) (assemble_from k ind dist) row = row).
  { induction ind0 as [|a ind0 IH]; intros dist0 k row Hl Hk; cbn [assemble_from]; auto.
    destruct dist0 as [|b dist0]; [discriminate|]. rewrite fold_left_app. rewrite csr_fold_other by (cbn in Hk; lia).
    apply IH; cbn in *; lia. }
  apply R; auto.
Qed.
