(* C05Nbc.v — instantiation of the row-ownership theorem (Par.v) to utils.new_build_candidates:
   thread t pushes only into candidate rows r with r mod T = t and draws its priorities from its
   own generator stream (rng_state + t), so EVERY interleaving of the prange threads yields the
   candidate arrays of the sequential model (NND.nbc_thread folded over the threads). *)
From Coq Require Import ZArith List Bool Lia.
From PV Require Import Base ListAux Heap Rng NND Par.
Import ListNotations.
Open Scope Z_scope.

Definition crow4 := ((list Z * list Z) * (list Z * list Z))%type.     (* (new_p, new_i), (old_p, old_i) of one vertex *)
Definition dc4 : crow4 := (([], []), ([], [])).

Definition crows (c : cands) : list crow4 :=
  combine (combine (c_new_p c) (c_new_i c)) (combine (c_old_p c) (c_old_i c)).
Definition cwf (c : cands) (n : nat) : Prop :=
  length (c_new_p c) = n /\ length (c_new_i c) = n /\ length (c_old_p c) = n /\ length (c_old_i c) = n.

Definition cfun (isnew : bool) (d idx : Z) (row : crow4) : crow4 * Z :=
  let '((np, ni), (op, oi)) := row in
  if isnew then let '(_, (ps, ids)) := checked_heap_push np ni d idx in (((ps, ids), (op, oi)), 0)
  else let '(_, (ps, ids)) := checked_heap_push op oi d idx in (((np, ni), (ps, ids)), 0).
Definition cop (isnew : bool) (r : nat) (d idx : Z) : op crow4 := (r, cfun isnew d idx).

Lemma upd_nil' {A} (i : nat) (a : A) : upd i a [] = [].
Proof. destruct i; reflexivity. Qed.

Lemma combine_upd' {A B} (a : A) (b : B) : forall l1 i l2,
  combine (upd i a l1) (upd i b l2) = upd i (a, b) (combine l1 l2).
Proof.
  induction l1 as [|x l1 IH]; intros i l2.
  - rewrite upd_nil'. cbn. rewrite upd_nil'. reflexivity.
  - destruct l2 as [|y l2].
    + rewrite upd_nil'. cbn [combine]. rewrite upd_nil'. destruct i; reflexivity.
    + destruct i as [|i]; cbn [upd combine]; [reflexivity|]. f_equal. apply IH.
Qed.

Lemma combine_upd_left {A B} (a : A) (d : B) (l1 : list A) (l2 : list B) i :
  combine (upd i a l1) l2 = upd i (a, nth i l2 d) (combine l1 l2).
Proof. rewrite <- (combine_upd' a (nth i l2 d) l1 i l2). rewrite upd_same. reflexivity. Qed.

Lemma combine_upd_right {A B} (b : B) (d : A) (l1 : list A) (l2 : list B) i :
  combine l1 (upd i b l2) = upd i (nth i l1 d, b) (combine l1 l2).
Proof. rewrite <- (combine_upd' (nth i l1 d) b l1 i l2). rewrite upd_same. reflexivity. Qed.

Lemma nth_crows c n r : cwf c n -> (r < n)%nat ->
  nth r (crows c) dc4 = ((getRow (c_new_p c) r, getRow (c_new_i c) r), (getRow (c_old_p c) r, getRow (c_old_i c) r)).
Proof.
  intros [H1 [H2 [H3 H4]]] Hr. unfold crows, dc4, getRow, crow4.
  rewrite (combine_nth (combine (c_new_p c) (c_new_i c)) (combine (c_old_p c) (c_old_i c)) r ([], []) ([], []))
    by (rewrite !combine_length; lia).
  rewrite (combine_nth (c_new_p c) (c_new_i c) r [] []) by lia.
  rewrite (combine_nth (c_old_p c) (c_old_i c) r [] []) by lia. reflexivity.
Qed.

Definition cands_push (isnew : bool) (c : cands) (r : nat) (d idx : Z) : cands :=
  if isnew then let '(np, ni) := cpush (c_new_p c) (c_new_i c) r d idx in
                {| c_new_p := np; c_new_i := ni; c_old_p := c_old_p c; c_old_i := c_old_i c |}
  else let '(op, oi) := cpush (c_old_p c) (c_old_i c) r d idx in
       {| c_new_p := c_new_p c; c_new_i := c_new_i c; c_old_p := op; c_old_i := oi |}.

Lemma cands_push_step isnew c n r d idx k : cwf c n -> (r < n)%nat ->
  step crow4 dc4 (crows c, k) (cop isnew r d idx) = (crows (cands_push isnew c r d idx), k) /\ cwf (cands_push isnew c r d idx) n.
Proof.
  intros Hwf Hr. rewrite step_eq. cbn [cop fst snd]. rewrite (nth_crows c n r Hwf Hr).
  destruct Hwf as [H1 [H2 [H3 H4]]]. unfold cands_push, cfun, cpush.
  destruct isnew.
  - destruct (checked_heap_push (getRow (c_new_p c) r) (getRow (c_new_i c) r) d idx) as [a [ps ids]].
    cbn [fst snd]. split.
    + f_equal; [|lia]. unfold crows. cbn [c_new_p c_new_i c_old_p c_old_i].
      rewrite (combine_upd' ps ids (c_new_p c) r (c_new_i c)).
      rewrite (combine_upd_left (ps, ids) ([], []) (combine (c_new_p c) (c_new_i c)) (combine (c_old_p c) (c_old_i c)) r).
      unfold getRow. rewrite (combine_nth (c_old_p c) (c_old_i c) r [] []) by lia. reflexivity.
    + unfold cwf. cbn [c_new_p c_new_i c_old_p c_old_i]. rewrite !upd_length. auto.
  - destruct (checked_heap_push (getRow (c_old_p c) r) (getRow (c_old_i c) r) d idx) as [a [ps ids]].
    cbn [fst snd]. split.
    + f_equal; [|lia]. unfold crows. cbn [c_new_p c_new_i c_old_p c_old_i].
      rewrite (combine_upd' ps ids (c_old_p c) r (c_old_i c)).
      rewrite (combine_upd_right (ps, ids) ([], []) (combine (c_new_p c) (c_new_i c)) (combine (c_old_p c) (c_old_i c)) r).
      unfold getRow. rewrite (combine_nth (c_new_p c) (c_new_i c) r [] []) by lia. reflexivity.
    + unfold cwf. cbn [c_new_p c_new_i c_old_p c_old_i]. rewrite !upd_length. auto.
Qed.

(* the (row, pushed id) pairs thread t performs for the cell (i, idx) *)
Definition cell_pushes (T t : Z) (i : nat) (idx : Z) : list (nat * Z) :=
  (if Z.of_nat i mod T =? t then [(i, idx)] else []) ++ (if idx mod T =? t then [(zidx idx, Z.of_nat i)] else []).

Lemma nbc_cell_as_pushes T t i idx isn c rng :
  nbc_cell T t i idx isn c rng =
  if idx <? 0 then (c, rng)
  else let '(d, rng') := tau_rand rng in
       (fold_left (fun c rp => cands_push (negb (isn =? 0)) c (fst rp) d (snd rp)) (cell_pushes T t i idx) c, rng').
Proof.
  unfold nbc_cell, cell_pushes. destruct (idx <? 0); [reflexivity|].
  destruct (tau_rand rng) as [d rng']. destruct c as [np ni op oi]. unfold cands_push.
  destruct (negb (isn =? 0)); cbn [c_new_p c_new_i c_old_p c_old_i];
    destruct (Z.of_nat i mod T =? t); destruct (idx mod T =? t); cbn [app fold_left fst snd c_new_p c_new_i c_old_p c_old_i];
    repeat (cbn [app fold_left fst snd c_new_p c_new_i c_old_p c_old_i]; match goal with |- context [cpush ?a ?b ?r ?d ?x] => destruct (cpush a b r d x) end);
    cbn [app fold_left fst snd c_new_p c_new_i c_old_p c_old_i]; reflexivity.
Qed.

Definition cell_ops (T t : Z) (i : nat) (idx isn : Z) (rng : list Z) : list (op crow4) * list Z :=
  if idx <? 0 then ([], rng)
  else let '(d, rng') := tau_rand rng in
       (map (fun rp : nat * Z => cop (negb (isn =? 0)) (fst rp) d (snd rp)) (cell_pushes T t i idx), rng').

Lemma pushes_run isnew d n : forall (ps : list (nat * Z)) c k, cwf c n -> Forall (fun rp => (fst rp < n)%nat) ps ->
  run crow4 dc4 (map (fun rp : nat * Z => cop isnew (fst rp) d (snd rp)) ps) (crows c, k)
    = (crows (fold_left (fun c rp => cands_push isnew c (fst rp) d (snd rp)) ps c), k)
  /\ cwf (fold_left (fun c rp => cands_push isnew c (fst rp) d (snd rp)) ps c) n.
Proof.
  induction ps as [|rp ps IH]; intros c k Hwf Hok; cbn [map fold_left]; [split; auto|].
  inversion Hok as [|? ? Hr Hrest]; subst.
  destruct (cands_push_step isnew c n (fst rp) d (snd rp) k Hwf Hr) as [E W].
  unfold run in *. cbn [fold_left]. rewrite E. apply IH; auto.
Qed.

Definition idx_ok (n : nat) (idx : Z) : Prop := idx < 0 \/ idx < Z.of_nat n.

Lemma cell_pushes_rows T t i idx n : (i < n)%nat -> 0 <= idx < Z.of_nat n ->
  Forall (fun rp : nat * Z => (fst rp < n)%nat) (cell_pushes T t i idx).
Proof.
  intros Hi Hidx. unfold cell_pushes. apply Forall_app. split.
  - destruct (Z.of_nat i mod T =? t); constructor; auto.
  - destruct (idx mod T =? t); constructor; auto. cbn [fst]. unfold zidx. lia.
Qed.

Lemma nbc_cell_run T t i idx isn c rng n k : cwf c n -> (i < n)%nat -> idx_ok n idx ->
  run crow4 dc4 (fst (cell_ops T t i idx isn rng)) (crows c, k) = (crows (fst (nbc_cell T t i idx isn c rng)), k)
  /\ snd (cell_ops T t i idx isn rng) = snd (nbc_cell T t i idx isn c rng)
  /\ cwf (fst (nbc_cell T t i idx isn c rng)) n.
Proof.
  intros Hwf Hi Hidx. rewrite nbc_cell_as_pushes. unfold cell_ops.
  destruct (Z.ltb_spec idx 0); [cbn; auto|].
  destruct (tau_rand rng) as [d rng']. cbn [fst snd].
  assert (Hr : 0 <= idx < Z.of_nat n) by (destruct Hidx; lia).
  destruct (pushes_run (negb (isn =? 0)) d n (cell_pushes T t i idx) c k Hwf (cell_pushes_rows T t i idx n Hi Hr)) as [E W].
  split; [exact E|split; [reflexivity|exact W]].
Qed.

(* ---------- a whole thread ---------- *)
Definition cell := (nat * Z * Z)%type.      (* vertex i, neighbour id, flag *)
Definition all_cells (g : graph) : list cell :=
  flat_map (fun i => map (fun ij : Z * Z => (i, fst ij, snd ij)) (combine (getRow (g_ind g) i) (getRow (g_flag g) i)))
           (seq 0 (length (g_ind g))).

Fixpoint cells_ops (T t : Z) (cells : list cell) (rng : list Z) : list (op crow4) :=
  match cells with
  | [] => []
  | (i, idx, isn) :: r => let '(ops, rng') := cell_ops T t i idx isn rng in ops ++ cells_ops T t r rng'
  end.

Lemma nested_fold {A B S : Type} (gs : A -> list B) (f : S -> A -> B -> S) : forall l s,
  fold_left (fun s a => fold_left (fun s b => f s a b) (gs a) s) l s
  = fold_left (fun s (ab : A * B) => f s (fst ab) (snd ab)) (flat_map (fun a => map (pair a) (gs a)) l) s.
Proof.
  induction l as [|a l IH]; intros s; cbn [fold_left flat_map]; [reflexivity|].
  rewrite fold_left_app, IH. f_equal.
  generalize (gs a) s. induction l0 as [|b l0 IH0]; intros s0; cbn [map fold_left]; [reflexivity|]. apply IH0.
Qed.

Lemma nbc_thread_cells T g rng0 c t :
  nbc_thread T g rng0 c t =
  fst (fold_left (fun (st : cands * list Z) (x : cell) => nbc_cell T t (fst (fst x)) (snd (fst x)) (snd x) (fst st) (snd st))
                 (all_cells g) (c, map (fun w => w + t) rng0)).
Proof.
  unfold nbc_thread, all_cells. f_equal.
  rewrite (nested_fold (fun i => combine (getRow (g_ind g) i) (getRow (g_flag g) i))
                       (fun (st : cands * list Z) i (ij : Z * Z) => nbc_cell T t i (fst ij) (snd ij) (fst st) (snd st))).
  generalize (seq 0 (length (g_ind g))) (c, map (fun w => w + t) rng0).
  induction l as [|i l IH]; intros st; cbn [flat_map]; [reflexivity|].
  rewrite !fold_left_app. rewrite IH. f_equal.
  generalize (combine (getRow (g_ind g) i) (getRow (g_flag g) i)) st.
  induction l0 as [|ij l0 IH0]; intros st0; cbn [map fold_left]; [reflexivity|]. apply IH0.
Qed.

Definition cells_ok (n : nat) (cells : list cell) : Prop := Forall (fun x : cell => (fst (fst x) < n)%nat /\ idx_ok n (snd (fst x))) cells.

Lemma cells_run T t n : forall cells c rng k, cwf c n -> cells_ok n cells ->
  let r := fold_left (fun (st : cands * list Z) (x : cell) => nbc_cell T t (fst (fst x)) (snd (fst x)) (snd x) (fst st) (snd st)) cells (c, rng) in
  run crow4 dc4 (cells_ops T t cells rng) (crows c, k) = (crows (fst r), k) /\ cwf (fst r) n.
Proof.
  induction cells as [|[[i idx] isn] cells IH]; intros c rng k Hwf Hok; cbn [fold_left cells_ops]; [cbn; auto|].
  inversion Hok as [|? ? [Hi Hidx] Hrest]; subst. cbn [fst snd] in *.
  destruct (nbc_cell_run T t i idx isn c rng n k Hwf Hi Hidx) as [E [Er W]].
  destruct (cell_ops T t i idx isn rng) as [ops rng'] eqn:Eo. cbn [fst snd] in E, Er.
  destruct (nbc_cell T t i idx isn c rng) as [c1 rng1] eqn:Ec. cbn [fst snd] in *. subst rng1.
  unfold run in *. rewrite fold_left_app, E. apply IH; auto.
Qed.

Definition graph_ok (g : graph) (n : nat) : Prop :=
  length (g_ind g) = n /\ forall i idx, (i < n)%nat -> In idx (getRow (g_ind g) i) -> idx_ok n idx.

Lemma all_cells_ok g n : graph_ok g n -> cells_ok n (all_cells g).
Proof.
  intros [Hl Hr]. unfold cells_ok, all_cells. apply Forall_forall. intros x Hx.
  apply in_flat_map in Hx. destruct Hx as [i [Hi Hx]]. apply in_seq in Hi.
  apply in_map_iff in Hx. destruct Hx as [[a b] [<- Hab]]. cbn [fst snd].
  split; [lia|]. apply (Hr i a); [lia|]. eapply in_combine_l; eauto.
Qed.

Definition nbc_threads (T : nat) (g : graph) (rng0 : list Z) : list (list (op crow4)) :=
  map (fun t => cells_ops (Z.of_nat T) (Z.of_nat t) (all_cells g) (map (fun w => w + Z.of_nat t) rng0)) (seq 0 T).

Lemma nbc_sequential : forall T g rng0 n c0, graph_ok g n -> cwf c0 n ->
  run crow4 dc4 (concat (nbc_threads T g rng0)) (crows c0, 0)
  = (crows (fold_left (nbc_thread (Z.of_nat T) g rng0) (map Z.of_nat (seq 0 T)) c0), 0).
Proof.
  intros T g rng0 n c0 Hg Hc. unfold nbc_threads.
  assert (G : forall ts c, cwf c n ->
    run crow4 dc4 (concat (map (fun t => cells_ops (Z.of_nat T) (Z.of_nat t) (all_cells g) (map (fun w => w + Z.of_nat t) rng0)) ts)) (crows c, 0)
    = (crows (fold_left (nbc_thread (Z.of_nat T) g rng0) (map Z.of_nat ts) c), 0)).
  { induction ts as [|t ts IH]; intros c Hw; cbn [map concat fold_left]; [reflexivity|].
    destruct (cells_run (Z.of_nat T) (Z.of_nat t) n (all_cells g) c (map (fun w => w + Z.of_nat t) rng0) 0 Hw (all_cells_ok g n Hg)) as [E W].
    cbn zeta in E, W. rewrite <- nbc_thread_cells in E, W.
    unfold run in *. rewrite fold_left_app, E. apply IH. exact W. }
  apply G. exact Hc.
Qed.

(* ---------- ownership and the schedule theorem ---------- *)
Definition cowner (T : nat) (r : nat) : nat := Z.to_nat (Z.of_nat r mod Z.of_nat T).

Lemma cell_ops_owned T t n i idx isn rng o : (0 < T)%nat -> (i < n)%nat -> idx_ok n idx ->
  In o (fst (cell_ops (Z.of_nat T) (Z.of_nat t) i idx isn rng)) -> cowner T (fst o) = t /\ (fst o < n)%nat.
Proof.
  intros HT Hi Hidx Hin. unfold cell_ops in Hin.
  destruct (Z.ltb_spec idx 0); [destruct Hin|].
  destruct (tau_rand rng) as [d rng']. cbn [fst] in Hin. apply in_map_iff in Hin. destruct Hin as [[r x] [<- Hrp]].
  cbn [cop fst snd]. unfold cell_pushes in Hrp. apply in_app_or in Hrp. destruct Hrp as [Hrp|Hrp].
  - destruct (Z.of_nat i mod Z.of_nat T =? Z.of_nat t) eqn:E; [|destruct Hrp]. destruct Hrp as [Hrp|[]]. inversion Hrp; subst.
    apply Z.eqb_eq in E. unfold cowner. rewrite E. split; lia.
  - destruct (idx mod Z.of_nat T =? Z.of_nat t) eqn:E; [|destruct Hrp]. destruct Hrp as [Hrp|[]]. inversion Hrp; subst.
    apply Z.eqb_eq in E. unfold cowner, zidx. rewrite Z2Nat.id by lia. rewrite E. destruct Hidx; split; lia.
Qed.

Lemma cells_ops_owned T t n : forall cells rng o, (0 < T)%nat -> cells_ok n cells ->
  In o (cells_ops (Z.of_nat T) (Z.of_nat t) cells rng) -> cowner T (fst o) = t /\ (fst o < n)%nat.
Proof.
  induction cells as [|[[i idx] isn] cells IH]; intros rng o HT Hok Hin; cbn [cells_ops] in Hin; [destruct Hin|].
  inversion Hok as [|? ? [Hi Hidx] Hrest]; subst. cbn [fst snd] in *.
  destruct (cell_ops (Z.of_nat T) (Z.of_nat t) i idx isn rng) as [ops rng'] eqn:Eo.
  apply in_app_or in Hin. destruct Hin as [Hin|Hin].
  - apply (cell_ops_owned T t n i idx isn rng o HT Hi Hidx). rewrite Eo. exact Hin.
  - eapply IH; eauto.
Qed.

Lemma nth_nbc_threads T g rng0 t : (t < T)%nat ->
  nth t (nbc_threads T g rng0) [] = cells_ops (Z.of_nat T) (Z.of_nat t) (all_cells g) (map (fun w => w + Z.of_nat t) rng0).
Proof.
  intros Ht. unfold nbc_threads.
  rewrite (nth_indep _ [] (cells_ops (Z.of_nat T) (Z.of_nat O) (all_cells g) (map (fun w => w + Z.of_nat O) rng0)))
    by (rewrite map_length, seq_length; exact Ht).
  rewrite (map_nth (fun t0 => cells_ops (Z.of_nat T) (Z.of_nat t0) (all_cells g) (map (fun w => w + Z.of_nat t0) rng0)) (seq 0 T) O t).
  rewrite seq_nth by exact Ht. reflexivity.
Qed.

(* EVERY interleaving of the T prange threads of new_build_candidates produces the candidate
   arrays of the sequential model *)
Theorem nbc_schedule_independent : forall T g rng0 n c0 L,
  (0 < T)%nat -> graph_ok g n -> cwf c0 n ->
  merge crow4 (nbc_threads T g rng0) L ->
  run crow4 dc4 L (crows c0, 0)
  = (crows (fold_left (nbc_thread (Z.of_nat T) g rng0) (map Z.of_nat (seq 0 T)) c0), 0).
Proof.
  intros T g rng0 n c0 L HT Hg Hc Hm.
  rewrite <- (nbc_sequential T g rng0 n c0 Hg Hc).
  assert (Hlen : length (crows c0) = n).
  { destruct Hc as [H1 [H2 [H3 H4]]]. unfold crows, crow4. rewrite !combine_length. lia. }
  apply (schedule_independent crow4 dc4 (cowner T)); auto.
  - intros t o Hin. destruct (Nat.lt_ge_cases t T) as [Ht|Ht].
    + rewrite nth_nbc_threads in Hin by exact Ht.
      destruct (cells_ops_owned T t n (all_cells g) _ o HT (all_cells_ok g n Hg) Hin) as [A B]. exact A.
    + rewrite nth_overflow in Hin by (unfold nbc_threads; rewrite map_length, seq_length; exact Ht). destruct Hin.
  - intros t o Hin. rewrite Hlen. destruct (Nat.lt_ge_cases t T) as [Ht|Ht].
    + rewrite nth_nbc_threads in Hin by exact Ht.
      destruct (cells_ops_owned T t n (all_cells g) _ o HT (all_cells_ok g n Hg) Hin) as [A B]. exact B.
    + rewrite nth_overflow in Hin by (unfold nbc_threads; rewrite map_length, seq_length; exact Ht). destruct Hin.
Qed.
