(* C16Proofs.v — degree pruning and the search-graph checker. *)
From Coq Require Import ZArith List Bool Lia Permutation Sorted.
From PV Require Import Base ListAux SearchGraph.
Import ListNotations.
Open Scope Z_scope.

(* ---------------- sorting ---------------- *)
Lemma insertZ_perm x l : Permutation (insertZ x l) (x :: l).
Proof.
  induction l as [|y t IH]; cbn; auto.
  destruct (x <=? y); auto.
  eapply perm_trans; [apply perm_skip, IH|apply perm_swap].
Qed.

Lemma sortZ_perm l : Permutation (sortZ l) l.
Proof.
  induction l as [|x t IH]; cbn; auto.
  eapply perm_trans; [apply insertZ_perm|apply perm_skip, IH].
Qed.

Lemma insertZ_sorted x l : StronglySorted Z.le l -> StronglySorted Z.le (insertZ x l).
Proof.
  induction 1 as [|y t Ht IH Hy]; cbn; [repeat constructor|].
  destruct (Z.leb_spec x y).
  - constructor; [constructor; auto|]. constructor; auto.
    rewrite Forall_forall in *. intros z Hz. specialize (Hy z Hz). lia.
  - constructor; auto. rewrite Forall_forall in *. intros z Hz.
    apply (Permutation_in _ (insertZ_perm x t)) in Hz. destruct Hz as [<-|Hz]; [lia|auto].
Qed.

Lemma sortZ_sorted l : StronglySorted Z.le (sortZ l).
Proof. induction l; cbn; [constructor|apply insertZ_sorted; auto]. Qed.

Definition count_lt (c : Z) (l : list Z) : nat := length (filter (fun x => x <? c) l).

Lemma count_lt_perm c l l' : Permutation l l' -> count_lt c l = count_lt c l'.
Proof.
  unfold count_lt. induction 1; cbn; auto.
  - destruct (x <? c); cbn; auto.
  - destruct (x <? c), (y <? c); cbn; auto.
  - congruence.
Qed.

Lemma filter_lt_nil h t : (forall x, In x t -> h <= x) -> filter (fun x => x <? h) t = [].
Proof.
  induction t as [|a t IH]; intros H; cbn; auto.
  destruct (Z.ltb_spec a h); [specialize (H a (or_introl eq_refl)); lia|].
  apply IH. intros; apply H; right; auto.
Qed.

Lemma count_lt_sorted_nth s : StronglySorted Z.le s ->
  forall m, (m < length s)%nat -> (count_lt (getZ s m) s <= m)%nat.
Proof.
  induction 1 as [|h t Ht IH Hh]; intros m Hm; cbn in Hm; [lia|].
  destruct m as [|m]; unfold count_lt, getZ; cbn [nth filter].
  - destruct (Z.ltb_spec h h); [lia|].
    rewrite Forall_forall in Hh.
    assert (E : filter (fun x => x <? h) t = []) by (apply filter_lt_nil; auto).
    rewrite E. cbn. lia.
  - specialize (IH m ltac:(lia)). unfold count_lt, getZ in IH.
    destruct (h <? nth m t 0); cbn [length]; lia.
Qed.

(* at most m entries of l are strictly below the entry of rank m *)
Lemma count_lt_rank l m : (m < length l)%nat -> (count_lt (getZ (sortZ l) m) l <= m)%nat.
Proof.
  intros Hm. rewrite <- (count_lt_perm _ _ _ (sortZ_perm l)).
  apply count_lt_sorted_nth; [apply sortZ_sorted|].
  rewrite (Permutation_length (sortZ_perm l)). auto.
Qed.

Lemma rank_in l m : (m < length l)%nat -> In (getZ (sortZ l) m) l.
Proof.
  intros Hm. apply (Permutation_in _ (sortZ_perm l)). unfold getZ. apply nth_In.
  rewrite (Permutation_length (sortZ_perm l)). auto.
Qed.

Lemma prune_filter_le (cut m : Z) l :
  m <= cut -> (forall x, In x l -> 0 < x) ->
  (length (filter (fun x => (negb (x =? 0) && (x <? m))%Z) (map (fun x => (if cut <? x then 0 else x)%Z) l))
   <= count_lt cut l)%nat.
Proof.
  intros Hmc. unfold count_lt. induction l as [|y t IH]; intros Hpos; cbn; auto.
  assert (Hy : 0 < y) by (apply Hpos; left; auto).
  assert (IH' := IH (fun x Hx => Hpos x (or_intror Hx))).
  destruct (Z.ltb_spec cut y); cbn.
  - destruct (Z.ltb_spec y cut); [lia|]. exact IH'.
  - destruct (Z.eqb_spec y 0); [lia|]. cbn.
    destruct (Z.ltb_spec y m); destruct (Z.ltb_spec y cut); cbn; lia.
Qed.

(* ---------------- degree_prune_row ---------------- *)
Section Prune.
  Variable data : list Z.
  Variable maxd : nat.

  Lemma prune_length : length (degree_prune_row data maxd) = length data.
  Proof. unfold degree_prune_row. destruct (_ <? _)%nat; auto. apply map_length. Qed.

  (* pruning only ever zeroes entries *)
  Lemma prune_only_zeroes i : getZ (degree_prune_row data maxd) i = getZ data i \/ getZ (degree_prune_row data maxd) i = 0.
  Proof.
    unfold degree_prune_row. destruct (_ <? _)%nat; auto.
    destruct (Nat.lt_ge_cases i (length data)).
    - unfold getZ. rewrite nth_map_lt with (d' := 0) by auto. destruct (_ <? _); auto.
    - right. unfold getZ. apply nth_overflow. rewrite map_length. auto.
  Qed.

  (* rows not longer than the bound are untouched *)
  Lemma prune_short : (length data <= maxd)%nat -> degree_prune_row data maxd = data.
  Proof. intros H. unfold degree_prune_row. destruct (Nat.ltb_spec maxd (length data)); auto. lia. Qed.

  (* degree bound: every kept edge is <= cut, and at most maxd edges of the row are
     strictly shorter than cut; hence for ANY kept length m, fewer than or exactly
     maxd kept edges are strictly shorter than m ("edges exactly as long as the
     longest kept one excepted") *)
  Theorem prune_degree_bound :
    (forall x, In x data -> 0 < x) ->
    forall m, In m (degree_prune_row data maxd) -> m <> 0 ->
      (maxd < length data)%nat ->
      (length (filter (fun x => (negb (x =? 0) && (x <? m))%Z) (degree_prune_row data maxd)) <= maxd)%nat.
  Proof.
    intros Hpos m Hm Hm0 Hlong. unfold degree_prune_row in *.
    destruct (Nat.ltb_spec maxd (length data)); [|lia].
    set (cut := getZ (sortZ data) maxd) in *.
    apply in_map_iff in Hm. destruct Hm as [x [Hx Hin]].
    assert (Hmc : m <= cut). { destruct (Z.ltb_spec cut x); subst; [congruence|lia]. }
    apply Nat.le_trans with (count_lt cut data); [|apply count_lt_rank; auto].
    apply prune_filter_le; auto.
  Qed.

  (* the shortest edge of the row always survives *)
  Theorem prune_keeps_minimum x i :
    (i < length data)%nat -> getZ data i = x -> (forall y, In y data -> x <= y) ->
    getZ (degree_prune_row data maxd) i = x.
  Proof.
    intros Hi Hx Hmin. unfold degree_prune_row.
    destruct (Nat.ltb_spec maxd (length data)); auto.
    unfold getZ. rewrite nth_map_lt with (d' := 0) by auto. fold (getZ data i). rewrite Hx.
    assert (x <= getZ (sortZ data) maxd) by (apply Hmin, rank_in; auto).
    unfold getZ in *. destruct (Z.ltb_spec (nth maxd (sortZ data) 0) x); [lia|auto].
  Qed.
End Prune.

(* ---------------- checker soundness ---------------- *)
Lemma lookup_In v : forall ids ds d, lookup v ids ds = Some d -> In v ids.
Proof.
  induction ids as [|i ids IH]; intros [|d0 ds] d H; cbn in H; try discriminate.
  destruct (Z.eqb_spec i v); [left; auto|right; eauto].
Qed.

Lemma edge_len_listed knn_i knn_d u v d :
  edge_len knn_i knn_d u v = Some d ->
  In v (getRow knn_i (zidx u)) \/ In u (getRow knn_i (zidx v)).
Proof.
  unfold edge_len. intros H.
  destruct (lookup v _ _) eqn:E1; [left; eapply lookup_In; eauto|].
  destruct (lookup u _ _) eqn:E2; [right; eapply lookup_In; eauto|discriminate].
Qed.

Lemma memz_In x l : memz x l = true <-> In x l.
Proof.
  unfold memz. rewrite existsb_exists. split.
  - intros [y [Hy E]]. apply Z.eqb_eq in E. subst; auto.
  - intros H. exists x. split; auto. apply Z.eqb_refl.
Qed.

(* what an accepted search graph is guaranteed to satisfy *)
Definition SG_spec (n : nat) (knn_i knn_d sg : list (list Z)) (vorder : list Z) (maxdeg : nat) : Prop :=
  length sg = n /\ length vorder = n /\ (forall i, (i < n)%nat -> In (Z.of_nat i) vorder) /\
  forall a, (a < n)%nat ->
    let u := getZ vorder a in
    let row := nth a sg [] in
    (* square, no self-loops, every edge in the symmetrised neighbour graph *)
    (forall b, In b row ->
       0 <= b < Z.of_nat n /\ b <> Z.of_nat a /\
       let v := getZ vorder (zidx b) in
       (In v (getRow knn_i (zidx u)) \/ In u (getRow knn_i (zidx v))) /\
       exists d, edge_len knn_i knn_d u v = Some d) /\
    (* degree bound up to ties with the longest kept edge *)
    (let ls := flat_map (fun b => match edge_len knn_i knn_d u (getZ vorder (zidx b)) with Some d => [d] | None => [] end) row in
     (length (filter (fun d => (d <? fold_right Z.max (hd 0 ls) ls)%Z) ls) <= maxdeg)%nat) /\
    (* nearest listed neighbour: an edge at least as short is kept *)
    (forall w d1, first_other u (getRow knn_i (zidx u)) (getRow knn_d (zidx u)) = Some (w, d1) ->
       exists b d, In b row /\ edge_len knn_i knn_d u (getZ vorder (zidx b)) = Some d /\ d <= d1).

Theorem search_graph_chk_sound n knn_i knn_d sg vorder maxdeg :
  search_graph_chk n knn_i knn_d sg vorder maxdeg = true -> SG_spec n knn_i knn_d sg vorder maxdeg.
Proof.
  unfold search_graph_chk. rewrite !andb_true_iff. intros [[Hl Hp] Hrows].
  apply Nat.eqb_eq in Hl.
  unfold is_perm_of_range in Hp. rewrite andb_true_iff in Hp. destruct Hp as [Hlv Hall].
  apply Nat.eqb_eq in Hlv. rewrite forallb_forall in Hall.
  split; [auto|]. split; [auto|]. split.
  { intros i Hi. apply memz_In. apply Hall. apply in_seq. lia. }
  intros a Ha. cbv zeta.
  rewrite forallb_forall in Hrows.
  assert (Hin : In (a, nth a sg []) (combine (seq 0 n) sg)).
  { assert (E : nth a (combine (seq 0 n) sg) (0%nat, []) = (a, nth a sg [])).
    { rewrite combine_nth by (rewrite seq_length; auto). rewrite seq_nth by auto. reflexivity. }
    rewrite <- E. apply nth_In. rewrite combine_length, seq_length, Hl, Nat.min_id. auto. }
  specialize (Hrows _ Hin). cbn [fst snd] in Hrows.
  unfold row_ok in Hrows. rewrite !andb_true_iff in Hrows.
  destruct Hrows as [[[H1 H2] H3] H4].
  rewrite forallb_forall in H1. rewrite forallb_forall in H2.
  set (u := getZ vorder a) in *. set (row := nth a sg []) in *.
  split; [|split].
  - intros b Hb. specialize (H1 b Hb). rewrite andb_true_iff in H1. destruct H1 as [Hr Hs].
    unfold in_range in Hr. rewrite andb_true_iff in Hr. destruct Hr as [Hr1 Hr2].
    apply Z.leb_le in Hr1. apply Z.ltb_lt in Hr2. rewrite negb_true_iff in Hs. apply Z.eqb_neq in Hs.
    split; [lia|]. split; [congruence|].
    specialize (H2 (edge_len knn_i knn_d u (getZ vorder (zidx b)))).
    assert (Hm : In (edge_len knn_i knn_d u (getZ vorder (zidx b)))
                    (map (fun b => edge_len knn_i knn_d u (getZ vorder (zidx b))) row))
      by (exact (in_map (fun b => edge_len knn_i knn_d u (getZ vorder (zidx b))) row b Hb)).
    specialize (H2 Hm). destruct (edge_len knn_i knn_d u (getZ vorder (zidx b))) as [d|] eqn:E; [|discriminate].
    split; [eapply edge_len_listed; eauto|eauto].
  - apply Nat.leb_le in H3.
    rewrite flat_map_concat_map, map_map, <- flat_map_concat_map in H3. exact H3.
  - intros w d1 Hf. rewrite Hf in H4. apply existsb_exists in H4.
    destruct H4 as [o [Ho Hd]]. apply in_map_iff in Ho. destruct Ho as [b [Eb Hb]].
    destruct o as [d|]; [|discriminate]. apply Z.leb_le in Hd. exists b, d. auto.
Qed.
