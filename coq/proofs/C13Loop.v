(* C13Loop.v — NN-descent as a whole never makes a row worse than the heap it started from. *)
From Coq Require Import ZArith List Bool Lia Permutation.
From PV Require Import Base Heap Rng NND ListAux HeapProofs HeapTopK HeapArrays HeapSort NNDProofs C01Proofs C01Loop C13Proofs.
Import ListNotations.
Open Scope Z_scope.

Section Loop13.
  Variable dm : nat -> nat -> Z.
  Variable inf : Z.
  Variables n k maxc : nat.
  Hypothesis Hk : (0 < k)%nat.
  Hypothesis Hmaxc : (0 < maxc)%nat.
  Hypothesis dm_sym : forall a b, dm a b = dm b a.

  Local Notation GWF := (GWF dm inf n k).
  Local Notation Good := (Good n k).

  Lemma upd_true_inrange u : upd_true dm n u -> upd_inrange n u.
  Proof. destruct u as [[p q] d]. unfold upd_true, upd_inrange. intros [?|[?|[A [B _]]]]; auto. Qed.

  Lemma ups_true_inrange ups : Forall (Forall (upd_true dm n)) ups -> Forall (Forall (upd_inrange n)) ups.
  Proof.
    intros H. apply Forall_forall. intros ul Hul. rewrite Forall_forall in H. specialize (H ul Hul).
    apply Forall_forall. intros u Hu. rewrite Forall_forall in H. apply upd_true_inrange. auto.
  Qed.

  (* count_le and heapP only look at the keys *)
  Lemma count_le_keys t : forall l : list entry, count_le t l = length (filter (fun z => z <=? t) (map key l)).
  Proof. unfold count_le. induction l as [|e l IH]; cbn; auto. destruct (key e <=? t); cbn; rewrite IH; reflexivity. Qed.

  Lemma key_getE (l : list entry) c : key (getE l c) = nth c (map key l) (key dflt).
  Proof. unfold getE. symmetry. apply map_nth. Qed.

  Lemma heapP_keys l l' : map key l = map key l' -> heapP l -> heapP l'.
  Proof.
    intros E Hh j c Hc Hlt.
    assert (Ll : length l' = length l) by (rewrite <- (map_length key l'), <- E, map_length; reflexivity).
    rewrite !key_getE, <- E, <- !key_getE. apply Hh; auto. lia.
  Qed.

  Lemma Good_new_flags g0 g flags' :
    Good g0 g -> length flags' = n -> (forall r, (r < n)%nat -> length (getRow flags' r) = k) ->
    Good g0 {| g_ind := g_ind g; g_dist := g_dist g; g_flag := flags' |}.
  Proof.
    intros [[[Li [Ld [Lf Hl]]] Hh] Hle] Lf' Hk'.
    assert (K : forall r, map key (grow {| g_ind := g_ind g; g_dist := g_dist g; g_flag := flags' |} r) = map key (grow g r)).
    { intros r. unfold grow. cbn [g_ind g_dist g_flag]. rewrite !map_key_zip3. reflexivity. }
    split; [split|].
    - unfold wf_graph. cbn [g_ind g_dist g_flag]. repeat split; auto; destruct (Hl r H) as [A [B C]]; auto.
    - intros r Hr. apply (heapP_keys (grow g r)); [symmetry; apply K|apply Hh; auto].
    - intros r t. rewrite (count_le_keys t (grow {| g_ind := g_ind g; g_dist := g_dist g; g_flag := flags' |} r)), K, <- count_le_keys. apply Hle.
  Qed.

  Lemma nbc_graph_Good g0 g rng T : GWF g -> Good g0 g -> Good g0 (fst (fst (new_build_candidates inf g maxc rng T))).
  Proof.
    intros HG HGood. unfold new_build_candidates. cbn [fst].
    assert (Hlen : length (g_ind g) = n) by (destruct HG as [[H _] _]; exact H). rewrite Hlen.
    apply Good_new_flags; auto.
    - rewrite map_length, seq_length. reflexivity.
    - intros r Hr. unfold getRow at 1.
      rewrite (nth_map_lt _ (seq 0 n) r [] O) by (rewrite seq_length; exact Hr). rewrite seq_nth by exact Hr. cbn [Nat.add].
      unfold clear_flags_row. rewrite map_length, combine_length.
      destruct HG as [[_ [_ [_ Hl]]] _]. destruct (Hl r Hr) as [A [_ C]]. lia.
  Qed.

  (* the whole loop, both memory modes: rows of the result are rank-wise at least as good as the rows of the start *)
  Theorem nnd_low_Good g0 : forall iters g rng T thr_c, GWF g -> Good g0 g -> Good g0 (nnd_low inf dm iters g maxc rng T thr_c).
  Proof.
    induction iters as [|it IH]; intros g rng T thr_c HG HGood; cbn [nnd_low]; auto.
    pose proof (new_build_candidates_in_range dm inf n k maxc Hk Hmaxc g rng T HG) as Hr.
    pose proof (nbc_graph_GWF dm inf n k maxc Hk Hmaxc g rng T HG) as HG1.
    pose proof (nbc_graph_Good g0 g rng T HG HGood) as HGood1.
    destruct (new_build_candidates inf g maxc rng T) as [[g1 newc] oldc]. cbn [fst] in HG1, HGood1. destruct Hr as [Hn Ho].
    assert (Hups : Forall (Forall (upd_true dm n)) (generate_graph_updates inf dm (thresholds g1) newc oldc))
      by (apply (generate_graph_updates_true dm inf n k Hk); auto).
    pose proof (apply_low_GWF dm inf n k Hk dm_sym g1 _ T HG1 Hups) as HG2.
    pose proof (apply_low_improves n k Hk g0 g1 _ T HGood1 (ups_true_inrange _ Hups)) as HGood2.
    destruct (apply_graph_updates_low_memory g1 (generate_graph_updates inf dm (thresholds g1) newc oldc) T) as [g2 c].
    cbn [fst] in HG2, HGood2. destruct (c <=? thr_c); auto.
  Qed.

  Theorem nnd_high_Good b g0 : forall iters g ing rng T thr_c, GWF g -> Good g0 g -> Good g0 (nnd_high inf dm b iters g ing maxc rng T thr_c).
  Proof.
    induction iters as [|it IH]; intros g ing rng T thr_c HG HGood; cbn [nnd_high]; auto.
    pose proof (new_build_candidates_in_range dm inf n k maxc Hk Hmaxc g rng T HG) as Hr.
    pose proof (nbc_graph_GWF dm inf n k maxc Hk Hmaxc g rng T HG) as HG1.
    pose proof (nbc_graph_Good g0 g rng T HG HGood) as HGood1.
    destruct (new_build_candidates inf g maxc rng T) as [[g1 newc] oldc]. cbn [fst] in HG1, HGood1. destruct Hr as [Hn Ho].
    assert (Hups : Forall (Forall (upd_true dm n)) (generate_graph_updates inf dm (thresholds g1) newc oldc))
      by (apply (generate_graph_updates_true dm inf n k Hk); auto).
    pose proof (apply_high_GWF dm inf n k Hk dm_sym b g1 _ ing HG1 Hups) as HG2.
    pose proof (apply_high_improves n k Hk b g0 g1 _ ing HGood1 (ups_true_inrange _ Hups)) as HGood2.
    destruct (apply_graph_updates_high_memory b g1 (generate_graph_updates inf dm (thresholds g1) newc oldc) ing) as [[g2 ing2] c].
    cbn [fst] in HG2, HGood2. destruct (c <=? thr_c); auto.
  Qed.
End Loop13.

Lemma GWF_Good_refl dm inf n k g : (0 < k)%nat -> GWF dm inf n k g -> Good n k g g.
Proof.
  intros Hk [Hwf Hrows]. split; [split; auto|apply (gle_refl k Hk)].
  intros r Hr. destruct (Hrows r Hr) as [Hh _]. exact Hh.
Qed.

Theorem nn_descent_rounds_never_worse :
  forall (dm : nat -> nat -> Z) (inf : Z) (n k maxc : nat),
    (0 < k)%nat -> (0 < maxc)%nat -> (forall a b, dm a b = dm b a) ->
    forall b iters g rng T thr_c, GWF dm inf n k g ->
      Good n k g (nnd_low inf dm iters g maxc rng T thr_c) /\
      Good n k g (nnd_high inf dm b iters g (g_ind g) maxc rng T thr_c).
Proof.
  intros dm inf n k maxc Hk Hm Hs b iters g rng T thr_c HG. split.
  - apply (nnd_low_Good dm inf n k maxc Hk Hm Hs); auto. eapply GWF_Good_refl; eauto.
  - apply (nnd_high_Good dm inf n k maxc Hk Hm Hs); auto. eapply GWF_Good_refl; eauto.
Qed.
