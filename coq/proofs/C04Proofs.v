(* C04Proofs.v — the data bookkeeping of update/prepare keeps the index over the logical dataset. *)
From Coq Require Import ZArith List Bool Arith Lia.
From PV Require Import Base ListAux Lifecycle.
Import ListNotations.
Open Scope Z_scope.

Lemma index_of_spec : forall k p, In k p -> (index_of k p < length p)%nat /\ nth (index_of k p) p O = k.
Proof.
  induction p as [|x r IH]; intros H; [destruct H|].
  cbn [index_of]. destruct (Nat.eqb_spec x k) as [->|Hne].
  - cbn. split; [lia|reflexivity].
  - destruct H as [H|H]; [congruence|]. destruct (IH H) as [A B]. cbn [length nth]. split; [lia|exact B].
Qed.

Lemma map_nth_seq : forall (l : list Z) d, map (fun i => nth i l d) (seq 0 (length l)) = l.
Proof.
  induction l as [|a l IH]; intros d; cbn [length seq map]; auto.
  cbn [nth]. f_equal. rewrite <- seq_shift, map_map. cbn [nth]. apply IH.
Qed.

Lemma nth_map_in : forall (f : nat -> Z) p i d d', (i < length p)%nat -> nth i (map f p) d = f (nth i p d').
Proof.
  intros f p i d d' H. rewrite (nth_indep _ d (f d')) by (rewrite map_length; exact H). apply map_nth.
Qed.

Definition perm_ok (p : list nat) (n : nat) : Prop := length p = n /\ forall k, (k < n)%nat -> In k p.

(* undoing the tree order with argsort gives back the caller order *)
Lemma gather_argsort : forall l p, perm_ok p (length l) -> gather (gather l p) (argsort_perm p) = l.
Proof.
  intros l p [Hlen Hsur]. unfold gather at 1, argsort_perm. rewrite map_map.
  etransitivity; [|apply (map_nth_seq l (-1))]. rewrite Hlen.
  apply map_ext_in. intros k Hk. apply in_seq in Hk.
  destruct (index_of_spec k p (Hsur k ltac:(lia))) as [A B].
  unfold gather. rewrite (nth_map_in _ p _ (-1) O A). rewrite B. reflexivity.
Qed.

Definition LInv (s : lstate) (l : list Z) : Prop :=
  match vorder s with
  | Some p => raw s = gather l p /\ perm_ok p (length l) /\ searchable s = true
  | None => raw s = l /\ searchable s = false
  end /\ (has_graph s = true -> graph_rows s = length l).

Definition op_ok (s : lstate) (l : list Z) (o : lop) : Prop :=
  match o with
  | LPrepare p | LCompress p => searchable s = false -> perm_ok p (length l)
  | LUpdate fresh ids xs p => has_graph s = true -> searchable s = true -> perm_ok p (length (replace_rows l ids xs ++ fresh))
  end.

Lemma do_prepare_inv : forall s l p, LInv s l -> (searchable s = false -> perm_ok p (length l)) -> LInv (do_prepare s p) l.
Proof.
  intros s l p Hinv Hok. unfold do_prepare. destruct (searchable s) eqn:Es.
  - exact Hinv.
  - destruct Hinv as [Hv Hg]. unfold LInv. cbn. destruct (vorder s) as [q|].
    + destruct Hv as [_ [_ C]]. congruence.
    + destruct Hv as [Hr _]. rewrite Hr. split; [split; [reflexivity|split; [apply Hok; reflexivity|reflexivity]]|exact Hg].
Qed.

Theorem lstep_inv : forall s l o, LInv s l -> op_ok s l o ->
  LInv (fst (lstep s o)) (logical_step l o (snd (lstep s o))).
Proof.
  intros s l o Hinv Hok. destruct o as [p|p|fresh ids xs p]; cbn [lstep fst snd logical_step].
  - apply do_prepare_inv; assumption.
  - pose proof (do_prepare_inv s l p Hinv Hok) as [Hv Hg]. unfold LInv. cbn.
    assert (Es : searchable (do_prepare s p) = true) by (unfold do_prepare; destruct (searchable s) eqn:E; auto).
    destruct (vorder (do_prepare s p)) as [q|].
    + destruct Hv as [A [B C]]. split; [split; [exact A|split; [exact B|reflexivity]]|discriminate].
    + destruct Hv as [_ C]. congruence.
  - destruct (has_graph s) eqn:Eg; cbn [negb].
    + destruct Hinv as [Hv Hg].
      assert (Horig : match vorder s with Some q => gather (raw s) (argsort_perm q) | None => raw s end = l).
      { destruct (vorder s) as [q|].
        - destruct Hv as [A [B _]]. rewrite A. apply gather_argsort. exact B.
        - destruct Hv as [A _]. exact A. }
      rewrite Horig. set (l' := replace_rows l ids xs ++ fresh).
      destruct (searchable s) eqn:Es; cbn [fst snd].
      * unfold do_prepare. cbn. unfold LInv. cbn. split; [|intros _; reflexivity].
        split; [reflexivity|split; [exact (Hok Eg Es)|reflexivity]].
      * unfold LInv. cbn. destruct (vorder s) as [q|].
        -- destruct Hv as [_ [_ C]]. congruence.
        -- split; [split; reflexivity|intros _; reflexivity].
    + cbn [fst snd]. exact Hinv.
Qed.

Fixpoint lfinal (s : lstate) (l : list Z) (ops : list lop) : lstate * list Z :=
  match ops with
  | [] => (s, l)
  | o :: r => lfinal (fst (lstep s o)) (logical_step l o (snd (lstep s o))) r
  end.

Fixpoint ok_run (s : lstate) (l : list Z) (ops : list lop) : Prop :=
  match ops with
  | [] => True
  | o :: r => op_ok s l o /\ ok_run (fst (lstep s o)) (logical_step l o (snd (lstep s o))) r
  end.

Theorem history_invariant : forall ops s l, LInv s l -> ok_run s l ops ->
  LInv (fst (lfinal s l ops)) (snd (lfinal s l ops)).
Proof.
  induction ops as [|o r IH]; intros s l Hinv Hok; cbn [lfinal fst snd]; auto.
  destruct Hok as [H1 H2]. apply IH; auto. apply lstep_inv; auto.
Qed.

Lemma linit_inv : forall data, LInv (linit data) data.
Proof. intros data. unfold LInv, linit. cbn. split; [split; reflexivity|reflexivity]. Qed.

(* what the invariant says about storage: row j of _raw_data is logical row _vertex_order[j] *)
Lemma LInv_rows : forall s l p j, LInv s l -> vorder s = Some p -> (j < length p)%nat ->
  nth j (raw s) (-1) = nth (nth j p O) l (-1).
Proof.
  intros s l p j [Hv _] E Hj. rewrite E in Hv. destruct Hv as [A _]. rewrite A. unfold gather.
  apply (nth_map_in (fun i => nth i l (-1)) p j (-1) O Hj).
Qed.

(* ---------------- invalidation ---------------- *)
Lemma nth_invalidate_from : forall inf U g k i, (i < length g)%nat ->
  nth i (invalidate_from inf U k g) [] = invalidate_row inf U (k + i) (nth i g []).
Proof.
  induction g as [|row r IH]; intros k i Hi; cbn [length] in Hi; [lia|].
  cbn [invalidate_from]. destruct i as [|i]; cbn [nth].
  - rewrite Nat.add_0_r. reflexivity.
  - rewrite IH by lia. f_equal. lia.
Qed.

Lemma memb_In : forall i U, memb i U = true <-> In i U.
Proof.
  intros i U. unfold memb. rewrite existsb_exists. split.
  - intros [x [Hx E]]. apply Nat.eqb_eq in E. subst. exact Hx.
  - intros H. exists i. split; auto. apply Nat.eqb_refl.
Qed.

Lemma nth_map_const : forall (A B : Type) (c : B) (l : list A) j, nth j (map (fun _ => c) l) c = c.
Proof. induction l as [|a l IH]; intros [|j]; cbn; auto. Qed.

(* every entry that survives invalidation (id <> -1) lies in a row that was not replaced, does
   not reference a replaced row, and is exactly the entry that was stored before *)
Theorem invalidate_spec : forall inf U g i j e,
  (i < length g)%nat -> (j < length (nth i g []))%nat ->
  nth j (nth i (invalidate inf U g) []) (dead inf) = e -> fst e <> -1 ->
  ~ In i U /\ memz (fst e) U = false /\ e = nth j (nth i g []) (dead inf).
Proof.
  intros inf U g i j e Hi Hj He Hne. unfold invalidate in He. rewrite nth_invalidate_from in He by exact Hi.
  cbn [Nat.add] in He. unfold invalidate_row in He.
  destruct (memb i U) eqn:Ei.
  - exfalso. rewrite nth_map_const in He. subst e. apply Hne. reflexivity.
  - set (f := fun e0 : Z * Z => if memz (fst e0) U then dead inf else e0) in *.
    assert (Hd : f (dead inf) = dead inf) by (unfold f; destruct (memz (fst (dead inf)) U); reflexivity).
    rewrite <- Hd in He at 1. rewrite map_nth in He. unfold f in He.
    destruct (memz (fst (nth j (nth i g []) (dead inf))) U) eqn:Em.
    + subst e. exfalso. apply Hne. reflexivity.
    + subst e. split; [|split; [exact Em|reflexivity]].
      intros Hin. apply memb_In in Hin. congruence.
Qed.

(* rows of replaced points are emptied completely *)
Theorem invalidate_replaced_rows : forall inf U g i j,
  (i < length g)%nat -> In i U -> (j < length (nth i g []))%nat ->
  nth j (nth i (invalidate inf U g) []) (dead inf) = dead inf.
Proof.
  intros inf U g i j Hi Hin Hj. unfold invalidate. rewrite nth_invalidate_from by exact Hi. cbn [Nat.add].
  unfold invalidate_row. apply memb_In in Hin. rewrite Hin.
  apply nth_map_const.
Qed.
