(* HeapTopK.v — refinement of the push kernels to the abstract "k closest
   distinct candidates" specification, and rank monotonicity (C11, C13). *)
From Coq Require Import ZArith List Bool Lia Permutation.
From PV Require Import Base Heap ListAux HeapProofs.
Import ListNotations.
Open Scope Z_scope.

Section TopK.
  Variable delta : Z -> Z.         (* candidate id -> its (own) distance key *)
  Variable inf : Z.                (* key of +inf *)
  Variable checked : bool.

  Definition offer := (Z * Z)%type.                      (* candidate id, flag *)
  Definition ent (o : offer) : entry := (delta (fst o), fst o, snd o).

  Definition is_real (e : entry) : bool := negb (eid e =? -1).
  Definition real (l : list entry) : list entry := filter is_real l.

  Definition push_all (l : list entry) (xs : list offer) : list entry :=
    fold_left (fun l o => snd (pushz checked l (ent o))) xs l.

  (* admissible offers: a real candidate id, a distance key not above +inf;
     the unchecked variant additionally needs distinct candidates (its callers
     guarantee that through the visited table, see C02) *)
  Definition offer_ok (o : offer) : Prop := fst o <> -1 /\ delta (fst o) <= inf.

  Record Inv (k : nat) (l : list entry) (seen : list offer) : Prop := {
    inv_len : length l = k;
    inv_heap : heapP l;
    inv_ent : forall e, In e l ->
        (eid e = -1 /\ key e = inf) \/
        (eid e <> -1 /\ key e < inf /\ exists f, In (eid e, f) seen /\ e = ent (eid e, f));
    inv_nodup : NoDup (map eid (real l));
    inv_best : forall o, In o seen ->
        In (fst o) (map eid (real l)) \/ key (getE l 0) <= delta (fst o)
  }.

  Lemma real_perm l l' : Permutation l l' -> Permutation (map eid (real l)) (map eid (real l')).
  Proof. intros P. apply Permutation_map. unfold real.
    induction P; simpl; auto.
    - destruct (is_real x); auto.
    - destruct (is_real x), (is_real y); auto. apply perm_swap.
    - eapply perm_trans; eauto.
  Qed.

  Lemma In_real e l : In e (real l) <-> In e l /\ eid e <> -1.
  Proof. unfold real. rewrite filter_In. unfold is_real.
    destruct (Z.eqb_spec (eid e) (-1)); simpl; intuition congruence. Qed.

  Lemma In_map_eid_real n l : In n (map eid (real l)) <-> exists e, In e l /\ eid e = n /\ n <> -1.
  Proof.
    rewrite in_map_iff. split.
    - intros [e [He Hin]]. apply In_real in Hin. exists e. subst. tauto.
    - intros [e [Hin [He Hn]]]. exists e. split; auto. apply In_real. subst; auto.
  Qed.

  Lemma Inv_step k l seen o :
    (0 < k)%nat -> offer_ok o ->
    (checked = false -> ~ In (fst o) (map eid (real l))) ->
    Inv k l seen -> Inv k (snd (pushz checked l (ent o))) (o :: seen).
  Proof.
    intros Hk [Hid Hinf] Hunch [Hlen Hheap Hent Hnd Hbest].
    assert (L0 : (0 < length l)%nat) by lia.
    pose proof (pushz_outcome checked l (ent o) L0 Hheap) as PO.
    assert (Hk_ent : key (ent o) = delta (fst o)) by reflexivity.
    assert (Hid_ent : eid (ent o) = fst o) by reflexivity.
    inversion PO as [Hw Heq | Hlt Hc Hdup Heq | r Hlt Hc P Hh Lr Heq]; cbn [snd].
    - (* not better than the root *)
      constructor; auto.
      + intros e He. destruct (Hent e He) as [?|[? [? [f [? ?]]]]]; [left; auto|].
        right; repeat split; auto. exists f; split; auto. right; auto.
      + intros o' [<-|Ho']; [right; rewrite <- Hk_ent; auto|auto].
    - (* already present *)
      constructor; auto.
      + intros e He. destruct (Hent e He) as [?|[? [? [f [? ?]]]]]; [left; auto|].
        right; repeat split; auto. exists f; split; auto. right; auto.
      + intros o' [<-|Ho']; [|auto]. left.
        rewrite Hid_ent in Hdup. apply in_map_iff in Hdup. destruct Hdup as [e [He Hin]].
        apply In_map_eid_real. exists e; auto.
    - (* accepted: old root evicted *)
      assert (Hroot_in : In (getE l 0) l) by (apply getE_In; auto).
      assert (Hr_sub : forall e, In e r -> e = ent o \/ In e l).
      { intros e He. assert (In e (ent o :: l)) by (eapply Permutation_in; [exact P|right; auto]).
        destruct H as [<-|]; auto. }
      assert (Hl_sub : forall e, In e l -> e = getE l 0 \/ In e r).
      { intros e He. assert (In e (getE l 0 :: r)) by (eapply Permutation_in; [symmetry; exact P|right; auto]).
        destruct H as [<-|]; auto. }
      assert (Hx_in : In (ent o) r).
      { assert (In (ent o) (getE l 0 :: r)) by (eapply Permutation_in; [symmetry; exact P|left; auto]).
        destruct H as [E|]; auto. rewrite E in Hlt. lia. }
      assert (Hroot_le : key (getE r 0) <= key (getE l 0)).
      { apply push_acc_root_le with (x := ent o); auto. }
      assert (Hreal_x : is_real (ent o) = true).
      { unfold is_real. rewrite Hid_ent. destruct (Z.eqb_spec (fst o) (-1)); auto. }
      assert (Hnotin : ~ In (fst o) (map eid (real l))).
      { destruct checked eqn:Ec.
        - intros Hin. apply (Hc eq_refl). rewrite Hid_ent.
          apply In_map_eid_real in Hin. destruct Hin as [e [? [? ?]]]. apply in_map_iff. eauto.
        - apply Hunch; auto. }
      constructor; auto; try lia.
      + intros e He. destruct (Hr_sub e He) as [->|Hin].
        * right. rewrite Hid_ent, Hk_ent. repeat split; auto.
          -- pose proof (heapP_In_le_root _ _ Hheap Hroot_in).
             destruct (Hent _ Hroot_in) as [[_ E]|[_ [E _]]]; rewrite Hk_ent in Hlt; lia.
          -- exists (snd o). split; [left; destruct o; auto|destruct o; auto].
        * destruct (Hent e Hin) as [?|[? [? [f [? ?]]]]]; [left; auto|].
          right; repeat split; auto. exists f; split; auto. right; auto.
      + (* NoDup *)
        assert (Q : Permutation (map eid (real (getE l 0 :: r))) (map eid (real (ent o :: l))))
          by (apply real_perm; auto).
        assert (ND : NoDup (map eid (real (ent o :: l)))).
        { unfold real at 1. cbn [filter]. rewrite Hreal_x. cbn [map]. rewrite Hid_ent.
          constructor; auto. }
        apply Permutation_sym in Q. eapply Permutation_NoDup in ND; [|exact Q].
        unfold real at 1 in ND. cbn [filter] in ND. destruct (is_real (getE l 0)); auto.
        cbn [map] in ND. inversion ND; auto.
      + intros o' [<-|Ho'].
        * left. apply In_map_eid_real. exists (ent o). auto.
        * destruct (Hbest o' Ho') as [Hin|Hle]; [|right; lia].
          apply In_map_eid_real in Hin. destruct Hin as [e [He [Hee Hne]]].
          destruct (Hl_sub e He) as [->|Hr]; [|left; apply In_map_eid_real; eauto].
          right. destruct (Hent _ Hroot_in) as [[E _]|[_ [_ [f [_ E]]]]]; [congruence|].
          assert (Hkk : key (getE l 0) = delta (fst o')).
          { rewrite E. unfold ent. cbn [key eid fst snd]. rewrite Hee. reflexivity. }
          lia.
  Qed.

  Definition empty_entries (k : nat) : list entry := repeat (inf, -1, 0) k.

  Lemma Inv_empty k : Inv k (empty_entries k) [].
  Proof.
    constructor.
    - apply repeat_length.
    - intros j c Hc Hl. unfold empty_entries in *. rewrite repeat_length in Hl.
      unfold getE. assert (j < c)%nat by (destruct Hc; lia).
      rewrite !nth_repeat_lt by lia. lia.
    - intros e He. apply repeat_spec in He. subst. left; auto.
    - unfold empty_entries, real. replace (filter is_real (repeat (inf, -1, 0) k)) with (@nil entry).
      + constructor.
      + induction k; simpl; auto.
    - intros o [].
  Qed.

  Lemma real_ids_seen k l seen n :
    Inv k l seen -> In n (map eid (real l)) -> In n (map fst seen).
  Proof.
    intros I Hin. apply In_map_eid_real in Hin. destruct Hin as [e [He [Hid Hne]]].
    destruct (inv_ent _ _ _ I e He) as [[E _]|[_ [_ [f [Hs _]]]]]; [congruence|].
    apply in_map_iff. exists (eid e, f). subst; auto.
  Qed.

  Lemma Inv_fold k : forall xs l seen,
    (0 < k)%nat -> Forall offer_ok xs ->
    (checked = false -> NoDup (map fst xs) /\ forall o, In o xs -> ~ In (fst o) (map fst seen)) ->
    Inv k l seen -> Inv k (push_all l xs) (rev xs ++ seen).
  Proof.
    induction xs as [|o xs IH]; intros l seen Hk Hok Hun I; [exact I|].
    cbn [push_all fold_left rev]. rewrite <- app_assoc. cbn [app].
    inversion Hok as [|? ? Ho Hoks]; subst.
    apply IH; auto.
    - intros Ec. destruct (Hun Ec) as [ND Hns]. cbn [map] in ND. inversion ND as [|? ? Hni ND']; subst.
      split; auto. intros o' Ho' [E|Hin].
      + apply Hni. rewrite E. apply in_map; auto.
      + apply (Hns o'); [right; auto|auto].
    - apply Inv_step; auto. intros Ec Hin. destruct (Hun Ec) as [_ Hns].
      apply (Hns o); [left; auto|]. eapply real_ids_seen; eauto.
  Qed.

  (* The abstract specification: the k closest distinct candidates. *)
  Theorem topk_spec k xs :
    (0 < k)%nat -> Forall offer_ok xs -> (checked = false -> NoDup (map fst xs)) ->
    let r := push_all (empty_entries k) xs in
    length r = k /\ heapP r /\
    NoDup (map eid (real r)) /\
    (forall e, In e r -> eid e = -1 -> key e = inf) /\
    (forall e, In e (real r) -> key e < inf /\ exists f, In (eid e, f) xs /\ e = ent (eid e, f)) /\
    (forall o, In o xs -> In (fst o) (map eid (real r)) \/ forall e, In e r -> key e <= delta (fst o)).
  Proof.
    intros Hk Hok Hun r.
    assert (I : Inv k r (rev xs ++ [])).
    { apply Inv_fold; [exact Hk|exact Hok| |apply Inv_empty]. intros Ec. split; auto. }
    rewrite app_nil_r in I. destruct I as [Hlen Hheap Hent Hnd Hbest].
    repeat split; auto.
    - intros e He Hid. destruct (Hent e He) as [[_ ?]|[? _]]; [auto|congruence].
    - apply In_real in H. destruct H as [He Hid].
      destruct (Hent e He) as [[? _]|[_ [? _]]]; [congruence|auto].
    - apply In_real in H. destruct H as [He Hid].
      destruct (Hent e He) as [[? _]|[_ [_ [f [Hin ?]]]]]; [congruence|].
      exists f. split; auto. apply in_rev; auto.
    - intros o Ho. destruct (Hbest o) as [?|Hle]; [apply -> in_rev; auto|left; auto|].
      right. intros e He. pose proof (heapP_In_le_root _ _ Hheap He). lia.
  Qed.

End TopK.

(* ------------------------------------------------------------------ *)
(* Rank monotonicity (C13): for every threshold t the number of entries
   with key <= t never decreases under a push.                          *)

Definition count_le (t : Z) (l : list entry) : nat :=
  length (filter (fun e => key e <=? t) l).

Lemma count_le_perm t l l' : Permutation l l' -> count_le t l = count_le t l'.
Proof.
  intros P. unfold count_le. induction P; simpl; auto.
  - destruct (_ <=? _); simpl; auto.
  - destruct (key x <=? t), (key y <=? t); simpl; auto.
  - congruence.
Qed.

Lemma push_count_le_mono checked l x t :
  (0 < length l)%nat -> heapP l ->
  (count_le t l <= count_le t (snd (pushz checked l x)))%nat.
Proof.
  intros L0 Hh. pose proof (pushz_outcome checked l x L0 Hh) as PO.
  inversion PO as [| | r Hlt Hc P Hr Lr]; cbn [snd]; auto.
  apply (count_le_perm t) in P. unfold count_le in *. cbn [filter] in P.
  destruct (Z.leb_spec (key (getE l 0)) t); destruct (Z.leb_spec (key x) t);
    cbn [length] in P; lia.
Qed.

(* count form <-> rank form, for sorted key lists of equal length *)
Lemma sorted_count_rank (a b : list Z) :
  length a = length b ->
  (forall i j, (i <= j < length a)%nat -> nth i a 0 <= nth j a 0) ->
  (forall i j, (i <= j < length b)%nat -> nth i b 0 <= nth j b 0) ->
  (forall t : Z, (length (filter (fun z => (z <=? t)%Z) a) <= length (filter (fun z => (z <=? t)%Z) b))%nat) ->
  forall j, (j < length a)%nat -> nth j b 0 <= nth j a 0.
Proof.
  intros L Sa Sb Hc j Hj.
  destruct (Z.le_gt_cases (nth j b 0) (nth j a 0)) as [|Hgt]; auto. exfalso.
  set (t := nth j a 0) in *.
  (* at least j+1 elements of a are <= t *)
  assert (Ha : forall l n, (forall i, (i < n)%nat -> nth i l 0 <= t) -> (n <= length l)%nat ->
                 (n <= length (filter (fun z => (z <=? t)%Z) l))%nat).
  { clear. intros l. induction l as [|h tl IH]; intros n Hn Hl; simpl in *; [lia|].
    destruct n; [lia|].
    pose proof (Hn 0%nat ltac:(lia)) as H0. simpl in H0.
    destruct (Z.leb_spec h t); try lia. simpl.
    apply le_n_S. apply IH; [|lia]. intros i Hi. apply (Hn (S i)); lia. }
  (* at most j elements of b are <= t *)
  assert (Hb : forall l n, (forall i, (n <= i < length l)%nat -> t < nth i l 0) ->
                 (length (filter (fun z => (z <=? t)%Z) l) <= n)%nat).
  { clear. intros l. induction l as [|h tl IH]; intros n Hn; simpl in *; [lia|].
    destruct n.
    - pose proof (Hn 0%nat ltac:(lia)) as H0. simpl in H0.
      destruct (Z.leb_spec h t); try lia.
      apply (IH 0%nat). intros i Hi. apply (Hn (S i)); lia.
    - destruct (Z.leb_spec h t); simpl.
      + apply le_n_S. apply IH. intros i Hi. apply (Hn (S i)); lia.
      + apply Nat.le_trans with n; [|lia]. apply IH. intros i Hi. apply (Hn (S i)); lia. }
  specialize (Ha a (S j)). specialize (Hb b j). specialize (Hc t).
  assert (S j <= length (filter (fun z => (z <=? t)%Z) a))%nat.
  { apply Ha; [|lia]. intros i Hi. apply Sa; lia. }
  assert (length (filter (fun z => (z <=? t)%Z) b) <= j)%nat.
  { apply Hb. intros i Hi. specialize (Sb j i ltac:(lia)). lia. }
  lia.
Qed.
