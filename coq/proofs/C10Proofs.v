(* C10Proofs.v — soundness of the transport optimality certificate (weak duality
   with slack). *)
From Coq Require Import ZArith List Bool Lia.
From PV Require Import OT.
Import ListNotations.
Open Scope Z_scope.

Fixpoint zsum (f : nat -> Z) (n : nat) : Z := match n with O => 0 | S k => zsum f k + f k end.

Lemma zsum_ext f g n : (forall i, (i < n)%nat -> f i = g i) -> zsum f n = zsum g n.
Proof. induction n; intros H; cbn; auto. rewrite IHn, H; auto. Qed.

Lemma zsum_add f g n : zsum (fun i => f i + g i) n = zsum f n + zsum g n.
Proof. induction n; cbn; lia. Qed.

Lemma zsum_sub f g n : zsum (fun i => f i - g i) n = zsum f n - zsum g n.
Proof. induction n; cbn; lia. Qed.

Lemma zsum_scal c f n : zsum (fun i => c * f i) n = c * zsum f n.
Proof. induction n; cbn; lia. Qed.

Lemma zsum_le f g n : (forall i, (i < n)%nat -> f i <= g i) -> zsum f n <= zsum g n.
Proof. induction n; intros H; cbn; [lia|]. specialize (IHn ltac:(auto)). specialize (H n ltac:(lia)). lia. Qed.

Lemma zsum_exchange (f : nat -> nat -> Z) n m :
  zsum (fun i => zsum (fun j => f i j) m) n = zsum (fun j => zsum (fun i => f i j) n) m.
Proof.
  induction n; cbn.
  - induction m; cbn; lia.
  - rewrite IHn. rewrite <- zsum_add. reflexivity.
Qed.

Section Duality.
  Variables n m : nat.
  Variable C : mat.
  Variables u v : list Z.

  Definition dsum (X : nat -> nat -> Z) : Z := zsum (fun i => zsum (fun j => X i j) m) n.
  Definition cost (X : mat) : Z := dsum (fun i j => get2 C i j * get2 X i j).
  Definition rowsum (X : mat) (i : nat) : Z := zsum (fun j => get2 X i j) m.
  Definition colsum (X : mat) (j : nat) : Z := zsum (fun i => get2 X i j) n.
  Definition mass (X : mat) : Z := dsum (fun i j => get2 X i j).

  (* cost X = sum r_ij X_ij - sum_i u_i row_i X + sum_j v_j col_j X *)
  Lemma cost_decompose X :
    cost X = dsum (fun i j => rc C u v i j * get2 X i j)
             - zsum (fun i => get1 u i * rowsum X i) n
             + zsum (fun j => get1 v j * colsum X j) m.
  Proof.
    unfold cost, dsum, rowsum, colsum.
    assert (E : zsum (fun j => get1 v j * zsum (fun i => get2 X i j) n) m
              = zsum (fun i => zsum (fun j => get1 v j * get2 X i j) m) n).
    { rewrite (zsum_exchange (fun i j => get1 v j * get2 X i j) n m).
      apply zsum_ext. intros j _. rewrite zsum_scal. reflexivity. }
    rewrite E.
    assert (E2 : zsum (fun i => get1 u i * zsum (fun j => get2 X i j) m) n
               = zsum (fun i => zsum (fun j => get1 u i * get2 X i j) m) n).
    { apply zsum_ext. intros i _. rewrite zsum_scal. reflexivity. }
    rewrite E2. rewrite <- zsum_sub, <- zsum_add.
    apply zsum_ext. intros i _. rewrite <- zsum_sub, <- zsum_add.
    apply zsum_ext. intros j _. unfold rc. ring.
  Qed.

  Lemma forall2b_spec p : forall2b n m p = true -> forall i j, (i < n)%nat -> (j < m)%nat -> p i j = true.
  Proof.
    unfold forall2b. rewrite forallb_forall. intros H i j Hi Hj.
    specialize (H i ltac:(apply in_seq; lia)). rewrite forallb_forall in H. apply H. apply in_seq. lia.
  Qed.

  (* Weak duality with slack: a plan accepted by the checker is optimal, up to
     2 e mass, among ALL non-negative plans with the same marginals. *)
  Theorem ot_cert_sound e F :
    ot_cert_chk n m e C F u v = true ->
    forall G,
      (forall i j, (i < n)%nat -> (j < m)%nat -> 0 <= get2 G i j) ->
      (forall i, (i < n)%nat -> rowsum G i = rowsum F i) ->
      (forall j, (j < m)%nat -> colsum G j = colsum F j) ->
      cost F <= cost G + 2 * e * mass F.
  Proof.
    unfold ot_cert_chk. rewrite !andb_true_iff. intros [[[He Hpos] Hdual] Hcs] G HG Hrow Hcol.
    apply Z.leb_le in He.
    pose proof (forall2b_spec _ Hpos) as Hp. pose proof (forall2b_spec _ Hdual) as Hd. pose proof (forall2b_spec _ Hcs) as Hc.
    rewrite (cost_decompose F), (cost_decompose G).
    assert (Er : zsum (fun i => get1 u i * rowsum G i) n = zsum (fun i => get1 u i * rowsum F i) n)
      by (apply zsum_ext; intros i Hi; rewrite Hrow; auto).
    assert (Ec : zsum (fun j => get1 v j * colsum G j) m = zsum (fun j => get1 v j * colsum F j) m)
      by (apply zsum_ext; intros j Hj; rewrite Hcol; auto).
    rewrite Er, Ec.
    (* sum r F <= e * mass F *)
    assert (HF : dsum (fun i j => rc C u v i j * get2 F i j) <= e * mass F).
    { unfold mass, dsum. rewrite <- zsum_scal. apply zsum_le. intros i Hi. rewrite <- zsum_scal. apply zsum_le. intros j Hj.
      specialize (Hp i j Hi Hj). specialize (Hc i j Hi Hj). apply Z.leb_le in Hp. apply orb_true_iff in Hc.
      destruct Hc as [H0|Hr]; [apply Z.leb_le in H0; assert (get2 F i j = 0) by lia; nia|apply Z.leb_le in Hr; nia]. }
    (* sum r G >= - e * mass G *)
    assert (HGs : - e * mass G <= dsum (fun i j => rc C u v i j * get2 G i j)).
    { unfold mass, dsum. rewrite <- zsum_scal. apply zsum_le. intros i Hi. rewrite <- zsum_scal. apply zsum_le. intros j Hj.
      specialize (Hd i j Hi Hj). apply Z.leb_le in Hd. specialize (HG i j Hi Hj). nia. }
    assert (Em : mass G = mass F).
    { unfold mass, dsum. apply zsum_ext. intros i Hi. apply (Hrow i Hi). }
    rewrite Em in HGs. lia.
  Qed.
End Duality.
