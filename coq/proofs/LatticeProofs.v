(* LatticeProofs.v — laws of the polynomial metrics (C07) and agreement of the
   sparse kernels with the dense ones on the CSR encoding (C08), for ALL integer
   vectors of all lengths. *)
From Coq Require Import ZArith List Bool Lia.
From PV Require Import SparseOps Lattice C08Proofs.
Import ListNotations.
Open Scope Z_scope.

(* ------------------------------------------------------------------ *)
(* the accumulator loops are [acc (+) spec]                             *)
(* ------------------------------------------------------------------ *)
Lemma sq_loop_acc : forall x y acc, sq_loop acc x y = acc + sq_loop 0 x y.
Proof.
  induction x as [|a x IH]; intros y acc; destruct y as [|b y]; cbn [sq_loop]; try lia.
  rewrite (IH y (acc + _)), (IH y (0 + _)). lia.
Qed.

Lemma man_loop_acc : forall x y acc, man_loop acc x y = acc + man_loop 0 x y.
Proof.
  induction x as [|a x IH]; intros y acc; destruct y as [|b y]; cbn [man_loop]; try lia.
  rewrite (IH y (acc + _)), (IH y (0 + _)). lia.
Qed.

Lemma ham_loop_acc : forall x y acc, ham_loop acc x y = acc + ham_loop 0 x y.
Proof.
  induction x as [|a x IH]; intros y acc; destruct y as [|b y]; cbn [ham_loop]; try lia.
  destruct (a =? b); [apply IH|]. rewrite (IH y (acc + 1)), (IH y (0 + 1)). lia.
Qed.

Lemma cheb_loop_ge : forall x y acc, acc <= cheb_loop acc x y.
Proof.
  induction x as [|a x IH]; intros y acc; destruct y as [|b y]; cbn [cheb_loop]; try lia.
  specialize (IH y (Z.max acc (Z.abs (a - b)))). lia.
Qed.

Lemma cheb_loop_acc : forall x y acc, 0 <= acc -> cheb_loop acc x y = Z.max acc (cheb_loop 0 x y).
Proof.
  induction x as [|a x IH]; intros y acc H; destruct y as [|b y]; cbn [cheb_loop]; try lia.
  rewrite (IH y (Z.max acc _)), (IH y (Z.max 0 _)); lia.
Qed.

Lemma sq_nonneg_term a b : 0 <= (a - b) * (a - b).
Proof. apply Z.square_nonneg. Qed.

Lemma sq_loop_ge : forall x y acc, acc <= sq_loop acc x y.
Proof.
  induction x as [|a x IH]; intros y acc; destruct y as [|b y]; cbn [sq_loop]; try lia.
  specialize (IH y (acc + (a - b) * (a - b))). pose proof (sq_nonneg_term a b). lia.
Qed.

Lemma man_loop_ge : forall x y acc, acc <= man_loop acc x y.
Proof.
  induction x as [|a x IH]; intros y acc; destruct y as [|b y]; cbn [man_loop]; try lia.
  specialize (IH y (acc + Z.abs (a - b))). lia.
Qed.

Lemma ham_loop_ge : forall x y acc, acc <= ham_loop acc x y.
Proof.
  induction x as [|a x IH]; intros y acc; destruct y as [|b y]; cbn [ham_loop]; try lia.
  destruct (a =? b); [apply IH|]. specialize (IH y (acc + 1)). lia.
Qed.

(* ------------------------------------------------------------------ *)
(* C07: symmetry                                                        *)
(* ------------------------------------------------------------------ *)
Lemma sq_loop_sym : forall x y acc, sq_loop acc x y = sq_loop acc y x.
Proof.
  induction x as [|a x IH]; intros y acc; destruct y as [|b y]; cbn [sq_loop]; try reflexivity.
  replace ((b - a) * (b - a)) with ((a - b) * (a - b)) by ring. apply IH.
Qed.

Lemma man_loop_sym : forall x y acc, man_loop acc x y = man_loop acc y x.
Proof.
  induction x as [|a x IH]; intros y acc; destruct y as [|b y]; cbn [man_loop]; try reflexivity.
  replace (Z.abs (b - a)) with (Z.abs (a - b)) by lia. apply IH.
Qed.

Lemma cheb_loop_sym : forall x y acc, cheb_loop acc x y = cheb_loop acc y x.
Proof.
  induction x as [|a x IH]; intros y acc; destruct y as [|b y]; cbn [cheb_loop]; try reflexivity.
  replace (Z.abs (b - a)) with (Z.abs (a - b)) by lia. apply IH.
Qed.

Lemma ham_loop_sym : forall x y acc, ham_loop acc x y = ham_loop acc y x.
Proof.
  induction x as [|a x IH]; intros y acc; destruct y as [|b y]; cbn [ham_loop]; try reflexivity.
  rewrite (Z.eqb_sym b a). apply IH.
Qed.

Lemma bc_loop_sym : forall x y n d, bc_loop n d x y = bc_loop n d y x.
Proof.
  induction x as [|a x IH]; intros y n d; destruct y as [|b y]; cbn [bc_loop]; try reflexivity.
  replace (Z.abs (b - a)) with (Z.abs (a - b)) by lia.
  replace (b + a) with (a + b) by lia. apply IH.
Qed.

Theorem lattice_symmetric : forall x y,
  squared_euclidean x y = squared_euclidean y x /\
  manhattan x y = manhattan y x /\
  chebyshev x y = chebyshev y x /\
  (length x = length y -> hamming x y = hamming y x) /\
  bray_curtis x y = bray_curtis y x.
Proof.
  intros x y. unfold squared_euclidean, manhattan, chebyshev, hamming, bray_curtis.
  repeat split.
  - apply sq_loop_sym.
  - apply man_loop_sym.
  - apply cheb_loop_sym.
  - intros L. rewrite ham_loop_sym, L. reflexivity.
  - rewrite bc_loop_sym. reflexivity.
Qed.

(* ------------------------------------------------------------------ *)
(* C07: identical inputs are at distance exactly 0                      *)
(* ------------------------------------------------------------------ *)
Lemma sq_loop_id : forall x acc, sq_loop acc x x = acc.
Proof. induction x as [|a x IH]; intros acc; cbn [sq_loop]; auto. rewrite IH. nia. Qed.
Lemma man_loop_id : forall x acc, man_loop acc x x = acc.
Proof. induction x as [|a x IH]; intros acc; cbn [man_loop]; auto. rewrite IH. lia. Qed.
Lemma cheb_loop_id : forall x acc, 0 <= acc -> cheb_loop acc x x = acc.
Proof. induction x as [|a x IH]; intros acc H; cbn [cheb_loop]; auto. rewrite IH; lia. Qed.
Lemma ham_loop_id : forall x acc, ham_loop acc x x = acc.
Proof. induction x as [|a x IH]; intros acc; cbn [ham_loop]; auto. rewrite Z.eqb_refl. apply IH. Qed.
Lemma bc_loop_id : forall x n d, fst (bc_loop n d x x) = n.
Proof.
  induction x as [|a x IH]; intros n d; cbn [bc_loop]; auto. rewrite IH.
  replace (a - a) with 0 by lia. cbn. lia.
Qed.

Theorem lattice_identity : forall x,
  squared_euclidean x x = 0 /\ manhattan x x = 0 /\ chebyshev x x = 0 /\
  fst (hamming x x) = 0 /\ fst (bray_curtis x x) = 0.
Proof.
  intros x. unfold squared_euclidean, manhattan, chebyshev, hamming, bray_curtis. repeat split.
  - apply sq_loop_id.
  - apply man_loop_id.
  - apply cheb_loop_id; lia.
  - cbn [fst]. apply ham_loop_id.
  - pose proof (bc_loop_id x 0 0) as H. destruct (bc_loop 0 0 x x) as [n d]. cbn [fst] in H.
    destruct (0 <? d); cbn [fst]; auto.
Qed.

(* ------------------------------------------------------------------ *)
(* C07: non-negative; zero only for identical vectors                   *)
(* ------------------------------------------------------------------ *)
Theorem lattice_nonneg : forall x y,
  0 <= squared_euclidean x y /\ 0 <= manhattan x y /\ 0 <= chebyshev x y /\ 0 <= fst (hamming x y).
Proof.
  intros x y. unfold squared_euclidean, manhattan, chebyshev, hamming. cbn [fst]. repeat split.
  - apply sq_loop_ge. - apply man_loop_ge. - apply cheb_loop_ge. - apply ham_loop_ge.
Qed.

Lemma sq_loop_zero : forall x y acc, length x = length y -> sq_loop acc x y = acc -> x = y.
Proof.
  induction x as [|a x IH]; intros y acc L H; destruct y as [|b y]; cbn in L; try discriminate; auto.
  cbn [sq_loop] in H. pose proof (sq_loop_ge x y (acc + (a - b) * (a - b))) as G.
  pose proof (sq_nonneg_term a b) as N.
  assert (E : (a - b) * (a - b) = 0) by lia.
  assert (a = b) by nia. subst b. rewrite E in H. rewrite Z.add_0_r in H.
  f_equal. apply (IH y acc); auto.
Qed.

Lemma man_loop_zero : forall x y acc, length x = length y -> man_loop acc x y = acc -> x = y.
Proof.
  induction x as [|a x IH]; intros y acc L H; destruct y as [|b y]; cbn in L; try discriminate; auto.
  cbn [man_loop] in H. pose proof (man_loop_ge x y (acc + Z.abs (a - b))) as G.
  assert (a = b) by lia. subst b. replace (acc + Z.abs (a - a)) with acc in H by lia.
  f_equal. apply (IH y acc); auto.
Qed.

Lemma cheb_loop_zero : forall x y, length x = length y -> cheb_loop 0 x y = 0 -> x = y.
Proof.
  induction x as [|a x IH]; intros y L H; destruct y as [|b y]; cbn in L; try discriminate; auto.
  cbn [cheb_loop] in H. pose proof (cheb_loop_ge x y (Z.max 0 (Z.abs (a - b)))) as G.
  assert (a = b) by lia. subst b. replace (Z.max 0 (Z.abs (a - a))) with 0 in H by lia.
  f_equal. apply (IH y); auto.
Qed.

Lemma ham_loop_zero : forall x y acc, length x = length y -> ham_loop acc x y = acc -> x = y.
Proof.
  induction x as [|a x IH]; intros y acc L H; destruct y as [|b y]; cbn in L; try discriminate; auto.
  cbn [ham_loop] in H. destruct (Z.eqb_spec a b) as [->|NE].
  - f_equal. apply (IH y acc); auto.
  - pose proof (ham_loop_ge x y (acc + 1)). lia.
Qed.

Theorem lattice_indiscernible : forall x y, length x = length y ->
  (squared_euclidean x y = 0 -> x = y) /\ (manhattan x y = 0 -> x = y) /\
  (chebyshev x y = 0 -> x = y) /\ (fst (hamming x y) = 0 -> x = y).
Proof.
  intros x y L. unfold squared_euclidean, manhattan, chebyshev, hamming. cbn [fst]. repeat split.
  - apply sq_loop_zero; auto. - apply man_loop_zero; auto.
  - apply cheb_loop_zero; auto. - apply ham_loop_zero; auto.
Qed.

(* ------------------------------------------------------------------ *)
(* C07: triangle inequality (manhattan, chebyshev, hamming count)       *)
(* ------------------------------------------------------------------ *)
Lemma man_triangle : forall x y z, length x = length y -> length y = length z ->
  man_loop 0 x z <= man_loop 0 x y + man_loop 0 y z.
Proof.
  induction x as [|a x IH]; intros y z L1 L2; destruct y as [|b y]; destruct z as [|c z];
    cbn in L1, L2; try discriminate; cbn [man_loop]; try lia.
  rewrite (man_loop_acc x z), (man_loop_acc x y), (man_loop_acc y z).
  specialize (IH y z ltac:(lia) ltac:(lia)). lia.
Qed.

Lemma cheb_triangle : forall x y z, length x = length y -> length y = length z ->
  cheb_loop 0 x z <= cheb_loop 0 x y + cheb_loop 0 y z.
Proof.
  induction x as [|a x IH]; intros y z L1 L2; destruct y as [|b y]; destruct z as [|c z];
    cbn in L1, L2; try discriminate; cbn [cheb_loop]; try lia.
  rewrite (cheb_loop_acc x z), (cheb_loop_acc x y), (cheb_loop_acc y z) by lia.
  specialize (IH y z ltac:(lia) ltac:(lia)).
  pose proof (cheb_loop_ge x y 0). pose proof (cheb_loop_ge y z 0). lia.
Qed.

Lemma ham_triangle : forall x y z, length x = length y -> length y = length z ->
  ham_loop 0 x z <= ham_loop 0 x y + ham_loop 0 y z.
Proof.
  induction x as [|a x IH]; intros y z L1 L2; destruct y as [|b y]; destruct z as [|c z];
    cbn in L1, L2; try discriminate; cbn [ham_loop]; try lia.
  specialize (IH y z ltac:(lia) ltac:(lia)).
  destruct (Z.eqb_spec a c), (Z.eqb_spec a b), (Z.eqb_spec b c); try lia;
    repeat match goal with |- context [ham_loop (0 + 1) ?u ?v] => rewrite (ham_loop_acc u v (0 + 1)) end; lia.
Qed.

Theorem lattice_triangle : forall x y z, length x = length y -> length y = length z ->
  manhattan x z <= manhattan x y + manhattan y z /\
  chebyshev x z <= chebyshev x y + chebyshev y z /\
  fst (hamming x z) <= fst (hamming x y) + fst (hamming y z).
Proof.
  intros x y z L1 L2. unfold manhattan, chebyshev, hamming. cbn [fst]. repeat split.
  - apply man_triangle; auto. - apply cheb_triangle; auto. - apply ham_triangle; auto.
Qed.

(* ------------------------------------------------------------------ *)
(* C07: bray_curtis never divides by zero; range on non-negative data   *)
(* ------------------------------------------------------------------ *)
Theorem bray_curtis_denominator_positive : forall x y, 0 < snd (bray_curtis x y).
Proof.
  intros x y. unfold bray_curtis. destruct (bc_loop 0 0 x y) as [n d].
  destruct (Z.ltb_spec 0 d); cbn [snd]; lia.
Qed.

Lemma bc_loop_range : forall x y n d,
  Forall (fun a => 0 <= a) x -> Forall (fun b => 0 <= b) y -> 0 <= n <= d ->
  0 <= fst (bc_loop n d x y) <= snd (bc_loop n d x y).
Proof.
  induction x as [|a x IH]; intros y n d Hx Hy R; destruct y as [|b y]; cbn [bc_loop fst snd]; try lia.
  inversion Hx; subst. inversion Hy; subst. apply IH; auto. lia.
Qed.

Theorem bray_curtis_range : forall x y,
  Forall (fun a => 0 <= a) x -> Forall (fun b => 0 <= b) y ->
  0 <= fst (bray_curtis x y) <= snd (bray_curtis x y).
Proof.
  intros x y Hx Hy. unfold bray_curtis.
  pose proof (bc_loop_range x y 0 0 Hx Hy ltac:(lia)) as R.
  destruct (bc_loop 0 0 x y) as [n d]. cbn [fst snd] in R.
  destruct (0 <? d); cbn [fst snd]; lia.
Qed.

(* ------------------------------------------------------------------ *)
(* C08: canonical form of sorted sparse vectors without stored zeros    *)
(* ------------------------------------------------------------------ *)
Fixpoint nz (v : svec) : Prop :=
  match v with
  | [] => True
  | (_, x) :: t => x <> 0 /\ nz t
  end.

Lemma nz_emit j v rest : nz rest -> nz (emit j v rest).
Proof. intros H. unfold emit. destruct (Z.eqb_spec v 0); cbn; auto. Qed.

Lemma nz_tail_emit : forall b, nz (tail_emit b).
Proof. induction b as [|[j x] t IH]; cbn; auto. apply nz_emit; auto. Qed.

Theorem nz_sparse_sum : forall a b, nz (sparse_sum a b).
Proof.
  induction a as [|[j1 x1] a' IHa]; intros b.
  - destruct b as [|p b']; [cbn; auto|].
    change (sparse_sum [] (p :: b')) with (tail_emit (p :: b')). apply nz_tail_emit.
  - induction b as [|[j2 x2] b' IHb].
    + change (sparse_sum ((j1, x1) :: a') []) with (tail_emit ((j1, x1) :: a')). apply nz_tail_emit.
    + change (sparse_sum ((j1, x1) :: a') ((j2, x2) :: b')) with
          (if j1 =? j2 then emit j1 (x1 + x2) (sparse_sum a' b')
           else if j1 <? j2 then emit j1 x1 (sparse_sum a' ((j2, x2) :: b'))
           else emit j2 x2 (sparse_sum ((j1, x1) :: a') b')).
      destruct (j1 =? j2); [apply nz_emit, IHa|].
      destruct (j1 <? j2); apply nz_emit; [apply IHa | apply IHb].
Qed.

Lemma nz_sparse_diff a b : nz (sparse_diff a b).
Proof. apply nz_sparse_sum. Qed.

(* two sorted sparse vectors without stored zeros that densify to the same vector are equal *)
Theorem canonical : forall v w k,
  sorted_gt k v -> nz v -> sorted_gt k w -> nz w -> (forall i, sget v i = sget w i) -> v = w.
Proof.
  induction v as [|[j x] t IH]; intros w k Sv Nv Sw Nw E.
  - destruct w as [|[j' x'] t']; auto. exfalso.
    specialize (E j'). cbn in E. rewrite Z.eqb_refl in E. cbn in Nw. destruct Nw. congruence.
  - destruct w as [|[j' x'] t'].
    + exfalso. specialize (E j). cbn in E. rewrite Z.eqb_refl in E. cbn in Nv. destruct Nv. congruence.
    + cbn in Sv, Sw, Nv, Nw. destruct Sv as [S1 S2]. destruct Sw as [W1 W2].
      destruct Nv as [N1 N2]. destruct Nw as [M1 M2].
      assert (J : j = j').
      { destruct (Z.lt_trichotomy j j') as [L|[L|L]]; auto; exfalso.
        - specialize (E j). cbn in E. rewrite Z.eqb_refl in E.
          destruct (Z.eqb_spec j' j); [lia|]. rewrite (sget_below j' t' j) in E; [congruence | auto | lia].
        - specialize (E j'). cbn in E. rewrite Z.eqb_refl in E.
          destruct (Z.eqb_spec j j'); [lia|]. rewrite (sget_below j t j') in E; [congruence | auto | lia]. }
      subst j'.
      assert (X : x = x') by (specialize (E j); cbn in E; rewrite Z.eqb_refl in E; exact E).
      subst x'. f_equal. apply (IH t' j); auto.
      intros i. destruct (Z.eq_dec j i) as [->|NE].
      * rewrite (sget_below i t i), (sget_below i t' i); auto; lia.
      * specialize (E i). cbn in E. destruct (Z.eqb_spec j i); [lia|]. exact E.
Qed.

(* ------------------------------------------------------------------ *)
(* C08: the CSR encoding                                                *)
(* ------------------------------------------------------------------ *)
Lemma sparsify_sorted : forall x s, sorted_gt (s - 1) (sparsify s x).
Proof.
  induction x as [|a x IH]; intros s; cbn [sparsify]; [cbn; auto|].
  apply sorted_emit; [lia|]. specialize (IH (s + 1)). replace (s + 1 - 1) with s in IH by lia. exact IH.
Qed.

Lemma sparsify_nz : forall x s, nz (sparsify s x).
Proof. induction x as [|a x IH]; intros s; cbn [sparsify]; [cbn; auto|]. apply nz_emit, IH. Qed.

Lemma sparsify_sorted' x s : sorted_gt s (sparsify (s + 1) x).
Proof. pose proof (sparsify_sorted x (s + 1)) as H. replace (s + 1 - 1) with s in H by lia. exact H. Qed.

Lemma sget_sparsify_head a x s : sget (sparsify s (a :: x)) s = a.
Proof.
  cbn [sparsify]. rewrite sget_emit, Z.eqb_refl.
  destruct (Z.eqb_spec a 0) as [->|]; auto.
  apply (sget_below s); [apply sparsify_sorted'|lia].
Qed.

Lemma sget_sparsify_tail a x s i : s <> i -> sget (sparsify s (a :: x)) i = sget (sparsify (s + 1) x) i.
Proof. intros NE. cbn [sparsify]. rewrite sget_emit. destruct (Z.eqb_spec s i); [lia|auto]. Qed.

(* pointwise difference of two dense vectors *)
Fixpoint sub2 (x y : list Z) : list Z :=
  match x, y with
  | a :: x', b :: y' => (a - b) :: sub2 x' y'
  | _, _ => []
  end.

Lemma sget_sub2 : forall x y s i, length x = length y ->
  sget (sparsify s (sub2 x y)) i = sget (sparsify s x) i - sget (sparsify s y) i.
Proof.
  induction x as [|a x IH]; intros y s i L; destruct y as [|b y]; cbn in L; try discriminate.
  - cbn. lia.
  - cbn [sub2]. destruct (Z.eq_dec s i) as [<-|NE].
    + rewrite !sget_sparsify_head. reflexivity.
    + rewrite !sget_sparsify_tail by auto. apply IH. lia.
Qed.

(* sparse_diff of two CSR encodings IS the CSR encoding of the pointwise difference *)
Theorem sparse_diff_sparsify : forall x y s, length x = length y ->
  sparse_diff (sparsify s x) (sparsify s y) = sparsify s (sub2 x y).
Proof.
  intros x y s L.
  destruct (sparse_diff_spec (sparsify s x) (sparsify s y) (s - 1) (sparsify_sorted x s) (sparsify_sorted y s)) as [S G].
  apply (canonical _ _ (s - 1)); auto.
  - apply nz_sparse_diff.
  - apply sparsify_sorted.
  - apply sparsify_nz.
  - intros i. rewrite G, sget_sub2; auto.
Qed.

(* the accumulators over an encoded difference vector are the dense loops *)
Lemma fold_sq_sparsify : forall x y s acc,
  fold_left (fun acc p => acc + snd p * snd p) (sparsify s (sub2 x y)) acc = sq_loop acc x y.
Proof.
  induction x as [|a x IH]; intros y s acc; destruct y as [|b y]; cbn [sub2 sparsify sq_loop fold_left]; auto.
  unfold emit. destruct (Z.eqb_spec (a - b) 0) as [E|NE].
  - rewrite IH. rewrite E. f_equal. lia.
  - cbn [fold_left snd]. apply IH.
Qed.

Lemma fold_man_sparsify : forall x y s acc,
  fold_left (fun acc p => acc + Z.abs (snd p)) (sparsify s (sub2 x y)) acc = man_loop acc x y.
Proof.
  induction x as [|a x IH]; intros y s acc; destruct y as [|b y]; cbn [sub2 sparsify man_loop fold_left]; auto.
  unfold emit. destruct (Z.eqb_spec (a - b) 0) as [E|NE].
  - rewrite IH. rewrite E. f_equal. lia.
  - cbn [fold_left snd]. apply IH.
Qed.

Lemma fold_cheb_sparsify : forall x y s acc, 0 <= acc ->
  fold_left (fun acc p => Z.max acc (Z.abs (snd p))) (sparsify s (sub2 x y)) acc = cheb_loop acc x y.
Proof.
  induction x as [|a x IH]; intros y s acc H; destruct y as [|b y]; cbn [sub2 sparsify cheb_loop fold_left]; auto.
  unfold emit. destruct (Z.eqb_spec (a - b) 0) as [E|NE].
  - rewrite IH by auto. rewrite E. f_equal. lia.
  - cbn [fold_left snd]. apply IH. lia.
Qed.

Lemma length_sparsify_sub2 : forall x y s acc,
  acc + Z.of_nat (length (sparsify s (sub2 x y))) = ham_loop acc x y.
Proof.
  induction x as [|a x IH]; intros y s acc; destruct y as [|b y]; cbn [sub2 sparsify ham_loop length]; try (cbn; lia).
  unfold emit. destruct (Z.eqb_spec (a - b) 0) as [E|NE].
  - destruct (Z.eqb_spec a b); [|lia]. apply IH.
  - destruct (Z.eqb_spec a b); [lia|]. cbn [length]. rewrite <- (IH y (s + 1) (acc + 1)). lia.
Qed.

(* C08: for every pair of dense vectors (hence every pair of supports), the sparse
   kernel on the CSR encodings returns exactly what the dense kernel returns *)
Theorem sparse_eq_dense : forall x y, length x = length y ->
  sparse_squared_euclidean (sparsify 0 x) (sparsify 0 y) = squared_euclidean x y /\
  sparse_manhattan (sparsify 0 x) (sparsify 0 y) = manhattan x y /\
  sparse_chebyshev (sparsify 0 x) (sparsify 0 y) = chebyshev x y /\
  sparse_hamming (sparsify 0 x) (sparsify 0 y) (Z.of_nat (length x)) = hamming x y.
Proof.
  intros x y L.
  unfold sparse_squared_euclidean, sparse_manhattan, sparse_chebyshev, sparse_hamming,
    squared_euclidean, manhattan, chebyshev, hamming.
  rewrite (sparse_diff_sparsify x y 0 L). repeat split.
  - apply fold_sq_sparsify.
  - apply fold_man_sparsify.
  - apply fold_cheb_sparsify. lia.
  - f_equal. rewrite <- (length_sparsify_sub2 x y 0 0). lia.
Qed.

(* ------------------------------------------------------------------ *)
(* the angular family: Cauchy-Schwarz for the accumulated triple        *)
(* ------------------------------------------------------------------ *)
Lemma cs_step r nx ny a b : 0 <= nx -> 0 <= ny -> r * r <= nx * ny ->
  (r + a * b) * (r + a * b) <= (nx + a * a) * (ny + b * b).
Proof.
  intros Hx Hy H.
  set (u := nx * (b * b)). set (v := ny * (a * a)). set (T := 2 * (r * (a * b))).
  assert (U : 0 <= u) by (unfold u; apply Z.mul_nonneg_nonneg; auto; apply Z.square_nonneg).
  assert (V : 0 <= v) by (unfold v; apply Z.mul_nonneg_nonneg; auto; apply Z.square_nonneg).
  assert (S1 : T * T <= 4 * (u * v)).
  { unfold T, u, v.
    replace (2 * (r * (a * b)) * (2 * (r * (a * b)))) with (4 * ((r * r) * ((a * b) * (a * b)))) by ring.
    replace (nx * (b * b) * (ny * (a * a))) with ((nx * ny) * ((a * b) * (a * b))) by ring.
    apply Z.mul_le_mono_nonneg_l; [lia|].
    apply Z.mul_le_mono_nonneg_r; [apply Z.square_nonneg|exact H]. }
  assert (S2 : 4 * (u * v) <= (u + v) * (u + v)).
  { pose proof (Z.square_nonneg (u - v)) as Q. replace ((u + v) * (u + v)) with ((u - v) * (u - v) + 4 * (u * v)) by ring. lia. }
  assert (S3 : T <= u + v).
  { destruct (Z_le_gt_dec T (u + v)) as [L|G]; auto. exfalso.
    assert (G2 : (u + v + 1) * (u + v + 1) <= T * T) by (apply Z.mul_le_mono_nonneg; lia).
    nia. }
  replace ((r + a * b) * (r + a * b)) with (r * r + T + (a * b) * (a * b)) by (unfold T; ring).
  replace ((nx + a * a) * (ny + b * b)) with (nx * ny + (u + v) + (a * b) * (a * b)) by (unfold u, v; ring).
  lia.
Qed.

Lemma cos_loop_inv : forall x y r nx ny, 0 <= nx -> 0 <= ny -> r * r <= nx * ny ->
  let '(r', nx', ny') := cos_loop r nx ny x y in 0 <= nx' /\ 0 <= ny' /\ r' * r' <= nx' * ny'.
Proof.
  induction x as [|a x IH]; intros y r nx ny Hx Hy H; destruct y as [|b y]; cbn [cos_loop]; auto.
  apply IH.
  - pose proof (Z.square_nonneg a). lia.
  - pose proof (Z.square_nonneg b). lia.
  - apply cs_step; auto.
Qed.

Theorem cauchy_schwarz : forall x y,
  let '(r, nx, ny) := cos_loop 0 0 0 x y in 0 <= nx /\ 0 <= ny /\ r * r <= nx * ny.
Proof. intros x y. apply cos_loop_inv; lia. Qed.

Lemma cos_loop_sym : forall x y r nx ny,
  cos_loop r nx ny y x = (let '(r', nx', ny') := cos_loop r ny nx x y in (r', ny', nx')).
Proof.
  induction x as [|a x IH]; intros y r nx ny; destruct y as [|b y]; cbn [cos_loop]; auto.
  rewrite IH. replace (b * a) with (a * b) by ring. reflexivity.
Qed.

Lemma cos_loop_same : forall x r n, cos_loop r n n x x = (let '(r', nx', ny') := cos_loop r n n x x in (r', nx', nx')) /\
  forall d, r = n + d -> fst (fst (cos_loop r n n x x)) = snd (fst (cos_loop r n n x x)) + d.
Proof.
  induction x as [|a x IH]; intros r n; cbn [cos_loop].
  - split; [reflexivity | intros d H; exact H].
  - destruct (IH (r + a * a) (n + a * a)) as [I1 I2]. split; auto. intros d H. apply I2. lia.
Qed.

Theorem cosine_symmetric : forall x y, cosine x y = cosine y x /\ alternative_cosine x y = alternative_cosine y x.
Proof.
  intros x y. unfold cosine, alternative_cosine. rewrite (cos_loop_sym x y 0 0 0).
  destruct (cos_loop 0 0 0 x y) as [[r nx] ny]. rewrite (Z.mul_comm ny nx), (andb_comm (ny =? 0)), (orb_comm (ny =? 0)). split; reflexivity.
Qed.

(* the ratio the wrapper is applied to is well defined and lies in [-1, 1]: q > 0 and r^2 <= q *)
Theorem cosine_ratio_in_range : forall x y r q, cosine x y = ARatio r q -> 0 < q /\ r * r <= q.
Proof.
  intros x y r q. unfold cosine. pose proof (cauchy_schwarz x y) as C.
  destruct (cos_loop 0 0 0 x y) as [[r0 nx] ny]. destruct C as (Hx & Hy & H).
  destruct (Z.eqb_spec nx 0), (Z.eqb_spec ny 0); cbn [andb orb]; try discriminate.
  intros E. inversion E; subst. split; auto. apply Z.mul_pos_pos; lia.
Qed.

(* the surrogate takes the logarithm of sqrt q / r only when 0 < r and r^2 <= q (so it is >= 0), on the same
   (r, q) the documented metric uses; the sentinel is given only where the documented cosine distance is >= 1 *)
Theorem alternative_cosine_core : forall x y,
  match alternative_cosine x y with
  | ARatio r q => cosine x y = ARatio r q /\ 0 < r /\ 0 < q /\ r * r <= q
  | AMax => cosine x y = AOne \/ exists r q, cosine x y = ARatio r q /\ r <= 0
  | AZero => cosine x y = AZero
  | AOne => False
  end.
Proof.
  intros x y. pose proof (cosine_ratio_in_range x y) as R. revert R. unfold cosine, alternative_cosine.
  destruct (cos_loop 0 0 0 x y) as [[r0 nx] ny].
  destruct (Z.eqb_spec nx 0), (Z.eqb_spec ny 0); cbn [andb orb]; intros R; auto.
  destruct (Z.leb_spec r0 0).
  - right. exists r0, (nx * ny). auto.
  - destruct (R r0 (nx * ny) eq_refl). auto.
Qed.

(* identical inputs: zero vector -> 0.0, otherwise the ratio is exactly r / sqrt (r*r) with r > 0, i.e. 1: distance 0 *)
Theorem cosine_identical : forall x,
  cosine x x = AZero \/ exists r, 0 < r /\ cosine x x = ARatio r (r * r) /\ alternative_cosine x x = ARatio r (r * r).
Proof.
  intros x. unfold cosine, alternative_cosine.
  destruct (cos_loop_same x 0 0) as [S D]. specialize (D 0 eq_refl).
  pose proof (cauchy_schwarz x x) as C.
  destruct (cos_loop 0 0 0 x x) as [[r nx] ny]. cbn [fst snd] in D. inversion S; subst. destruct C as (Hx & _ & _).
  destruct (Z.eqb_spec nx 0); cbn [andb orb]; auto.
  right. exists nx. replace (nx + 0) with nx by lia. destruct (Z.leb_spec nx 0); [lia|]. repeat split; auto; lia.
Qed.

Lemma dot_loop_sym : forall x y r, dot_loop r x y = dot_loop r y x.
Proof.
  induction x as [|a x IH]; intros y r; destruct y as [|b y]; cbn [dot_loop]; auto.
  replace (b * a) with (a * b) by ring. apply IH.
Qed.

Theorem dot_symmetric : forall x y, dot x y = dot y x /\ alternative_dot x y = alternative_dot y x.
Proof. intros. unfold dot, alternative_dot. rewrite dot_loop_sym. split; reflexivity. Qed.

(* alternative_dot gives the sentinel exactly where dot gives its maximum 1.0, and the logarithm is taken of a positive number *)
Theorem alternative_dot_core : forall x y,
  match alternative_dot x y with
  | ARatio r q => dot x y = ARatio r q /\ 0 < r
  | AMax => dot x y = AOne
  | _ => False
  end.
Proof. intros. unfold dot, alternative_dot. destruct (Z.leb_spec (dot_loop 0 x y) 0); auto. Qed.

(* ------------------------------------------------------------------ *)
(* C08: sparse_cosine / sparse_alternative_cosine on the CSR encodings  *)
(* ------------------------------------------------------------------ *)
Theorem nz_sparse_mul : forall a b, nz (sparse_mul a b).
Proof.
  induction a as [|[j1 x1] a' IHa]; intros b.
  - destruct b; cbn; auto.
  - induction b as [|[j2 x2] b' IHb].
    + cbn; auto.
    + change (sparse_mul ((j1, x1) :: a') ((j2, x2) :: b')) with
          (if j1 =? j2 then emit j1 (x1 * x2) (sparse_mul a' b')
           else if j1 <? j2 then sparse_mul a' ((j2, x2) :: b')
           else sparse_mul ((j1, x1) :: a') b').
      destruct (j1 =? j2); [apply nz_emit, IHa|].
      destruct (j1 <? j2); [apply IHa | apply IHb].
Qed.

Fixpoint mul2 (x y : list Z) : list Z :=
  match x, y with
  | a :: x', b :: y' => (a * b) :: mul2 x' y'
  | _, _ => []
  end.

Lemma sget_mul2 : forall x y s i, length x = length y ->
  sget (sparsify s (mul2 x y)) i = sget (sparsify s x) i * sget (sparsify s y) i.
Proof.
  induction x as [|a x IH]; intros y s i L; destruct y as [|b y]; cbn in L; try discriminate.
  - cbn. lia.
  - cbn [mul2]. destruct (Z.eq_dec s i) as [<-|NE].
    + rewrite !sget_sparsify_head. reflexivity.
    + rewrite !sget_sparsify_tail by auto. apply IH. lia.
Qed.

Theorem sparse_mul_sparsify : forall x y s, length x = length y ->
  sparse_mul (sparsify s x) (sparsify s y) = sparsify s (mul2 x y).
Proof.
  intros x y s L.
  destruct (sparse_mul_spec (sparsify s x) (sparsify s y) (s - 1) (sparsify_sorted x s) (sparsify_sorted y s)) as [S G].
  apply (canonical _ _ (s - 1)); auto.
  - apply nz_sparse_mul.
  - apply sparsify_sorted.
  - apply sparsify_nz.
  - intros i. rewrite G, sget_mul2; auto.
Qed.

Lemma fold_sum_sparsify_mul : forall x y s acc,
  fold_left (fun acc p => acc + snd p) (sparsify s (mul2 x y)) acc = dot_loop acc x y.
Proof.
  induction x as [|a x IH]; intros y s acc; destruct y as [|b y]; cbn [mul2 sparsify dot_loop fold_left]; auto.
  unfold emit. destruct (Z.eqb_spec (a * b) 0) as [E|NE].
  - rewrite IH. rewrite E. f_equal. lia.
  - cbn [fold_left snd]. apply IH.
Qed.

Fixpoint nsq_loop (acc : Z) (x : list Z) : Z :=
  match x with
  | a :: x' => nsq_loop (acc + a * a) x'
  | [] => acc
  end.

Lemma fold_nsq_sparsify : forall x s acc,
  fold_left (fun acc p => acc + snd p * snd p) (sparsify s x) acc = nsq_loop acc x.
Proof.
  induction x as [|a x IH]; intros s acc; cbn [sparsify nsq_loop fold_left]; auto.
  unfold emit. destruct (Z.eqb_spec a 0) as [E|NE].
  - rewrite IH. rewrite E. f_equal. lia.
  - cbn [fold_left snd]. apply IH.
Qed.

Lemma cos_loop_components : forall x y r nx ny, length x = length y ->
  cos_loop r nx ny x y = (dot_loop r x y, nsq_loop nx x, nsq_loop ny y).
Proof.
  induction x as [|a x IH]; intros y r nx ny L; destruct y as [|b y]; cbn in L; try discriminate; cbn [cos_loop dot_loop nsq_loop]; auto.
Qed.

Theorem sparse_cosine_eq_dense : forall x y, length x = length y ->
  sparse_cosine (sparsify 0 x) (sparsify 0 y) = cosine x y /\
  sparse_alternative_cosine (sparsify 0 x) (sparsify 0 y) = alternative_cosine x y.
Proof.
  intros x y L. unfold sparse_cosine, sparse_alternative_cosine, cosine, alternative_cosine, sum_vals, norm_sq.
  rewrite (sparse_mul_sparsify x y 0 L), fold_sum_sparsify_mul, !fold_nsq_sparsify, (cos_loop_components x y 0 0 0 L).
  split; reflexivity.
Qed.
