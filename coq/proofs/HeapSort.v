(* HeapSort.v — utils.siftdown and one row of utils.deheap_sort: for a max-heap row
   the output is ascending and a permutation of the (distance, index) pairs. *)
From Coq Require Import ZArith List Bool Lia Permutation.
From PV Require Import Base Heap ListAux HeapProofs.
Import ListNotations.
Open Scope Z_scope.

(* pairs are represented as entries with a zero flag so that heapP & co. are reused *)
Definition zip2 (ds ids : list Z) : list entry := zip3 ds ids (repeat 0 (length ds)).

Definition choose (l : list entry) (elt : nat) : nat :=
  let left := (2 * elt + 1)%nat in
  let right := (left + 1)%nat in
  let swap := if key (getE l elt) <? key (getE l left) then left else elt in
  if ((right <? length l)%nat && (key (getE l swap) <? key (getE l right)))%bool then right else swap.

Fixpoint sdz (fuel : nat) (l : list entry) (elt : nat) : option (list entry) :=
  match fuel with
  | O => None
  | S fuel' =>
    let len := length l in
    let left := (2 * elt + 1)%nat in
    let right := (left + 1)%nat in
    if (len <=? left)%nat then Some l
    else
      let swap := choose l elt in
      if (swap =? elt)%nat then Some l
      else sdz fuel' (upd swap (getE l elt) (upd elt (getE l swap) l)) swap
  end.

Lemma getZ_map_key l i : getZ (map key l) i = key (getE l i).
Proof. unfold getZ, getE. change 0 with (key dflt). apply map_nth. Qed.
Lemma getZ_map_eid l i : getZ (map eid l) i = eid (getE l i).
Proof. unfold getZ, getE. change 0 with (eid dflt). apply map_nth. Qed.

Lemma siftdown_sdz fuel : forall l elt,
  siftdown fuel (map key l) (map eid l) elt =
  option_map (fun r => (map key r, map eid r)) (sdz fuel l elt).
Proof.
  induction fuel as [|fuel IH]; intros l elt; [reflexivity|].
  cbn [siftdown sdz]. rewrite map_length.
  destruct (length l <=? 2 * elt + 1)%nat; [reflexivity|].
  unfold choose. rewrite ?getZ_map_key.
  set (s1 := if key (getE l elt) <? key (getE l (2 * elt + 1)) then (2 * elt + 1)%nat else elt).
  set (s2 := if ((2 * elt + 1 + 1 <? length l)%nat && (key (getE l s1) <? key (getE l (2 * elt + 1 + 1))))%bool
             then (2 * elt + 1 + 1)%nat else s1).
  destruct (s2 =? elt)%nat; [reflexivity|].
  rewrite ?getZ_map_key, ?getZ_map_eid.
  rewrite <- !upd_map. apply IH.
Qed.

Definition swapE (l : list entry) (i j : nat) : list entry :=
  upd j (getE l i) (upd i (getE l j) l).

Lemma swapE_length l i j : length (swapE l i j) = length l.
Proof. unfold swapE; rewrite !upd_length; auto. Qed.

Lemma swapE_perm l i j : (i < length l)%nat -> (j < length l)%nat -> i <> j ->
  Permutation (swapE l i j) l.
Proof.
  intros Hi Hj Hne. unfold swapE.
  apply Permutation_cons_inv with (a := getE l j).
  assert (E1 : Permutation (getE l i :: upd i (getE l j) l) (getE l j :: l)) by (apply upd_perm; auto).
  assert (E2 : Permutation (getE l j :: upd j (getE l i) (upd i (getE l j) l)) (getE l i :: upd i (getE l j) l)).
  { replace (getE l j) with (nth j (upd i (getE l j) l) dflt) at 1 by (rewrite nth_upd_neq; auto).
    apply upd_perm. rewrite upd_length; auto. }
  eapply perm_trans; [exact E2|exact E1].
Qed.

Lemma getE_swapE l i j k : (i < length l)%nat -> (j < length l)%nat ->
  getE (swapE l i j) k = if (k =? j)%nat then getE l i else if (k =? i)%nat then getE l j else getE l k.
Proof.
  intros Hi Hj. unfold swapE.
  destruct (Nat.eqb_spec k j) as [->|Hkj].
  - rewrite getE_upd_eq; auto. rewrite upd_length; auto.
  - rewrite getE_upd_neq by auto.
    destruct (Nat.eqb_spec k i) as [->|Hki].
    + rewrite getE_upd_eq; auto.
    + rewrite getE_upd_neq; auto.
Qed.

Lemma choose_spec l elt :
  (2 * elt + 1 < length l)%nat ->
  let s2 := choose l elt in
  (s2 = elt \/ child s2 elt) /\ (s2 < length l)%nat /\
  key (getE l elt) <= key (getE l s2) /\
  (forall c, child c elt -> (c < length l)%nat -> key (getE l c) <= key (getE l s2)) /\
  (s2 <> elt -> key (getE l elt) < key (getE l s2)).
Proof.
  intros Hl. unfold choose. cbv zeta.
  destruct (Z.ltb_spec (key (getE l elt)) (key (getE l (2 * elt + 1)))) as [A|A];
  destruct (Nat.ltb_spec (2 * elt + 1 + 1) (length l)) as [B|B]; cbn [andb].
  - destruct (Z.ltb_spec (key (getE l (2 * elt + 1))) (key (getE l (2 * elt + 1 + 1)))) as [C|C].
    + repeat split; [right; right; lia|lia|lia| |lia].
      intros c [->| ->] _; [lia|]. replace (2 * elt + 2)%nat with (2 * elt + 1 + 1)%nat by lia. lia.
    + repeat split; [right; left; lia|lia|lia| |lia].
      intros c [->| ->] _; [lia|]. replace (2 * elt + 2)%nat with (2 * elt + 1 + 1)%nat by lia. lia.
  - repeat split; [right; left; lia|lia|lia| |lia].
    intros c [->| ->] Hc; lia.
  - destruct (Z.ltb_spec (key (getE l elt)) (key (getE l (2 * elt + 1 + 1)))) as [C|C].
    + repeat split; [right; right; lia|lia|lia| |lia].
      intros c [->| ->] _; [lia|]. replace (2 * elt + 2)%nat with (2 * elt + 1 + 1)%nat by lia. lia.
    + repeat split; [left; auto|lia|lia| |lia].
      intros c [->| ->] _; [lia|]. replace (2 * elt + 2)%nat with (2 * elt + 1 + 1)%nat by lia. lia.
  - repeat split; [left; auto|lia|lia| |lia].
    intros c [->| ->] Hc; lia.
Qed.

Lemma sdz_fuel_ok fuel : forall l elt,
  (elt < length l)%nat -> (length l < fuel + elt)%nat -> exists r, sdz fuel l elt = Some r.
Proof.
  induction fuel as [|fuel IH]; intros l elt He H; [lia|].
  cbn [sdz].
  destruct (Nat.leb_spec (length l) (2 * elt + 1)) as [Hl|Hl]; [eauto|].
  destruct (choose_spec l elt Hl) as [Hpos [Hs2l _]].
  destruct (Nat.eqb_spec (choose l elt) elt); [eauto|].
  destruct Hpos as [|Hc]; [contradiction|].
  apply IH; rewrite !upd_length; destruct Hc; lia.
Qed.

Lemma sdz_perm fuel : forall l elt r,
  (elt < length l)%nat -> sdz fuel l elt = Some r -> Permutation r l /\ length r = length l.
Proof.
  induction fuel as [|fuel IH]; intros l elt r He H; [discriminate|].
  cbn [sdz] in H.
  destruct (Nat.leb_spec (length l) (2 * elt + 1)) as [Hl|Hl]; [inversion H; subst; auto|].
  destruct (choose_spec l elt Hl) as [Hpos [Hs2l _]].
  destruct (Nat.eqb_spec (choose l elt) elt); [inversion H; subst; auto|].
  destruct Hpos as [|Hc]; [contradiction|].
  change (sdz fuel (swapE l elt (choose l elt)) (choose l elt) = Some r) in H.
  apply IH in H; [|rewrite swapE_length; auto].
  destruct H as [P L]. rewrite swapE_length in L. split; auto.
  eapply perm_trans; [exact P|]. apply swapE_perm; auto; destruct Hc; lia.
Qed.

(* heap everywhere except that position i may be smaller than its children *)
Definition heapX (l : list entry) (i : nat) : Prop :=
  (forall j c, child c j -> (c < length l)%nat -> j <> i -> key (getE l c) <= key (getE l j)) /\
  (forall q, child i q -> forall c, child c i -> (c < length l)%nat -> key (getE l c) <= key (getE l q)).

Lemma sdz_heap fuel : forall l elt r,
  (elt < length l)%nat -> heapX l elt -> sdz fuel l elt = Some r -> heapP r.
Proof.
  induction fuel as [|fuel IH]; intros l elt r He [H1 H2] H; [discriminate|].
  cbn [sdz] in H.
  destruct (Nat.leb_spec (length l) (2 * elt + 1)) as [Hl|Hl].
  { inversion H; subst. intros j c Hc Hlen.
    destruct (Nat.eq_dec j elt) as [->|Hj]; [destruct Hc; lia|apply H1; auto]. }
  pose proof (choose_spec l elt Hl) as Hmax. cbv zeta in Hmax.
  set (s2 := choose l elt) in *.
  destruct Hmax as [Hpos [Hs2l [Hge [Hch Hstrict]]]].
  destruct (Nat.eqb_spec s2 elt) as [E|NE].
  { inversion H; subst r. intros j c Hc Hlen.
    destruct (Nat.eq_dec j elt) as [->|Hj]; [|apply H1; auto].
    rewrite E in Hch. apply Hch; auto. }
  destruct Hpos as [|Hchild]; [contradiction|].
  change (sdz fuel (swapE l elt s2) s2 = Some r) in H.
  eapply IH in H; eauto; [rewrite swapE_length; auto|].
  assert (Hes : (elt < s2)%nat) by (destruct Hchild; lia).
  split.
  - intros j c Hc Hlen Hj. rewrite swapE_length in Hlen.
    rewrite !getE_swapE by auto.
    assert (j < c)%nat by (destruct Hc; lia).
    destruct (Nat.eqb_spec c s2) as [->|Hcs].
    + (* c = s2: its parent is elt *)
      assert (j = elt) by (destruct Hc, Hchild; lia). subst j.
      destruct (Nat.eqb_spec elt s2); [lia|]. rewrite Nat.eqb_refl. specialize (Hstrict NE). lia.
    + destruct (Nat.eqb_spec c elt) as [->|Hce].
      * (* c = elt: j is the parent q of elt *)
        destruct (Nat.eqb_spec j s2); [lia|]. destruct (Nat.eqb_spec j elt); [lia|].
        apply H2; auto.
      * destruct (Nat.eqb_spec j s2); [contradiction|].
        destruct (Nat.eqb_spec j elt) as [->|Hje].
        -- apply Hch; auto.
        -- apply H1; auto.
  - intros q Hq c Hc Hlen. rewrite swapE_length in Hlen.
    assert (q = elt) by (destruct Hq, Hchild; lia). subst q.
    rewrite !getE_swapE by auto.
    assert (s2 < c)%nat by (destruct Hc; lia).
    destruct (Nat.eqb_spec c s2); [lia|]. destruct (Nat.eqb_spec c elt); [lia|].
    destruct (Nat.eqb_spec elt s2); [lia|]. rewrite Nat.eqb_refl.
    apply H1; auto; lia.
Qed.

(* ------------------------------------------------------------------ *)
(* one row of deheap_sort on entries                                   *)

Fixpoint dhz (j : nat) (l : list entry) : option (list entry) :=
  match j with
  | O => Some l
  | S j' =>
    let l1 := swapE l 0 j in
    match sdz (S j) (firstn j l1) 0 with
    | None => None
    | Some pre => dhz j' (pre ++ skipn j l1)
    end
  end.

Lemma deheap_row_dhz : forall j l,
  deheap_row j (map eid l) (map key l) =
  option_map (fun r => (map eid r, map key r)) (dhz j l).
Proof.
  induction j as [|j IH]; intros l; [reflexivity|].
  cbn [deheap_row dhz].
  rewrite !getZ_map_key, !getZ_map_eid, <- !upd_map, !firstn_map.
  fold (swapE l 0 (S j)).
  rewrite siftdown_sdz.
  destruct (sdz (S (S j)) (firstn (S j) (swapE l 0 (S j))) 0) as [pre|]; [|reflexivity].
  cbn [option_map]. rewrite !skipn_map, <- !map_app. apply IH.
Qed.

Definition sortedK (l : list entry) : Prop :=
  forall i j, (i <= j < length l)%nat -> key (getE l i) <= key (getE l j).

(* loop invariant at loop variable j: prefix [0..j] is a heap, suffix (j..) is
   ascending, and every prefix element is <= every suffix element *)
Definition dhInv (j : nat) (l : list entry) : Prop :=
  heapP (firstn (S j) l) /\
  (forall a b, (j < a <= b)%nat -> (b < length l)%nat -> key (getE l a) <= key (getE l b)) /\
  (forall a b, (a <= j < b)%nat -> (b < length l)%nat -> key (getE l a) <= key (getE l b)).

Lemma getE_firstn l n i : (i < n)%nat -> getE (firstn n l) i = getE l i.
Proof. intros H. unfold getE. apply nth_firstn_lt. auto. Qed.

Lemma getE_app_l (l1 l2 : list entry) i : (i < length l1)%nat -> getE (l1 ++ l2) i = getE l1 i.
Proof. intros; unfold getE; apply app_nth1; auto. Qed.
Lemma getE_app_r (l1 l2 : list entry) i : (length l1 <= i)%nat -> getE (l1 ++ l2) i = getE l2 (i - length l1).
Proof. intros; unfold getE; apply app_nth2; auto. Qed.
Lemma getE_skipn (l : list entry) n i : getE (skipn n l) i = getE l (n + i).
Proof. unfold getE; apply nth_skipn_add. Qed.

Lemma firstn_app_exact {A} (l1 l2 : list A) : firstn (length l1) (l1 ++ l2) = l1.
Proof. induction l1; simpl; [destruct l2; auto|f_equal; auto]. Qed.

Lemma dhz_step j' l pre :
  (S j' < length l)%nat -> dhInv (S j') l ->
  sdz (S (S j')) (firstn (S j') (swapE l 0 (S j'))) 0 = Some pre ->
  let l' := pre ++ skipn (S j') (swapE l 0 (S j')) in
  dhInv j' l' /\ Permutation l' l /\ length l' = length l.
Proof.
  intros Hj [Hheap [Hsuf Hcross]] Hs. set (j := S j') in *.
  set (l1 := swapE l 0 j) in *.
  assert (Ll1 : length l1 = length l) by apply swapE_length.
  assert (Lf : length (firstn j l1) = j) by (rewrite firstn_length; lia).
  assert (G1 : forall i, getE l1 i = if (i =? j)%nat then getE l 0 else if (i =? 0)%nat then getE l j else getE l i).
  { intros i. unfold l1. apply getE_swapE; lia. }
  assert (HX : heapX (firstn j l1) 0).
  { split.
    - intros p c Hc Hlen Hp. rewrite Lf in Hlen.
      assert (p < c)%nat by (destruct Hc; lia).
      rewrite !getE_firstn by lia. rewrite !G1.
      destruct (Nat.eqb_spec c j); [lia|]. destruct (Nat.eqb_spec p j); [lia|].
      destruct (Nat.eqb_spec c 0); [lia|]. destruct (Nat.eqb_spec p 0); [lia|].
      specialize (Hheap p c Hc). rewrite firstn_length in Hheap.
      rewrite !getE_firstn in Hheap by lia. apply Hheap. lia.
    - intros q [Hq|Hq]; lia. }
  assert (H0f : (0 < length (firstn j l1))%nat) by (rewrite Lf; unfold j; lia).
  destruct (sdz_perm _ _ _ _ H0f Hs) as [Pp Lp].
  pose proof (sdz_heap _ _ _ _ H0f HX Hs) as Hp.
  rewrite Lf in Lp.
  intros l'.
  assert (Ll' : length l' = length l).
  { unfold l'. rewrite app_length, skipn_length. lia. }
  assert (Gl' : forall i, (j <= i)%nat -> getE l' i = getE l1 i).
  { intros i Hi. unfold l'. rewrite getE_app_r by lia. rewrite getE_skipn. f_equal. lia. }
  assert (Gpre : forall a, (a < j)%nat -> exists i, (i <= j)%nat /\ getE l' a = getE l i).
  { intros a Ha. unfold l'. rewrite getE_app_l by lia.
    assert (Hin : In (getE pre a) (firstn j l1)).
    { eapply Permutation_in; [exact Pp|]. apply getE_In. lia. }
    destruct (In_getE _ _ Hin) as [i [Hi Hg]]. rewrite Lf in Hi.
    rewrite getE_firstn in Hg by auto. rewrite G1 in Hg.
    destruct (Nat.eqb_spec i j); [lia|].
    destruct (Nat.eqb_spec i 0); [exists j|exists i]; split; auto; lia. }
  assert (Hroot : forall i, (i <= j)%nat -> key (getE l i) <= key (getE l 0)).
  { intros i Hi. pose proof (heapP_root_max _ Hheap i) as HH.
    rewrite firstn_length in HH. rewrite !getE_firstn in HH by lia. apply HH. lia. }
  split; [|split; auto].
  - split; [|split].
    + replace (firstn (S j') l') with pre; auto.
      unfold l'. fold j. symmetry. rewrite <- Lp at 1. apply firstn_app_exact.
    + intros a b Hab Hb. rewrite Ll' in Hb. fold j in Hab.
      rewrite !Gl' by lia. rewrite !G1.
      destruct (Nat.eqb_spec a j) as [Ea|Na]; destruct (Nat.eqb_spec b j) as [Eb|Nb]; try lia.
      * destruct (Nat.eqb_spec b 0); [lia|]. apply Hcross; lia.
      * destruct (Nat.eqb_spec a 0); [lia|]. destruct (Nat.eqb_spec b 0); [lia|]. apply Hsuf; lia.
    + intros a b Hab Hb. rewrite Ll' in Hb. fold j in Hab.
      destruct (Gpre a ltac:(lia)) as [i [Hi ->]].
      rewrite Gl' by lia. rewrite G1.
      destruct (Nat.eqb_spec b j) as [Eb|Nb]; [apply Hroot; auto|].
      destruct (Nat.eqb_spec b 0); [lia|]. apply Hcross; lia.
  - unfold l'.
    eapply perm_trans; [apply Permutation_app_tail; exact Pp|].
    rewrite firstn_skipn. unfold l1. apply swapE_perm; lia.
Qed.

Lemma dhz_correct : forall j l,
  (j < length l)%nat -> dhInv j l ->
  exists r, dhz j l = Some r /\ Permutation r l /\ length r = length l /\ dhInv 0 r.
Proof.
  induction j as [|j IH]; intros l Hj Hinv.
  - exists l. cbn [dhz]. auto.
  - cbn [dhz].
    destruct (sdz_fuel_ok (S (S j)) (firstn (S j) (swapE l 0 (S j))) 0) as [pre Hpre].
    { rewrite firstn_length, swapE_length. lia. }
    { rewrite firstn_length, swapE_length. lia. }
    rewrite Hpre.
    destruct (dhz_step j l pre Hj Hinv Hpre) as [Hi [P L]].
    destruct (IH _ ltac:(rewrite L; lia) Hi) as [r [Hr [P' [L' Hi']]]].
    exists r. repeat split; auto; try lia.
    + eapply perm_trans; eauto.
    + destruct Hi'; auto.
    + destruct Hi' as [_ [? _]]; auto.
    + destruct Hi' as [_ [_ ?]]; auto.
Qed.

Lemma dhInv_sorted r : dhInv 0 r -> sortedK r.
Proof.
  intros [_ [H2 H3]] i j Hij.
  destruct (Nat.eq_dec i j) as [->|Hne]; [lia|].
  destruct i as [|i]; [apply H3; lia|apply H2; lia].
Qed.

(* deheap_sort on one row, entry level *)
Theorem dhz_sorts l :
  (0 < length l)%nat -> heapP l ->
  exists r, dhz (length l - 1) l = Some r /\ Permutation r l /\ sortedK r.
Proof.
  intros L0 Hh.
  destruct (dhz_correct (length l - 1) l ltac:(lia)) as [r [Hr [P [L Hi]]]].
  - split; [|split].
    + replace (S (length l - 1)) with (length l) by lia. rewrite firstn_all. exact Hh.
    + intros a b Hab Hb. lia.
    + intros a b Hab Hb. lia.
  - exists r. repeat split; auto. apply dhInv_sorted; auto.
Qed.

(* array level: utils.deheap_sort applied to a row (indices, distances) *)
Theorem deheap_sort_row_correct (ids ds : list Z) :
  length ids = length ds -> (0 < length ds)%nat -> heapP (zip2 ds ids) ->
  exists ids' ds',
    deheap_sort_row ids ds = Some (ids', ds') /\
    Permutation (zip2 ds' ids') (zip2 ds ids) /\
    length ids' = length ids /\ length ds' = length ds /\
    (forall i j, (i <= j < length ds')%nat -> getZ ds' i <= getZ ds' j).
Proof.
  intros L L0 Hh. set (l := zip2 ds ids).
  assert (Ll : length l = length ds) by (unfold l, zip2; apply zip3_length).
  assert (Ek : map key l = ds) by (unfold l, zip2; apply map_key_zip3).
  assert (Ei : map eid l = ids) by (unfold l, zip2; apply map_eid_zip3; auto).
  destruct (dhz_sorts l ltac:(lia) Hh) as [r [Hr [P S]]].
  exists (map eid r), (map key r).
  assert (Lr : length r = length l) by (apply Permutation_length; auto).
  unfold deheap_sort_row. rewrite <- Ei at 1 2. rewrite <- Ek at 1.
  rewrite map_length, deheap_row_dhz.
  replace (length l - 1)%nat with (length l - 1)%nat by auto.
  rewrite Hr. cbn [option_map]. repeat split; auto.
  - (* the flags of r are all zero, so re-zipping gives r back *)
    assert (Hfl : forall e, In e r -> efl e = 0).
    { intros e He. apply (Permutation_in _ P) in He. unfold l, zip2 in He.
      destruct (In_getE _ _ He) as [i [Hi <-]]. rewrite zip3_length in Hi.
      rewrite getE_zip3 by auto. cbn [efl snd]. unfold getZ. apply nth_repeat_lt; auto. }
    replace (zip2 (map key r) (map eid r)) with r; auto.
    unfold zip2. apply nth_ext_len with (d := dflt).
    + rewrite zip3_length, map_length; auto.
    + intros i Hi.
      fold (getE (zip3 (map key r) (map eid r) (repeat 0 (length (map key r)))) i).
      rewrite getE_zip3 by (rewrite map_length; auto).
      rewrite getZ_map_key, getZ_map_eid. unfold getZ. rewrite map_length, nth_repeat_lt by auto.
      fold (getE r i). specialize (Hfl (getE r i) (getE_In _ _ Hi)).
      destruct (getE r i) as [[a b] c]. cbn [efl snd] in Hfl. rewrite Hfl. reflexivity.
  - rewrite map_length; lia.
  - rewrite map_length; lia.
  - intros i j Hij. rewrite map_length in Hij. rewrite !getZ_map_key. apply S. lia.
Qed.
