(* HeapProofs.v — lemmas about model/Heap.v (push variants). *)
From Coq Require Import ZArith List Bool Lia Permutation.
From PV Require Import Base Heap ListAux.
Import ListNotations.
Open Scope Z_scope.

(* ------------------------------------------------------------------ *)
(* Entry (zipped) view of the three parallel arrays                    *)

Definition entry := (Z * Z * Z)%type.       (* priority, index, flag *)
Definition key (e : entry) : Z := fst (fst e).
Definition eid (e : entry) : Z := snd (fst e).
Definition efl (e : entry) : Z := snd e.
Definition dflt : entry := (0, 0, 0).
Definition getE (l : list entry) (i : nat) : entry := nth i l dflt.

Definition zip3 (ps ids fs : list Z) : list entry :=
  map (fun k => (getZ ps k, getZ ids k, getZ fs k)) (seq 0 (length ps)).

Lemma zip3_length ps ids fs : length (zip3 ps ids fs) = length ps.
Proof. unfold zip3; rewrite map_length, seq_length; auto. Qed.

Lemma getE_zip3 ps ids fs k :
  (k < length ps)%nat -> getE (zip3 ps ids fs) k = (getZ ps k, getZ ids k, getZ fs k).
Proof.
  intros H. unfold getE, zip3.
  rewrite nth_map_lt with (d' := 0%nat) by (rewrite seq_length; auto).
  rewrite seq_nth; auto.
Qed.

Lemma map_key_zip3 ps ids fs : map key (zip3 ps ids fs) = ps.
Proof.
  apply nth_ext_len with (d := 0).
  - rewrite map_length, zip3_length; auto.
  - intros i Hi. rewrite map_length, zip3_length in Hi.
    rewrite nth_map_lt with (d' := dflt) by (rewrite zip3_length; auto).
    fold (getE (zip3 ps ids fs) i). rewrite getE_zip3; auto.
Qed.

Lemma map_eid_zip3 ps ids fs : length ids = length ps -> map eid (zip3 ps ids fs) = ids.
Proof.
  intros L. apply nth_ext_len with (d := 0).
  - rewrite map_length, zip3_length; auto.
  - intros i Hi. rewrite map_length, zip3_length in Hi.
    rewrite nth_map_lt with (d' := dflt) by (rewrite zip3_length; auto).
    fold (getE (zip3 ps ids fs) i). rewrite getE_zip3; auto.
Qed.

Lemma map_efl_zip3 ps ids fs : length fs = length ps -> map efl (zip3 ps ids fs) = fs.
Proof.
  intros L. apply nth_ext_len with (d := 0).
  - rewrite map_length, zip3_length; auto.
  - intros i Hi. rewrite map_length, zip3_length in Hi.
    rewrite nth_map_lt with (d' := dflt) by (rewrite zip3_length; auto).
    fold (getE (zip3 ps ids fs) i). rewrite getE_zip3; auto.
Qed.

Lemma zip3_upd ps ids fs i a b c :
  length ids = length ps -> length fs = length ps ->
  zip3 (upd i a ps) (upd i b ids) (upd i c fs) = upd i (a, b, c) (zip3 ps ids fs).
Proof.
  intros L1 L2. apply nth_ext_len with (d := dflt).
  - rewrite upd_length, !zip3_length, upd_length; auto.
  - intros k Hk. rewrite zip3_length, upd_length in Hk.
    fold (getE (zip3 (upd i a ps) (upd i b ids) (upd i c fs)) k).
    rewrite getE_zip3 by (rewrite upd_length; auto).
    rewrite nth_upd, zip3_length, !getZ_upd.
    destruct (Nat.eqb_spec i k) as [->|Hne].
    + rewrite L1, L2. destruct (Nat.ltb_spec k (length ps)); try lia. auto.
    + fold (getE (zip3 ps ids fs) k). rewrite getE_zip3; auto.
Qed.

(* ------------------------------------------------------------------ *)
(* The sift-down loop on entries                                       *)

Fixpoint siftz (fuel : nat) (l : list entry) (x : entry) (i : nat) : option (list entry) :=
  match fuel with
  | O => None
  | S fuel' =>
    let size := length l in
    let ic1 := (2 * i + 1)%nat in
    let ic2 := (ic1 + 1)%nat in
    let stop := Some (upd i x l) in
    let move c := siftz fuel' (upd i (getE l c) l) x c in
    if (size <=? ic1)%nat then stop
    else if (size <=? ic2)%nat then
      if key x <? key (getE l ic1) then move ic1 else stop
    else if key (getE l ic2) <=? key (getE l ic1) then
      if key x <? key (getE l ic1) then move ic1 else stop
    else
      if key x <? key (getE l ic2) then move ic2 else stop
  end.

Definition unzip3 (l : list entry) := (map key l, map eid l, map efl l).

Lemma sift3_siftz fuel : forall ps ids fs p n f i,
  length ids = length ps -> length fs = length ps ->
  sift3 fuel ps ids fs p n f i =
  option_map unzip3 (siftz fuel (zip3 ps ids fs) (p, n, f) i).
Proof.
  induction fuel as [|fuel IH]; intros ps ids fs p n f i L1 L2; [reflexivity|].
  cbn [sift3 siftz]. rewrite zip3_length.
  assert (Hstop : Some (upd i p ps, upd i n ids, upd i f fs)
                  = option_map unzip3 (Some (upd i (p, n, f) (zip3 ps ids fs)))).
  { cbn [option_map]. f_equal. rewrite <- zip3_upd by auto. unfold unzip3.
    rewrite map_key_zip3, map_eid_zip3, map_efl_zip3; rewrite ?upd_length; auto. }
  assert (Hmove : forall c, (c < length ps)%nat ->
     sift3 fuel (upd i (getZ ps c) ps) (upd i (getZ ids c) ids) (upd i (getZ fs c) fs) p n f c
     = option_map unzip3 (siftz fuel (upd i (getZ ps c, getZ ids c, getZ fs c) (zip3 ps ids fs)) (p, n, f) c)).
  { intros c Hc. rewrite IH by (rewrite !upd_length; auto).
    rewrite zip3_upd by auto. reflexivity. }
  destruct (Nat.leb_spec (length ps) (2 * i + 1)); [exact Hstop|].
  rewrite !getE_zip3 by lia. cbn [key fst].
  destruct (Nat.leb_spec (length ps) (2 * i + 1 + 1)).
  - destruct (p <? getZ ps (2 * i + 1)); [apply Hmove; lia|exact Hstop].
  - rewrite !getE_zip3 by lia. cbn [key fst].
    destruct (getZ ps (2 * i + 1 + 1) <=? getZ ps (2 * i + 1)).
    + destruct (p <? getZ ps (2 * i + 1)); [apply Hmove; lia|exact Hstop].
    + destruct (p <? getZ ps (2 * i + 1 + 1)); [apply Hmove; lia|exact Hstop].
Qed.

(* fuel: the hole position strictly increases *)
Lemma siftz_fuel_ok fuel : forall l x i,
  (i < length l)%nat -> (length l < fuel + i)%nat -> exists r, siftz fuel l x i = Some r.
Proof.
  induction fuel as [|fuel IH]; intros l x i Hi H; [lia|].
  cbn [siftz].
  assert (Hm : forall c, (i < c)%nat -> (c < length l)%nat ->
            exists r, siftz fuel (upd i (getE l c) l) x c = Some r).
  { intros c H1 H2. apply IH; rewrite upd_length; lia. }
  destruct (Nat.leb_spec (length l) (2 * i + 1)); [eauto|].
  destruct (Nat.leb_spec (length l) (2 * i + 1 + 1)).
  - destruct (key x <? _); [apply Hm; lia|eauto].
  - destruct (_ <=? _).
    + destruct (key x <? _); [apply Hm; lia|eauto].
    + destruct (key x <? _); [apply Hm; lia|eauto].
Qed.

Lemma siftz_length fuel : forall l x i r, siftz fuel l x i = Some r -> length r = length l.
Proof.
  induction fuel as [|fuel IH]; intros l x i r H; [discriminate|].
  cbn [siftz] in H.
  assert (Hs : Some (upd i x l) = Some r -> length r = length l).
  { intros E; inversion E; apply upd_length. }
  assert (Hm : forall c, siftz fuel (upd i (getE l c) l) x c = Some r -> length r = length l).
  { intros c E. apply IH in E. rewrite upd_length in E. auto. }
  destruct (_ <=? _)%nat; [auto|].
  destruct (_ <=? _)%nat.
  - destruct (key x <? _); eauto.
  - destruct (_ <=? _); destruct (key x <? _); eauto.
Qed.

(* ------------------------------------------------------------------ *)
(* Multiset: the loop permutes "l with x written into the hole"         *)

Lemma upd_move_perm (l : list entry) i c x :
  (i < length l)%nat -> (c < length l)%nat -> i <> c ->
  Permutation (upd c x (upd i (getE l c) l)) (upd i x l).
Proof.
  intros Hi Hc Hne.
  apply Permutation_cons_inv with (a := getE l c).
  apply Permutation_cons_inv with (a := getE l i).
  (* LHS *)
  assert (E1 : Permutation (getE l c :: upd c x (upd i (getE l c) l)) (x :: upd i (getE l c) l)).
  { replace (getE l c) with (nth c (upd i (getE l c) l) dflt) at 1
      by (rewrite nth_upd_neq; auto).
    apply upd_perm. rewrite upd_length; auto. }
  assert (E2 : Permutation (getE l i :: upd i (getE l c) l) (getE l c :: l)).
  { apply upd_perm; auto. }
  assert (E3 : Permutation (getE l i :: upd i x l) (x :: l)).
  { apply upd_perm; auto. }
  eapply perm_trans; [apply perm_skip, E1|].
  eapply perm_trans; [apply perm_swap|].
  eapply perm_trans; [apply perm_skip, E2|].
  eapply perm_trans; [apply perm_swap|].
  eapply perm_trans; [|apply perm_swap].
  apply perm_skip. symmetry. exact E3.
Qed.

Lemma siftz_perm fuel : forall l x i r,
  (i < length l)%nat -> siftz fuel l x i = Some r -> Permutation r (upd i x l).
Proof.
  induction fuel as [|fuel IH]; intros l x i r Hi H; [discriminate|].
  cbn [siftz] in H.
  assert (Hs : Some (upd i x l) = Some r -> Permutation r (upd i x l)).
  { intros E; inversion E; auto. }
  assert (Hm : forall c, (i < c)%nat -> (c < length l)%nat ->
     siftz fuel (upd i (getE l c) l) x c = Some r -> Permutation r (upd i x l)).
  { intros c H1 H2 E. apply IH in E; [|rewrite upd_length; auto].
    eapply perm_trans; [exact E|]. apply upd_move_perm; auto; lia. }
  destruct (Nat.leb_spec (length l) (2 * i + 1)); [auto|].
  destruct (Nat.leb_spec (length l) (2 * i + 1 + 1)).
  - destruct (key x <? _); [apply (Hm (2 * i + 1)%nat); auto; lia|auto].
  - destruct (_ <=? _); destruct (key x <? _); auto;
      [apply (Hm (2 * i + 1)%nat)|apply (Hm (2 * i + 1 + 1)%nat)]; auto; lia.
Qed.

(* ------------------------------------------------------------------ *)
(* Heap order                                                          *)

Definition child (c j : nat) : Prop := c = (2 * j + 1)%nat \/ c = (2 * j + 2)%nat.

Definition heapP (l : list entry) : Prop :=
  forall j c, child c j -> (c < length l)%nat -> key (getE l c) <= key (getE l j).

(* heap with a hole at i that will receive x *)
Definition holeP (l : list entry) (i : nat) (x : entry) : Prop :=
  (forall j c, child c j -> (c < length l)%nat -> j <> i -> c <> i ->
      key (getE l c) <= key (getE l j)) /\
  (forall j, child i j ->
      key x <= key (getE l j) /\
      forall c, child c i -> (c < length l)%nat -> key (getE l c) <= key (getE l j)).

Lemma getE_upd l i j v :
  getE (upd i v l) j = if (i =? j)%nat then (if (j <? length l)%nat then v else getE l j) else getE l j.
Proof. unfold getE; apply nth_upd. Qed.

Lemma getE_upd_eq l i v : (i < length l)%nat -> getE (upd i v l) i = v.
Proof. intros; unfold getE; apply nth_upd_eq; auto. Qed.
Lemma getE_upd_neq l i j v : i <> j -> getE (upd i v l) j = getE l j.
Proof. intros; unfold getE; apply nth_upd_neq; auto. Qed.

Lemma heapP_fill l i x :
  (i < length l)%nat -> holeP l i x ->
  (forall c, child c i -> (c < length l)%nat -> key (getE l c) <= key x) ->
  heapP (upd i x l).
Proof.
  intros Hi [H1 H2] Hc j c Hch Hlen. rewrite upd_length in Hlen.
  assert (j < c)%nat by (destruct Hch; lia).
  destruct (Nat.eq_dec c i) as [Eci|Nci]; destruct (Nat.eq_dec j i) as [Eji|Nji]; try lia.
  - subst c. rewrite getE_upd_eq, getE_upd_neq by auto. apply H2; auto.
  - subst j. rewrite getE_upd_eq, getE_upd_neq by auto. apply Hc; auto.
  - rewrite !getE_upd_neq by auto. apply H1; auto.
Qed.

Lemma holeP_move l i x c0 :
  (i < length l)%nat -> (c0 < length l)%nat -> child c0 i -> holeP l i x ->
  key x < key (getE l c0) ->
  (forall c, child c i -> (c < length l)%nat -> key (getE l c) <= key (getE l c0)) ->
  holeP (upd i (getE l c0) l) c0 x.
Proof.
  intros Hi Hc0 Hch [H1 H2] Hx Hbig. split.
  - intros j c Hjc Hlen Hj Hc. rewrite upd_length in Hlen.
    assert (j < c)%nat by (destruct Hjc; lia).
    destruct (Nat.eq_dec c i) as [Eci|Nci]; destruct (Nat.eq_dec j i) as [Eji|Nji]; try lia.
    + subst c. rewrite getE_upd_eq, getE_upd_neq by auto. apply H2; auto.
    + subst j. rewrite getE_upd_eq, getE_upd_neq by auto. apply Hbig; auto.
    + rewrite !getE_upd_neq by auto. apply H1; auto.
  - intros j Hj. assert (j = i) by (destruct Hj, Hch; lia). subst j.
    rewrite getE_upd_eq by auto.
    split; [lia|]. intros c Hcc Hlen. rewrite upd_length in Hlen.
    assert (i <> c) by (destruct Hcc, Hch; lia).
    rewrite getE_upd_neq by auto.
    apply H1; auto; destruct Hcc, Hch; lia.
Qed.

Lemma siftz_heap fuel : forall l x i r,
  (i < length l)%nat -> holeP l i x -> siftz fuel l x i = Some r -> heapP r.
Proof.
  induction fuel as [|fuel IH]; intros l x i r Hi Hh H; [discriminate|].
  cbn [siftz] in H.
  destruct (Nat.leb_spec (length l) (2 * i + 1)) as [Ha|Ha].
  { inversion H; subst. apply heapP_fill; auto. intros c [->| ->] Hl; lia. }
  destruct (Nat.leb_spec (length l) (2 * i + 1 + 1)) as [Hb|Hb].
  { destruct (Z.ltb_spec (key x) (key (getE l (2 * i + 1)))) as [Hlt|Hge].
    - eapply IH in H; eauto; [rewrite upd_length; lia|].
      apply holeP_move; auto; [left; lia|].
      intros c [->| ->] Hl; lia.
    - inversion H; subst. apply heapP_fill; auto.
      intros c [->| ->] Hl; lia. }
  destruct (Z.leb_spec (key (getE l (2 * i + 1 + 1))) (key (getE l (2 * i + 1)))) as [Hc|Hc].
  - destruct (Z.ltb_spec (key x) (key (getE l (2 * i + 1)))) as [Hlt|Hge].
    + eapply IH in H; eauto; [rewrite upd_length; lia|].
      apply holeP_move; auto; [left; lia|].
      intros c [->| ->] Hl; [lia|]. replace (2 * i + 2)%nat with (2 * i + 1 + 1)%nat by lia. lia.
    + inversion H; subst. apply heapP_fill; auto.
      intros c [->| ->] Hl; [lia|]. replace (2 * i + 2)%nat with (2 * i + 1 + 1)%nat by lia. lia.
  - destruct (Z.ltb_spec (key x) (key (getE l (2 * i + 1 + 1)))) as [Hlt|Hge].
    + eapply IH in H; eauto; [rewrite upd_length; lia|].
      apply holeP_move; auto; [right; lia|].
      intros c [->| ->] Hl; [lia|]. replace (2 * i + 2)%nat with (2 * i + 1 + 1)%nat by lia. lia.
    + inversion H; subst. apply heapP_fill; auto.
      intros c [->| ->] Hl; [lia|]. replace (2 * i + 2)%nat with (2 * i + 1 + 1)%nat by lia. lia.
Qed.

Lemma heapP_hole_root l x : heapP l -> holeP l 0 x.
Proof.
  intros H. split.
  - intros j c Hc Hl _ _. apply H; auto.
  - intros j [Hj|Hj]; lia.
Qed.

(* the hole's own content is irrelevant: overwrite it first (the code does
   priorities[0] = p before the loop) *)
Lemma holeP_upd_hole l i x v : holeP l i x -> holeP (upd i v l) i x.
Proof.
  intros [H1 H2]. split.
  - intros j c Hc Hl Hj Hci. rewrite upd_length in Hl.
    rewrite !getE_upd_neq by auto. apply H1; auto.
  - intros j Hj. assert (i <> j) by (destruct Hj; lia).
    rewrite getE_upd_neq by auto.
    destruct (H2 j Hj) as [Ha Hb]. split; auto.
    intros c Hc Hl. rewrite upd_length in Hl.
    assert (i <> c) by (destruct Hc; lia).
    rewrite getE_upd_neq by auto. apply Hb; auto.
Qed.

Lemma heapP_root_max l : heapP l -> forall i, (i < length l)%nat -> key (getE l i) <= key (getE l 0).
Proof.
  intros H i. induction i as [i IH] using lt_wf_ind. intros Hi.
  destruct i as [|i]; [lia|].
  pose (j := (i / 2)%nat).
  assert (Hc : child (S i) j).
  { unfold child, j. pose proof (Nat.div_mod i 2 ltac:(lia)).
    pose proof (Nat.mod_upper_bound i 2 ltac:(lia)). lia. }
  assert (Hj : (j < S i)%nat).
  { unfold j. pose proof (Nat.div_le_upper_bound i 2 i ltac:(lia)). assert (i / 2 <= i)%nat by (apply Nat.div_le_upper_bound; lia). lia. }
  specialize (H j (S i) Hc Hi). specialize (IH j Hj ltac:(lia)). lia.
Qed.

(* ------------------------------------------------------------------ *)
(* Push on entries and its link to the three-array model               *)

Definition pushz (checked : bool) (l : list entry) (x : entry) : Z * list entry :=
  if key (getE l 0) <=? key x then (0, l)
  else if checked && existsb (Z.eqb (eid x)) (map eid l) then (0, l)
  else match siftz (S (length l)) (upd 0 x l) x 0 with
       | Some r => (1, r)
       | None => (-1, l)
       end.

Lemma unzip3_zip3 ps ids fs :
  length ids = length ps -> length fs = length ps -> unzip3 (zip3 ps ids fs) = (ps, ids, fs).
Proof. intros; unfold unzip3; rewrite map_key_zip3, map_eid_zip3, map_efl_zip3; auto. Qed.

Lemma heap_push_pushz checked ps ids fs p n f :
  length ids = length ps -> length fs = length ps -> (0 < length ps)%nat ->
  heap_push checked ps ids fs p n f =
  (fst (pushz checked (zip3 ps ids fs) (p, n, f)),
   unzip3 (snd (pushz checked (zip3 ps ids fs) (p, n, f)))).
Proof.
  intros L1 L2 L0. unfold heap_push, pushz.
  rewrite getE_zip3 by auto. cbn [key eid fst snd].
  rewrite map_eid_zip3 by auto.
  destruct (getZ ps 0 <=? p); [cbn [fst snd]; rewrite unzip3_zip3; auto|].
  destruct (checked && existsb (Z.eqb n) ids); [cbn [fst snd]; rewrite unzip3_zip3; auto|].
  rewrite sift3_siftz by (rewrite !upd_length; auto).
  rewrite zip3_upd by auto. rewrite zip3_length.
  destruct (siftz _ _ _ _); cbn [option_map fst snd]; auto.
  rewrite unzip3_zip3; auto.
Qed.

(* what a push does, on a non-empty max-heap *)
Inductive push_outcome (checked : bool) (l : list entry) (x : entry) : Z * list entry -> Prop :=
| PO_worse : key (getE l 0) <= key x -> push_outcome checked l x (0, l)
| PO_dup : key x < key (getE l 0) -> checked = true -> In (eid x) (map eid l) ->
           push_outcome checked l x (0, l)
| PO_acc r : key x < key (getE l 0) -> (checked = true -> ~ In (eid x) (map eid l)) ->
             Permutation (getE l 0 :: r) (x :: l) -> heapP r -> length r = length l ->
             push_outcome checked l x (1, r).

Lemma pushz_outcome checked l x :
  (0 < length l)%nat -> heapP l -> push_outcome checked l x (pushz checked l x).
Proof.
  intros L0 Hh. unfold pushz.
  destruct (Z.leb_spec (key (getE l 0)) (key x)) as [Hle|Hlt]; [apply PO_worse; auto|].
  destruct checked; cbn [andb].
  - destruct (existsb (Z.eqb (eid x)) (map eid l)) eqn:Ex.
    + apply PO_dup; auto. apply existsb_exists in Ex. destruct Ex as [y [Hy Hxy]].
      apply Z.eqb_eq in Hxy. subst; auto.
    + destruct (siftz_fuel_ok (S (length l)) (upd 0 x l) x 0) as [r Hr];
        [rewrite upd_length; lia|rewrite upd_length; lia|].
      rewrite Hr. apply PO_acc; auto.
      * intros _ Hin. assert (existsb (Z.eqb (eid x)) (map eid l) = true); [|congruence].
        apply existsb_exists. exists (eid x). split; auto. apply Z.eqb_refl.
      * assert (P : Permutation r (upd 0 x (upd 0 x l))) by (eapply siftz_perm; [|exact Hr]; rewrite upd_length; lia).
        rewrite upd_upd_same in P.
        eapply perm_trans; [apply perm_skip, P|]. apply upd_perm; auto.
      * eapply siftz_heap; [|apply holeP_upd_hole, heapP_hole_root; exact Hh|exact Hr].
        rewrite upd_length; auto.
      * apply siftz_length in Hr. rewrite upd_length in Hr. auto.
  - destruct (siftz_fuel_ok (S (length l)) (upd 0 x l) x 0) as [r Hr];
      [rewrite upd_length; lia|rewrite upd_length; lia|].
    rewrite Hr. apply PO_acc; auto; try discriminate.
    + assert (P : Permutation r (upd 0 x (upd 0 x l))) by (eapply siftz_perm; [|exact Hr]; rewrite upd_length; lia).
      rewrite upd_upd_same in P.
      eapply perm_trans; [apply perm_skip, P|]. apply upd_perm; auto.
    + eapply siftz_heap; [|apply holeP_upd_hole, heapP_hole_root; exact Hh|exact Hr].
      rewrite upd_length; auto.
    + apply siftz_length in Hr. rewrite upd_length in Hr. auto.
Qed.

Lemma getE_In l i : (i < length l)%nat -> In (getE l i) l.
Proof. intros; unfold getE; apply nth_In; auto. Qed.

Lemma In_getE l e : In e l -> exists i, (i < length l)%nat /\ getE l i = e.
Proof. intros H; destruct (In_nth _ _ dflt H) as [i [Hi He]]; eauto. Qed.

Lemma heapP_In_le_root l e : heapP l -> In e l -> key e <= key (getE l 0).
Proof. intros Hh Hin. destruct (In_getE _ _ Hin) as [i [Hi <-]]. apply heapP_root_max; auto. Qed.

(* the new root is no larger than the old one *)
Lemma push_acc_root_le l x r :
  (0 < length l)%nat -> heapP l -> key x < key (getE l 0) ->
  Permutation (getE l 0 :: r) (x :: l) -> length r = length l ->
  key (getE r 0) <= key (getE l 0).
Proof.
  intros L0 Hh Hx P Lr.
  assert (Hin : In (getE r 0) (x :: l)).
  { eapply Permutation_in; [exact P|]. right. apply getE_In; lia. }
  destruct Hin as [<-|Hin]; [lia|]. apply heapP_In_le_root; auto.
Qed.
