(* ListAux.v — lemmas about upd / nth / Permutation used everywhere. *)
From Coq Require Import ZArith List Bool Lia Permutation.
From PV Require Import Base.
Import ListNotations.
Open Scope Z_scope.

Lemma upd_length {A} (i : nat) (v : A) l : length (upd i v l) = length l.
Proof. revert i; induction l as [|h t IH]; intros [|i]; simpl; auto. Qed.

Lemma nth_upd_eq {A} (i : nat) (v d : A) l :
  (i < length l)%nat -> nth i (upd i v l) d = v.
Proof.
  revert i; induction l as [|h t IH]; intros [|i] H; simpl in *; try lia; auto.
  apply IH; lia.
Qed.

Lemma nth_upd_neq {A} (i j : nat) (v d : A) l :
  i <> j -> nth j (upd i v l) d = nth j l d.
Proof.
  revert i j; induction l as [|h t IH]; intros [|i] [|j] H; simpl; auto; try lia.
Qed.

Lemma nth_upd {A} (i j : nat) (v d : A) l :
  nth j (upd i v l) d = if (i =? j)%nat then (if (j <? length l)%nat then v else nth j l d) else nth j l d.
Proof.
  destruct (Nat.eqb_spec i j) as [->|Hne].
  - destruct (Nat.ltb_spec j (length l)).
    + apply nth_upd_eq; auto.
    + rewrite !nth_overflow; auto; rewrite ?upd_length; lia.
  - apply nth_upd_neq; auto.
Qed.

Lemma upd_oob {A} (i : nat) (v : A) l : (length l <= i)%nat -> upd i v l = l.
Proof.
  revert i; induction l as [|h t IH]; intros [|i] H; simpl in *; auto; try lia.
  f_equal; apply IH; lia.
Qed.

Lemma upd_same {A} (i : nat) (d : A) l : upd i (nth i l d) l = l.
Proof.
  revert i; induction l as [|h t IH]; intros [|i]; simpl; auto. f_equal; auto.
Qed.

Lemma upd_upd_same {A} (i : nat) (v w : A) l : upd i v (upd i w l) = upd i v l.
Proof. revert i; induction l as [|h t IH]; intros [|i]; simpl; auto. f_equal; auto. Qed.

Lemma upd_map {A B} (g : A -> B) (i : nat) v l : map g (upd i v l) = upd i (g v) (map g l).
Proof. revert i; induction l as [|h t IH]; intros [|i]; simpl; auto. f_equal; auto. Qed.

(* writing v at position i replaces exactly one occurrence in the multiset *)
Lemma upd_perm {A} (i : nat) (v d : A) l :
  (i < length l)%nat -> Permutation (nth i l d :: upd i v l) (v :: l).
Proof.
  revert i; induction l as [|h t IH]; intros [|i] H; simpl in *; try lia.
  - apply perm_swap.
  - eapply perm_trans; [apply perm_swap|].
    eapply perm_trans; [apply perm_skip, IH; lia|]. apply perm_swap.
Qed.

(* a two-cell move a[i] := a[c] followed later by a[c] := x etc. is handled
   through list equality: extensionality on nth *)
Lemma nth_ext_len {A} (d : A) l l' :
  length l = length l' -> (forall i, (i < length l)%nat -> nth i l d = nth i l' d) -> l = l'.
Proof. intros; eapply nth_ext; eauto. Qed.

Lemma firstn_upd_ge {A} (i j : nat) (v : A) l : (j <= i)%nat -> firstn j (upd i v l) = firstn j l.
Proof.
  revert i j; induction l as [|h t IH]; intros [|i] [|j] H; simpl; auto; try lia.
  f_equal; apply IH; lia.
Qed.

Lemma skipn_upd_lt {A} (i j : nat) (v : A) l : (i < j)%nat -> skipn j (upd i v l) = skipn j l.
Proof.
  revert i j; induction l as [|h t IH]; intros [|i] [|j] H; simpl; auto; try lia.
  apply IH; lia.
Qed.

Lemma getZ_upd (i j : nat) v l :
  getZ (upd i v l) j = if (i =? j)%nat then (if (j <? length l)%nat then v else getZ l j) else getZ l j.
Proof. unfold getZ; apply nth_upd. Qed.

Lemma nth_map_lt {A B} (g : A -> B) l k d d' :
  (k < length l)%nat -> nth k (map g l) d = g (nth k l d').
Proof.
  revert k; induction l as [|h t IH]; intros [|k] H; simpl in *; try lia; auto.
  apply IH; lia.
Qed.

Lemma nth_repeat_lt {A} (a d : A) k i : (i < k)%nat -> nth i (repeat a k) d = a.
Proof. revert i; induction k; intros [|i] H; simpl; auto; try lia. apply IHk; lia. Qed.

Lemma nth_firstn_lt {A} (l : list A) n i d : (i < n)%nat -> nth i (firstn n l) d = nth i l d.
Proof.
  revert n i; induction l as [|h t IH]; intros [|n] [|i] H; simpl; auto; try lia.
  apply IH; lia.
Qed.

Lemma nth_skipn_add {A} (l : list A) n i d : nth i (skipn n l) d = nth (n + i) l d.
Proof.
  revert n; induction l as [|h t IH]; intros [|n]; simpl; auto.
  destruct i; auto.
Qed.

Lemma firstn_In' {A} (l : list A) n x : In x (firstn n l) -> In x l.
Proof. revert n; induction l as [|h t IH]; intros [|n] H; cbn in *; auto; try contradiction. destruct H; [left; auto|right; eauto]. Qed.

Lemma skipn_In' {A} (l : list A) n x : In x (skipn n l) -> In x l.
Proof. revert n; induction l as [|h t IH]; intros [|n] H; cbn in *; auto. right; eauto. Qed.
