(* C12Proofs.v — apply_graph_updates_high_memory (with the second branch
   pushing into row q) computes exactly what apply_graph_updates_low_memory
   computes; the pinned variant (second branch pushing into row p) does not. *)
From Coq Require Import ZArith List Bool Lia Permutation.
From PV Require Import Base Heap Rng NND ListAux HeapProofs HeapTopK HeapArrays NNDProofs.
Import ListNotations.
Open Scope Z_scope.

Section HighLow.
  Variable delta : nat -> Z -> Z.       (* delta r x : the distance key between row r and candidate x *)
  Variable inf : Z.
  Variable dm : nat -> nat -> Z.
  Variables n k : nat.
  Hypothesis Hk : (0 < k)%nat.

  Definition RowInv (r : nat) (l : list entry) : Prop :=
    heapP l /\ forall e, In e l -> eid e <> -1 -> key e = delta r (eid e).

  (* in_graph[r] only ever contains ids that are in row r or were rejected /
     evicted at a root no larger than their distance (or the sentinel -1) *)
  Definition GI (g : graph) (ing : list (list Z)) : Prop :=
    wf_graph n k g /\ length ing = n /\
    forall r, (r < n)%nat ->
      RowInv r (grow g r) /\
      forall x, In x (nth r ing []) ->
        x = -1 \/ In x (map eid (grow g r)) \/ key (getE (grow g r) 0) <= delta r x.

  Lemma grow_length g r : wf_graph n k g -> (r < n)%nat -> length (grow g r) = k.
  Proof. intros [_ [_ [_ H]]] Hr. unfold grow. rewrite zip3_length. apply H; auto. Qed.

  Lemma memZ_In x s : memZ x s = true <-> In x s.
  Proof.
    unfold memZ. rewrite existsb_exists. split.
    - intros [y [Hy E]]. apply Z.eqb_eq in E. subst; auto.
    - intros H. exists x. split; auto. apply Z.eqb_refl.
  Qed.

  (* a push that the in_graph set says can be skipped is a no-op *)
  Lemma push_noop g ing r j d :
    GI g ing -> (r < n)%nat -> j <> -1 -> d = delta r j -> In j (nth r ing []) ->
    push_row g r d j 1 = (0, g).
  Proof.
    intros [Hwf [Ling Hrows]] Hr Hj Hd Hin.
    destruct (Hrows r Hr) as [[Hheap Hown] Hing].
    assert (Hrej : pushz true (grow g r) (d, j, 1) = (0, grow g r)).
    { apply pushz_reject. cbn [key eid fst snd].
      destruct (Hing j Hin) as [?|[?|?]]; [contradiction|right; auto|left; lia]. }
    destruct Hwf as [Li [Ld [Lf Hlen]]]. destruct (Hlen r Hr) as [Ki [Kd Kf]].
    unfold push_row, checked_flagged_heap_push.
    rewrite heap_push_pushz by lia. fold (grow g r). rewrite Hrej. cbn [fst snd].
    unfold grow. rewrite unzip3_zip3 by lia.
    unfold getRow. rewrite !upd_same. destruct g; reflexivity.
  Qed.

  (* a real push keeps the invariant, adding j to in_graph[r] when accepted *)
  Lemma push_keeps g ing r j d :
    GI g ing -> (r < n)%nat -> j <> -1 -> d = delta r j ->
    let res := push_row g r d j 1 in
    (fst res = 0 \/ fst res = 1) /\
    GI (snd res) (if 0 <? fst res then upd r (j :: nth r ing []) ing else ing).
  Proof.
    intros HGI Hr Hj Hd res. destruct HGI as [Hwf [Ling Hrows]].
    destruct (Hrows r Hr) as [[Hheap Hown] Hing].
    pose proof (grow_length g r Hwf Hr) as Lg.
    destruct (push_row_spec n k g r d j 1 Hk Hwf Hr Hheap) as [Ha [Hwf' [Hrow' Hoth]]].
    fold res in Ha, Hwf', Hrow', Hoth.
    pose proof (pushz_outcome true (grow g r) (d, j, 1) ltac:(lia) Hheap) as PO.
    inversion PO as [Hw E | Hlt Hc Hdup E | l' Hlt Hc P Hh' Ll' E]; rewrite <- E in *; cbn [fst snd] in *.
    - (* rejected by the root test: nothing changes *)
      rewrite Ha. split; [left; auto|]. cbn. split; [auto|]. split; [auto|].
      intros r' Hr'. destruct (Nat.eq_dec r' r) as [->|Hne].
      + rewrite Hrow'. split; [split; auto|auto].
      + rewrite Hoth by auto. apply Hrows; auto.
    - rewrite Ha. split; [left; auto|]. cbn. split; [auto|]. split; [auto|].
      intros r' Hr'. destruct (Nat.eq_dec r' r) as [->|Hne].
      + rewrite Hrow'. split; [split; auto|auto].
      + rewrite Hoth by auto. apply Hrows; auto.
    - (* accepted *)
      rewrite Ha. split; [right; auto|]. cbn [Z.ltb Z.compare]. cbn.
      split; [auto|]. split; [rewrite upd_length; auto|].
      assert (Hroot_in : In (getE (grow g r) 0) (grow g r)) by (apply getE_In; lia).
      assert (Hroot_le : key (getE l' 0) <= key (getE (grow g r) 0)).
      { apply push_acc_root_le with (x := (d, j, 1)); auto. lia. }
      intros r' Hr'. destruct (Nat.eq_dec r' r) as [->|Hne].
      + rewrite Hrow'. rewrite nth_upd_eq by lia. split.
        * split; auto. intros e He Hne'.
          assert (In e ((d, j, 1) :: grow g r)) by (eapply Permutation_in; [exact P|right; auto]).
          destruct H as [<-|H]; [cbn; auto|apply Hown; auto].
        * intros x [<-|Hx].
          -- right; left. apply in_map_iff. exists (d, j, 1). split; auto.
             assert (In (d, j, 1) (getE (grow g r) 0 :: l'))
               by (eapply Permutation_in; [symmetry; exact P|left; auto]).
             destruct H as [E'|]; auto. rewrite E' in Hlt. cbn [key fst] in Hlt. lia.
          -- destruct (Hing x Hx) as [?|[Hin|Hle]]; [left; auto| |right; right; lia].
             apply in_map_iff in Hin. destruct Hin as [e [He Hin]].
             assert (In e (getE (grow g r) 0 :: l'))
               by (eapply Permutation_in; [symmetry; exact P|right; auto]).
             destruct H as [E'|H].
             ++ (* x was the evicted root *)
                destruct (Z.eq_dec x (-1)) as [|Hx1]; [left; auto|]. right; right.
                assert (key e = delta r x) by (rewrite <- He; apply Hown; auto; congruence).
                rewrite E' in Hroot_le. lia.
             ++ right; left. apply in_map_iff. exists e; auto.
      + rewrite Hoth by auto. rewrite nth_upd_neq by auto. apply Hrows; auto.
  Qed.

  Lemma mod1 (z : Z) : (z mod 1 =? 0) = true.
  Proof. rewrite Z.mod_1_r. reflexivity. Qed.

  (* one update: the high-memory step with the q-row fix equals the low-memory step *)
  Lemma high_one_eq_low g ing c p q d :
    GI g ing -> 0 <= p < Z.of_nat n -> 0 <= q < Z.of_nat n ->
    d = delta (zidx p) q -> d = delta (zidx q) p ->
    let '(g', ing', c') := apply_high_one true (g, ing, c) (p, q, d) in
    apply_low_one 1 0 (g, c) (p, q, d) = (g', c') /\ GI g' ing'.
  Proof.
    intros HGI Hp Hq Hd1 Hd2.
    assert (Hpn : (zidx p < n)%nat) by (unfold zidx; lia).
    assert (Hqn : (zidx q < n)%nat) by (unfold zidx; lia).
    assert (Hp1 : p <> -1) by lia. assert (Hq1 : q <> -1) by lia.
    unfold apply_high_one, apply_low_one.
    destruct (Z.eqb_spec p (-1)); [lia|]. destruct (Z.eqb_spec q (-1)); [lia|]. cbn [orb].
    rewrite !mod1.
    destruct (memZ q (nth (zidx p) ing [])) eqn:Mq.
    - (* q already known for row p: the first push is a no-op *)
      apply memZ_In in Mq.
      rewrite (push_noop g ing (zidx p) q d HGI Hpn Hq1 Hd1 Mq).
      destruct (memZ p (nth (zidx q) ing [])) eqn:Mp; cbn [andb].
      + apply memZ_In in Mp.
        rewrite (push_noop g ing (zidx q) p d HGI Hqn Hp1 Hd2 Mp).
        split; [f_equal; lia|exact HGI].
      + destruct (Z.eqb_spec p q) as [Epq|Npq]; cbn [orb].
        * subst q. apply memZ_In in Mq. congruence.
        * destruct (push_keeps g ing (zidx q) p d HGI Hqn Hp1 Hd2) as [Ha HG'].
          destruct (push_row g (zidx q) d p 1) as [a g'] eqn:E. cbn [fst snd] in *.
          replace (c + 0 + a) with (c + a) by lia.
          destruct Ha as [-> | ->]; cbn in *; split; auto; f_equal; lia.
    - cbn [andb].
      destruct (push_keeps g ing (zidx p) q d HGI Hpn Hq1 Hd1) as [Ha HG1].
      destruct (push_row g (zidx p) d q 1) as [a g1] eqn:E1. cbn [fst snd] in *.
      set (ing1 := if 0 <? a then upd (zidx p) (q :: nth (zidx p) ing []) ing else ing) in *.
      assert (Hst : (if 0 <? a then (g1, upd (zidx p) (q :: nth (zidx p) ing []) ing, c + a) else (g1, ing, c))
                    = (g1, ing1, c + a)).
      { unfold ing1. destruct Ha as [-> | ->]; cbn; f_equal; lia. }
      rewrite Hst.
      destruct (Z.eqb_spec p q) as [Epq|Npq]; cbn [orb].
      + (* p = q: the second low-memory push repeats the first and is rejected *)
        subst q.
        assert (Hno : push_row g1 (zidx p) d p 1 = (0, g1)).
        { destruct Ha as [-> | ->].
          - (* first rejected: state unchanged, same push rejected again *)
            cbn in HG1. unfold ing1 in *. cbn in *.
            destruct HGI as [Hwf [Ling Hrows]]. destruct (Hrows _ Hpn) as [[Hheap _] _].
            destruct (push_row_spec n k g (zidx p) d p 1 Hk Hwf Hpn Hheap) as [Ha' [_ [Hrow' _]]].
            rewrite E1 in Ha', Hrow'. cbn [fst snd] in *.
            pose proof (pushz_outcome true (grow g (zidx p)) (d, p, 1)
                                      ltac:(rewrite (grow_length g _ Hwf Hpn); lia) Hheap) as PO.
            inversion PO as [Hw E | Hlt Hc Hdup E | l' Hlt Hc P Hh' Ll' E]; rewrite <- E in *; cbn [fst snd] in *;
              try discriminate.
            + destruct HG1 as [Hwf1 [_ Hrows1]]. destruct (Hrows1 _ Hpn) as [[Hheap1 _] _].
              destruct Hwf1 as [Li [Ld [Lf Hlen]]]. destruct (Hlen _ Hpn) as [Ki [Kd Kf]].
              unfold push_row, checked_flagged_heap_push. rewrite heap_push_pushz by lia.
              fold (grow g1 (zidx p)). rewrite Hrow'.
              rewrite pushz_reject by (left; exact Hw). cbn [fst snd].
              rewrite <- Hrow'. unfold grow. rewrite unzip3_zip3 by lia.
              unfold getRow. rewrite !upd_same. destruct g1; reflexivity.
            + destruct HG1 as [Hwf1 [_ Hrows1]]. destruct (Hrows1 _ Hpn) as [[Hheap1 _] _].
              destruct Hwf1 as [Li [Ld [Lf Hlen]]]. destruct (Hlen _ Hpn) as [Ki [Kd Kf]].
              unfold push_row, checked_flagged_heap_push. rewrite heap_push_pushz by lia.
              fold (grow g1 (zidx p)). rewrite Hrow'.
              rewrite pushz_reject by (right; split; [reflexivity|exact Hdup]). cbn [fst snd].
              rewrite <- Hrow'. unfold grow. rewrite unzip3_zip3 by lia.
              unfold getRow. rewrite !upd_same. destruct g1; reflexivity.
          - (* first accepted: p now in in_graph[p] *)
            cbn in HG1. apply (push_noop g1 ing1 (zidx p) p d); auto.
            unfold ing1. cbn. rewrite nth_upd_eq by (destruct HGI as [_ [L _]]; lia). left; auto. }
        rewrite Hno. split; [f_equal; lia|exact HG1].
      + destruct (memZ p (nth (zidx q) ing1 [])) eqn:Mp.
        * apply memZ_In in Mp.
          rewrite (push_noop g1 ing1 (zidx q) p d HG1 Hqn Hp1 Hd2 Mp).
          split; [f_equal; lia|exact HG1].
        * destruct (push_keeps g1 ing1 (zidx q) p d HG1 Hqn Hp1 Hd2) as [Ha2 HG2].
          destruct (push_row g1 (zidx q) d p 1) as [a2 g2] eqn:E2. cbn [fst snd] in *.
          destruct Ha2 as [-> | ->]; cbn in *; split; auto; f_equal; lia.
  Qed.

  Definition upd_ok (u : update) : Prop :=
    let '(p, q, d) := u in
    p = -1 \/ q = -1 \/
    (0 <= p < Z.of_nat n /\ 0 <= q < Z.of_nat n /\ d = delta (zidx p) q /\ d = delta (zidx q) p).

  Lemma high_list_eq_low : forall ul g ing c,
    GI g ing -> Forall upd_ok ul ->
    let '(g', ing', c') := fold_left (apply_high_one true) ul (g, ing, c) in
    fold_left (apply_low_one 1 0) ul (g, c) = (g', c') /\ GI g' ing'.
  Proof.
    induction ul as [|u ul IH]; intros g ing c HGI Hok; cbn [fold_left]; [auto|].
    inversion Hok as [|? ? Hu Hok']; subst.
    destruct u as [[p q] d]. unfold upd_ok in Hu.
    destruct (Z.eq_dec p (-1)) as [Ep|Np]; [|destruct (Z.eq_dec q (-1)) as [Eq|Nq]].
    - assert (E1 : apply_high_one true (g, ing, c) (p, q, d) = (g, ing, c)).
      { unfold apply_high_one. subst p. reflexivity. }
      assert (E2 : apply_low_one 1 0 (g, c) (p, q, d) = (g, c)).
      { unfold apply_low_one. subst p. reflexivity. }
      rewrite E1, E2. apply IH; auto.
    - assert (E1 : apply_high_one true (g, ing, c) (p, q, d) = (g, ing, c)).
      { unfold apply_high_one. subst q. destruct (p =? -1); reflexivity. }
      assert (E2 : apply_low_one 1 0 (g, c) (p, q, d) = (g, c)).
      { unfold apply_low_one. subst q. destruct (p =? -1); reflexivity. }
      rewrite E1, E2. apply IH; auto.
    - destruct Hu as [?|[?|[Hp [Hq [Hd1 Hd2]]]]]; try contradiction.
      pose proof (high_one_eq_low g ing c p q d HGI Hp Hq Hd1 Hd2) as H1.
      destruct (apply_high_one true (g, ing, c) (p, q, d)) as [[g1 ing1] c1].
      destruct H1 as [El HG1]. rewrite El. apply IH; auto.
  Qed.

  Theorem high_eq_low : forall ups g ing c,
    GI g ing -> Forall (Forall upd_ok) ups ->
    let '(g', ing', c') := fold_left (fun st ul => fold_left (apply_high_one true) ul st) ups (g, ing, c) in
    fold_left (fun st ul => fold_left (apply_low_one 1 0) ul st) ups (g, c) = (g', c') /\ GI g' ing'.
  Proof.
    induction ups as [|ul ups IH]; intros g ing c HGI Hok; cbn [fold_left]; [auto|].
    inversion Hok as [|? ? Hu Hok']; subst.
    pose proof (high_list_eq_low ul g ing c HGI Hu) as H1.
    destruct (fold_left (apply_high_one true) ul (g, ing, c)) as [[g1 ing1] c1].
    destruct H1 as [El HG1]. rewrite El. apply IH; auto.
  Qed.

  Corollary high_eq_low_proj ups g ing c :
    GI g ing -> Forall (Forall upd_ok) ups ->
    fold_left (fun st ul => fold_left (apply_low_one 1 0) ul st) ups (g, c) =
    (fst (fst (fold_left (fun st ul => fold_left (apply_high_one true) ul st) ups (g, ing, c))),
     snd (fold_left (fun st ul => fold_left (apply_high_one true) ul st) ups (g, ing, c))).
  Proof.
    intros HGI Hok. pose proof (high_eq_low ups g ing c HGI Hok) as H.
    destruct (fold_left (fun st ul => fold_left (apply_high_one true) ul st) ups (g, ing, c)) as [[g1 i1] c1].
    destruct H as [H _]. exact H.
  Qed.

  (* the initial in_graph (the index rows themselves) satisfies the invariant *)
  Lemma GI_initial g :
    wf_graph n k g -> (forall r, (r < n)%nat -> RowInv r (grow g r)) -> GI g (g_ind g).
  Proof.
    intros Hwf Hrows. split; [auto|]. split; [destruct Hwf; auto|].
    intros r Hr. split; [auto|]. intros x Hx. right; left.
    destruct Hwf as [Li [Ld [Lf Hlen]]]. destruct (Hlen r Hr) as [Ki [Kd Kf]].
    unfold grow. rewrite map_eid_zip3 by lia. exact Hx.
  Qed.
End HighLow.

