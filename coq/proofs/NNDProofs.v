(* NNDProofs.v — the graph-level push and the row view of a graph. *)
From Coq Require Import ZArith List Bool Lia Permutation.
From PV Require Import Base Heap Rng NND ListAux HeapProofs HeapTopK HeapArrays.
Import ListNotations.
Open Scope Z_scope.

Definition wf_graph (n k : nat) (g : graph) : Prop :=
  length (g_ind g) = n /\ length (g_dist g) = n /\ length (g_flag g) = n /\
  forall r, (r < n)%nat ->
    length (getRow (g_ind g) r) = k /\ length (getRow (g_dist g) r) = k /\ length (getRow (g_flag g) r) = k.

(* row r as a list of (priority, index, flag) entries *)
Definition grow (g : graph) (r : nat) : list entry :=
  zip3 (getRow (g_dist g) r) (getRow (g_ind g) r) (getRow (g_flag g) r).

Lemma getRow_upd_eq (m : mat) r v : (r < length m)%nat -> getRow (upd r v m) r = v.
Proof. intros; unfold getRow; apply nth_upd_eq; auto. Qed.
Lemma getRow_upd_neq (m : mat) r r' v : r <> r' -> getRow (upd r v m) r' = getRow m r'.
Proof. intros; unfold getRow; apply nth_upd_neq; auto. Qed.

Lemma push_row_spec n k g r d j f :
  (0 < k)%nat -> wf_graph n k g -> (r < n)%nat -> heapP (grow g r) ->
  let res := push_row g r d j f in
  fst res = fst (pushz true (grow g r) (d, j, f)) /\
  wf_graph n k (snd res) /\
  grow (snd res) r = snd (pushz true (grow g r) (d, j, f)) /\
  (forall r', r' <> r -> grow (snd res) r' = grow g r').
Proof.
  intros Hk [Li [Ld [Lf Hrows]]] Hr Hh.
  destruct (Hrows r Hr) as [Ki [Kd Kf]].
  intros res. unfold res, push_row, checked_flagged_heap_push.
  rewrite heap_push_pushz by lia. fold (grow g r).
  set (pz := pushz true (grow g r) (d, j, f)).
  assert (Lpz : length (snd pz) = k).
  { unfold pz. rewrite pushz_length; auto; unfold grow; rewrite zip3_length; lia. }
  unfold unzip3. cbn [fst snd].
  split; [reflexivity|]. split; [|split].
  - unfold wf_graph. cbn [g_ind g_dist g_flag]. rewrite !upd_length.
    split; [auto|]. split; [auto|]. split; [auto|].
    intros r' Hr'. destruct (Nat.eq_dec r r') as [<-|Hne].
    + rewrite !getRow_upd_eq by lia. rewrite !map_length. auto.
    + rewrite !getRow_upd_neq by auto. apply Hrows; auto.
  - unfold grow. cbn [g_ind g_dist g_flag]. rewrite !getRow_upd_eq by lia.
    change (zip3 (map key (snd pz)) (map eid (snd pz)) (map efl (snd pz))) with (zipa (unzip3 (snd pz))).
    apply zip3_unzip3.
  - intros r' Hne. unfold grow. cbn [g_ind g_dist g_flag]. rewrite !getRow_upd_neq by auto. reflexivity.
Qed.

Lemma pushz_reject checked l x :
  key (getE l 0) <= key x \/ (checked = true /\ In (eid x) (map eid l)) ->
  pushz checked l x = (0, l).
Proof.
  intros [H|[-> H]]; unfold pushz.
  - destruct (Z.leb_spec (key (getE l 0)) (key x)); [reflexivity|lia].
  - destruct (key (getE l 0) <=? key x); [reflexivity|]. cbn [andb].
    replace (existsb (Z.eqb (eid x)) (map eid l)) with true; [reflexivity|].
    symmetry. apply existsb_exists. exists (eid x). split; auto. apply Z.eqb_refl.
Qed.
