(* C02Proofs.v — soundness of the query search (model/Search.v). *)
From Coq Require Import ZArith List Bool Lia Permutation.
From PV Require Import Base Heap Rng NND Search ListAux HeapProofs HeapTopK HeapArrays HeapSort C01Proofs.
Import ListNotations.
Open Scope Z_scope.

Section SearchSound.
  Variable dq : nat -> Z.
  Variable n k : nat.
  Variable inf : Z.
  Variable indptr indices : list Z.
  Hypothesis Hk : (0 < k)%nat.
  Hypothesis Hn : (0 < n)%nat.
  Hypothesis dq_le_inf : forall v, dq v <= inf.
  Hypothesis indices_in_range : forall c, In c indices -> 0 <= c < Z.of_nat n.

  Definition rowof (st : sstate) : list entry := zip3 (s_ps st) (s_ids st) (repeat 0 (length (s_ps st))).

  (* result heap of a search in progress: k slots; a max-heap; real entries are
     pairwise distinct, in range, VISITED, and carry exactly d(v, query) < inf;
     the other slots are (-1, +inf) *)
  Definition SInv (st : sstate) : Prop :=
    length (s_ps st) = k /\ length (s_ids st) = k /\
    heapP (rowof st) /\ NoDup (map eid (real (rowof st))) /\
    forall e, In e (rowof st) ->
      (eid e = -1 /\ key e = inf) \/
      (0 <= eid e < Z.of_nat n /\ key e = dq (zidx (eid e)) /\ key e < inf /\ In (eid e) (s_visited st)).

  Lemma zip3_zero_flags (r : list entry) :
    (forall e, In e r -> efl e = 0) -> zip3 (map key r) (map eid r) (repeat 0 (length (map key r))) = r.
  Proof.
    intros Hfl. apply nth_ext_len with (d := dflt).
    - rewrite zip3_length, map_length; auto.
    - intros i Hi. rewrite zip3_length, map_length in Hi.
      fold (getE (zip3 (map key r) (map eid r) (repeat 0 (length (map key r)))) i).
      rewrite getE_zip3 by (rewrite map_length; auto).
      rewrite getZ_map_key, getZ_map_eid. unfold getZ. rewrite map_length, nth_repeat_lt by auto.
      fold (getE r i). specialize (Hfl (getE r i) (getE_In _ _ Hi)).
      destruct (getE r i) as [[a b] c]. cbn [efl snd] in Hfl. rewrite Hfl. reflexivity.
  Qed.

  Lemma rowof_flags st e : In e (rowof st) -> efl e = 0.
  Proof.
    intros He. unfold rowof in He. destruct (In_getE _ _ He) as [i [Hi <-]]. rewrite zip3_length in Hi.
    rewrite getE_zip3 by auto. cbn [efl snd]. unfold getZ. apply nth_repeat_lt; auto.
  Qed.

  (* marking a vertex visited without pushing keeps the invariant *)
  Lemma mark_inv ps ids vis seeds rng v :
    SInv {| s_ps := ps; s_ids := ids; s_visited := vis; s_seeds := seeds; s_rng := rng |} ->
    forall seeds' rng',
      SInv {| s_ps := ps; s_ids := ids; s_visited := v :: vis; s_seeds := seeds'; s_rng := rng' |}.
  Proof.
    intros [Lp [Li [Hh [Hnd Hent]]]] seeds' rng'. unfold SInv, rowof in *. cbn [s_ps s_ids s_visited] in *.
    split; [exact Lp|]. split; [exact Li|]. split; [exact Hh|]. split; [exact Hnd|].
    intros e He. destruct (Hent e He) as [H|[H1 [H2 [H3 H4]]]]; [left; exact H|].
    right. split; [exact H1|]. split; [exact H2|]. split; [exact H3|]. right; exact H4.
  Qed.

  Lemma SInv_frame st seeds' rng' :
    SInv st -> SInv {| s_ps := s_ps st; s_ids := s_ids st; s_visited := s_visited st; s_seeds := seeds'; s_rng := rng' |}.
  Proof. intros H. exact H. Qed.

  (* pushing an unvisited in-range vertex keeps the invariant and marks it visited *)
  Lemma push_seed_inv st v :
    SInv st -> 0 <= v < Z.of_nat n -> ~ In v (s_visited st) ->
    SInv (push_seed dq st v) /\ s_visited (push_seed dq st v) = v :: s_visited st.
  Proof.
    intros HS Hv Hnv. pose proof HS as [Lp [Li [Hh [Hnd Hent]]]].
    unfold push_seed, simple_heap_push.
    rewrite heap_push_pushz by (rewrite ?repeat_length; lia).
    fold (rowof st).
    set (x := (dq (zidx v), v, 0) : entry).
    assert (L0 : (0 < length (rowof st))%nat) by (unfold rowof; rewrite zip3_length; lia).
    pose proof (pushz_outcome false (rowof st) x L0 Hh) as PO.
    assert (Hnotin : ~ In v (map eid (real (rowof st)))).
    { intros Hin. apply in_map_iff in Hin. destruct Hin as [e [He Hin]]. apply filter_In in Hin. destruct Hin as [Hin Hr].
      destruct (Hent e Hin) as [[E _]|[_ [_ [_ Hvis]]]].
      - unfold is_real in Hr. rewrite E in Hr. discriminate.
      - rewrite He in Hvis. contradiction. }
    inversion PO as [Hw E | Hlt Hc Hdup E | r Hlt Hc P Hr Lr E]; [| discriminate |].
    - (* not better than the root: heap unchanged, vertex marked *)
      cbn [fst snd]. unfold unzip3.
      split; [|reflexivity].
      assert (Ek : map key (rowof st) = s_ps st) by (unfold rowof; apply map_key_zip3).
      assert (Ei : map eid (rowof st) = s_ids st) by (unfold rowof; apply map_eid_zip3; rewrite ?repeat_length; lia).
      rewrite Ek, Ei. destruct st as [p0 i0 v0 se0 rn0]. cbn [s_ps s_ids s_visited s_seeds s_rng] in *.
      eapply mark_inv. exact HS.
    - (* accepted *)
      cbn [fst snd]. unfold unzip3. cbn [s_ps s_ids s_visited].
      split; [|reflexivity].
      assert (Hfl : forall e, In e r -> efl e = 0).
      { intros e He. assert (In e (x :: rowof st)) by (eapply Permutation_in; [exact P|right; auto]).
        destruct H as [<-|H]; [reflexivity|eapply rowof_flags; eauto]. }
      assert (Lr' : length r = k) by (rewrite Lr; unfold rowof; rewrite zip3_length; auto).
      unfold SInv, rowof. cbn [s_ps s_ids s_visited]. rewrite zip3_zero_flags by auto.
      rewrite !map_length.
      split; [exact Lr'|]. split; [exact Lr'|]. split; [exact Hr|]. split.
      + (* NoDup *)
        assert (Q : Permutation (map eid (real (getE (rowof st) 0 :: r))) (map eid (real (x :: rowof st))))
          by (apply real_perm'; auto).
        assert (Hreal : is_real x = true).
        { unfold is_real, x. cbn [eid fst snd]. destruct (Z.eqb_spec v (-1)); auto. lia. }
        assert (ND : NoDup (map eid (real (x :: rowof st)))).
        { unfold real at 1. cbn [filter]. rewrite Hreal. cbn [map]. constructor; auto. }
        apply Permutation_sym in Q. eapply Permutation_NoDup in ND; [|exact Q].
        unfold real at 1 in ND. cbn [filter] in ND. destruct (is_real (getE (rowof st) 0)); auto.
        cbn [map] in ND. inversion ND; auto.
      + intros e He. assert (In e (x :: rowof st)) by (eapply Permutation_in; [exact P|right; auto]).
        destruct H as [<-|H].
        * right. unfold x. cbn [key eid fst snd].
          assert (Hroot : In (getE (rowof st) 0) (rowof st)) by (apply getE_In; auto).
          pose proof (heapP_In_le_root _ _ Hh Hroot) as Hle.
          unfold x in Hlt. cbn [key fst] in Hlt.
          split; [lia|]. split; [reflexivity|]. split; [|left; auto].
          destruct (Hent _ Hroot) as [[_ E']|[_ [_ [E' _]]]]; lia.
        * destruct (Hent e H) as [H0|[H1 [H2 [H3 H4]]]]; [left; exact H0|].
          right. split; [exact H1|]. split; [exact H2|]. split; [exact H3|]. right; exact H4.
  Qed.

  Lemma init_leaf_inv : forall cands st,
    SInv st -> NoDup cands -> (forall c, In c cands -> 0 <= c < Z.of_nat n /\ ~ In c (s_visited st)) ->
    SInv (init_leaf dq st cands).
  Proof.
    unfold init_leaf. induction cands as [|c cands IH]; intros st HS Hnd Hc; cbn [fold_left]; auto.
    inversion Hnd as [|? ? Hnotin Hnd']; subst.
    destruct (Hc c (or_introl eq_refl)) as [Hr Hv].
    destruct (push_seed_inv st c HS Hr Hv) as [HS' Hvis].
    apply IH; auto. intros c' Hc'. destruct (Hc c' (or_intror Hc')) as [Hr' Hv']. split; auto.
    rewrite Hvis. intros [E|H]; [subst; contradiction|contradiction].
  Qed.

  Lemma visited_In st v : visited st v = true <-> In v (s_visited st).
  Proof.
    unfold visited. rewrite existsb_exists. split.
    - intros [y [Hy E]]. apply Z.eqb_eq in E. subst; auto.
    - intros H. exists v. split; auto. apply Z.eqb_refl.
  Qed.

  Lemma init_random_inv : forall cnt st, SInv st -> SInv (init_random dq n cnt st).
  Proof.
    induction cnt as [|c IH]; intros st HS; cbn [init_random]; auto.
    destruct (tau_rand_int (s_rng st)) as [r rng'].
    set (cand := abs32s r mod Z.of_nat n).
    set (st1 := {| s_ps := s_ps st; s_ids := s_ids st; s_visited := s_visited st; s_seeds := s_seeds st; s_rng := rng' |}).
    assert (HS1 : SInv st1) by (apply SInv_frame; auto).
    apply IH. destruct (visited st1 cand) eqn:E; auto.
    apply push_seed_inv; auto.
    - apply Z.mod_pos_bound. lia.
    - intros Hin. apply visited_In in Hin. congruence.
  Qed.

  Lemma neighbours_in vertex c : In c (neighbours indptr indices vertex) -> In c indices.
  Proof. unfold neighbours. intros H. apply firstn_In' in H. eapply skipn_In'; eauto. Qed.

  Lemma expand_one_inv scale st bound cand :
    SInv st -> 0 <= cand < Z.of_nat n -> SInv (fst (expand_one dq scale (st, bound) cand)).
  Proof.
    intros HS Hc. unfold expand_one. destruct (visited st cand) eqn:E; [auto|].
    assert (Hnv : ~ In cand (s_visited st)) by (intros Hin; apply visited_In in Hin; congruence).
    destruct (dq (zidx cand) <? bound).
    - cbn [fst]. apply push_seed_inv; auto.
    - cbn [fst]. destruct st as [p0 i0 v0 se0 rn0]. cbn [s_ps s_ids s_visited s_seeds s_rng].
      eapply mark_inv. exact HS.
  Qed.

  Lemma expand_all_inv scale : forall cs st bound,
    SInv st -> (forall c, In c cs -> 0 <= c < Z.of_nat n) ->
    SInv (fst (fold_left (expand_one dq scale) cs (st, bound))).
  Proof.
    induction cs as [|c cs IH]; intros st bound HS Hc; cbn [fold_left]; auto.
    pose proof (expand_one_inv scale st bound c HS (Hc c (or_introl eq_refl))) as H1.
    destruct (expand_one dq scale (st, bound) c) as [st1 b1]. cbn [fst] in H1.
    apply IH; auto. intros; apply Hc; right; auto.
  Qed.

  Lemma search_loop_inv scale : forall fuel st bound dv v st',
    SInv st -> search_loop dq indptr indices fuel scale st bound dv v = Some st' -> SInv st'.
  Proof.
    induction fuel as [|fuel IH]; intros st bound dv v st' HS H; [discriminate|].
    cbn [search_loop] in H. destruct (dv <? bound); [|inversion H; subst; auto].
    pose proof (expand_all_inv scale (neighbours indptr indices v) st bound HS
                               (fun c Hc => indices_in_range c (neighbours_in v c Hc))) as H1.
    destruct (fold_left (expand_one dq scale) (neighbours indptr indices v) (st, bound)) as [st1 b1]. cbn [fst] in H1.
    destruct (s_seeds st1) as [|[d' v'] rest]; [inversion H; subst; auto|].
    eapply IH; [|exact H]. apply SInv_frame; auto.
  Qed.

  Lemma SInv_init rng :
    SInv {| s_ps := repeat inf k; s_ids := repeat (-1) k; s_visited := []; s_seeds := []; s_rng := rng |}.
  Proof.
    unfold SInv, rowof. cbn [s_ps s_ids s_visited]. rewrite !repeat_length.
    change (zip3 (repeat inf k) (repeat (-1) k) (repeat 0 k)) with (zipa (empty_row inf k)).
    rewrite zipa_empty_row.
    pose proof (Inv_empty (fun _ => 0) inf k) as I. destruct I as [_ Hh _ Hnd _].
    repeat split; auto. intros e He. apply repeat_spec in He. subst. left; auto.
  Qed.

  (* The raw answer of one query: every invariant holds of the returned heap, for
     every graph, every leaf-candidate list without repeats, every generator
     state, every k and every epsilon (scale). *)
  Theorem search_one_sound n_neighbors scale cands rng ps ids rng' :
    NoDup cands -> (forall c, In c cands -> 0 <= c < Z.of_nat n) ->
    search_one dq n indptr indices inf k n_neighbors scale cands rng = Some (ps, ids, rng') ->
    exists st, SInv st /\ s_ps st = ps /\ s_ids st = ids.
  Proof.
    intros Hnd Hc H. unfold search_one in H.
    set (st0 := {| s_ps := repeat inf k; s_ids := repeat (-1) k; s_visited := []; s_seeds := []; s_rng := rng |}) in *.
    assert (H0 : SInv st0) by apply SInv_init.
    assert (H1 : SInv (init_leaf dq st0 cands)).
    { apply init_leaf_inv; auto. }
    set (st1 := init_leaf dq st0 cands) in *.
    assert (H2 : SInv (init_random dq n (Nat.min k n_neighbors - length cands) st1)) by (apply init_random_inv; auto).
    set (st2 := init_random dq n (Nat.min k n_neighbors - length cands) st1) in *.
    destruct (s_seeds st2) as [|[dv v] rest]; [discriminate|].
    destruct (search_loop dq indptr indices (S (S n)) scale _ _ dv v) as [st|] eqn:E; [|discriminate].
    inversion H; subst. exists st. split; auto.
    eapply search_loop_inv; [|exact E]. apply SInv_frame; auto.
  Qed.

  (* the sorted answer has exactly the shape C02 states (internal numbering) *)
  Theorem answer_sound n_neighbors scale cands rng ps ids rng' :
    NoDup cands -> (forall c, In c cands -> 0 <= c < Z.of_nat n) ->
    search_one dq n indptr indices inf k n_neighbors scale cands rng = Some (ps, ids, rng') ->
    exists ids' ds', deheap_sort_row ids ps = Some (ids', ds') /\
                     RowOut (fun _ v => dq v) inf n k 0 ids' ds'.
  Proof.
    intros Hnd Hc H.
    destruct (search_one_sound n_neighbors scale cands rng ps ids rng' Hnd Hc H) as [st [HS [<- <-]]].
    destruct HS as [Lp [Li [Hh [Hnd' Hent]]]].
    apply (deheap_row_out (fun _ v => dq v) inf n k Hk 0%nat (s_ps st) (s_ids st) (repeat 0 (length (s_ps st)))); auto.
    - rewrite repeat_length; auto.
    - split; [exact Hh|]. split; [exact Hnd'|].
      intros e He. destruct (Hent e He) as [H0|[H1 [H2 [H3 _]]]]; [left; exact H0|right; auto].
  Qed.
End SearchSound.

(* ---------------- translation to the caller's numbering ---------------- *)
Lemma translate_filled keep vorder idx : 0 <= idx -> translate keep vorder idx = getZ vorder (zidx idx).
Proof. intros H. unfold translate. destruct (Z.ltb_spec idx 0); [lia|reflexivity]. Qed.

Lemma translate_unfilled_kept vorder : translate true vorder (-1) = -1.
Proof. reflexivity. Qed.

