(* C03Proofs.v — a single tree leaf listing every point makes init_rp_tree exact up to ties. *)
From Coq Require Import ZArith List Bool Lia Permutation.
From PV Require Import Base Heap Rng NND ListAux HeapProofs HeapTopK HeapArrays HeapSort NNDProofs C01Proofs.
Import ListNotations.
Open Scope Z_scope.

Section SingleLeaf.
  Variable dm : nat -> nat -> Z.
  Variable inf : Z.
  Variables n k : nat.
  Hypothesis Hk : (0 < k)%nat.
  Hypothesis dm_sym : forall a b, dm a b = dm b a.
  Hypothesis dm_lt_inf : forall a b, dm a b < inf.      (* all distances finite *)

  Lemma dm_le_inf : forall a b, dm a b <= inf.
  Proof. intros a b. pose proof (dm_lt_inf a b). lia. Qed.

  Local Notation GWF := (GWF dm inf n k).
  Local Notation upd_true := (upd_true dm n).

  Definition delta (p : nat) (j : Z) : Z := dm p (zidx j).

  (* what one update offers to row p: (candidate id, flag) *)
  Definition offers_u (p : nat) (u : update) : list (Z * Z) :=
    let '(a, b, d) := u in
    if (a =? -1) || (b =? -1) then []
    else (if Nat.eqb (zidx a) p then [(b, 1)] else []) ++ (if Nat.eqb (zidx b) p then [(a, 1)] else []).
  Definition offers (p : nat) (ul : list update) : list (Z * Z) := flat_map (offers_u p) ul.

  Lemma push_all_app (d : Z -> Z) c l xs ys : push_all d c l (xs ++ ys) = push_all d c (push_all d c l xs) ys.
  Proof. unfold push_all. apply fold_left_app. Qed.

  Lemma row_after_push g r d j f p :
    GWF g -> (r < n)%nat -> (p < n)%nat ->
    grow (snd (push_row g r d j f)) p = if Nat.eqb r p then snd (pushz true (grow g p) (d, j, f)) else grow g p.
  Proof.
    intros [Hwf Hrows] Hr Hp. destruct (Hrows r Hr) as [Hh _].
    destruct (push_row_spec n k g r d j f Hk Hwf Hr Hh) as [_ [_ [Hrow Hoth]]].
    destruct (Nat.eqb_spec r p) as [->|Hne]; [exact Hrow|apply Hoth; auto].
  Qed.

  Lemma apply_both_row g u p : GWF g -> upd_true u -> (p < n)%nat ->
    grow (apply_both g u) p = push_all (delta p) true (grow g p) (offers_u p u).
  Proof.
    intros HG Hu Hp. destruct u as [[a b] d]. unfold apply_both, offers_u, C01Proofs.upd_true in *.
    destruct (Z.eqb_spec a (-1)); [reflexivity|]. destruct (Z.eqb_spec b (-1)); [reflexivity|]. cbn [orb].
    destruct Hu as [?|[?|[Ha [Hb Hd]]]]; try contradiction.
    assert (Ra : (zidx a < n)%nat) by (unfold zidx; lia).
    assert (Rb : (zidx b < n)%nat) by (unfold zidx; lia).
    assert (G1 : GWF (snd (push_row g (zidx a) d b 1))).
    { apply (GWF_push dm inf n k Hk); auto. }
    rewrite (row_after_push _ (zidx b) d a 1 p G1 Rb Hp).
    rewrite (row_after_push g (zidx a) d b 1 p HG Ra Hp).
    rewrite push_all_app.
    assert (D1 : zidx a = p -> dm p (zidx b) = d) by (intros <-; auto).
    assert (D2 : zidx b = p -> dm p (zidx a) = d) by (intros <-; rewrite dm_sym; auto).
    destruct (Nat.eqb_spec (zidx a) p) as [Ea|Na]; destruct (Nat.eqb_spec (zidx b) p) as [Eb|Nb];
      unfold push_all; cbn [fold_left]; unfold ent, delta; cbn [fst snd].
    - rewrite (D1 Ea), (D2 Eb). reflexivity.
    - rewrite (D1 Ea). reflexivity.
    - rewrite (D2 Eb). reflexivity.
    - reflexivity.
  Qed.

  Lemma fold_apply_both_GWF : forall ul g, GWF g -> Forall upd_true ul -> GWF (fold_left apply_both ul g).
  Proof.
    induction ul as [|u ul IH]; intros g HG Hul; cbn [fold_left]; auto.
    inversion Hul; subst. apply IH; auto. apply (apply_both_GWF dm inf n k Hk dm_sym); auto.
  Qed.

  Lemma fold_apply_both_row : forall ul g p, GWF g -> Forall upd_true ul -> (p < n)%nat ->
    grow (fold_left apply_both ul g) p = push_all (delta p) true (grow g p) (offers p ul).
  Proof.
    induction ul as [|u ul IH]; intros g p HG Hul Hp; cbn [fold_left offers flat_map]; [reflexivity|].
    inversion Hul as [|? ? Hu Hrest]; subst.
    rewrite IH; auto.
    - rewrite apply_both_row by auto. unfold offers. rewrite push_all_app. reflexivity.
    - apply (apply_both_GWF dm inf n k Hk dm_sym); auto.
  Qed.

  (* ---- coverage: with all thresholds at +inf every pair of the leaf is generated ---- *)
  Variable thr : list Z.
  Hypothesis thr_inf : forall i, (i < n)%nat -> getZ thr i = inf.

  Definition in_leaf_ok (leaf : list Z) : Prop := forall x, In x leaf -> 0 <= x < Z.of_nat n.

  Lemma leaf_inner_all p : forall rest q, 0 <= p < Z.of_nat n -> in_leaf_ok rest -> In q rest ->
    In (p, q, dm (zidx p) (zidx q)) (leaf_inner dm thr p rest).
  Proof.
    induction rest as [|x rest IH]; intros q Hp Hok Hq; [destruct Hq|].
    cbn [leaf_inner]. assert (Hx : 0 <= x < Z.of_nat n) by (apply Hok; left; auto).
    destruct (Z.ltb_spec x 0); [lia|].
    assert (E : (dm (zidx p) (zidx x) <? getZ thr (zidx p)) = true).
    { apply Z.ltb_lt. rewrite thr_inf by (unfold zidx; lia). apply dm_lt_inf. }
    rewrite E. cbn [orb]. destruct Hq as [->|Hq]; [left; reflexivity|].
    right. apply IH; auto. intros y Hy. apply Hok. right; auto.
  Qed.

  Lemma leaf_pairs_all : forall leaf a b, in_leaf_ok leaf -> NoDup leaf -> In a leaf -> In b leaf -> a <> b ->
    In (a, b, dm (zidx a) (zidx b)) (leaf_updates_row dm thr leaf) \/
    In (b, a, dm (zidx b) (zidx a)) (leaf_updates_row dm thr leaf).
  Proof.
    induction leaf as [|x rest IH]; intros a b Hok Hnd Ha Hb Hne; [destruct Ha|].
    cbn [leaf_updates_row]. assert (Hx : 0 <= x < Z.of_nat n) by (apply Hok; left; auto).
    destruct (Z.ltb_spec x 0); [lia|].
    assert (Hok' : in_leaf_ok rest) by (intros y Hy; apply Hok; right; auto).
    inversion Hnd as [|? ? Hnotin Hnd']; subst.
    destruct Ha as [->|Ha]; destruct Hb as [->|Hb].
    - congruence.
    - left. apply in_or_app. left. apply leaf_inner_all; auto.
    - right. apply in_or_app. left. apply leaf_inner_all; auto.
    - destruct (IH a b Hok' Hnd' Ha Hb Hne) as [HH|HH]; [left|right]; apply in_or_app; right; exact HH.
  Qed.

  Lemma offers_from_update p a b d ul : In (a, b, d) ul -> a <> -1 -> b <> -1 ->
    (zidx a = p -> In (b, 1) (offers p ul)) /\ (zidx b = p -> In (a, 1) (offers p ul)).
  Proof.
    intros Hin Ha Hb. unfold offers. split; intros E; apply in_flat_map; exists (a, b, d); split; auto; unfold offers_u;
      destruct (Z.eqb_spec a (-1)); try contradiction; destruct (Z.eqb_spec b (-1)); try contradiction; cbn [orb]; apply in_or_app.
    - left. rewrite E, Nat.eqb_refl. left; reflexivity.
    - right. rewrite E, Nat.eqb_refl. left; reflexivity.
  Qed.

  Lemma offers_ok p ul : Forall upd_true ul -> Forall (offer_ok (delta p) inf) (offers p ul).
  Proof.
    intros Hul. apply Forall_forall. intros o Ho. unfold offers in Ho. apply in_flat_map in Ho. destruct Ho as [[[a b] d] [Hu Ho]].
    rewrite Forall_forall in Hul. specialize (Hul _ Hu). unfold offers_u in Ho. unfold C01Proofs.upd_true in Hul.
    destruct (Z.eqb_spec a (-1)); [destruct Ho|]. destruct (Z.eqb_spec b (-1)); [destruct Ho|]. cbn [orb] in Ho.
    destruct Hul as [?|[?|[Ha [Hb _]]]]; try contradiction.
    unfold offer_ok, delta. apply in_app_or in Ho. destruct Ho as [Ho|Ho].
    - destruct (Nat.eqb (zidx a) p); [|destruct Ho]. destruct Ho as [<-|[]]. cbn [fst]. split; [lia|apply dm_le_inf].
    - destruct (Nat.eqb (zidx b) p); [|destruct Ho]. destruct Ho as [<-|[]]. cbn [fst]. split; [lia|apply dm_le_inf].
  Qed.
End SingleLeaf.

Section Main.
  Variable dm : nat -> nat -> Z.
  Variable inf : Z.
  Variables n k : nat.
  Hypothesis Hk : (0 < k)%nat.
  Hypothesis dm_sym : forall a b, dm a b = dm b a.
  Hypothesis dm_lt_inf : forall a b, dm a b < inf.

  Lemma thresholds_make_heap : forall i, (i < n)%nat -> getZ (thresholds (make_heap inf n k)) i = inf.
  Proof.
    intros i Hi. unfold thresholds, make_heap. cbn [g_dist]. unfold getZ.
    rewrite (nth_indep _ 0 ((fun row => nth 0 row 0) (repeat inf k))) by (rewrite map_length, repeat_length; exact Hi).
    rewrite (map_nth (fun row => nth 0 row 0) (repeat (repeat inf k) n) (repeat inf k) i).
    rewrite nth_repeat_lt by exact Hi. apply nth_repeat_lt. exact Hk.
  Qed.

  (* one leaf listing every point exactly once: afterwards row p holds q, or holds only points
     at least as close as q — for every pair p <> q *)
  Theorem single_leaf_exact : forall leaf p q,
    NoDup leaf -> (forall x, In x leaf -> 0 <= x < Z.of_nat n) -> (forall i, (i < n)%nat -> In (Z.of_nat i) leaf) ->
    (p < n)%nat -> (q < n)%nat -> p <> q ->
    let r := grow (init_rp_tree inf dm (make_heap inf n k) [leaf]) p in
    In (Z.of_nat q) (map eid (real r)) \/ forall e, In e r -> key e <= dm p q.
  Proof.
    intros leaf p q Hnd Hrange Hall Hp Hq Hne r.
    pose proof (dm_le_inf dm inf k Hk dm_lt_inf) as dm_le.
    pose proof (GWF_make_heap dm inf n k) as G0.
    set (thr := thresholds (make_heap inf n k)) in *.
    set (ul := (-1, -1, inf) :: leaf_updates_row dm thr leaf).
    assert (Hul : Forall (C01Proofs.upd_true dm n) ul).
    { constructor; [left; reflexivity|]. apply (leaf_updates_row_true dm n k Hk).
      apply Forall_forall. intros x Hx. right. apply Hrange. exact Hx. }
    assert (Er : r = push_all (delta dm p) true (empty_entries inf k) (offers p ul)).
    { unfold r. change (grow (fold_left apply_both ul (make_heap inf n k)) p = push_all (delta dm p) true (empty_entries inf k) (offers p ul)).
      rewrite (fold_apply_both_row dm inf n k Hk dm_sym ul _ p G0 Hul Hp).
      f_equal. unfold grow, make_heap. cbn [g_ind g_dist g_flag]. unfold getRow. rewrite !nth_repeat_lt by exact Hp.
      change (zip3 (repeat inf k) (repeat (-1) k) (repeat 0 k)) with (zipa (empty_row inf k)). apply zipa_empty_row. }
    pose proof (topk_spec (delta dm p) inf true k (offers p ul) Hk (offers_ok dm inf n k Hk dm_lt_inf p ul Hul) ltac:(discriminate)) as T.
    cbv zeta in T. rewrite <- Er in T. destruct T as [_ [_ [_ [_ [_ Hbest]]]]].
    (* the offer (q, 1) reaches row p *)
    assert (Hoff : In (Z.of_nat q, 1) (offers p ul)).
    { assert (Hpq : Z.of_nat p <> Z.of_nat q) by lia.
      destruct (leaf_pairs_all dm inf n k Hk dm_lt_inf thr (thresholds_make_heap) leaf (Z.of_nat p) (Z.of_nat q)
                  Hrange Hnd (Hall p Hp) (Hall q Hq) Hpq) as [H|H].
      - apply (proj1 (offers_from_update p (Z.of_nat p) (Z.of_nat q) _ ul (or_intror H) ltac:(lia) ltac:(lia))). unfold zidx. apply Nat2Z.id.
      - apply (proj2 (offers_from_update p (Z.of_nat q) (Z.of_nat p) _ ul (or_intror H) ltac:(lia) ltac:(lia))). unfold zidx. apply Nat2Z.id. }
    destruct (Hbest _ Hoff) as [H|H]; [left; exact H|right].
    intros e He. specialize (H e He). unfold delta, zidx in H. cbn [fst] in H. rewrite Nat2Z.id in H. exact H.
  Qed.
End Main.
