(* C03Proofs.v — a single tree leaf listing every point makes init_rp_tree exact up to ties. *)
From Coq Require Import ZArith List Bool Lia Permutation.
From PV Require Import Base Heap Rng NND ListAux HeapProofs HeapTopK HeapArrays HeapSort NNDProofs C01Proofs.
Import ListNotations.
Open Scope Z_scope.

Section SingleLeaf.
  Variable dm : nat -> nat -> Z.
  Variable inf : Z.
  Variables n k : nat.
  Hypothesis Hk : (0 < k)%nat.
  Hypothesis dm_sym : forall a b, dm a b = dm b a.
  Hypothesis dm_lt_inf : forall a b, dm a b < inf.      (* all distances finite *)

  Lemma dm_le_inf : forall a b, dm a b <= inf.
  Proof. intros a b. pose proof (dm_lt_inf a b). lia. Qed.

  Local Notation GWF := (GWF dm inf n k).
  Local Notation upd_true := (upd_true dm n).

  Definition delta (p : nat) (j : Z) : Z := dm p (zidx j).

  (* what one update offers to row p: (candidate id, flag) *)
  Definition offers_u (p : nat) (u : update) : list (Z * Z) :=
    let '(a, b, d) := u in
    if (a =? -1) || (b =? -1) then []
    else (if Nat.eqb (zidx a) p then [(b, 1)] else []) ++ (if Nat.eqb (zidx b) p then [(a, 1)] else []).
  Definition offers (p : nat) (ul : list update) : list (Z * Z) := flat_map (offers_u p) ul.

  Lemma push_all_app (d : Z -> Z) c l xs ys : push_all d c l (xs ++ ys) = push_all d c (push_all d c l xs) ys.
  Proof. unfold push_all. apply fold_left_app. Qed.

  Lemma row_after_push g r d j f p :
    GWF g -> (r < n)%nat -> (p < n)%nat ->
    grow (snd (push_row g r d j f)) p = if Nat.eqb r p then snd (pushz true (grow g p) (d, j, f)) else grow g p.
  Proof.
    intros [Hwf Hrows] Hr Hp. destruct (Hrows r Hr) as [Hh _].
    destruct (push_row_spec n k g r d j f Hk Hwf Hr Hh) as [_ [_ [Hrow Hoth]]].
    destruct (Nat.eqb_spec r p) as [->|Hne]; [exact Hrow|apply Hoth; auto].
  Qed.

  Lemma apply_both_row g u p : GWF g -> upd_true u -> (p < n)%nat ->
    grow (apply_both g u) p = push_all (delta p) true (grow g p) (offers_u p u).
  Proof.
    intros HG Hu Hp. destruct u as [[a b] d]. unfold apply_both, offers_u, C01Proofs.upd_true in *.
    destruct (Z.eqb_spec a (-1)); [reflexivity|]. destruct (Z.eqb_spec b (-1)); [reflexivity|]. cbn [orb].
    destruct Hu as [?|[?|[Ha [Hb Hd]]]]; try contradiction.
    assert (Ra : (zidx a < n)%nat) by (unfold zidx; lia).
    assert (Rb : (zidx b < n)%nat) by (unfold zidx; lia).
    assert (G1 : GWF (snd (push_row g (zidx a) d b 1))).
    { apply (GWF_push dm inf n k Hk); auto. }
    rewrite (row_after_push _ (zidx b) d a 1 p G1 Rb Hp).
    rewrite (row_after_push g (zidx a) d b 1 p HG Ra Hp).
    rewrite push_all_app.
    assert (D1 : zidx a = p -> dm p (zidx b) = d) by (intros <-; auto).
    assert (D2 : zidx b = p -> dm p (zidx a) = d) by (intros <-; rewrite dm_sym; auto).
    destruct (Nat.eqb_spec (zidx a) p) as [Ea|Na]; destruct (Nat.eqb_spec (zidx b) p) as [Eb|Nb];
      unfold push_all; cbn [fold_left]; unfold ent, delta; cbn [fst snd].
    - rewrite (D1 Ea), (D2 Eb). reflexivity.
    - rewrite (D1 Ea). reflexivity.
    - rewrite (D2 Eb). reflexivity.
    - reflexivity.
  Qed.

  Lemma fold_apply_both_GWF : forall ul g, GWF g -> Forall upd_true ul -> GWF (fold_left apply_both ul g).
  Proof.
    induction ul as [|u ul IH]; intros g HG Hul; cbn [fold_left]; auto.
    inversion Hul; subst. apply IH; auto. apply (apply_both_GWF dm inf n k Hk dm_sym); auto.
  Qed.

  Lemma fold_apply_both_row : forall ul g p, GWF g -> Forall upd_true ul -> (p < n)%nat ->
    grow (fold_left apply_both ul g) p = push_all (delta p) true (grow g p) (offers p ul).
  Proof.
    induction ul as [|u ul IH]; intros g p HG Hul Hp; cbn [fold_left offers flat_map]; [reflexivity|].
    inversion Hul as [|? ? Hu Hrest]; subst.
    rewrite IH; auto.
    - rewrite apply_both_row by auto. unfold offers. rewrite push_all_app. reflexivity.
    - apply (apply_both_GWF dm inf n k Hk dm_sym); auto.
  Qed.

  (* ---- coverage: with all thresholds at +inf every pair of the leaf is generated ---- *)
  Variable thr : list Z.
  Hypothesis thr_inf : forall i, (i < n)%nat -> getZ thr i = inf.

  Definition in_leaf_ok (leaf : list Z) : Prop := forall x, In x leaf -> 0 <= x < Z.of_nat n.

  Lemma leaf_inner_all p : forall rest q, 0 <= p < Z.of_nat n -> in_leaf_ok rest -> In q rest ->
    In (p, q, dm (zidx p) (zidx q)) (leaf_inner dm thr p rest).
  Proof.
    induction rest as [|x rest IH]; intros q Hp Hok Hq; [destruct Hq|].
    cbn [leaf_inner]. assert (Hx : 0 <= x < Z.of_nat n) by (apply Hok; left; auto).
    destruct (Z.ltb_spec x 0); [lia|].
    assert (E : (dm (zidx p) (zidx x) <? getZ thr (zidx p)) = true).
    { apply Z.ltb_lt. rewrite thr_inf by (unfold zidx; lia). apply dm_lt_inf. }
    rewrite E. cbn [orb]. destruct Hq as [->|Hq]; [left; reflexivity|].
    right. apply IH; auto. intros y Hy. apply Hok. right; auto.
  Qed.

  Lemma leaf_pairs_all : forall leaf a b, in_leaf_ok leaf -> NoDup leaf -> In a leaf -> In b leaf -> a <> b ->
    In (a, b, dm (zidx a) (zidx b)) (leaf_updates_row dm thr leaf) \/
    In (b, a, dm (zidx b) (zidx a)) (leaf_updates_row dm thr leaf).
  Proof.
    induction leaf as [|x rest IH]; intros a b Hok Hnd Ha Hb Hne; [destruct Ha|].
    cbn [leaf_updates_row]. assert (Hx : 0 <= x < Z.of_nat n) by (apply Hok; left; auto).
    destruct (Z.ltb_spec x 0); [lia|].
    assert (Hok' : in_leaf_ok rest) by (intros y Hy; apply Hok; right; auto).
    inversion Hnd as [|? ? Hnotin Hnd']; subst.
    destruct Ha as [->|Ha]; destruct Hb as [->|Hb].
    - congruence.
    - left. apply in_or_app. left. apply leaf_inner_all; auto.
    - right. apply in_or_app. left. apply leaf_inner_all; auto.
    - destruct (IH a b Hok' Hnd' Ha Hb Hne) as [HH|HH]; [left|right]; apply in_or_app; right; exact HH.
  Qed.

  Lemma offers_from_update p a b d ul : In (a, b, d) ul -> a <> -1 -> b <> -1 ->
    (zidx a = p -> In (b, 1) (offers p ul)) /\ (zidx b = p -> In (a, 1) (offers p ul)).
  Proof.
    intros Hin Ha Hb. unfold offers. split; intros E; apply in_flat_map; exists (a, b, d); split; auto; unfold offers_u;
      destruct (Z.eqb_spec a (-1)); try contradiction; destruct (Z.eqb_spec b (-1)); try contradiction; cbn [orb]; apply in_or_app.
    - left. rewrite E, Nat.eqb_refl. left; reflexivity.
    - right. rewrite E, Nat.eqb_refl. left; reflexivity.
  Qed.

  Lemma offers_ok p ul : Forall upd_true ul -> Forall (offer_ok (delta p) inf) (offers p ul).
  Proof.
    intros Hul. apply Forall_forall. intros o Ho. unfold offers in Ho. apply in_flat_map in Ho. destruct Ho as [[[a b] d] [Hu Ho]].
    rewrite Forall_forall in Hul. specialize (Hul _ Hu). unfold offers_u in Ho. unfold C01Proofs.upd_true in Hul.
    destruct (Z.eqb_spec a (-1)); [destruct Ho|]. destruct (Z.eqb_spec b (-1)); [destruct Ho|]. cbn [orb] in Ho.
    destruct Hul as [?|[?|[Ha [Hb _]]]]; try contradiction.
    unfold offer_ok, delta. apply in_app_or in Ho. destruct Ho as [Ho|Ho].
    - destruct (Nat.eqb (zidx a) p); [|destruct Ho]. destruct Ho as [<-|[]]. cbn [fst]. split; [lia|apply dm_le_inf].
    - destruct (Nat.eqb (zidx b) p); [|destruct Ho]. destruct Ho as [<-|[]]. cbn [fst]. split; [lia|apply dm_le_inf].
  Qed.
End SingleLeaf.

Section Main.
  Variable dm : nat -> nat -> Z.
  Variable inf : Z.
  Variables n k : nat.
  Hypothesis Hk : (0 < k)%nat.
  Hypothesis dm_sym : forall a b, dm a b = dm b a.
  Hypothesis dm_lt_inf : forall a b, dm a b < inf.

  Lemma thresholds_make_heap : forall i, (i < n)%nat -> getZ (thresholds (make_heap inf n k)) i = inf.
  Proof.
    intros i Hi. unfold thresholds, make_heap. cbn [g_dist]. unfold getZ.
    rewrite (nth_indep _ 0 ((fun row => nth 0 row 0) (repeat inf k))) by (rewrite map_length, repeat_length; exact Hi).
    rewrite (map_nth (fun row => nth 0 row 0) (repeat (repeat inf k) n) (repeat inf k) i).
    rewrite nth_repeat_lt by exact Hi. apply nth_repeat_lt. exact Hk.
  Qed.

  (* one leaf listing every point exactly once: afterwards row p holds q, or holds only points
     at least as close as q — for every pair p <> q *)
  Theorem single_leaf_exact : forall leaf p q,
    NoDup leaf -> (forall x, In x leaf -> 0 <= x < Z.of_nat n) -> (forall i, (i < n)%nat -> In (Z.of_nat i) leaf) ->
    (p < n)%nat -> (q < n)%nat -> p <> q ->
    let r := grow (init_rp_tree inf dm (make_heap inf n k) [leaf]) p in
    In (Z.of_nat q) (map eid (real r)) \/ forall e, In e r -> key e <= dm p q.
  Proof.
    intros leaf p q Hnd Hrange Hall Hp Hq Hne r.
    pose proof (dm_le_inf dm inf k Hk dm_lt_inf) as dm_le.
    pose proof (GWF_make_heap dm inf n k) as G0.
    set (thr := thresholds (make_heap inf n k)) in *.
    set (ul := (-1, -1, inf) :: leaf_updates_row dm thr leaf).
    assert (Hul : Forall (C01Proofs.upd_true dm n) ul).
    { constructor; [left; reflexivity|]. apply (leaf_updates_row_true dm n k Hk).
      apply Forall_forall. intros x Hx. right. apply Hrange. exact Hx. }
    assert (Er : r = push_all (delta dm p) true (empty_entries inf k) (offers p ul)).
    { unfold r. change (grow (fold_left apply_both ul (make_heap inf n k)) p = push_all (delta dm p) true (empty_entries inf k) (offers p ul)).
      rewrite (fold_apply_both_row dm inf n k Hk dm_sym ul _ p G0 Hul Hp).
      f_equal. unfold grow, make_heap. cbn [g_ind g_dist g_flag]. unfold getRow. rewrite !nth_repeat_lt by exact Hp.
      change (zip3 (repeat inf k) (repeat (-1) k) (repeat 0 k)) with (zipa (empty_row inf k)). apply zipa_empty_row. }
    pose proof (topk_spec (delta dm p) inf true k (offers p ul) Hk (offers_ok dm inf n k Hk dm_lt_inf p ul Hul) ltac:(discriminate)) as T.
    cbv zeta in T. rewrite <- Er in T. destruct T as [_ [_ [_ [_ [_ Hbest]]]]].
    (* the offer (q, 1) reaches row p *)
    assert (Hoff : In (Z.of_nat q, 1) (offers p ul)).
    { assert (Hpq : Z.of_nat p <> Z.of_nat q) by lia.
      destruct (leaf_pairs_all dm inf n k Hk dm_lt_inf thr (thresholds_make_heap) leaf (Z.of_nat p) (Z.of_nat q)
                  Hrange Hnd (Hall p Hp) (Hall q Hq) Hpq) as [H|H].
      - apply (proj1 (offers_from_update p (Z.of_nat p) (Z.of_nat q) _ ul (or_intror H) ltac:(lia) ltac:(lia))). unfold zidx. apply Nat2Z.id.
      - apply (proj2 (offers_from_update p (Z.of_nat q) (Z.of_nat p) _ ul (or_intror H) ltac:(lia) ltac:(lia))). unfold zidx. apply Nat2Z.id. }
    destruct (Hbest _ Hoff) as [H|H]; [left; exact H|right].
    intros e He. specialize (H e He). unfold delta, zidx in H. cbn [fst] in H. rewrite Nat2Z.id in H. exact H.
  Qed.
End Main.

(* ---------------- exactness survives every later push of a true distance ---------------- *)
Section ExactPreserved.
  Variable dm : nat -> nat -> Z.
  Variable inf : Z.
  Variables n k : nat.
  Hypothesis Hk : (0 < k)%nat.
  Hypothesis dm_sym : forall a b, dm a b = dm b a.

  Local Notation GWF := (GWF dm inf n k).
  Local Notation RowWF := (RowWF dm inf n).
  Local Notation upd_true := (upd_true dm n).

  (* row p is exact up to ties: every other point is in the row, or is no closer than every entry *)
  Definition ExactRow (p : nat) (l : list entry) : Prop :=
    forall q, (q < n)%nat -> q <> p -> In (Z.of_nat q) (map eid (real l)) \/ forall e, In e l -> key e <= dm p q.
  Definition ExactG (g : graph) : Prop := forall p, (p < n)%nat -> ExactRow p (grow g p).

  Lemma exact_push p l d j f :
    (0 < length l)%nat -> RowWF p l -> ExactRow p l -> 0 <= j < Z.of_nat n -> d = dm p (zidx j) ->
    ExactRow p (snd (pushz true l (d, j, f))).
  Proof.
    intros L0 [Hh [Hnd Hent]] HE Hj Hd.
    pose proof (pushz_outcome true l (d, j, f) L0 Hh) as PO.
    inversion PO as [Hw E | Hlt Hc Hdup E | l' Hlt Hc P Hh' Ll' E]; cbn [snd]; [exact HE|exact HE|].
    cbn [key eid fst snd] in Hlt.
    assert (Hroot_in : In (getE l 0) l) by (apply getE_In; auto).
    assert (Hsub : forall e, In e l' -> e = (d, j, f) \/ In e l).
    { intros e He. assert (H : In e ((d, j, f) :: l)) by (eapply Permutation_in; [exact P|right; auto]).
      destruct H as [<-|]; auto. }
    assert (Hle : forall e, In e l' -> key e <= key (getE l 0)).
    { intros e He. destruct (Hsub e He) as [->|Hin]; [cbn [key fst]; lia|apply heapP_In_le_root; auto]. }
    intros q Hq Hne. destruct (HE q Hq Hne) as [Hin|Hall].
    - apply in_map_iff in Hin. destruct Hin as [e [Heid Hreal]]. apply (In_real (fun z => z) 0) in Hreal. destruct Hreal as [Hel Hid].
      assert (Hin' : In e (getE l 0 :: l')) by (eapply Permutation_in; [apply Permutation_sym; exact P|right; exact Hel]).
      destruct Hin' as [Hroot|Hl'].
      + right. intros e' He'. specialize (Hle e' He'). rewrite Hroot in Hle.
        destruct (Hent e Hel) as [[Hs _]|[_ [Hk' _]]]; [congruence|].
        rewrite Hk', Heid in Hle. unfold zidx in Hle. rewrite Nat2Z.id in Hle. exact Hle.
      + left. apply in_map_iff. exists e. split; auto. apply <- (In_real (fun z => z) 0). split; [exact Hl'|rewrite Heid; lia].
    - right. intros e' He'. specialize (Hle e' He'). specialize (Hall _ Hroot_in). lia.
  Qed.

  Lemma GWF_exact_push g r d j f :
    GWF g -> ExactG g -> (r < n)%nat -> 0 <= j < Z.of_nat n -> d = dm r (zidx j) ->
    ExactG (snd (push_row g r d j f)).
  Proof.
    intros [Hwf Hrows] HE Hr Hj Hd p Hp.
    destruct (Hrows r Hr) as [Hh Hrest].
    destruct (push_row_spec n k g r d j f Hk Hwf Hr Hh) as [_ [_ [Hrow' Hoth]]].
    destruct (Nat.eq_dec p r) as [->|Hne].
    - rewrite Hrow'. apply exact_push; auto.
      + destruct Hwf as [_ [_ [_ Hl]]]. unfold grow. rewrite zip3_length. destruct (Hl r Hr) as [_ [-> _]]. auto.
    - rewrite Hoth by auto. apply HE; auto.
  Qed.

  Definition Inv2 (g : graph) : Prop := GWF g /\ ExactG g.

  Lemma push_Inv2 g r d j f : Inv2 g -> (r < n)%nat -> 0 <= j < Z.of_nat n -> d = dm r (zidx j) -> Inv2 (snd (push_row g r d j f)).
  Proof. intros [HG HE] Hr Hj Hd. split; [apply (GWF_push dm inf n k Hk); auto|apply GWF_exact_push; auto]. Qed.

  Lemma zl z : 0 <= z < Z.of_nat n -> (zidx z < n)%nat.
  Proof. unfold zidx; lia. Qed.

  Lemma apply_both_Inv2 g u : Inv2 g -> upd_true u -> Inv2 (apply_both g u).
  Proof.
    intros HI Hu. destruct u as [[p q] d]. unfold apply_both, C01Proofs.upd_true in *.
    destruct (Z.eqb_spec p (-1)); [auto|]. destruct (Z.eqb_spec q (-1)); [auto|]. cbn [orb].
    destruct Hu as [?|[?|[Hp [Hq Hd]]]]; try contradiction.
    apply push_Inv2; auto using zl. 2:{ rewrite Hd. apply dm_sym. }
    apply push_Inv2; auto using zl.
  Qed.

  Lemma apply_low_one_Inv2 T t g c u : Inv2 g -> upd_true u -> Inv2 (fst (apply_low_one T t (g, c) u)).
  Proof.
    intros HI Hu. destruct u as [[p q] d]. unfold apply_low_one, C01Proofs.upd_true in *.
    destruct (Z.eqb_spec p (-1)); [auto|]. destruct (Z.eqb_spec q (-1)); [auto|]. cbn [orb].
    destruct Hu as [?|[?|[Hp [Hq Hd]]]]; try contradiction.
    assert (G1 : Inv2 (snd (push_row g (zidx p) d q 1))) by (apply push_Inv2; auto using zl).
    destruct (p mod T =? t).
    - destruct (push_row g (zidx p) d q 1) as [a g1]. cbn [snd] in G1.
      destruct (q mod T =? t); [|auto].
      assert (G2 : Inv2 (snd (push_row g1 (zidx q) d p 1))).
      { apply push_Inv2; auto using zl. rewrite Hd. apply dm_sym. }
      destruct (push_row g1 (zidx q) d p 1). auto.
    - destruct (q mod T =? t); [|auto].
      assert (G2 : Inv2 (snd (push_row g (zidx q) d p 1))).
      { apply push_Inv2; auto using zl. rewrite Hd. apply dm_sym. }
      destruct (push_row g (zidx q) d p 1). auto.
  Qed.

  Lemma fold_Inv2 {S U : Type} (proj : S -> graph) (f : S -> U -> S) (ok : U -> Prop) :
    (forall s u, Inv2 (proj s) -> ok u -> Inv2 (proj (f s u))) ->
    forall us s, Inv2 (proj s) -> Forall ok us -> Inv2 (proj (fold_left f us s)).
  Proof.
    intros Hstep us. induction us as [|u us IH]; intros s Hs Hok; cbn; auto.
    inversion Hok; subst. apply IH; auto.
  Qed.

  (* a whole low-memory round of NN-descent keeps an exact graph exact *)
  Theorem apply_low_keeps_exact g ups T :
    GWF g -> ExactG g -> Forall (Forall upd_true) ups ->
    ExactG (fst (apply_graph_updates_low_memory g ups T)) /\ GWF (fst (apply_graph_updates_low_memory g ups T)).
  Proof.
    intros HG HE Hok.
    assert (I : Inv2 (fst (apply_graph_updates_low_memory g ups T))).
    { unfold apply_graph_updates_low_memory.
      apply (fold_Inv2 (S := graph * Z) fst _ (fun _ : Z => True)); [|cbn [fst]; unfold Inv2; auto|apply Forall_forall; auto].
      intros s t Hs _.
      apply (fold_Inv2 (S := graph * Z) fst _ (Forall upd_true)); auto.
      intros s' ul Hs' Hul.
      apply (fold_Inv2 (S := graph * Z) fst _ upd_true); auto.
      intros [g0 c0] u Hg Hu. apply apply_low_one_Inv2; auto. }
    destruct I; split; auto.
  Qed.

  Theorem leaf_updates_keep_exact g ups :
    GWF g -> ExactG g -> Forall (Forall upd_true) ups ->
    ExactG (fold_left (fun g ul => fold_left apply_both ul g) ups g).
  Proof.
    intros HG HE Hok.
    assert (I : Inv2 (fold_left (fun g ul => fold_left apply_both ul g) ups g)).
    { apply (fold_Inv2 (S := graph) (fun g => g) _ (Forall upd_true)); [|unfold Inv2; auto|auto].
      intros s ul Hs Hul. apply (fold_Inv2 (S := graph) (fun g => g) _ upd_true); auto.
      intros; apply apply_both_Inv2; auto. }
    destruct I; auto.
  Qed.
End ExactPreserved.

(* the single-leaf theorem in the vocabulary of the preservation theorem *)
Theorem single_leaf_ExactG : forall (dm : nat -> nat -> Z) (inf : Z) (n k : nat),
  (0 < k)%nat -> (forall a b, dm a b = dm b a) -> (forall a b, dm a b < inf) ->
  forall leaf, NoDup leaf -> (forall x, In x leaf -> 0 <= x < Z.of_nat n) -> (forall i, (i < n)%nat -> In (Z.of_nat i) leaf) ->
  ExactG dm n (init_rp_tree inf dm (make_heap inf n k) [leaf]).
Proof.
  intros dm inf n k Hk Hs Hf leaf Hnd Hr Hall p Hp q Hq Hne.
  apply (single_leaf_exact dm inf n k Hk Hs Hf leaf p q); auto.
Qed.
