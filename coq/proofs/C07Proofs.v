(* C07Proofs.v — laws of the count-based metrics, for all count vectors. *)
From Coq Require Import ZArith List Bool Lia.
From PV Require Import Metrics.
Import ListNotations.
Open Scope Z_scope.

(* admissible counts of two 0/1 vectors of dimension n >= 1 *)
Definition counts_ok (n ntt ntf nft : Z) : Prop := 0 <= ntt /\ 0 <= ntf /\ 0 <= nft /\ ntt + ntf + nft <= n /\ 1 <= n.

Lemma counts_swap : forall x y, length x = length y ->
  counts y x = (let '(ntt, ntf, nft) := counts x y in (ntt, nft, ntf)).
Proof.
  induction x as [|a x IH]; intros [|b y] H; cbn in *; try lia; auto.
  rewrite IH by lia. destruct (counts x y) as [[ntt ntf] nft]. destruct a, b; reflexivity.
Qed.

Lemma counts_bounds : forall x y, length x = length y ->
  let '(ntt, ntf, nft) := counts x y in
  0 <= ntt /\ 0 <= ntf /\ 0 <= nft /\ ntt + ntf + nft <= Z.of_nat (length x).
Proof.
  induction x as [|a x IH]; intros [|b y] H; cbn [counts length] in *; try lia.
  specialize (IH y ltac:(lia)). destruct (counts x y) as [[ntt ntf] nft].
  destruct a, b; cbn; lia.
Qed.

Lemma counts_identical : forall x, let '(ntt, ntf, nft) := counts x x in ntf = 0 /\ nft = 0.
Proof.
  induction x as [|a x IH]; cbn; auto. destruct (counts x x) as [[ntt ntf] nft]. destruct a; cbn; auto.
Qed.

Ltac brk := unfold m_hamming, m_matching, m_jaccard, m_dice, m_kulsinski, m_rogerstanimoto, m_sokalmichener,
            m_russellrao, m_sokalsneath, m_yule, neq, ff, zero_frac in *.

(* value of a fraction compared without division: a/b = c/d  <->  a*d = c*b (b,d > 0) *)
Definition feq (p q : frac) : Prop := fst p * snd q = fst q * snd p.

(* ---- symmetry: swapping the arguments swaps ntf and nft ---- *)
Theorem binary_symmetric n ntt ntf nft :
  m_hamming n ntf nft = m_hamming n nft ntf /\ m_matching n ntf nft = m_matching n nft ntf /\
  m_jaccard ntt ntf nft = m_jaccard ntt nft ntf /\ m_dice ntt ntf nft = m_dice ntt nft ntf /\
  m_kulsinski n ntt ntf nft = m_kulsinski n ntt nft ntf /\ m_rogerstanimoto n ntf nft = m_rogerstanimoto n nft ntf /\
  m_sokalmichener n ntf nft = m_sokalmichener n nft ntf /\ m_russellrao n ntt ntf nft = m_russellrao n ntt nft ntf /\
  m_sokalsneath ntt ntf nft = m_sokalsneath ntt nft ntf /\ feq (m_yule n ntt ntf nft) (m_yule n ntt nft ntf).
Proof.
  brk. repeat split.
  - f_equal; lia.
  - f_equal; lia.
  - replace (ntt + nft + ntf) with (ntt + ntf + nft) by lia. reflexivity.
  - replace (nft + ntf) with (ntf + nft) by lia. reflexivity.
  - replace (nft + ntf) with (ntf + nft) by lia. reflexivity.
  - f_equal; lia.
  - f_equal; lia.
  - rewrite andb_comm. reflexivity.
  - replace (nft + ntf) with (ntf + nft) by lia. reflexivity.
  - unfold feq. rewrite orb_comm. destruct ((nft =? 0) || (ntf =? 0)); cbn [orb andb fst snd]; ring.
Qed.

(* ---- identity: identical inputs (ntf = nft = 0) get distance exactly 0 ---- *)
Theorem binary_identity n ntt :
  fst (m_hamming n 0 0) = 0 /\ fst (m_matching n 0 0) = 0 /\ fst (m_jaccard ntt 0 0) = 0 /\ fst (m_dice ntt 0 0) = 0 /\
  fst (m_kulsinski n ntt 0 0) = 0 /\ fst (m_rogerstanimoto n 0 0) = 0 /\ fst (m_sokalmichener n 0 0) = 0 /\
  fst (m_russellrao n ntt 0 0) = 0 /\ fst (m_sokalsneath ntt 0 0) = 0 /\ fst (m_yule n ntt 0 0) = 0.
Proof.
  brk. repeat split; cbn [orb andb fst snd]; try reflexivity.
  destruct (ntt + 0 + 0 =? 0); cbn [fst]; lia.
Qed.

(* ---- no division by zero: every denominator is positive on the branch that divides;
        hence no NaN from 0/0 and no infinity from x/0 ---- *)
Theorem binary_denominators_positive n ntt ntf nft :
  counts_ok n ntt ntf nft ->
  0 < snd (m_hamming n ntf nft) /\ 0 < snd (m_matching n ntf nft) /\ 0 < snd (m_jaccard ntt ntf nft) /\ 0 < snd (m_dice ntt ntf nft) /\
  0 < snd (m_kulsinski n ntt ntf nft) /\ 0 < snd (m_rogerstanimoto n ntf nft) /\ 0 < snd (m_sokalmichener n ntf nft) /\
  0 < snd (m_russellrao n ntt ntf nft) /\ 0 < snd (m_sokalsneath ntt ntf nft) /\ 0 < snd (m_yule n ntt ntf nft).
Proof.
  intros [H1 [H2 [H3 [H4 H5]]]]. brk. cbn [snd].
  repeat split; try lia.
  - destruct (Z.eqb_spec (ntt + ntf + nft) 0); cbn [orb andb fst snd]; lia.
  - destruct (Z.eqb_spec (ntf + nft) 0); cbn [orb andb fst snd]; lia.
  - destruct (Z.eqb_spec (ntf + nft) 0); cbn [orb andb fst snd]; lia.
  - destruct ((ntf =? 0) && (nft =? 0)); cbn [orb andb fst snd]; lia.
  - destruct (Z.eqb_spec (ntf + nft) 0); cbn [orb andb fst snd]; lia.
  - destruct (Z.eqb_spec ntf 0); destruct (Z.eqb_spec nft 0); cbn [orb andb fst snd]; try lia.
    assert (0 <= ntt * (n - ntt - ntf - nft)) by (apply Z.mul_nonneg_nonneg; lia).
    assert (0 < ntf * nft) by (apply Z.mul_pos_pos; lia). lia.
Qed.

(* ---- range: numerators are non-negative and, for the metrics documented in [0,1],
        do not exceed the denominator ---- *)
Theorem binary_range n ntt ntf nft :
  counts_ok n ntt ntf nft ->
  (0 <= fst (m_hamming n ntf nft) <= snd (m_hamming n ntf nft)) /\
  (0 <= fst (m_jaccard ntt ntf nft) <= snd (m_jaccard ntt ntf nft)) /\
  (0 <= fst (m_dice ntt ntf nft) <= snd (m_dice ntt ntf nft)) /\
  (0 <= fst (m_kulsinski n ntt ntf nft) <= snd (m_kulsinski n ntt ntf nft)) /\
  (0 <= fst (m_rogerstanimoto n ntf nft) <= snd (m_rogerstanimoto n ntf nft)) /\
  (0 <= fst (m_russellrao n ntt ntf nft) <= snd (m_russellrao n ntt ntf nft)) /\
  (0 <= fst (m_sokalsneath ntt ntf nft) <= snd (m_sokalsneath ntt ntf nft)) /\
  (0 <= fst (m_yule n ntt ntf nft) <= 2 * snd (m_yule n ntt ntf nft)).
Proof.
  intros [H1 [H2 [H3 [H4 H5]]]]. brk.
  repeat split; cbn [orb andb fst snd]; try lia;
    try (destruct (Z.eqb_spec (ntt + ntf + nft) 0); cbn [orb andb fst snd]; lia);
    try (destruct (Z.eqb_spec (ntf + nft) 0); cbn [orb andb fst snd]; lia);
    try (destruct ((ntf =? 0) && (nft =? 0)); cbn [orb andb fst snd]; lia).
  - destruct ((ntf =? 0) || (nft =? 0)); cbn [orb andb fst snd]; [lia|]. apply Z.mul_nonneg_nonneg; lia.
  - destruct ((ntf =? 0) || (nft =? 0)); cbn [orb andb fst snd]; [lia|].
    assert (0 <= ntt * (n - ntt - ntf - nft)) by (apply Z.mul_nonneg_nonneg; lia).
    assert (0 <= ntf * nft) by (apply Z.mul_nonneg_nonneg; lia). lia.
Qed.
