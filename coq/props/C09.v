(* C09 — internal surrogate distances preserve neighbour order and invert exactly.
   Stated over the reals for the similarity core s of each metric (cosine similarity,
   normalised dot product, Bhattacharyya coefficient, Jaccard index) on the
   non-saturated domain 0 < s (<= 1), and for squared distances q >= 0.  Dense and
   sparse surrogates are the same functions of s (C08 gives the agreement of the
   cores).  Floating-point rounding is not modelled. *)
From Coq Require Import Reals Lra Rpower R_sqrt Ratan.
From PV Require Import C09Proofs.
Open Scope R_scope.

Theorem C09_cosine_dot_jaccard_correction_inverts :
  forall s, 0 < s -> correct_cosine (alt s) = 1 - s.
Proof. exact cosine_correction_inverts. Qed.

Theorem C09_hellinger_correction_inverts :
  forall s, 0 < s -> correct_hellinger (alt s) = sqrt (1 - s).
Proof. exact hellinger_correction_inverts. Qed.

Theorem C09_true_angular_correction_inverts :
  forall s, 0 < s -> true_angular_from_alt (alt s) = 1 - acos s / PI.
Proof. exact true_angular_correction_inverts. Qed.

Theorem C09_euclidean_correction_inverts : forall d, 0 <= d -> sqrt (d * d) = d.
Proof. exact sqrt_inverts_square. Qed.

(* order preservation: the surrogate orders any two candidates exactly as the
   documented metric does *)
Theorem C09_order_cosine_dot_jaccard :
  forall s1 s2, 0 < s1 -> 0 < s2 -> (alt s1 < alt s2 <-> 1 - s1 < 1 - s2).
Proof. exact alt_order_cosine. Qed.

Theorem C09_order_hellinger :
  forall s1 s2, 0 < s1 <= 1 -> 0 < s2 <= 1 -> (alt s1 < alt s2 <-> sqrt (1 - s1) < sqrt (1 - s2)).
Proof. exact alt_order_hellinger. Qed.

Theorem C09_order_true_angular :
  forall s1 s2, 0 < s1 <= 1 -> 0 < s2 <= 1 -> (alt s1 < alt s2 <-> acos s1 < acos s2).
Proof. exact alt_order_angle. Qed.

Theorem C09_order_euclidean :
  forall q1 q2, 0 <= q1 -> 0 <= q2 -> (q1 < q2 <-> sqrt q1 < sqrt q2).
Proof. exact sq_order. Qed.

(* the corrected value stays in the documented range [0,1) for every non-negative
   surrogate value (so saturation FLOAT32_MAX is reported as the clamp 1 after
   float underflow of 2^-MAX) *)
Theorem C09_corrected_range : forall d, 0 <= d -> 0 <= correct_cosine d < 1.
Proof. exact correct_cosine_range. Qed.

Print Assumptions C09_cosine_dot_jaccard_correction_inverts.
Print Assumptions C09_order_hellinger.
Print Assumptions C09_order_true_angular.
Print Assumptions C09_order_euclidean.
Print Assumptions C09_corrected_range.

(* non-vacuity: s = 1/2 is in every domain above *)
Example C09_example : 0 < 1 / 2 <= 1 /\ correct_cosine (alt (1 / 2)) = 1 / 2.
Proof. split; [lra|]. rewrite cosine_correction_inverts; lra. Qed.

(* ------------------------------------------------------------------------------
   The surrogate kernels themselves (integer model of the accumulator loops,
   model/Lattice.v): alternative_cosine takes its logarithm on the SAME pair
   (result, norm_x * norm_y) the documented cosine uses, only where 0 < result and
   result^2 <= norm_x * norm_y - so the surrogate is log2 of a number >= 1, i.e. a
   value d >= 0 in the domain of the inversion theorems above with s = result / sqrt q -
   and hands out the "infinitely far" sentinel only where the documented distance is
   >= 1 (its ratio is <= 0) or exactly 1.0.  Likewise alternative_dot against dot. *)
From Coq Require Import ZArith List.
From PV Require Import Lattice LatticeProofs.
Theorem C09_alternative_cosine_core : forall x y,
  match alternative_cosine x y with
  | ARatio r q => cosine x y = ARatio r q /\ (0 < r /\ 0 < q /\ r * r <= q)%Z
  | AMax => cosine x y = AOne \/ exists r q, cosine x y = ARatio r q /\ (r <= 0)%Z
  | AZero => cosine x y = AZero
  | AOne => False
  end.
Proof. exact alternative_cosine_core. Qed.
Print Assumptions C09_alternative_cosine_core.

Theorem C09_alternative_dot_core : forall x y,
  match alternative_dot x y with
  | ARatio r q => dot x y = ARatio r q /\ (0 < r)%Z
  | AMax => dot x y = AOne
  | _ => False
  end.
Proof. exact alternative_dot_core. Qed.
Print Assumptions C09_alternative_dot_core.
